(* C18 — property theorems. Statements only, each closed by `exact <lemma>`, Print Assumptions beneath,
   then the examples: non-vacuity of the hypotheses, and the refutations of the code as it was before
   the four repairs (9ff7c19 ReleaseBuckets, 290ab18 recover, b9905fa save re-homes the entry, save does its
   Add before the unlock) and outside the domain.
   All theorems are about [run] = the interleaving semantics of Model.v over arbitrary label lists,
   the same [step] function that the correspondence run (CaseDefs.v, exec_ev) executes.
   The waiter's path of getOrCreate is three labels of that relation: the locked lookup (PStart false -> PWait e),
   wg.Wait() returning (PWait e -> hit | PStart true = PRetry), and the re-lock that RE-EXAMINES payload[key]
   (PStart true -> hit | wait again | create) — the `for ok` loop; any label (a third caller, a cleaning pass, ...)
   may stand between them. *)
From Coq Require Import List ZArith Permutation Lia.
From C18 Require Import Model ProofsRelease ProofsManaged ProofsCoherent ProofsPayload ProofsAcct ProofsBound ProofsListing ProofsFull ProofsSingle ProofsPass ProofsHonest.
Import ListNotations.

(* Coherence, all interleavings (no domain restriction): a lookup that returned a value returned a
   value that the loader of some call for the SAME cache and key produces (never another key's value,
   never a half-built one); a creator returns its own loader's value; an error (a panic) comes out
   only of the goroutine whose own loader returned that error (panicked). *)
Theorem C18_get_coherent : forall lim mg es ls st,
  run (init lim mg es) ls = Some st ->
  forall t th, nth_error (threads st) t = Some th -> returned_ok st th.
Proof. exact get_coherent. Qed.
Print Assumptions C18_get_coherent.

(* No poisoning, all interleavings: the payload of a cache maps a key to at most one entry, and never to
   an abandoned one (the entry of a loader that returned an error or panicked): after a failed load a
   later lookup of the key hits a valid entry, waits for a loading one, or loads again. *)
Theorem C18_no_poisoning : forall lim mg es ls st,
  run (init lim mg es) ls = Some st -> inv_pay (entries st).
Proof. exact no_poisoning. Qed.
Print Assumptions C18_no_poisoning.

(* Accounting, all interleavings inside the domain (race_free: no Release of a cache while one of its
   entries is loading): for every generation that is not marked stale,
       size counter + Adds still pending = sum of the sizes of the attached entries of that generation.
   (Unconditional "differ by exactly the pending adds" form; with no pending Add the two are equal.) *)
Theorem C18_accounting : forall lim mg es ls st,
  run (init lim mg es) ls = Some st -> race_free (init lim mg es) ls = true ->
  forall g, (g < length (gens st))%nat -> gst g (gens st) = false ->
    (gsz g (gens st) + pend_sum g (threads st))%Z = att_sum g (entries st).
Proof. exact accounting_per_generation. Qed.
Print Assumptions C18_accounting.

(* Accounting, listing level: in every state reached by an interleaving inside the domain (loader sizes and
   entrySize >= 0) in which no attached entry is left in a stale generation (i.e. between cleaning passes;
   lookups may be in flight), the size the cleaner accounts (getSize) equals the sum of the sizes of ALL
   live entries. *)
Theorem C18_accounting_total : forall lim mg es ls st,
  (0 <= es)%Z -> Forall label_ok ls ->
  run (init lim mg es) ls = Some st -> race_free (init lim mg es) ls = true ->
  no_stale_attached st -> acct st = live st.
Proof. exact accounting_total. Qed.
Print Assumptions C18_accounting_total.

(* The size field is honest, all interleavings (no domain restriction): every valid entry that is in a payload map carries
   size = entrySize + the size that its loader (the loader of the goroutine that created it, whose value it holds)
   reported; an entry in a map that is not valid (still loading) carries 0; so the sum of the size fields of the live
   entries (live) is what they really occupy (occupied). save's `if e.deleted { size = 0 }` never zeroes an entry that stays. *)
Theorem C18_sizes_honest : forall lim mg es ls st,
  run (init lim mg es) ls = Some st ->
  (forall e en, nth_error (entries st) e = Some en -> eattached en = true ->
     match estat en with
     | EValid => exists th s, nth_error (threads st) (eowner en) = Some th /\ tout th = OVal (evalue en) s /\
                              esize en = (es + s)%Z
     | _ => esize en = 0%Z
     end) /\
  live st = occupied st.
Proof. exact sizes_honest. Qed.
Print Assumptions C18_sizes_honest.

(* ... hence, under the hypotheses of C18_accounting_total, the size the cleaner accounts is what the live entries occupy *)
Theorem C18_accounting_occupied : forall lim mg es ls st,
  (0 <= es)%Z -> Forall label_ok ls ->
  run (init lim mg es) ls = Some st -> race_free (init lim mg es) ls = true ->
  no_stale_attached st -> acct st = occupied st.
Proof. exact accounting_occupied. Qed.
Print Assumptions C18_accounting_occupied.

(* Every cache that was not released is in the cleaner's bucket list — all interleavings, including
   NewCache / Release between the two halves of ReleaseBuckets. *)
Theorem C18_managed_until_released : forall lim mg es ls st,
  run (init lim mg es) ls = Some st ->
  forall c, (c < length (caches st))%nat -> is_released (caches st) c = false -> In c (buckets st).
Proof. exact managed_until_released. Qed.
Print Assumptions C18_managed_until_released.

(* The compaction loop of ReleaseBuckets, as written, for ANY list and any ascending in-range index
   list: result ++ (the buckets that stood at those indices) is a permutation of the old list. *)
Theorem C18_release_buckets_exact : forall (A : Type) (td : list nat) (b : list A),
  asc_from 0 td -> (forall i, In i td -> (i < length b)%nat) ->
  exists picked, Forall2 (fun i y => nth_error b i = Some y) td picked /\
                 (length (release_buckets td b) + length td = length b)%nat /\
                 Permutation (release_buckets td b ++ picked) b.
Proof. exact @release_buckets_perm. Qed.
Print Assumptions C18_release_buckets_exact.

(* A cleaning pass (Cleaner.Cleanup: markStale, then Cache.Cleanup of every bucket, nothing in between)
   from ANY state with a limit > 0 ends with accounted size <= limit. *)
Theorem C18_cleanup_bounds : forall st st' r,
  exec_ev st ECleanup = Some (st', r) -> (0 <= limit st)%Z -> limit st <> 0%Z ->
  (acct st' <= limit st)%Z.
Proof. exact cleanup_pass_bound. Qed.
Print Assumptions C18_cleanup_bounds.

(* What "a cleaning pass with nothing in between" means in the two bound theorems: the event ECleanup is exactly the label
   list LCleanBegin (getSize + markStale) :: LCleanCache b1 :: ... :: LCleanCache bn (Cache.Cleanup of every bucket of the
   snapshot) of the interleaving semantics, or LCleanBegin alone when the pass does not start. In [run] these are separate
   labels: every other theorem above and below holds with ANY labels between them (a save of a load started before the
   pass, a hit that re-homes an entry, a Rotate ...); the bound does not (Example C18_interrupted_pass_exceeds_limit). *)
Theorem C18_cleanup_pass_is_labels : forall st st' r, exec_ev st ECleanup = Some (st', r) ->
  (hd 0%Z r = 1%Z /\ run st (LCleanBegin :: map LCleanCache (buckets st)) = Some st') \/
  (hd 0%Z r <> 1%Z /\ run st [LCleanBegin] = Some st').
Proof. exact cleanup_is_labels. Qed.
Print Assumptions C18_cleanup_pass_is_labels.

(* ... and from any such reachable state the LIVE size is under the limit too, and accounted = live. *)
Theorem C18_cleanup_live_bound : forall lim mg es ls st st' r,
  (0 <= es)%Z -> (0 < lim)%Z -> Forall label_ok ls ->
  run (init lim mg es) ls = Some st -> race_free (init lim mg es) ls = true ->
  no_stale_attached st ->
  exec_ev st ECleanup = Some (st', r) ->
  acct st' = live st' /\ (live st' <= lim)%Z.
Proof. exact cleanup_live_bound. Qed.
Print Assumptions C18_cleanup_live_bound.

(* Cache.Cleanup's map rebuild (recreatePayload, taken when the map once held >= 200 entries and now holds
   at most a tenth of that) is the identity on the key |-> entry mapping: with it, Cache.Cleanup is Cache.Cleanup
   with only the maxPayloadSize bookkeeping, so every theorem above holds for the code with the rebuild. *)
Theorem C18_rebuild_identity : forall c st,
  (forall es, map (rebuild_entry true c) es = es) /\ clean_cache_v repaired c st = clean_cache c st.
Proof. exact (fun c st => conj (rebuild_id c) (clean_cache_v_repaired c st)). Qed.
Print Assumptions C18_rebuild_identity.

(* Single flight and no orphaned entry, all interleavings inside the domain: a key is attached to at most one entry of
   its cache's payload; a goroutine inside its loader owns a still-loading entry of its own cache and key; of two
   goroutines inside their loaders for the same cache and key at most one has its entry in the map; and an entry that
   is not in the map but carries a size was marked deleted by a cleaning pass or belongs to a released cache (nothing
   else takes an entry out of the map: no creator ever writes over a key that is present). *)
Theorem C18_single_flight : forall lim mg es ls st,
  run (init lim mg es) ls = Some st -> race_free (init lim mg es) ls = true -> single_flight st.
Proof. exact single_flight_reachable. Qed.
Print Assumptions C18_single_flight.

(* ------------------------------------------------------------------ examples *)
Open Scope Z_scope.

(* a seeded regression (never in /repo's history; round-5 seed C18-m9): the waiter's retry loop of getOrCreate
   `for ok { ...; c.mu.Lock(); e, ok = c.payload[key] }` turned into `if ok { ...; c.mu.Lock() }` falling through to the
   create code. Three callers of one key: A's loader fails while B waits for it; B is woken (PRetry); before B re-takes
   the lock, C looks the key up, loads it and caches it (168 bytes, accounted); B then installs a fresh loading entry
   OVER C's valid one without looking: C's entry is orphaned (not attached, not deleted, cache not released, size 168
   still accounted), B loads the key a second time and returns its own value 7 where C returned 8:
   accounted 336, live 168. With the loop (the code as it is) B is served from C's entry: value 8, 168 = 168. *)
Definition w_retry := [LNewCache; LSpawn 0 1 OErr; LStep 0; LSpawn 0 1 (OVal 7 100); LStep 1; LStep 0; LStep 1;
  LSpawn 0 1 (OVal 8 100); LStep 2; LStep 2; LStep 2; LStep 1].
Definition v_m9 := mkV true true true true true true false true.
Example C18_retry_without_recheck_refuted :
  race_free (init 2000 100 68) (w_retry ++ [LStep 1; LStep 1]) = true /\
  (exists st, run_v v_m9 (init 2000 100 68) (w_retry ++ [LStep 1; LStep 1]) = Some st /\
              map tpc (threads st) = [PDone RErr; PDone (RVal 7); PDone (RVal 8)] /\ acct st = 336 /\ live st = 168 /\
              ~ single_flight st) /\
  (exists st, run (init 2000 100 68) w_retry = Some st /\
              map tpc (threads st) = [PDone RErr; PDone (RVal 8); PDone (RVal 8)] /\ acct st = 168 /\ live st = 168).
Proof.
  split; [vm_compute; reflexivity|]. split.
  - eexists. split; [vm_compute; reflexivity|]. repeat split; try (vm_compute; reflexivity).
    intros [_ _ _ O]. assert (N : 168 <> 0) by discriminate.
    destruct (O 1%nat _ eq_refl eq_refl N) as [D|D]; discriminate.
  - eexists. split; [vm_compute; reflexivity|]. repeat split; vm_compute; reflexivity.
Qed.

(* the same with C still inside its loader when B re-takes the lock (A panics): the `if ok` variant has two loaders of
   one key in flight, both entries created without a cleaning pass in between, C's no longer in the map (single flight
   broken); the loop makes B wait for C (PWait 1) *)
Definition w_retry_loading := [LNewCache; LSpawn 0 1 OPanic; LStep 0; LSpawn 0 1 (OVal 7 100); LStep 1; LStep 0; LStep 1;
  LSpawn 0 1 (OVal 8 100); LStep 2; LStep 1].
Example C18_retry_without_recheck_two_loaders :
  (exists st, run_v v_m9 (init 2000 100 68) w_retry_loading = Some st /\
              map tpc (threads st) = [PDone RPanic; PLoad 2; PLoad 1] /\
              map eattached (entries st) = [false; false; true]) /\
  (exists st, run (init 2000 100 68) w_retry_loading = Some st /\
              map tpc (threads st) = [PDone RPanic; PWait 1; PLoad 1] /\
              map eattached (entries st) = [false; true]).
Proof. split; eexists; (split; [vm_compute; reflexivity|split; vm_compute; reflexivity]). Qed.

(* a seeded regression (never in /repo's history; round-6 seed C18-m12): save's `if e.deleted { size = 0 }` widened to
   `if e.deleted || e.gen.stale { size = 0 }`. A load of key 1 (100 bytes + entrySize 68) is in flight in generation G0;
   a cleaning pass starts (limit 100 < 168 accounted): markStale rotates and marks G0 stale; the load finishes AFTER that
   and BEFORE its cache is swept; save re-homes the entry to the fresh generation, so the sweep keeps it: it is served as a
   hit and occupies 168 bytes, but with the widened test its size field and the cleaner's account are 0.
   With the code as it is: accounted 168 = live 168 = occupied 168. *)
Definition w_m12 := [LNewCache; LSpawn 0 7 (OVal 1 100); LStep 0; LStep 0; LStep 0; LSpawn 0 1 (OVal 2 100); LStep 1;
  LCleanBegin; LStep 1; LStep 1; LCleanCache 0].
Definition v_m12 := mkV true true true true true true true false.
Example C18_save_stale_zero_refuted :
  race_free (init 100 5 68) w_m12 = true /\
  (exists st, run_v v_m12 (init 100 5 68) w_m12 = Some st /\ acct st = 0 /\ live st = 0 /\ occupied st = 168 /\
              map eattached (entries st) = [false; true]) /\
  (exists st, run (init 100 5 68) w_m12 = Some st /\ acct st = 168 /\ live st = 168 /\ occupied st = 168).
Proof.
  split; [vm_compute; reflexivity|].
  split; eexists; (split; [vm_compute; reflexivity|repeat split; vm_compute; reflexivity]).
Qed.

(* the bound of C18_cleanup_bounds needs the pass to be uninterrupted: the same interleaving with a 500-byte load ends the
   pass with accounted = live = 568 > limit 100 (the entry saved inside the pass belongs to the fresh generation); the
   uninterrupted pass from the state after that save ends with 0 *)
Definition w_interrupted := [LNewCache; LSpawn 0 7 (OVal 1 100); LStep 0; LStep 0; LStep 0; LSpawn 0 1 (OVal 2 500); LStep 1;
  LCleanBegin; LStep 1; LStep 1; LCleanCache 0].
Example C18_interrupted_pass_exceeds_limit :
  race_free (init 100 5 68) w_interrupted = true /\
  (exists st, run (init 100 5 68) w_interrupted = Some st /\ acct st = 568 /\ live st = 568 /\ limit st = 100) /\
  (exists st st' r, run (init 100 5 68) (firstn 7 w_interrupted ++ [LStep 1; LStep 1]) = Some st /\
                    exec_ev st ECleanup = Some (st', r) /\ acct st' = 0).
Proof.
  split; [vm_compute; reflexivity|]. split.
  - eexists. split; [vm_compute; reflexivity|repeat split; vm_compute; reflexivity].
  - eexists. eexists. eexists. split; [vm_compute; reflexivity|]. split; vm_compute; reflexivity.
Qed.

(* non-vacuity of C18_single_flight: the three-caller schedule is inside the domain and passes through PRetry *)
Example C18_single_flight_nonvacuous :
  race_free (init 2000 100 68) w_retry = true /\
  (exists st, run (init 2000 100 68) (firstn 11 w_retry) = Some st /\ thread_pc st 1 = Some PRetry) /\
  exists st, run (init 2000 100 68) w_retry = Some st.
Proof. split; [vm_compute; reflexivity|]. split; eexists; [split|]; vm_compute; reflexivity. Qed.

(* defect #8 (before 9ff7c19): buckets [A,B,C,D], B and D released => [A,D]: live C dropped, released D kept *)
Example C18_refuted_swap_last :
  release_buckets_v0 [1;3]%nat [0;1;2;3]%nat = [0;3]%nat /\ release_buckets [1;3]%nat [0;1;2;3]%nat = [0;2]%nat.
Proof. split; vm_compute; reflexivity. Qed.

Definition w_release := [LNewCache; LNewCache; LNewCache; LNewCache; LRelease 1; LRelease 3; LRelCollect; LRelRemove].
Example C18_release_buckets_v0_refuted :
  exists st, run_v (mkV true true false true true true true true) (init 0 0 68) w_release = Some st /\
             is_released (caches st) 2 = false /\ ~ In 2%nat (buckets st).
Proof. eexists. split; [vm_compute; reflexivity|]. split; [reflexivity|]. simpl. intuition discriminate. Qed.

(* before 290ab18: a failing loader whose entry was cleaned meanwhile deleted the newer valid entry of
   another goroutine by key: accounted 118, live 0 — inside the domain (race_free = true) *)
Definition w_recover := [LNewCache; LSpawn 0 7 (OVal 1 100); LStep 0; LStep 0; LStep 0; LSpawn 0 1 OErr; LStep 1;
  LCleanBegin; LCleanCache 0; LSpawn 0 1 (OVal 2 50); LStep 2; LStep 2; LStep 2; LStep 1].
Example C18_recover_v0_refuted :
  race_free (init 1 0 68) w_recover = true /\
  (exists st, run_v (mkV false true true true true true true true) (init 1 0 68) w_recover = Some st /\ acct st = 118 /\ live st = 0) /\
  (exists st, run (init 1 0 68) w_recover = Some st /\ acct st = 118 /\ live st = 118).
Proof. split; [vm_compute; reflexivity|]. split; eexists; (split; [vm_compute; reflexivity|split; vm_compute; reflexivity]). Qed.

(* before b9905fa: CleanEmptyGenerations dropped the generation of a loading entry; save then accounted
   the entry to a generation the cleaner no longer lists: accounted 168, live 286 *)
Definition w_save := [LNewCache; LSpawn 0 7 (OVal 1 100); LStep 0; LStep 0; LStep 0; LSpawn 0 1 (OVal 2 50); LStep 1;
  LRotate; LSpawn 0 7 (OVal 3 100); LStep 2; LGcGens; LStep 1; LStep 1].
Example C18_save_v0_refuted :
  race_free (init 2000 100 68) w_save = true /\
  (exists st, run_v (mkV true false true true true true true true) (init 2000 100 68) w_save = Some st /\ acct st = 168 /\ live st = 286) /\
  (exists st, run (init 2000 100 68) w_save = Some st /\ acct st = 286 /\ live st = 286).
Proof. split; [vm_compute; reflexivity|]. split; eexists; (split; [vm_compute; reflexivity|split; vm_compute; reflexivity]). Qed.

(* the domain restriction is needed (code as it is now): Release while a creator is in its loader
   (replayed on the real code by the harness, class witness-R3) *)
Definition w_release_during_load := [LNewCache; LSpawn 0 1 (OVal 1 50); LStep 0; LRelease 0; LStep 0; LStep 0].
Example C18_release_during_load_outside_domain :
  race_free (init 2000 100 68) w_release_during_load = false /\
  exists st, run (init 2000 100 68) w_release_during_load = Some st /\ acct st = 118 /\ live st = 0.
Proof. split; [vm_compute; reflexivity|]. eexists. split; [vm_compute; reflexivity|split; vm_compute; reflexivity]. Qed.

(* before the last repair save did gen.size.Add(size) AFTER c.mu.Unlock(): a Rotate, a hit that re-homes the
   other entries and CleanEmptyGenerations in that window dropped the generation the Add then landed on:
   accounted 268, live 386 (reproduced on the real code through the schedule point
   verifhook.At("cache.save.after-unlock"), harness class witness-R4) *)
Definition w_gc_pending := [LNewCache; LSpawn 0 2 (OVal 1 200); LStep 0; LStep 0; LStep 0; LSpawn 0 1 (OVal 2 50);
  LStep 1; LStep 1; LRotate; LSpawn 0 2 (OVal 3 1); LStep 2; LGcGens; LStep 1].
Example C18_save_add_after_unlock_v0_refuted :
  race_free (init 2000 100 68) w_gc_pending = true /\
  (exists st, run_v (mkV true true true false true true true true) (init 2000 100 68) w_gc_pending = Some st /\ acct st = 268 /\ live st = 386) /\
  (exists st, run (init 2000 100 68) w_gc_pending = Some st /\ acct st = 386 /\ live st = 386).
Proof. split; [vm_compute; reflexivity|]. split; eexists; (split; [vm_compute; reflexivity|split; vm_compute; reflexivity]). Qed.

(* non-vacuity: an interleaving inside the domain with two concurrent callers of one key (creator +
   waiter), a failing loader, a rotation and an effective cleaning pass *)
Definition w_live := [LNewCache; LSpawn 0 1 (OVal 5 300); LStep 0; LSpawn 0 1 (OVal 6 10); LStep 1; LStep 0; LStep 1; LStep 0;
  LSpawn 0 2 OPanic; LStep 2; LStep 2; LRotate; LSpawn 0 3 (OVal 7 500); LStep 3; LStep 3; LStep 3].
Example C18_nonvacuous :
  race_free (init 400 20 68) w_live = true /\
  exists st, run (init 400 20 68) w_live = Some st /\
             map tpc (threads st) = [PDone (RVal 5); PDone (RVal 5); PDone RPanic; PDone (RVal 7)] /\
             acct st = 936 /\ live st = 936 /\
             exists st' r, exec_ev st ECleanup = Some (st', r) /\ hd 0 r = 1 /\ acct st' = 0 /\ live st' = 0.
Proof.
  split; [vm_compute; reflexivity|]. eexists. split; [vm_compute; reflexivity|].
  split; [vm_compute; reflexivity|]. split; [vm_compute; reflexivity|]. split; [vm_compute; reflexivity|].
  eexists. eexists. split; [vm_compute; reflexivity|]. repeat split; vm_compute; reflexivity.
Qed.

(* the hypotheses of C18_accounting_total / C18_cleanup_live_bound hold for that schedule *)
Example C18_nonvacuous_total :
  Forall label_ok w_live /\
  exists st, run (init 400 20 68) w_live = Some st /\ no_stale_attached st.
Proof.
  split; [repeat constructor; simpl; auto; lia|].
  eexists. split; [vm_compute; reflexivity|].
  intros e en He A Nz. do 5 (destruct e as [|e]; simpl in He; [inversion He; subst; try discriminate; try reflexivity; try (exfalso; apply Nz; reflexivity)|]); destruct e; discriminate.
Qed.

(* a seeded regression (never in /repo's history): recreatePayload skipping entries with wg != nil drops an entry
   that is STILL LOADING: 200 entries, rotation, a loader parked on key 1 in the fresh generation, a cleaning pass
   (everything else goes, the map is rebuilt), a second Get of key 1: it runs a second loader instead of waiting
   (single flight broken) and the first loader's save accounts 118 bytes that no live entry holds *)
Definition fill_labels (n : nat) : list label :=
  flat_map (fun i => [LSpawn 0 (10 + i) (OVal (Z.of_nat i) 2); LStep i; LStep i; LStep i]) (seq 0 n).
Definition w_rebuild := LNewCache :: fill_labels 200 ++
  [LRotate; LSpawn 0 1 (OVal 999 50); LStep 200; LCleanBegin; LCleanCache 0; LSpawn 0 1 (OVal 998 50); LStep 201; LStep 200; LStep 200].
Example C18_rebuild_skips_loading_v0_refuted :
  race_free (init 13500 675 68) w_rebuild = true /\
  (exists st, run_v (mkV true true true true true false true true) (init 13500 675 68) w_rebuild = Some st /\ nrec st = 1 /\
              thread_pc st 201 = Some (PLoad 201) /\ acct st = 118 /\ live st = 0) /\
  (exists st, run (init 13500 675 68) w_rebuild = Some st /\ nrec st = 1 /\
              thread_pc st 201 = Some (PWait 200) /\ acct st = 118 /\ live st = 118).
Proof.
  split; [vm_compute; reflexivity|].
  split; eexists; (split; [vm_compute; reflexivity|repeat split; vm_compute; reflexivity]).
Qed.

(* a seeded regression (never in /repo's history): Cleaner.rotate switching the caches over a snapshot BEFORE taking
   the lock, lastGen / generations updated afterwards (two LRotate labels = the two halves): a NewCache in between
   is registered on the old generation and missed by the rotation; after the next cleaning pass has dropped that
   generation, what the cache loads is accounted outside the cleaner's list: accounted 368, live 836, and
   Cleaner.Cleanup does not start (ret [0]) although 836 > limit 500. With the code as it is (one critical
   section; the second LRotate is a no-op) both caches follow the rotation and the pass starts. *)
Definition w_rotate := [LNewCache; LSpawn 0 1 (OVal 1 200); LStep 0; LStep 0; LStep 0; LRotate; LNewCache; LRotate;
  LSpawn 0 2 (OVal 2 300); LStep 1; LStep 1; LStep 1; LCleanBegin; LCleanCache 0; LCleanCache 1;
  LSpawn 1 1 (OVal 3 400); LStep 2; LStep 2; LStep 2; LCleanBegin].
Example C18_rotate_split_v0_refuted :
  race_free (init 500 25 68) w_rotate = true /\
  (exists st, run_v (mkV true true true true false true true true) (init 500 25 68) w_rotate = Some st /\
              map ccur (caches st) = [1; 0]%nat /\ lastgen st = 1%nat /\ acct st = 368 /\ live st = 836 /\ ret st = [0]) /\
  (exists st, run (init 500 25 68) w_rotate = Some st /\
              map ccur (caches st) = [2; 2]%nat /\ lastgen st = 2%nat /\ hd 0 (ret st) = 1).
Proof.
  split; [vm_compute; reflexivity|].
  split; eexists; (split; [vm_compute; reflexivity|repeat split; vm_compute; reflexivity]).
Qed.
