From C18 Require Import Model Proofs.
Theorem C18_placeholder : True. Proof. exact placeholder. Qed.
Print Assumptions C18_placeholder.
