(* C18 — every cache that was not released stays in the cleaner's bucket list (all interleavings). *)
From Coq Require Import List ZArith Bool Arith Lia Permutation.
From C18 Require Import Model ProofsRelease.
Import ListNotations.
Local Open Scope nat_scope.

Record inv_managed (st : state) : Prop := {
  im_live : forall c, c < length (caches st) -> is_released (caches st) c = false -> In c (buckets st);
  im_dom  : forall c, In c (buckets st) -> c < length (caches st);
  im_pend : forall td, pendrel st = Some td ->
              asc_from 0 td /\
              forall i, In i td -> exists c, nth_error (buckets st) i = Some c /\ is_released (caches st) c = true
}.

Lemma nth_error_mapi_from {A B} (f : nat -> A -> B) : forall l i k,
  nth_error (mapi_from f i l) k = option_map (f (i + k)) (nth_error l k).
Proof.
  induction l; intros i k; destruct k; simpl; auto.
  - rewrite Nat.add_0_r; auto.
  - rewrite IHl. replace (S i + k) with (i + S k) by lia. auto.
Qed.

Lemma mapi_from_length {A B} (f : nat -> A -> B) : forall l i, length (mapi_from f i l) = length l.
Proof. induction l; simpl; auto. Qed.

Lemma is_released_rotate st c : is_released (caches (rotate st)) c = is_released (caches st) c.
Proof.
  unfold rotate, is_released. simpl. rewrite nth_error_mapi_from. simpl.
  destruct (nth_error (caches st) c); simpl; auto. destruct (memb c (buckets st)); auto.
Qed.

Lemma rotate_caches_length st : length (caches (rotate st)) = length (caches st).
Proof. unfold rotate. simpl. apply mapi_from_length. Qed.
Lemma rotate_buckets st : buckets (rotate st) = buckets st. Proof. reflexivity. Qed.
Lemma rotate_pendrel st : pendrel (rotate st) = pendrel st. Proof. reflexivity. Qed.

(* a state change that keeps buckets and pendrel, the number of caches, and never un-releases *)
Lemma inv_managed_same st st' :
  buckets st' = buckets st -> pendrel st' = pendrel st -> length (caches st') = length (caches st) ->
  (forall c, is_released (caches st) c = true -> is_released (caches st') c = true) ->
  (forall c, is_released (caches st') c = false -> is_released (caches st) c = false) ->
  inv_managed st -> inv_managed st'.
Proof.
  intros Hb Hp Hl Hmono Hback [L D P]. split; rewrite ?Hb, ?Hp, ?Hl.
  - intros c Hc Hr. apply L; auto.
  - auto.
  - intros td Htd. destruct (P td Htd) as [A F]. split; auto.
    intros i Hi. destruct (F i Hi) as (c & E & R). exists c; auto.
Qed.

Lemma mark_stale_managed need st : inv_managed st -> inv_managed (fst (mark_stale need st)).
Proof.
  intros H. unfold mark_stale.
  destruct (ms_loop (listed st) 0 need (gens st) 0) as [[[l bytes] gs] n]. cbv zeta.
  set (st1 := set_gens (set_listed st l) gs).
  assert (H1 : inv_managed st1) by (apply (inv_managed_same st); auto).
  destruct (Z.ltb bytes need); [|exact H1].
  assert (H2 : inv_managed (rotate st1)).
  { apply (inv_managed_same st1); auto using rotate_caches_length; intros c; rewrite is_released_rotate; auto. }
  set (st2 := rotate st1) in *. clearbody st2.
  destruct (listed st2); simpl; auto.
  apply (inv_managed_same st2); auto.
Qed.

Lemma released_idx_spec cs : forall b i,
  asc_from i (released_idx cs b i) /\
  forall j, In j (released_idx cs b i) -> i <= j /\ exists c, nth_error b (j - i) = Some c /\ is_released cs c = true.
Proof.
  induction b as [|c b IH]; intros i; simpl.
  - split; auto. tauto.
  - destruct (IH (S i)) as [A F]. destruct (is_released cs c) eqn:R.
    + split.
      * simpl. split; auto.
      * intros j [<-|Hj].
        -- split; auto. exists c. rewrite Nat.sub_diag. auto.
        -- destruct (F j Hj) as (Hle & c' & E & R'). split; [lia|]. exists c'. split; auto.
           replace (j - i) with (S (j - S i)) by lia. auto.
    + split.
      * clear - A. revert A. generalize (released_idx cs b (S i)). intros l. revert i.
        induction l; simpl; auto. intros i [H1 H2]. split; auto. lia.
      * intros j Hj. destruct (F j Hj) as (Hle & c' & E & R'). split; [lia|]. exists c'. split; auto.
        replace (j - i) with (S (j - S i)) by lia. auto.
Qed.

Lemma is_released_app cs x c : c < length cs -> is_released (cs ++ [x]) c = is_released cs c.
Proof. intros H. unfold is_released. rewrite nth_error_app1; auto. Qed.

Lemma is_released_upd cs c c' :
  is_released (upd c' (fun ca => mkC (ccur ca) true) cs) c = if Nat.eqb c' c then (match nth_error cs c with Some _ => true | None => false end) else is_released cs c.
Proof.
  unfold is_released. rewrite nth_error_upd. destruct (Nat.eqb c' c); auto. destruct (nth_error cs c); auto.
Qed.

Lemma step_thread_fields var st t st' : step_thread var st t = Some st' ->
  buckets st' = buckets st /\ pendrel st' = pendrel st /\ caches st' = caches st.
Proof.
  unfold step_thread. intros H.
  repeat match type of H with
         | context [match ?x with _ => _ end] => destruct x eqn:?; try discriminate
         end; inversion H; subst; simpl; auto.
Qed.

Lemma step_managed st l st' : step st l = Some st' -> inv_managed st -> inv_managed st'.
Proof.
  intros H I. destruct l; simpl in H.
  - inversion H; subst. apply (inv_managed_same st); auto.
  - apply step_thread_fields in H. destruct H as (Hb & Hp & Hc).
    apply (inv_managed_same st); auto; rewrite Hc; auto.
  - (* NewCache *) inversion H; subst. destruct I as [L D P]. unfold new_cache. split; simpl.
    + intros c Hc Hr. rewrite app_length in Hc. simpl in Hc. apply in_or_app.
      destruct (Nat.eq_dec c (length (caches st))); [right; left; auto|left].
      apply L; [lia|]. rewrite is_released_app in Hr; auto. lia.
    + intros c Hc. rewrite app_length. simpl. apply in_app_or in Hc. destruct Hc as [Hc|[<-|[]]]; [|lia].
      apply D in Hc. lia.
    + intros td Htd. destruct (P td Htd) as [A F]. split; auto.
      intros i Hi. destruct (F i Hi) as (c & E & R). exists c. split.
      * rewrite nth_error_app1; auto. apply nth_error_Some. congruence.
      * rewrite is_released_app; auto. apply D. eapply nth_error_In; eauto.
  - (* Release *) destruct (Nat.ltb c (length (caches st))) eqn:Hc; [|discriminate]. inversion H; subst.
    apply Nat.ltb_lt in Hc. unfold release.
    apply (inv_managed_same st); simpl; auto.
    + apply upd_length.
    + intros c0. rewrite is_released_upd. destruct (Nat.eqb c c0) eqn:E; auto.
      apply Nat.eqb_eq in E; subst. intros _. destruct (nth_error (caches st) c0) eqn:N; auto.
      apply nth_error_None in N. lia.
    + intros c0. rewrite is_released_upd. destruct (Nat.eqb c c0) eqn:E; auto.
      destruct (nth_error (caches st) c0) eqn:N; [discriminate|].
      unfold is_released. rewrite N. auto.
  - (* Rotate *) inversion H; subst. unfold do_rotate.
    destruct ((maxgen st =? 0)%Z || (gsz (lastgen st) (gens st) <? maxgen st)%Z).
    + apply (inv_managed_same st); auto.
    + apply (inv_managed_same (rotate st)); auto.
      apply (inv_managed_same st); auto using rotate_caches_length; intros c; rewrite is_released_rotate; auto.
  - (* CleanBegin *) inversion H; subst. unfold clean_begin.
    destruct (limit st =? 0)%Z; [apply (inv_managed_same st); auto|].
    destruct (acct st <=? limit st)%Z; [apply (inv_managed_same st); auto|].
    pose proof (mark_stale_managed (Z.max (acct st / 20) (acct st - limit st)) st I) as M.
    destruct (mark_stale (Z.max (acct st / 20) (acct st - limit st)) st) as [st1 n]. simpl in M.
    apply (inv_managed_same st1); auto.
  - rewrite clean_cache_v_repaired in H. inversion H; subst. apply (inv_managed_same st); auto.
  - inversion H; subst. apply (inv_managed_same st); auto.
  - (* RelCollect *) inversion H; subst. unfold rel_collect. destruct I as [L D P].
    destruct (released_idx (caches st) (buckets st) 0) as [|i0 td0] eqn:E.
    + split; simpl; auto. intros td Htd; discriminate.
    + split; simpl; auto. intros td Htd. inversion Htd; subst td.
      destruct (released_idx_spec (caches st) (buckets st) 0) as [A F]. rewrite E in *. split; auto.
      intros i Hi. destruct (F i Hi) as (_ & c & Ec & R). rewrite Nat.sub_0_r in Ec. eauto.
  - (* RelRemove *) unfold rel_remove in H. simpl in H. destruct (pendrel st) as [td|] eqn:E; [|discriminate].
    inversion H; subst. destruct I as [L D P]. destruct (P td E) as [A F].
    destruct (release_buckets_perm td (buckets st) A) as (picked & F2 & Len & Perm).
    { intros i Hi. destruct (F i Hi) as (c & Ec & _). apply nth_error_Some. congruence. }
    assert (Hpicked : forall c, In c picked -> is_released (caches st) c = true).
    { clear - F F2. induction F2; simpl; [tauto|]. intros c [<-|Hc].
      - destruct (F x (or_introl eq_refl)) as (c' & E' & R). congruence.
      - apply IHF2; auto. intros i Hi. apply F. right; auto. }
    split; simpl.
    + intros c Hc Hr. specialize (L c Hc Hr).
      eapply Permutation_in in L; [|apply Permutation_sym; exact Perm].
      apply in_app_or in L. destruct L as [L|L]; auto. apply Hpicked in L. congruence.
    + intros c Hc. apply D. eapply Permutation_in; [exact Perm|]. apply in_or_app; auto.
    + intros td' Htd'. discriminate.
Qed.

Lemma init_managed lim mg es : inv_managed (init lim mg es).
Proof. split; simpl; intros; try lia; try tauto; discriminate. Qed.

Lemma run_managed : forall ls st st', run st ls = Some st' -> inv_managed st -> inv_managed st'.
Proof.
  induction ls; simpl; intros st st' H I.
  - inversion H; subst; auto.
  - unfold run in H. simpl in H. destruct (step_v repaired st a) eqn:E; [|discriminate].
    eapply IHls; eauto. eapply step_managed; eauto.
Qed.

Theorem managed_until_released lim mg es ls st :
  run (init lim mg es) ls = Some st ->
  forall c, c < length (caches st) -> is_released (caches st) c = false -> In c (buckets st).
Proof. intros H. apply (run_managed ls _ _ H (init_managed lim mg es)). Qed.
