From Coq Require Import List ZArith Bool Arith Lia.
From C18 Require Import Model.
Import ListNotations.
Lemma placeholder : True. Proof. exact I. Qed.
