(* C18 — no poisoning: in every reachable state the payload maps a key to at most one entry and never
   to an abandoned one (the entry of a loader that failed), so a later lookup hits a valid entry,
   waits for a loading one, or loads again. *)
From Coq Require Import List ZArith Bool Arith Lia.
From C18 Require Import Model ProofsRelease ProofsCoherent.
Import ListNotations.
Local Open Scope nat_scope.

Record inv_pay (es : list entry) : Prop := {
  ip_uniq : forall e1 e2 en1 en2, nth_error es e1 = Some en1 -> nth_error es e2 = Some en2 ->
              eattached en1 = true -> eattached en2 = true ->
              ecache en1 = ecache en2 -> ekey en1 = ekey en2 -> e1 = e2;
  ip_noab : forall e en, nth_error es e = Some en -> eattached en = true -> estat en <> EAbandoned
}.

Definition shrinks (en en' : entry) : Prop :=
  ecache en' = ecache en /\ ekey en' = ekey en /\
  (eattached en' = true -> eattached en = true /\ (estat en' = EAbandoned -> estat en = EAbandoned)).

Lemma inv_pay_shrink es es' :
  (forall e en', nth_error es' e = Some en' -> exists en, nth_error es e = Some en /\ shrinks en en') ->
  inv_pay es -> inv_pay es'.
Proof.
  intros H [U N]. split.
  - intros e1 e2 a1 a2 E1 E2 A1 A2 C K.
    destruct (H e1 a1 E1) as (b1 & F1 & C1 & K1 & S1). destruct (H e2 a2 E2) as (b2 & F2 & C2 & K2 & S2).
    destruct (S1 A1), (S2 A2). apply (U e1 e2 b1 b2); auto; congruence.
  - intros e a E A Ab. destruct (H e a E) as (b & F & C & K & S). destruct (S A) as [A' Ab'].
    apply (N e b F A'); auto.
Qed.

Lemma shrinks_refl en : shrinks en en.
Proof. repeat split; auto. Qed.

Lemma shrink_upd es i f : (forall en, shrinks en (f en)) ->
  forall e en', nth_error (upd i f es) e = Some en' -> exists en, nth_error es e = Some en /\ shrinks en en'.
Proof.
  intros Hf e en' H. rewrite nth_error_upd in H. destruct (Nat.eqb i e).
  - destruct (nth_error es e) as [en|]; [|discriminate]. simpl in H. inversion H; subst. eauto.
  - exists en'. split; auto. apply shrinks_refl.
Qed.

Lemma shrink_map es f : (forall en, shrinks en (f en)) ->
  forall e en', nth_error (map f es) e = Some en' -> exists en, nth_error es e = Some en /\ shrinks en en'.
Proof.
  intros Hf e en' H. rewrite nth_error_map in H. destruct (nth_error es e) as [en|]; [|discriminate].
  simpl in H. inversion H; subst. eauto.
Qed.

Lemma find_idx_none {A} (p : A -> bool) : forall l i, find_idx p l i = None -> forall x, In x l -> p x = false.
Proof.
  induction l; simpl; intros i H x Hx; [tauto|]. destruct (p a) eqn:P; [discriminate|].
  destruct Hx; subst; eauto.
Qed.

Lemma step_thread_pay st t st' : step_thread repaired st t = Some st' -> inv_coh st -> inv_pay (entries st) -> inv_pay (entries st').
Proof.
  unfold step_thread. intros H IC IP.
  destruct (nth_error (threads st) t) as [th|] eqn:Hth; [|discriminate].
  pose proof (ic_thr st IC t th Hth) as Tt. unfold thread_ok in Tt.
  destruct (tpc th) as [rt | i | i | g s v | r] eqn:Hpc; try discriminate.
  - destruct (nth_error (caches st) (tcache th)) as [ca|]; [|discriminate].
    destruct (creleased ca); [discriminate|]. rewrite blind_retry_repaired in H.
    destruct (find_entry (tcache th) (tkey th) (entries st)) as [i|] eqn:Hf.
    + destruct (nth_error (entries st) i) as [en|]; [|discriminate]. unfold move_gen in H.
      destruct (Nat.eqb (egen en) (ccur ca)); inversion H; subst st'; simpl; auto.
      eapply inv_pay_shrink; [|exact IP]. apply shrink_upd. intros x. repeat split; auto.
    + inversion H; subst st'; simpl. clear H. destruct IP as [U N].
      pose proof (find_idx_none _ _ _ Hf) as NoM.
      assert (Hnew : forall e en, nth_error (entries st ++ [mkE (tcache th) (tkey th) t ELoading (ccur ca) 0 false true 0]) e = Some en ->
                 (nth_error (entries st) e = Some en) \/ (e = length (entries st) /\ en = mkE (tcache th) (tkey th) t ELoading (ccur ca) 0 false true 0)).
      { intros e en He. destruct (Nat.lt_ge_cases e (length (entries st))).
        - rewrite nth_error_app1 in He; auto.
        - rewrite nth_error_app2 in He; auto. destruct (e - length (entries st)) eqn:D; simpl in He; [|destruct n; discriminate].
          inversion He; subst. right. split; auto. lia. }
      assert (Hno : forall e en, nth_error (entries st) e = Some en -> eattached en = true ->
                 ecache en = tcache th -> ekey en = tkey th -> False).
      { intros e en He A C K. specialize (NoM en (nth_error_In _ _ He)). unfold ematch in NoM.
        rewrite A, C, K, !Nat.eqb_refl in NoM. discriminate. }
      split.
      * intros e1 e2 a1 a2 E1 E2 A1 A2 C K.
        destruct (Hnew e1 a1 E1) as [F1|[-> ->]], (Hnew e2 a2 E2) as [F2|[-> ->]]; auto.
        -- eapply U; eauto.
        -- exfalso. eapply Hno; eauto.
        -- exfalso. eapply (Hno e2 a2); eauto.
      * intros e a E A. destruct (Hnew e a E) as [F|[-> ->]]; [eapply N; eauto|simpl; discriminate].
  - destruct (nth_error (entries st) i) as [en|]; [|discriminate].
    destruct (estat en); [discriminate| |]; inversion H; subst st'; simpl; auto.
  - destruct Tt as (en & Hen & Hc & Hk). rewrite Hen in H.
    assert (Hrec : inv_pay (recover_entries true (tcache th) (tkey th) i (entries st))).
    { unfold recover_entries. destruct IP as [U N].
      destruct (eattached en) eqn:Hatt.
      - (* own entry still in the payload: find_entry returns it *)
        destruct (find_entry (tcache th) (tkey th) (entries st)) as [j|] eqn:Hf.
        + destruct (find_entry_some _ _ _ _ Hf) as (enj & Hj & Aj & Cj & Kj).
          assert (j = i) by (apply (U j i enj en); auto; congruence). subst j.
          rewrite Nat.eqb_refl. simpl.
          eapply inv_pay_shrink; [|split; [exact U|exact N]].
          intros e en' He. rewrite nth_error_upd in He. destruct (Nat.eqb_spec i e).
          * subst e. rewrite (nth_error_upd_same _ _ _ _ Hen) in He. simpl in He. inversion He; subst.
            exists en. split; auto. repeat split; simpl; auto; discriminate.
          * rewrite nth_error_upd_other in He by auto. exists en'. split; auto. apply shrinks_refl.
        + exfalso. pose proof (find_idx_none _ _ _ Hf en (nth_error_In _ _ Hen)) as NoM. unfold ematch in NoM.
          rewrite Hatt, Hc, Hk, !Nat.eqb_refl in NoM. discriminate.
      - (* own entry already removed by a cleaning pass: whatever is there stays or ... *)
        eapply inv_pay_shrink; [|split; [exact U|exact N]].
        intros e en' He. rewrite nth_error_upd in He.
        set (es1 := match find_entry (tcache th) (tkey th) (entries st) with
                    | Some j => if true && negb (Nat.eqb j i) then entries st else upd j detach (entries st)
                    | None => entries st end) in *.
        assert (H1 : forall e0 x, nth_error es1 e0 = Some x -> exists y, nth_error (entries st) e0 = Some y /\ shrinks y x).
        { unfold es1. destruct (find_entry (tcache th) (tkey th) (entries st)) as [j|].
          - destruct (true && negb (Nat.eqb j i)).
            + intros e0 x Hx. exists x. split; auto. apply shrinks_refl.
            + apply shrink_upd. intros x. repeat split; simpl; auto; discriminate.
          - intros e0 x Hx. exists x. split; auto. apply shrinks_refl. }
        destruct (Nat.eqb_spec i e).
        + subst e. destruct (nth_error es1 i) as [x|] eqn:Hx; [|discriminate]. simpl in He. inversion He; subst.
          destruct (H1 i x Hx) as (y & Hy & C & K & S). rewrite Hen in Hy. inversion Hy; subst y.
          exists en. split; auto. repeat split; simpl; auto.
          all: match goal with A : eattached (abandon _) = true |- _ => simpl in A; destruct (S A) as [A' _]; congruence end.
        + apply H1; auto. }
    destruct (tout th).
    + destruct (nth_error (caches st) (tcache th)); [|discriminate]. inversion H; subst st'; simpl.
      eapply inv_pay_shrink; [|exact IP]. apply shrink_upd. intros x. repeat split; simpl; auto; discriminate.
    + inversion H; subst st'; simpl. exact Hrec.
    + inversion H; subst st'; simpl. exact Hrec.
  - inversion H; subst st'; simpl; auto.
Qed.

Lemma step_pay st l st' : step st l = Some st' -> inv_coh st -> inv_pay (entries st) -> inv_pay (entries st').
Proof.
  intros H IC IP. destruct l; simpl in H.
  - inversion H; subst; auto.
  - eapply step_thread_pay; eauto.
  - inversion H; subst; auto.
  - destruct (Nat.ltb c (length (caches st))); [|discriminate]. inversion H; subst. simpl.
    eapply inv_pay_shrink; [|exact IP]. apply shrink_map. intros x. destruct (in_cache c x); [|apply shrinks_refl].
    repeat split; simpl; auto; discriminate.
  - inversion H; subst. unfold do_rotate. destruct (_ || _); simpl; auto.
  - inversion H; subst. unfold clean_begin.
    destruct (limit st =? 0)%Z; auto. destruct (acct st <=? limit st)%Z; auto.
    destruct (mark_stale_entries (Z.max (acct st / 20) (acct st - limit st)) st) as [He _].
    destruct (mark_stale _ st) as [st1 n]. simpl in *. rewrite He. auto.
  - rewrite clean_cache_v_repaired in H. inversion H; subst. simpl.
    eapply inv_pay_shrink; [|exact IP]. apply shrink_map. intros x. unfold delete_stale_in. destruct (stale_in c (gens st) x); [|apply shrinks_refl].
    repeat split; simpl; auto; discriminate.
  - inversion H; subst; auto.
  - inversion H; subst. unfold rel_collect. destruct (released_idx _ _ _); auto.
  - unfold rel_remove in H. destruct (pendrel st); [|discriminate]. inversion H; subst; auto.
Qed.

Lemma run_pay : forall ls st st', run st ls = Some st' -> inv_coh st -> inv_pay (entries st) -> inv_pay (entries st').
Proof.
  induction ls; intros st st' H IC IP; unfold run in H; simpl in H.
  - inversion H; subst; auto.
  - destruct (step_v repaired st a) eqn:E; [|discriminate].
    eapply IHls; eauto; [eapply step_coh; eauto|eapply step_pay; eauto].
Qed.

Theorem no_poisoning lim mg es ls st :
  run (init lim mg es) ls = Some st -> inv_pay (entries st).
Proof.
  intros H. apply (run_pay ls _ _ H (init_coh lim mg es)).
  split; simpl; intros; destruct e1 || destruct e; discriminate.
Qed.
