(* C18 — shape of the generated cases and the two executable verdicts. No proofs. *)
From VLib Require Import CaseLib.
From Coq Require Import ZArith.
From C18 Require Import Model.
Open Scope Z_scope.

(* what the harness sees of the real package after each event *)
Record obs := mkObs {
  o_ret  : list Z;          (* numbers returned by a maintenance call *)
  o_thr  : list (Z * Z);    (* per goroutine: (0,v) returned v | (1,_) returned the loader's error |
                               (2,_) panicked | (10,_) parked inside its loader | (11,_) blocked in wg.Wait |
                               (12,_) parked at the schedule point after save's unlock |
                             (13,_) a waiter whose awaited loader failed, parked after reportReattempt, before it re-takes
                             Cache.mu and re-examines payload[key] *)
  o_acct : Z;               (* Cleaner.getSize() *)
  o_live : Z;               (* sum of entry sizes (the size field) over the payloads of all caches *)
  o_occ  : Z;               (* what the live entries really occupy: for every valid entry of every payload, entrySize +
                               the size that the loader which produced its value reported *)
  o_bk   : list nat         (* Cleaner.buckets as cache ids *)
}.

(* final view of one cache: released, position of currentGeneration in Cleaner.generations (-1 = not
   listed), payload sorted by key: (key, size, position of the entry's generation, wg != nil) *)
Record csnap := mkCS { s_rel : bool; s_cur : Z; s_ents : list (nat * Z * Z * bool) }.

Inductive case :=
(* strict = false only for the three witness schedules of the racy patterns (accounting not required) *)
| CRun (strict : bool) (lim mg es : Z) (evs : list ev) (impl : list obs) (gsizes : list Z) (snaps : list csnap).

(* ------------------------------------------------------------------ model side *)
Definition thr_code (th : thread) : Z * Z :=
  match tpc th with
  | PDone (RVal v) => (0, v)
  | PDone RErr => (1, 0)
  | PDone RPanic => (2, 0)
  | PLoad _ => (10, 0)
  | PWait _ => (11, 0)
  | PAdd _ _ _ => (12, 0)
  | PRetry => (13, 0)
  | PEnter => (99, 0)
  end.

Definition obs_of (st : state) (r : list Z) : obs :=
  mkObs r (map thr_code (threads st)) (acct st) (live st) (occupied st) (buckets st).

Fixpoint run_evs (st : state) (evs : list ev) : list obs * state :=
  match evs with
  | [] => ([], st)
  | e :: r => match exec_ev st e with
              | Some (st', rt) => let '(os, fin) := run_evs st' r in (obs_of st' rt :: os, fin)
              | None => ([mkObs [-1] [] 0 0 0 []], st)   (* the model cannot execute the event *)
              end
  end.

Definition zz_eqb (a b : Z * Z) := (fst a =? fst b) && (snd a =? snd b).
Definition obs_eqb (a b : obs) : bool :=
  list_eqb Z.eqb (o_ret a) (o_ret b) && list_eqb zz_eqb (o_thr a) (o_thr b) &&
  (o_acct a =? o_acct b) && (o_live a =? o_live b) && (o_occ a =? o_occ b) && list_eqb Nat.eqb (o_bk a) (o_bk b).

Definition idx_of (g : nat) (l : list nat) : Z :=
  match find_idx (Nat.eqb g) l 0%nat with Some i => Z.of_nat i | None => -1 end.

Definition ent_ok (st : state) (c : nat) (x : nat * Z * Z * bool) : bool :=
  let '(k, sz, gi, ld) := x in
  match find_entry c k (entries st) with
  | Some i => match nth_error (entries st) i with
              | Some e => (esize e =? sz) && (idx_of (egen e) (listed st) =? gi) &&
                          Bool.eqb ld (match estat e with EValid => false | _ => true end)
              | None => false
              end
  | None => false
  end.

Definition snap_ok (st : state) (c : nat) (s : csnap) : bool :=
  match nth_error (caches st) c with
  | Some ca =>
      Bool.eqb (creleased ca) (s_rel s) && (idx_of (ccur ca) (listed st) =? s_cur s) &&
      Nat.eqb (length (filter (in_cache c) (entries st))) (length (s_ents s)) &&
      forallb (ent_ok st c) (s_ents s)
  | None => false
  end.

Fixpoint snaps_ok (st : state) (c : nat) (l : list csnap) : bool :=
  match l with
  | [] => Nat.eqb c (length (caches st))
  | s :: r => snap_ok st c s && snaps_ok st (S c) r
  end.

(* model output = implementation output *)
Definition case_agrees (c : case) : bool :=
  match c with
  | CRun _ lim mg es evs impl gsizes snaps =>
      let '(os, fin) := run_evs (init lim mg es) evs in
      list_eqb obs_eqb os impl &&
      list_eqb Z.eqb (map (fun g => gsz g (gens fin)) (listed fin)) gsizes &&
      snaps_ok fin 0%nat snaps
  end.

(* ------------------------------------------------------------------ the property, evaluated on the
   implementation's observations only (no use of the model's transition function) *)
Definition call := (nat * nat * outcome)%type.
Fixpoint calls_of (evs : list ev) : list call :=
  match evs with
  | [] => []
  | ECall c k o :: r => (c, k, o) :: calls_of r
  | EFill _ c k0 n v0 sz :: r =>
      map (fun i => (c, (k0 + i)%nat, OVal (v0 + Z.of_nat i) sz)) (seq 0 n) ++ calls_of r
  | _ :: r => calls_of r
  end.

(* seen: one flag per goroutine = its loader was invoked (it was observed inside its loader, or it belongs
   to a fill of fresh keys); positionally aligned with the status list *)
Fixpoint mark_seen (seen : list bool) (l : list (Z * Z)) : list bool :=
  match l with
  | [] => []
  | x :: r => (match seen with b :: _ => b | [] => false end || (fst x =? 10)) :: mark_seen (tl seen) r
  end.

(* some call for cache c, key k whose loader was invoked produces v *)
Fixpoint produced_by (cl : list call) (seen : list bool) (c k : nat) (v : Z) : bool :=
  match cl, seen with
  | (c', k', OVal v' _) :: cr, true :: sr => (Nat.eqb c' c && Nat.eqb k' k && (v' =? v)) || produced_by cr sr c k v
  | _ :: cr, _ :: sr => produced_by cr sr c k v
  | _, _ => false
  end.

(* coherence of one goroutine's visible status: a returned value is the value that a loader which was
   actually invoked (seen) produced for the same cache and key (its own one if its loader ran); an
   error/panic only comes out of the goroutine whose own loader produced it *)
Definition thr_ok (cl : list call) (seen : list bool) (cc : call) (mine : bool) (x : Z * Z) : bool :=
  let '(c, k, o) := cc in
  let code := fst x in
  if code =? 0 then
    (if mine
     then match o with OVal v _ => v =? snd x | _ => false end
     else produced_by cl seen c k (snd x))
  else if code =? 1 then mine && match o with OErr => true | _ => false end
  else if code =? 2 then mine && match o with OPanic => true | _ => false end
  else if code =? 10 then true
  else if code =? 11 then true
  else if code =? 12 then mine && match o with OVal _ _ => true | _ => false end
  else if code =? 13 then negb mine   (* a waiter before its retry has not run its own loader *)
  else false.

Fixpoint thrs_ok (cl_all : list call) (seen_all : list bool) (cl : list call) (seen : list bool) (l : list (Z * Z)) : bool :=
  match l, cl, seen with
  | [], _, _ => true
  | x :: r, cc :: cr, b :: sr => thr_ok cl_all seen_all cc b x && thrs_ok cl_all seen_all cr sr r
  | _, _, _ => false
  end.

Fixpoint nodupb (l : list nat) : bool :=
  match l with
  | [] => true
  | x :: r => negb (memb x r) && nodupb r
  end.

(* one load per key and epoch. An epoch ends with every effective cleaning pass and every Release (the only things
   that take an entry out of a payload map while its creator is still loading, or after it was saved). Inside an
   epoch the loads of one (cache, key) are strictly serialised, and after a successful one there is no further load:
   when a goroutine is first seen inside its loader, every OTHER goroutine of the same cache and key whose loader was
   seen in this epoch has failed (returned its own error / panicked). Evaluated on the observed statuses only.
   rows: (goroutine, cache, key, status code, loader seen in this epoch (incl. now), loader first seen now) *)
Fixpoint zip_rows (i : nat) (cl : list call) (thr : list (Z * Z)) (act new : list bool)
  : list (nat * nat * nat * Z * bool * bool) :=
  match cl, thr with
  | (c, k, _) :: cr, x :: tr =>
      (i, c, k, fst x, hd false act, hd false new) :: zip_rows (S i) cr tr (tl act) (tl new)
  | _, _ => []
  end.

Definition loads_ok (rows : list (nat * nat * nat * Z * bool * bool)) : bool :=
  forallb (fun rj => let '(j, cj, kj, _, _, nj) := rj in
    negb nj ||
    forallb (fun ri => let '(i, ci, ki, code, ai, _) := ri in
               Nat.eqb i j || negb ai || negb (Nat.eqb ci cj && Nat.eqb ki kj) || (code =? 1) || (code =? 2)) rows) rows.

(* new.(i) = seen'.(i) && not seen.(i);  act.(i) = inep.(i) || new.(i)  (positional, seen/inep may be shorter) *)
Fixpoint newly (seen seen' : list bool) : list bool :=
  match seen' with
  | [] => []
  | b :: r => (b && negb (hd false seen)) :: newly (tl seen) r
  end.
Fixpoint orl (a b : list bool) : list bool :=
  match b with
  | [] => []
  | y :: r => (hd false a || y) :: orl (tl a) r
  end.

Fixpoint spec_run (strict : bool) (lim : Z) (cl : list call) (evs : list ev) (impl : list obs)
                  (ncache ncall : nat) (rel : list nat) (seen inep : list bool) (inpass : bool) : bool :=
  match evs, impl with
  | [], [] => true
  | e :: er, o :: ir =>
      let ncache' := match e with ENew | ERelBucketsNew | ERotateNew | ECleanupNew => S ncache | _ => ncache end in
      let ncall' := match e with ECall _ _ _ => S ncall | EFill _ _ _ n _ _ => (ncall + n)%nat | _ => ncall end in
      let rel' := match e with ERelease c => c :: rel | _ => rel end in
      (* the loaders of a fill all run (fresh keys; the harness checks it) *)
      let seen' := mark_seen (seen ++ match e with EFill fresh _ _ n _ _ => repeat fresh n | _ => [] end) (o_thr o) in
      (* a cleaning pass parked between markStale and its sweeps: the stale generations are off the cleaner's list while
         their entries are still in the maps, so getSize = live sum is not required until the pass has swept *)
      let inpass' := match e, o_ret o with
                     | ECleanMark, 1 :: _ => true
                     | ECleanSweeps, _ => false
                     | _, _ => inpass
                     end in
      let new := newly seen seen' in
      let act := orl inep new in
      let inep' := match e, o_ret o with
                   | ECleanup, 1 :: _ | ECleanupNew, 1 :: _ => []
                   | ECleanSweeps, _ => []
                   | ERelease _, _ => []
                   | _, _ => act
                   end in
      (* coherence *)
      Nat.eqb (length (o_thr o)) ncall' && thrs_ok cl seen' cl seen' (o_thr o) &&
      (* single flight: one load per key and epoch *)
      loads_ok (zip_rows 0%nat cl (o_thr o) act new) &&
      (* accounting: the size the cleaner accounts = sum of live entries, by their size fields and by what they really
         occupy (also while savers are parked at the schedule point after save's unlock, while creators are inside
         their loaders, and while a cleaning pass is parked between markStale and its sweeps) *)
      (negb strict || inpass' || ((o_acct o =? o_live o) && (o_acct o =? o_occ o))) &&
      (negb strict || (o_live o =? o_occ o)) &&
      (* every cache that was not released is under the cleaner's management *)
      forallb (fun c => memb c rel' || memb c (o_bk o)) (seq 0 ncache') && nodupb (o_bk o) &&
      forallb (fun c => Nat.ltb c ncache') (o_bk o) &&
      (* a cleaning pass brings the accounted (= live) size under the limit *)
      match e, o_ret o with
      | ECleanup, 1 :: _ | ECleanupNew, 1 :: _ => (o_acct o <=? lim) && (negb strict || (o_live o <=? lim))
      | _, _ => true
      end &&
      spec_run strict lim cl er ir ncache' ncall' rel' seen' inep' inpass'
  | _, _ => false
  end.

Definition case_spec_ok (c : case) : bool :=
  match c with
  | CRun strict lim mg es evs impl gsizes snaps =>
      (mg =? lim / 20) && (0 <? es) &&
      (* at the end (nothing in flight): the current generation of every cache that was not released is the
         cleaner's last generation *)
      forallb (fun s => s_rel s || (s_cur s =? Z.of_nat (length gsizes) - 1)) snaps &&
      spec_run strict lim (calls_of evs) evs impl 0%nat 0%nat [] [] [] false
  end.

Definition diff_indices (l : list case) : list nat := bad_indices (fun c => negb (case_agrees c)) l.
Definition specfail_indices (l : list case) : list nat := bad_indices (fun c => negb (case_spec_ok c)) l.
