(* C18 — listing-level invariants: the cleaner's generation list is duplicate-free and non-stale and ends
   with lastGen; managed caches point at lastGen; every attached entry with a non-zero size (and every
   non-zero pending Add) belongs to a listed or stale generation. *)
From Coq Require Import List ZArith Bool Arith Lia Permutation.
From C18 Require Import Model ProofsRelease ProofsManaged ProofsCoherent ProofsAcct.
Import ListNotations.
Local Open Scope nat_scope.

Definition lst_or_stale (st : state) (g : nat) : Prop := In g (listed st) \/ gst g (gens st) = true.

Definition ent_lst (st : state) (en : entry) : Prop :=
  (0 <= esize en)%Z /\ is_released (caches st) (ecache en) = false /\ ecache en < length (caches st) /\
  (esize en <> 0%Z -> lst_or_stale st (egen en)).

Definition thr_lst (st : state) (th : thread) : Prop :=
  (forall v s, tout th = OVal v s -> (0 <= s)%Z) /\
  (forall g s v, tpc th = PAdd g s v -> s = 0%Z \/ lst_or_stale st g).

Record inv_lst (st : state) : Prop := {
  il_nodup : NoDup (listed st);
  il_ok : forall g, In g (listed st) -> g < length (gens st) /\ gst g (gens st) = false;
  il_last : exists l0, listed st = l0 ++ [lastgen st];
  il_cur : forall c ca, In c (buckets st) -> nth_error (caches st) c = Some ca -> ccur ca = lastgen st;
  il_ent : forall e en, nth_error (entries st) e = Some en -> eattached en = true -> ent_lst st en;
  il_thr : forall t th, nth_error (threads st) t = Some th -> thr_lst st th;
  il_esz : (0 <= esz st)%Z
}.

Lemma lastgen_listed st : inv_lst st -> In (lastgen st) (listed st).
Proof. intros I. destruct (il_last st I) as [l0 E]. rewrite E. apply in_or_app. right. left. auto. Qed.

(* frame: listed, stale flags, lastgen, caches, esz kept; buckets may shrink; entries / threads either
   unchanged in what matters or justified directly *)
Lemma inv_lst_frame st st' :
  listed st' = listed st -> length (gens st') = length (gens st) ->
  (forall g, gst g (gens st') = gst g (gens st)) ->
  lastgen st' = lastgen st -> incl (buckets st') (buckets st) -> caches st' = caches st -> esz st' = esz st ->
  (forall e en', nth_error (entries st') e = Some en' -> eattached en' = true ->
     (exists en, nth_error (entries st) e = Some en /\ eattached en = true /\ esize en' = esize en /\
                 ecache en' = ecache en /\ egen en' = egen en) \/ ent_lst st' en') ->
  (forall t th', nth_error (threads st') t = Some th' ->
     (exists th, nth_error (threads st) t = Some th /\ tout th' = tout th /\
                 (forall g s v, tpc th' = PAdd g s v -> tpc th = PAdd g s v)) \/ thr_lst st' th') ->
  inv_lst st -> inv_lst st'.
Proof.
  intros Hl Hlen Hst Hlast Hb Hc Hesz He Ht [N O L C E T Z].
  assert (LS : forall g, lst_or_stale st g -> lst_or_stale st' g).
  { intros g [A|B]; [left; rewrite Hl; auto|right; rewrite Hst; auto]. }
  split; rewrite ?Hl, ?Hlen, ?Hlast, ?Hc, ?Hesz; auto.
  - intros g Hg. rewrite Hst. auto.
  - intros c ca Hin Hn. apply (C c ca); auto.
  - intros e en' H1 H2. destruct (He e en' H1 H2) as [(en & A & B & S & K & G)|D]; auto.
    destruct (E e en A B) as (E1 & E2 & E3 & E4). unfold ent_lst. rewrite S, K, G, Hc. repeat split; auto.
  - intros t th' H1. destruct (Ht t th' H1) as [(th & A & O' & P)|D]; auto.
    destruct (T t th A) as [T1 T2]. split.
    + intros v s Hv. rewrite O' in Hv. eauto.
    + intros g s v Hp. destruct (T2 g s v (P g s v Hp)); auto.
Qed.

Lemma keep_ent st es' : (forall e en', nth_error es' e = Some en' -> eattached en' = true ->
     exists en, nth_error (entries st) e = Some en /\ eattached en = true /\ esize en' = esize en /\
                 ecache en' = ecache en /\ egen en' = egen en) ->
  forall e en', nth_error es' e = Some en' -> eattached en' = true ->
     (exists en, nth_error (entries st) e = Some en /\ eattached en = true /\ esize en' = esize en /\
                 ecache en' = ecache en /\ egen en' = egen en) \/ ent_lst (set_entries st es') en'.
Proof. intros H e en' A B. left. eauto. Qed.

Lemma same_ent st : forall e en', nth_error (entries st) e = Some en' -> eattached en' = true ->
     exists en, nth_error (entries st) e = Some en /\ eattached en = true /\ esize en' = esize en /\
                 ecache en' = ecache en /\ egen en' = egen en.
Proof. intros e en' A B. exists en'. auto. Qed.

Lemma same_thr st : forall t th', nth_error (threads st) t = Some th' ->
     exists th, nth_error (threads st) t = Some th /\ tout th' = tout th /\
                 (forall g s v, tpc th' = PAdd g s v -> tpc th = PAdd g s v).
Proof. intros t th' A. exists th'. auto. Qed.

(* entries changed by a pointwise function that only detaches / changes status *)
Lemma upd_ent_shrink es i f :
  (forall en, (eattached (f en) = true -> eattached en = true) /\ esize (f en) = esize en /\
              ecache (f en) = ecache en /\ egen (f en) = egen en) ->
  forall e en', nth_error (upd i f es) e = Some en' -> eattached en' = true ->
     exists en, nth_error es e = Some en /\ eattached en = true /\ esize en' = esize en /\
                 ecache en' = ecache en /\ egen en' = egen en.
Proof.
  intros Hf e en' H A. rewrite nth_error_upd in H. destruct (Nat.eqb i e).
  - destruct (nth_error es e) as [en|]; [|discriminate]. simpl in H. inversion H; subst.
    destruct (Hf en) as (F1 & F2 & F3 & F4). exists en. auto.
  - exists en'. auto.
Qed.

Lemma map_ent_shrink es f :
  (forall en, (eattached (f en) = true -> eattached en = true) /\ esize (f en) = esize en /\
              ecache (f en) = ecache en /\ egen (f en) = egen en) ->
  forall e en', nth_error (map f es) e = Some en' -> eattached en' = true ->
     exists en, nth_error es e = Some en /\ eattached en = true /\ esize en' = esize en /\
                 ecache en' = ecache en /\ egen en' = egen en.
Proof.
  intros Hf e en' H A. rewrite nth_error_map in H. destruct (nth_error es e) as [en|]; [|discriminate].
  simpl in H. inversion H; subst. destruct (Hf en) as (F1 & F2 & F3 & F4). exists en. auto.
Qed.

(* thread t gets a new pc which is not a (non-zero) PAdd, or is justified *)
Lemma set_pc_thr st t p th :
  nth_error (threads st) t = Some th ->
  (forall g s v, p = PAdd g s v -> tpc th = PAdd g s v) ->
  forall t' th', nth_error (set_pc t p (threads st)) t' = Some th' ->
     exists th0, nth_error (threads st) t' = Some th0 /\ tout th' = tout th0 /\
                 (forall g s v, tpc th' = PAdd g s v -> tpc th0 = PAdd g s v).
Proof.
  intros Hth Hp t' th' H. unfold set_pc in H. rewrite nth_error_upd in H. destruct (Nat.eqb_spec t t').
  - subst. rewrite Hth in H. simpl in H. inversion H; subst. exists th. simpl. auto.
  - exists th'. auto.
Qed.

Lemma managed_cur st c ca :
  inv_managed st -> inv_lst st -> nth_error (caches st) c = Some ca -> creleased ca = false ->
  ccur ca = lastgen st /\ In (ccur ca) (listed st).
Proof.
  intros M L Hc Hr. assert (Hin : In c (buckets st)).
  { apply (im_live st M); [apply nth_error_Some; congruence|]. unfold is_released. rewrite Hc. auto. }
  pose proof (il_cur st L c ca Hin Hc) as E. split; auto. rewrite E. apply lastgen_listed; auto.
Qed.

Lemma step_thread_lst var st t st' : v_recover_own var = true -> v_save_rehome var = true ->
  step_thread var st t = Some st' -> inv_managed st -> inv_coh st -> inv_acc st -> inv_lst st -> inv_lst st'.
Proof.
  unfold step_thread. intros Vown Vre H M IC IA L. rewrite Vown, Vre in H.
  destruct (nth_error (threads st) t) as [th|] eqn:Hth; [|discriminate].
  pose proof (ic_thr st IC t th Hth) as Tc. unfold thread_ok in Tc.
  pose proof (il_thr st L t th Hth) as [Tout Tp].
  destruct (tpc th) as [| i | i | g s v | r] eqn:Hpc; try discriminate.
  - (* PStart *)
    destruct (nth_error (caches st) (tcache th)) as [ca|] eqn:Hca; [|discriminate].
    destruct (creleased ca) eqn:Hrel; [discriminate|].
    destruct (managed_cur st _ ca M L Hca Hrel) as [Hcur Hcl].
    destruct (find_entry (tcache th) (tkey th) (entries st)) as [i|] eqn:Hf.
    + destruct (find_entry_some _ _ _ _ Hf) as (en & Hen & Hatt & Hc & Hk).
      rewrite Hen in H. unfold move_gen in H.
      set (p := match estat en with EValid => PDone (RVal (evalue en)) | _ => PWait i end) in *.
      assert (Hp : forall g s v, p = PAdd g s v -> tpc th = PAdd g s v).
      { intros g s v. unfold p. destruct (estat en); discriminate. }
      destruct (Nat.eqb (egen en) (ccur ca)); inversion H; subst st'; clear H.
      * apply (inv_lst_frame st); simpl; auto using incl_refl.
        -- intros e en' A B. left. apply same_ent; auto.
        -- intros t' th' A. left. eapply (set_pc_thr st t p th Hth Hp); exact A.
      * apply (inv_lst_frame st); simpl; auto using incl_refl.
        -- rewrite !gadd_length; auto.
        -- intros g. rewrite !gst_gadd. auto.
        -- intros e en' A B. rewrite nth_error_upd in A. destruct (Nat.eqb_spec i e).
           ++ subst e. rewrite Hen in A. simpl in A. inversion A; subst en'. right.
              destruct (il_ent st L i en Hen Hatt) as (E1 & E2 & E3 & E4).
              unfold ent_lst. simpl. repeat split; auto. intros _. left. simpl. auto.
           ++ left. exists en'. auto.
        -- intros t' th' A. left. eapply (set_pc_thr st t p th Hth Hp); exact A.
    + inversion H; subst st'; clear H.
      apply (inv_lst_frame st); simpl; auto using incl_refl.
      * intros e en' A B. destruct (Nat.lt_ge_cases e (length (entries st))).
        -- rewrite nth_error_app1 in A; auto. left. exists en'. auto.
        -- rewrite nth_error_app2 in A; auto. destruct (e - length (entries st)); simpl in A; [|destruct n; discriminate].
           inversion A; subst. right. unfold ent_lst. simpl. repeat split; try lia.
           ++ unfold is_released. rewrite Hca. auto.
           ++ apply nth_error_Some. congruence.
      * intros t' th' A. left. eapply (set_pc_thr st t _ th Hth); [|exact A]. intros; discriminate.
  - (* PWait *)
    destruct (nth_error (entries st) i) as [en|]; [|discriminate].
    destruct (estat en); [discriminate| |]; inversion H; subst st'; clear H;
      (apply (inv_lst_frame st); simpl; auto using incl_refl;
       [ intros e en' A B; left; apply same_ent; auto
       | intros t' th' A; left; eapply (set_pc_thr st t _ th Hth); [|exact A]; intros; discriminate ]).
  - (* PLoad *)
    destruct Tc as (en & Hen & Hc & Hk). rewrite Hen in H.
    pose proof (ia_ent st IA i en Hen) as (_ & _ & Hld).
    pose proof (ia_thr st IA t th Hth) as Tw. unfold twf in Tw. rewrite Hpc in Tw.
    destruct Tw as (en0 & Hen0 & Hst & _). rewrite Hen in Hen0. inversion Hen0; subst en0.
    destruct (tout th) as [v s| |] eqn:Hout.
    + destruct (nth_error (caches st) (tcache th)) as [ca|] eqn:Hca; [|discriminate].
      inversion H; subst st'; clear H.
      set (size := (if edeleted en then 0 else esz st + s)%Z) in *.
      assert (Hsz : (0 <= size)%Z).
      { unfold size. destruct (edeleted en); [lia|]. pose proof (il_esz st L). pose proof (Tout v s eq_refl). lia. }
      assert (Hlisted : size <> 0%Z -> eattached en = true /\ In (ccur ca) (listed st)).
      { intros Hnz. assert (A : eattached en = true).
        { destruct (Hld Hst) as [A|D]; auto. exfalso. apply Hnz. unfold size. rewrite D. auto. }
        split; auto. destruct (il_ent st L i en Hen A) as (_ & E2 & _ & _).
        rewrite Hc in E2. unfold is_released in E2. rewrite Hca in E2.
        apply (managed_cur st _ ca M L Hca E2). }
      apply (inv_lst_frame st); simpl; auto using incl_refl.
      * destruct (v_add_locked var); rewrite ?gadd_length; auto.
      * intros g. destruct (v_add_locked var); rewrite ?gst_gadd; auto.
      * intros e en' A B. rewrite nth_error_upd in A. destruct (Nat.eqb_spec i e).
        -- subst e. rewrite Hen in A. simpl in A. inversion A; subst en'. simpl in B. right.
           destruct (il_ent st L i en Hen B) as (E1 & E2 & E3 & E4).
           unfold ent_lst. simpl. repeat split; auto. intros Hnz. left. simpl. apply Hlisted; auto.
        -- left. exists en'. auto.
      * intros t' th' A. unfold set_pc in A. rewrite nth_error_upd in A. destruct (Nat.eqb_spec t t').
        -- subst t'. rewrite Hth in A. simpl in A. inversion A; subst th'. right. split; simpl.
           ++ intros v0 s0 E0. apply (Tout v0 s0). congruence.
           ++ intros g0 s0 v0 E0. inversion E0; subst.
              destruct (v_add_locked var); [left; auto|].
              destruct (Z.eq_dec size 0); [left; auto|right; left; simpl; apply Hlisted; auto].
        -- left. exists th'. auto.
    + inversion H; subst st'; clear H. unfold recover_entries.
      apply (inv_lst_frame st); simpl; auto using incl_refl.
      * intros e en' A B. left.
        destruct (upd_ent_shrink _ i abandon (fun x => conj (fun a => a) (conj eq_refl (conj eq_refl eq_refl))) e en' A B)
          as (en1 & A1 & B1 & S1 & K1 & G1).
        destruct (find_entry (tcache th) (tkey th) (entries st)) as [j|].
        -- match type of A1 with context [if ?b then _ else _] => destruct b end.
           ++ exists en1. auto.
           ++ destruct (upd_ent_shrink _ j detach (fun x => conj (fun a : eattached (detach x) = true => False_ind _ (Bool.diff_false_true a)) (conj eq_refl (conj eq_refl eq_refl))) e en1 A1 B1)
                as (en2 & A2 & B2 & S2 & K2 & G2).
              exists en2. repeat split; congruence.
        -- exists en1. auto.
      * intros t' th' A. left. eapply (set_pc_thr st t _ th Hth); [|exact A]. intros; discriminate.
    + inversion H; subst st'; clear H. unfold recover_entries.
      apply (inv_lst_frame st); simpl; auto using incl_refl.
      * intros e en' A B. left.
        destruct (upd_ent_shrink _ i abandon (fun x => conj (fun a => a) (conj eq_refl (conj eq_refl eq_refl))) e en' A B)
          as (en1 & A1 & B1 & S1 & K1 & G1).
        destruct (find_entry (tcache th) (tkey th) (entries st)) as [j|].
        -- match type of A1 with context [if ?b then _ else _] => destruct b end.
           ++ exists en1. auto.
           ++ destruct (upd_ent_shrink _ j detach (fun x => conj (fun a : eattached (detach x) = true => False_ind _ (Bool.diff_false_true a)) (conj eq_refl (conj eq_refl eq_refl))) e en1 A1 B1)
                as (en2 & A2 & B2 & S2 & K2 & G2).
              exists en2. repeat split; congruence.
        -- exists en1. auto.
      * intros t' th' A. left. eapply (set_pc_thr st t _ th Hth); [|exact A]. intros; discriminate.
  - (* PAdd *)
    inversion H; subst st'; clear H.
    apply (inv_lst_frame st); simpl; auto using incl_refl.
    + apply gadd_length.
    + intros g0. apply gst_gadd.
    + intros e en' A B. left. apply same_ent; auto.
    + intros t' th' A. left. eapply (set_pc_thr st t _ th Hth); [|exact A]. intros; discriminate.
Qed.

(* ---------------------------------------------------------------- generation list changes *)
Lemma gst_true_lt g gs : gst g gs = true -> g < length gs.
Proof. unfold gst. intros H. apply nth_error_Some. destruct (nth_error gs g); [discriminate|discriminate]. Qed.

Lemma gst_gmark_same g gs : g < length gs -> gst g (gmark g gs) = true.
Proof.
  intros H. unfold gst, gmark. rewrite nth_error_upd, Nat.eqb_refl.
  destruct (nth_error gs g) eqn:E; simpl; auto. apply nth_error_None in E. lia.
Qed.

Lemma gst_gmark_other g g' gs : g <> g' -> gst g' (gmark g gs) = gst g' gs.
Proof. intros H. unfold gst, gmark. rewrite nth_error_upd_other; auto. Qed.

Lemma gst_gmark_mono g g' gs : gst g' gs = true -> gst g' (gmark g gs) = true.
Proof.
  intros H. destruct (Nat.eq_dec g g'); [subst; apply gst_gmark_same; apply gst_true_lt; auto|].
  rewrite gst_gmark_other; auto.
Qed.

Lemma memb_In x l : In x l -> memb x l = true.
Proof.
  unfold memb. intros H. apply existsb_exists. exists x. split; auto. apply Nat.eqb_refl.
Qed.

Lemma nodup_snoc {A} (l : list A) x : NoDup l -> ~ In x l -> NoDup (l ++ [x]).
Proof.
  induction l; simpl; intros N H.
  - constructor; auto.
  - inversion N; subst. constructor.
    + intros Hin. apply in_app_or in Hin. destruct Hin as [?|[?|[]]]; [auto|subst; apply H; auto].
    + apply IHl; auto.
Qed.

Lemma inv_lst_rotate st : inv_lst st -> inv_lst (rotate st).
Proof.
  intros [N O L C E T Z].
  assert (LS : forall g, lst_or_stale st g -> lst_or_stale (rotate st) g).
  { intros g [A|B]; [left; simpl; apply in_or_app; auto|right; simpl].
    rewrite gst_app; auto. apply gst_true_lt; auto. }
  split; simpl; auto.
  - apply nodup_snoc; auto. intros Hin. destruct (O _ Hin). lia.
  - intros g Hg. rewrite app_length. simpl. apply in_app_or in Hg. destruct Hg as [Hg|[<-|[]]].
    + destruct (O g Hg). split; [lia|]. rewrite gst_app; auto.
    + split; [lia|]. unfold gst. rewrite nth_error_app2, Nat.sub_diag; auto.
  - exists (listed st). auto.
  - intros c ca Hin Hc. rewrite nth_error_mapi_from in Hc. destruct (nth_error (caches st) c); [|discriminate].
    simpl in Hc. rewrite (memb_In _ _ Hin) in Hc. inversion Hc; subst. auto.
  - intros e en He A. destruct (E e en He A) as (E1 & E2 & E3 & E4). unfold ent_lst.
    rewrite is_released_rotate, rotate_caches_length. repeat split; auto.
  - intros t th Ht. destruct (T t th Ht) as [T1 T2]. split; auto.
    intros g s v Hp. destruct (T2 g s v Hp); auto.
Qed.
