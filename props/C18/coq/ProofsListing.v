(* C18 — listing-level invariants: the cleaner's generation list is duplicate-free and non-stale and ends
   with lastGen; managed caches point at lastGen; every attached entry with a non-zero size (and every
   non-zero pending Add) belongs to a listed or stale generation. *)
From Coq Require Import List ZArith Bool Arith Lia Permutation.
From C18 Require Import Model ProofsRelease ProofsManaged ProofsCoherent ProofsAcct.
Import ListNotations.
Local Open Scope nat_scope.

Definition lst_or_stale (st : state) (g : nat) : Prop := In g (listed st) \/ gst g (gens st) = true.

Definition ent_lst (st : state) (en : entry) : Prop :=
  (0 <= esize en)%Z /\ is_released (caches st) (ecache en) = false /\ ecache en < length (caches st) /\
  (esize en <> 0%Z -> lst_or_stale st (egen en)).

Definition thr_lst (st : state) (th : thread) : Prop :=
  (forall v s, tout th = OVal v s -> (0 <= s)%Z) /\
  (forall g s v, tpc th = PAdd g s v -> s = 0%Z).

Record inv_lst (st : state) : Prop := {
  il_nodup : NoDup (listed st);
  il_ok : forall g, In g (listed st) -> g < length (gens st) /\ gst g (gens st) = false;
  il_last : exists l0, listed st = l0 ++ [lastgen st];
  il_cur : forall c ca, In c (buckets st) -> nth_error (caches st) c = Some ca -> ccur ca = lastgen st;
  il_ent : forall e en, nth_error (entries st) e = Some en -> eattached en = true -> ent_lst st en;
  il_thr : forall t th, nth_error (threads st) t = Some th -> thr_lst st th;
  il_esz : (0 <= esz st)%Z
}.

Lemma lastgen_listed st : inv_lst st -> In (lastgen st) (listed st).
Proof. intros I. destruct (il_last st I) as [l0 E]. rewrite E. apply in_or_app. right. left. auto. Qed.

(* frame: listed, stale flags, lastgen, caches, esz kept; buckets may shrink; entries / threads either
   unchanged in what matters or justified directly *)
Lemma inv_lst_frame st st' :
  listed st' = listed st -> length (gens st') = length (gens st) ->
  (forall g, gst g (gens st') = gst g (gens st)) ->
  lastgen st' = lastgen st -> incl (buckets st') (buckets st) -> caches st' = caches st -> esz st' = esz st ->
  (forall e en', nth_error (entries st') e = Some en' -> eattached en' = true ->
     (exists en, nth_error (entries st) e = Some en /\ eattached en = true /\ esize en' = esize en /\
                 ecache en' = ecache en /\ egen en' = egen en) \/ ent_lst st' en') ->
  (forall t th', nth_error (threads st') t = Some th' ->
     (exists th, nth_error (threads st) t = Some th /\ tout th' = tout th /\
                 (forall g s v, tpc th' = PAdd g s v -> tpc th = PAdd g s v)) \/ thr_lst st' th') ->
  inv_lst st -> inv_lst st'.
Proof.
  intros Hl Hlen Hst Hlast Hb Hc Hesz He Ht [N O L C E T Z].
  assert (LS : forall g, lst_or_stale st g -> lst_or_stale st' g).
  { intros g [A|B]; [left; rewrite Hl; auto|right; rewrite Hst; auto]. }
  split; rewrite ?Hl, ?Hlen, ?Hlast, ?Hc, ?Hesz; auto.
  - intros g Hg. rewrite Hst. auto.
  - intros c ca Hin Hn. apply (C c ca); auto.
  - intros e en' H1 H2. destruct (He e en' H1 H2) as [(en & A & B & S & K & G)|D]; auto.
    destruct (E e en A B) as (E1 & E2 & E3 & E4). unfold ent_lst. rewrite S, K, G, Hc. repeat split; auto.
  - intros t th' H1. destruct (Ht t th' H1) as [(th & A & O' & P)|D]; auto.
    destruct (T t th A) as [T1 T2]. split.
    + intros v s Hv. rewrite O' in Hv. eauto.
    + intros g s v Hp. apply (T2 g s v (P g s v Hp)).
Qed.

Lemma keep_ent st es' : (forall e en', nth_error es' e = Some en' -> eattached en' = true ->
     exists en, nth_error (entries st) e = Some en /\ eattached en = true /\ esize en' = esize en /\
                 ecache en' = ecache en /\ egen en' = egen en) ->
  forall e en', nth_error es' e = Some en' -> eattached en' = true ->
     (exists en, nth_error (entries st) e = Some en /\ eattached en = true /\ esize en' = esize en /\
                 ecache en' = ecache en /\ egen en' = egen en) \/ ent_lst (set_entries st es') en'.
Proof. intros H e en' A B. left. eauto. Qed.

Lemma same_ent st : forall e en', nth_error (entries st) e = Some en' -> eattached en' = true ->
     exists en, nth_error (entries st) e = Some en /\ eattached en = true /\ esize en' = esize en /\
                 ecache en' = ecache en /\ egen en' = egen en.
Proof. intros e en' A B. exists en'. auto. Qed.

Lemma same_thr st : forall t th', nth_error (threads st) t = Some th' ->
     exists th, nth_error (threads st) t = Some th /\ tout th' = tout th /\
                 (forall g s v, tpc th' = PAdd g s v -> tpc th = PAdd g s v).
Proof. intros t th' A. exists th'. auto. Qed.

(* entries changed by a pointwise function that only detaches / changes status *)
Lemma upd_ent_shrink es i f :
  (forall en, (eattached (f en) = true -> eattached en = true) /\ esize (f en) = esize en /\
              ecache (f en) = ecache en /\ egen (f en) = egen en) ->
  forall e en', nth_error (upd i f es) e = Some en' -> eattached en' = true ->
     exists en, nth_error es e = Some en /\ eattached en = true /\ esize en' = esize en /\
                 ecache en' = ecache en /\ egen en' = egen en.
Proof.
  intros Hf e en' H A. rewrite nth_error_upd in H. destruct (Nat.eqb i e).
  - destruct (nth_error es e) as [en|]; [|discriminate]. simpl in H. inversion H; subst.
    destruct (Hf en) as (F1 & F2 & F3 & F4). exists en. auto.
  - exists en'. auto.
Qed.

Lemma map_ent_shrink es f :
  (forall en, (eattached (f en) = true -> eattached en = true) /\ esize (f en) = esize en /\
              ecache (f en) = ecache en /\ egen (f en) = egen en) ->
  forall e en', nth_error (map f es) e = Some en' -> eattached en' = true ->
     exists en, nth_error es e = Some en /\ eattached en = true /\ esize en' = esize en /\
                 ecache en' = ecache en /\ egen en' = egen en.
Proof.
  intros Hf e en' H A. rewrite nth_error_map in H. destruct (nth_error es e) as [en|]; [|discriminate].
  simpl in H. inversion H; subst. destruct (Hf en) as (F1 & F2 & F3 & F4). exists en. auto.
Qed.

(* thread t gets a new pc which is not a (non-zero) PAdd, or is justified *)
Lemma set_pc_thr st t p th :
  nth_error (threads st) t = Some th ->
  (forall g s v, p = PAdd g s v -> tpc th = PAdd g s v) ->
  forall t' th', nth_error (set_pc t p (threads st)) t' = Some th' ->
     exists th0, nth_error (threads st) t' = Some th0 /\ tout th' = tout th0 /\
                 (forall g s v, tpc th' = PAdd g s v -> tpc th0 = PAdd g s v).
Proof.
  intros Hth Hp t' th' H. unfold set_pc in H. rewrite nth_error_upd in H. destruct (Nat.eqb_spec t t').
  - subst. rewrite Hth in H. simpl in H. inversion H; subst. exists th. simpl. auto.
  - exists th'. auto.
Qed.

Lemma managed_cur st c ca :
  inv_managed st -> inv_lst st -> nth_error (caches st) c = Some ca -> creleased ca = false ->
  ccur ca = lastgen st /\ In (ccur ca) (listed st).
Proof.
  intros M L Hc Hr. assert (Hin : In c (buckets st)).
  { apply (im_live st M); [apply nth_error_Some; congruence|]. unfold is_released. rewrite Hc. auto. }
  pose proof (il_cur st L c ca Hin Hc) as E. split; auto. rewrite E. apply lastgen_listed; auto.
Qed.

Lemma step_thread_lst var st t st' : v_recover_own var = true -> v_save_rehome var = true -> v_add_locked var = true ->
  v_retry_recheck var = true -> v_save_deleted_only var = true ->
  step_thread var st t = Some st' -> inv_managed st -> inv_coh st -> inv_acc st -> inv_lst st -> inv_lst st'.
Proof.
  unfold step_thread. intros Vown Vre Vadd Vrt Vdel H M IC IA L. rewrite Vown, Vre, Vadd in H.
  destruct (nth_error (threads st) t) as [th|] eqn:Hth; [|discriminate].
  pose proof (ic_thr st IC t th Hth) as Tc. unfold thread_ok in Tc.
  pose proof (il_thr st L t th Hth) as [Tout Tp].
  destruct (tpc th) as [rt | i | i | g s v | r] eqn:Hpc; try discriminate.
  - (* PStart *)
    destruct (nth_error (caches st) (tcache th)) as [ca|] eqn:Hca; [|discriminate].
    destruct (creleased ca) eqn:Hrel; [discriminate|]. rewrite (blind_retry_off var rt Vrt) in H.
    destruct (managed_cur st _ ca M L Hca Hrel) as [Hcur Hcl].
    destruct (find_entry (tcache th) (tkey th) (entries st)) as [i|] eqn:Hf.
    + destruct (find_entry_some _ _ _ _ Hf) as (en & Hen & Hatt & Hc & Hk).
      rewrite Hen in H. unfold move_gen in H.
      set (p := match estat en with EValid => PDone (RVal (evalue en)) | _ => PWait i end) in *.
      assert (Hp : forall g s v, p = PAdd g s v -> tpc th = PAdd g s v).
      { intros g s v. unfold p. destruct (estat en); discriminate. }
      destruct (Nat.eqb (egen en) (ccur ca)); inversion H; subst st'; clear H.
      * apply (inv_lst_frame st); simpl; auto using incl_refl.
        -- intros e en' A B. left. apply same_ent; auto.
        -- intros t' th' A. left. eapply (set_pc_thr st t p th Hth Hp); exact A.
      * apply (inv_lst_frame st); simpl; auto using incl_refl.
        -- rewrite !gadd_length; auto.
        -- intros g. rewrite !gst_gadd. auto.
        -- intros e en' A B. rewrite nth_error_upd in A. destruct (Nat.eqb_spec i e).
           ++ subst e. rewrite Hen in A. simpl in A. inversion A; subst en'. right.
              destruct (il_ent st L i en Hen Hatt) as (E1 & E2 & E3 & E4).
              unfold ent_lst. simpl. repeat split; auto. intros _. left. simpl. auto.
           ++ left. exists en'. auto.
        -- intros t' th' A. left. eapply (set_pc_thr st t p th Hth Hp); exact A.
    + inversion H; subst st'; clear H.
      apply (inv_lst_frame st); simpl; auto using incl_refl.
      * intros e en' A B. destruct (Nat.lt_ge_cases e (length (entries st))).
        -- rewrite nth_error_app1 in A; auto. left. exists en'. auto.
        -- rewrite nth_error_app2 in A; auto. destruct (e - length (entries st)); simpl in A; [|destruct n; discriminate].
           inversion A; subst. right. unfold ent_lst. simpl. repeat split; try lia.
           ++ unfold is_released. rewrite Hca. auto.
           ++ apply nth_error_Some. congruence.
      * intros t' th' A. left. eapply (set_pc_thr st t _ th Hth); [|exact A]. intros; discriminate.
  - (* PWait *)
    destruct (nth_error (entries st) i) as [en|]; [|discriminate].
    destruct (estat en); [discriminate| |]; inversion H; subst st'; clear H;
      (apply (inv_lst_frame st); simpl; auto using incl_refl;
       [ intros e en' A B; left; apply same_ent; auto
       | intros t' th' A; left; eapply (set_pc_thr st t _ th Hth); [|exact A]; intros; discriminate ]).
  - (* PLoad *)
    destruct Tc as (en & Hen & Hc & Hk). rewrite Hen in H.
    pose proof (ia_ent st IA i en Hen) as (_ & _ & Hld).
    pose proof (ia_thr st IA t th Hth) as Tw. unfold twf in Tw. rewrite Hpc in Tw.
    destruct Tw as (en0 & Hen0 & Hst & _). rewrite Hen in Hen0. inversion Hen0; subst en0.
    destruct (tout th) as [v s| |] eqn:Hout.
    + destruct (nth_error (caches st) (tcache th)) as [ca|] eqn:Hca; [|discriminate].
      rewrite (stale_zero_off var _ Vdel), orb_false_r in H.
      inversion H; subst st'; clear H.
      set (size := (if edeleted en then 0 else esz st + s)%Z) in *.
      assert (Hsz : (0 <= size)%Z).
      { unfold size. destruct (edeleted en); [lia|]. pose proof (il_esz st L). pose proof (Tout v s eq_refl). lia. }
      assert (Hlisted : size <> 0%Z -> eattached en = true /\ In (ccur ca) (listed st)).
      { intros Hnz. assert (A : eattached en = true).
        { destruct (Hld Hst) as [A|D]; auto. exfalso. apply Hnz. unfold size. rewrite D. auto. }
        split; auto. destruct (il_ent st L i en Hen A) as (_ & E2 & _ & _).
        rewrite Hc in E2. unfold is_released in E2. rewrite Hca in E2.
        apply (managed_cur st _ ca M L Hca E2). }
      apply (inv_lst_frame st); simpl; auto using incl_refl.
      * rewrite ?gadd_length; auto.
      * intros g. rewrite ?gst_gadd; auto.
      * intros e en' A B. rewrite nth_error_upd in A. destruct (Nat.eqb_spec i e).
        -- subst e. rewrite Hen in A. simpl in A. inversion A; subst en'. simpl in B. right.
           destruct (il_ent st L i en Hen B) as (E1 & E2 & E3 & E4).
           unfold ent_lst. simpl. repeat split; auto. intros Hnz. left. simpl. apply Hlisted; auto.
        -- left. exists en'. auto.
      * intros t' th' A. unfold set_pc in A. rewrite nth_error_upd in A. destruct (Nat.eqb_spec t t').
        -- subst t'. rewrite Hth in A. simpl in A. inversion A; subst th'. right. split; simpl.
           ++ intros v0 s0 E0. apply (Tout v0 s0). congruence.
           ++ intros g0 s0 v0 E0. inversion E0; subst. auto.
        -- left. exists th'. auto.
    + inversion H; subst st'; clear H. unfold recover_entries.
      apply (inv_lst_frame st); simpl; auto using incl_refl.
      * intros e en' A B. left.
        destruct (upd_ent_shrink _ i abandon (fun x => conj (fun a => a) (conj eq_refl (conj eq_refl eq_refl))) e en' A B)
          as (en1 & A1 & B1 & S1 & K1 & G1).
        destruct (find_entry (tcache th) (tkey th) (entries st)) as [j|].
        -- match type of A1 with context [if ?b then _ else _] => destruct b end.
           ++ exists en1. auto.
           ++ destruct (upd_ent_shrink _ j detach (fun x => conj (fun a : eattached (detach x) = true => False_ind _ (Bool.diff_false_true a)) (conj eq_refl (conj eq_refl eq_refl))) e en1 A1 B1)
                as (en2 & A2 & B2 & S2 & K2 & G2).
              exists en2. repeat split; congruence.
        -- exists en1. auto.
      * intros t' th' A. left. eapply (set_pc_thr st t _ th Hth); [|exact A]. intros; discriminate.
    + inversion H; subst st'; clear H. unfold recover_entries.
      apply (inv_lst_frame st); simpl; auto using incl_refl.
      * intros e en' A B. left.
        destruct (upd_ent_shrink _ i abandon (fun x => conj (fun a => a) (conj eq_refl (conj eq_refl eq_refl))) e en' A B)
          as (en1 & A1 & B1 & S1 & K1 & G1).
        destruct (find_entry (tcache th) (tkey th) (entries st)) as [j|].
        -- match type of A1 with context [if ?b then _ else _] => destruct b end.
           ++ exists en1. auto.
           ++ destruct (upd_ent_shrink _ j detach (fun x => conj (fun a : eattached (detach x) = true => False_ind _ (Bool.diff_false_true a)) (conj eq_refl (conj eq_refl eq_refl))) e en1 A1 B1)
                as (en2 & A2 & B2 & S2 & K2 & G2).
              exists en2. repeat split; congruence.
        -- exists en1. auto.
      * intros t' th' A. left. eapply (set_pc_thr st t _ th Hth); [|exact A]. intros; discriminate.
  - (* PAdd *)
    inversion H; subst st'; clear H.
    apply (inv_lst_frame st); simpl; auto using incl_refl.
    + apply gadd_length.
    + intros g0. apply gst_gadd.
    + intros e en' A B. left. apply same_ent; auto.
    + intros t' th' A. left. eapply (set_pc_thr st t _ th Hth); [|exact A]. intros; discriminate.
Qed.

(* ---------------------------------------------------------------- generation list changes *)
Lemma gst_true_lt g gs : gst g gs = true -> g < length gs.
Proof. unfold gst. intros H. apply nth_error_Some. destruct (nth_error gs g); [discriminate|discriminate]. Qed.

Lemma gst_gmark_same g gs : g < length gs -> gst g (gmark g gs) = true.
Proof.
  intros H. unfold gst, gmark. rewrite nth_error_upd, Nat.eqb_refl.
  destruct (nth_error gs g) eqn:E; simpl; auto. apply nth_error_None in E. lia.
Qed.

Lemma gst_gmark_other g g' gs : g <> g' -> gst g' (gmark g gs) = gst g' gs.
Proof. intros H. unfold gst, gmark. rewrite nth_error_upd_other; auto. Qed.

Lemma gst_gmark_mono g g' gs : gst g' gs = true -> gst g' (gmark g gs) = true.
Proof.
  intros H. destruct (Nat.eq_dec g g'); [subst; apply gst_gmark_same; apply gst_true_lt; auto|].
  rewrite gst_gmark_other; auto.
Qed.

Lemma memb_In x l : In x l -> memb x l = true.
Proof.
  unfold memb. intros H. apply existsb_exists. exists x. split; auto. apply Nat.eqb_refl.
Qed.

Lemma nodup_snoc {A} (l : list A) x : NoDup l -> ~ In x l -> NoDup (l ++ [x]).
Proof.
  induction l; simpl; intros N H.
  - constructor; auto.
  - inversion N; subst. constructor.
    + intros Hin. apply in_app_or in Hin. destruct Hin as [?|[?|[]]]; [auto|subst; apply H; auto].
    + apply IHl; auto.
Qed.

Lemma inv_lst_rotate st : inv_lst st -> inv_lst (rotate st).
Proof.
  intros [N O L C E T Z].
  assert (LS : forall g, lst_or_stale st g -> lst_or_stale (rotate st) g).
  { intros g [A|B]; [left; simpl; apply in_or_app; auto|right; simpl].
    rewrite gst_app; auto. apply gst_true_lt; auto. }
  split; simpl; auto.
  - apply nodup_snoc; auto. intros Hin. destruct (O _ Hin). lia.
  - intros g Hg. rewrite app_length. simpl. apply in_app_or in Hg. destruct Hg as [Hg|[<-|[]]].
    + destruct (O g Hg). split; [lia|]. rewrite gst_app; auto.
    + split; [lia|]. unfold gst. rewrite nth_error_app2, Nat.sub_diag; auto.
  - exists (listed st). auto.
  - intros c ca Hin Hc. rewrite nth_error_mapi_from in Hc. destruct (nth_error (caches st) c); [|discriminate].
    simpl in Hc. rewrite (memb_In _ _ Hin) in Hc. inversion Hc; subst. auto.
  - intros e en He A. destruct (E e en He A) as (E1 & E2 & E3 & E4). unfold ent_lst.
    rewrite is_released_rotate, rotate_caches_length. repeat split; auto.
Qed.

(* markStale's elementary move: pop the oldest listed generation (not the last one) and mark it stale *)
Lemma inv_lst_pop st g r :
  listed st = g :: r -> r <> [] -> inv_lst st -> inv_lst (set_gens (set_listed st r) (gmark g (gens st))).
Proof.
  intros Hl Hr [N O L C E T Z]. rewrite Hl in *.
  inversion N as [|? ? Hnotin Nr]; subst.
  assert (Hg : g < length (gens st)) by (apply (O g); left; auto).
  assert (LS : forall x, lst_or_stale st x -> lst_or_stale (set_gens (set_listed st r) (gmark g (gens st))) x).
  { intros x [A|B]; simpl.
    - rewrite Hl in A. destruct A as [<-|A]; [right; simpl; apply gst_gmark_same; auto|left; auto].
    - right. simpl. apply gst_gmark_mono; auto. }
  split; simpl; auto.
  - intros x Hx. unfold gmark. rewrite upd_length. destruct (O x (or_intror Hx)). split; auto.
    fold (gmark g (gens st)). rewrite gst_gmark_other; auto. intros ->. auto.
  - destruct L as [l0 L]. destruct l0 as [|a l0]; simpl in L.
    + inversion L; subst. contradiction.
    + inversion L; subst. exists l0. auto.
  - intros e en He A. destruct (E e en He A) as (E1 & E2 & E3 & E4). unfold ent_lst. simpl. repeat split; auto.
Qed.

Lemma ms_loop_lst : forall l st bytes need n, listed st = l -> inv_lst st ->
  inv_lst (set_gens (set_listed st (fst (fst (fst (ms_loop l bytes need (gens st) n)))))
                    (snd (fst (ms_loop l bytes need (gens st) n)))).
Proof.
  induction l as [|g l IH]; intros st bytes need n Hl I; simpl.
  - apply (inv_lst_frame st); simpl; auto using incl_refl.
    + intros e en' A B. left. apply same_ent; auto.
    + intros t th' A. left. apply same_thr; auto.
  - destruct l as [|g2 l2].
    + simpl. apply (inv_lst_frame st); simpl; auto using incl_refl.
      * intros e en' A B. left. apply same_ent; auto.
      * intros t th' A. left. apply same_thr; auto.
    + destruct (bytes <? need)%Z.
      * pose proof (inv_lst_pop st g (g2 :: l2) Hl ltac:(discriminate) I) as I1.
        specialize (IH (set_gens (set_listed st (g2 :: l2)) (gmark g (gens st))) (bytes + gsz g (gens st))%Z need (S n) eq_refl I1).
        exact IH.
      * simpl. apply (inv_lst_frame st); simpl; auto using incl_refl.
        -- intros e en' A B. left. apply same_ent; auto.
        -- intros t th' A. left. apply same_thr; auto.
Qed.

Lemma mark_stale_lst need st : inv_lst st -> inv_lst (fst (mark_stale need st)).
Proof.
  intros I. unfold mark_stale.
  pose proof (ms_loop_lst (listed st) st 0%Z need 0 eq_refl I) as I1.
  destruct (ms_loop (listed st) 0 need (gens st) 0) as [[[l bytes] gs] n]. simpl in I1. cbv zeta.
  set (st1 := set_gens (set_listed st l) gs) in *.
  destruct (Z.ltb bytes need); [|exact I1].
  pose proof (inv_lst_rotate st1 I1) as I2.
  assert (Hl2 : exists g r, listed (rotate st1) = g :: r /\ r <> []).
  { destruct (il_last st1 I1) as [l0 E]. unfold rotate. simpl. simpl in E. rewrite E.
    destruct l0 as [|a l0]; simpl.
    - eexists. eexists. split; [reflexivity|discriminate].
    - eexists. eexists. split; [reflexivity|]. destruct l0; discriminate. }
  destruct Hl2 as (g & r & E & Hr).
  set (st2 := rotate st1) in *. clearbody st2. rewrite E. simpl.
  apply inv_lst_pop; auto.
Qed.

(* ---------------------------------------------------------------- all steps *)
Definition label_ok (l : label) : Prop :=
  match l with LSpawn _ _ (OVal _ s) => (0 <= s)%Z | _ => True end.

Lemma zsum_nonneg_zero {A} (f : A -> Z) : forall l, (forall x, In x l -> (0 <= f x)%Z) -> zsum (map f l) = 0%Z ->
  forall x, In x l -> f x = 0%Z.
Proof.
  induction l; simpl; intros Hn Hz x Hx; [tauto|].
  assert (0 <= f a)%Z by auto. assert (0 <= zsum (map f l))%Z.
  { clear - Hn. induction l; simpl; [lia|]. assert (0 <= f a0)%Z by (apply Hn; simpl; auto).
    assert (0 <= zsum (map f l))%Z by (apply IHl; intros; apply Hn; simpl in *; tauto). lia. }
  destruct Hx as [<-|Hx]; [lia|]. apply IHl; auto. lia.
Qed.

Lemma pend_sum_zero g ths : (forall th, In th ths -> forall g' s v, tpc th = PAdd g' s v -> s = 0%Z) -> pend_sum g ths = 0%Z.
Proof.
  unfold pend_sum. induction ths; simpl; intros H; auto.
  rewrite IHths by (intros; eapply H; simpl; eauto).
  unfold pend_term. destruct (tpc a) eqn:P; auto. rewrite (H a (or_introl eq_refl) _ _ _ P). destruct (Nat.eqb g0 g); auto.
Qed.

Lemma nodup_filter_snoc (f : nat -> bool) l0 x : NoDup (l0 ++ [x]) -> NoDup (filter f l0 ++ [x]).
Proof.
  intros N. pose proof (NoDup_remove_1 l0 [] x N) as N1. pose proof (NoDup_remove_2 l0 [] x N) as N2.
  rewrite app_nil_r in N1, N2. apply nodup_snoc.
  - apply NoDup_filter. auto.
  - intros Hin. apply filter_In in Hin. tauto.
Qed.

Lemma gc_gens_lst st : inv_acc st -> inv_lst st -> inv_lst (gc_gens st).
Proof.
  intros IA I. pose proof I as [N O L C E T Z]. destruct L as [l0 L].
  unfold gc_gens. rewrite L. rewrite removelast_last, last_last.
  set (f := fun g => negb (gsz g (gens st) =? 0)%Z) in *.
  assert (LS : forall g, lst_or_stale st g -> (In g l0 -> f g = true) ->
            lst_or_stale (set_ret (set_listed st (filter f l0 ++ [lastgen st])) [Z.of_nat (length (l0 ++ [lastgen st]) - length (filter f l0 ++ [lastgen st]))]) g).
  { intros g [A|B] Hf; [|right; auto]. left. simpl. rewrite L in A. apply in_app_or in A. apply in_or_app.
    destruct A as [A|A]; auto. left. apply filter_In. auto. }
  split; simpl; auto.
  - rewrite L in N. apply nodup_filter_snoc; auto.
  - intros g Hg. apply O. rewrite L. apply in_app_or in Hg. apply in_or_app. destruct Hg as [Hg|Hg]; auto.
    apply filter_In in Hg. tauto.
  - eexists. reflexivity.
  - intros e en He A. destruct (E e en He A) as (E1 & E2 & E3 & E4). unfold ent_lst. simpl. repeat split; auto.
    intros Hnz. apply LS; auto. intros Hin. destruct (f (egen en)) eqn:Hf; auto. exfalso.
    (* the generation would be dropped: its counter is 0 and nothing is pending, so its attached entries are empty *)
    assert (Hg : egen en < length (gens st) /\ gst (egen en) (gens st) = false).
    { apply O. rewrite L. apply in_or_app. auto. }
    pose proof (ia_acc st IA (egen en) (proj1 Hg) (proj2 Hg)) as Acc.
    rewrite (pend_sum_zero (egen en) (threads st)) in Acc.
    2:{ intros th Hth g' s v Hp. apply In_nth_error in Hth. destruct Hth as [t Ht]. apply (proj2 (T t th Ht) g' s v Hp). }
    unfold f in Hf. apply negb_false_iff in Hf. apply Z.eqb_eq in Hf. rewrite Hf in Acc.
    assert (att_term (egen en) en = 0%Z).
    { apply (zsum_nonneg_zero (att_term (egen en)) (entries st)).
      - intros x Hx. unfold att_term. destruct (eattached x) eqn:Ax; simpl; [|lia].
        destruct (Nat.eqb (egen x) (egen en)); [|lia].
        apply In_nth_error in Hx. destruct Hx as [k Hk]. apply (E k x Hk Ax).
      - unfold att_sum in Acc. lia.
      - eapply nth_error_In; eauto. }
    unfold att_term in H. rewrite A, Nat.eqb_refl in H. simpl in H. auto.
Qed.

Lemma step_lst st l st' : step st l = Some st' -> racy st l = false -> label_ok l ->
  inv_managed st -> inv_coh st -> inv_acc st -> inv_lst st -> inv_lst st'.
Proof.
  intros H R LO M IC IA I. destruct l; simpl in H.
  - (* Spawn *) inversion H; subst st'; clear H.
    apply (inv_lst_frame st); simpl; auto using incl_refl.
    + intros e en' A B. left. apply same_ent; auto.
    + intros t th' A. destruct (Nat.lt_ge_cases t (length (threads st))).
      * rewrite nth_error_app1 in A; auto. left. exists th'. auto.
      * rewrite nth_error_app2 in A; auto. destruct (t - length (threads st)); simpl in A; [|destruct n; discriminate].
        inversion A; subst. right. split; simpl.
        -- intros v s E. subst o. simpl in LO. auto.
        -- intros; discriminate.
  - eapply (step_thread_lst repaired); eauto.
  - (* NewCache *) inversion H; subst st'; clear H. pose proof I as [N O L C E T Z]. unfold new_cache.
    split; simpl; auto.
    + intros c ca Hin Hc. apply in_app_or in Hin. destruct Hin as [Hin|[<-|[]]].
      * pose proof (im_dom st M c Hin). rewrite nth_error_app1 in Hc; eauto.
      * rewrite nth_error_app2, Nat.sub_diag in Hc; auto. inversion Hc; subst. auto.
    + intros e en He A. destruct (E e en He A) as (E1 & E2 & E3 & E4). unfold ent_lst. simpl.
      rewrite is_released_app, app_length; auto. repeat split; auto. lia.
  - (* Release *) destruct (Nat.ltb c (length (caches st))); [|discriminate]. inversion H; subst st'; clear H.
    pose proof I as [N O L C E T Z].
    destruct (release_sub_spec c (entries st) (gens st)) as [Len S].
    { intros e He. apply In_nth_error in He. destruct He as [n He]. apply (ia_ent st IA n e He). }
    assert (LS : forall g, lst_or_stale st g -> lst_or_stale (release c st) g).
    { intros g [A|B]; [left; auto|right; simpl]. destruct (S g) as [S1 _]. rewrite S1. auto. }
    unfold release in *. split; simpl; rewrite ?Len; auto.
    + intros g Hg. destruct (S g) as [S1 _]. rewrite S1. auto.
    + intros c0 ca Hin Hc. rewrite nth_error_upd in Hc. destruct (Nat.eqb c c0); eauto.
      destruct (nth_error (caches st) c0) eqn:E0; [|discriminate]. simpl in Hc. inversion Hc; subst. simpl. eauto.
    + intros e en' He A. rewrite nth_error_map in He. destruct (nth_error (entries st) e) as [en|] eqn:E0; [|discriminate].
      simpl in He. inversion He; subst. destruct (in_cache c en) eqn:Hin; [simpl in A; discriminate|].
      destruct (E e en E0 A) as (E1 & E2 & E3 & E4). unfold ent_lst. simpl.
      rewrite is_released_upd, upd_length. unfold in_cache in Hin. rewrite A in Hin. simpl in Hin.
      rewrite Nat.eqb_sym in Hin. rewrite Hin. repeat split; auto.
  - (* Rotate *) inversion H; subst st'; clear H. unfold do_rotate. destruct (_ || _).
    + apply (inv_lst_frame st); simpl; auto using incl_refl.
      * intros e en' A B. left. apply same_ent; auto.
      * intros t th' A. left. apply same_thr; auto.
    + apply (inv_lst_frame (rotate st)); simpl; auto using incl_refl, inv_lst_rotate.
      * intros e en' A B. left. exists en'. auto.
      * intros t th' A. left. exists th'. auto.
  - (* CleanBegin *) inversion H; subst st'; clear H. unfold clean_begin.
    assert (Same : forall r, inv_lst (set_ret st r)).
    { intros r. apply (inv_lst_frame st); simpl; auto using incl_refl.
      - intros e en' A B. left. apply same_ent; auto.
      - intros t th' A. left. apply same_thr; auto. }
    destruct (limit st =? 0)%Z; auto. destruct (acct st <=? limit st)%Z; auto.
    pose proof (mark_stale_lst (Z.max (acct st / 20) (acct st - limit st)) st I) as I1.
    destruct (mark_stale _ st) as [st1 n]. simpl in I1.
    apply (inv_lst_frame st1); simpl; auto using incl_refl.
    + intros e en' A B. left. exists en'. auto.
    + intros t th' A. left. exists th'. auto.
  - (* CleanCache *) rewrite clean_cache_v_repaired in H. inversion H; subst st'; clear H.
    apply (inv_lst_frame st); simpl; auto using incl_refl.
    + intros e en' A B. left. apply (map_ent_shrink (entries st) (delete_stale_in c (gens st))); auto.
      intros en. unfold delete_stale_in. destruct (stale_in c (gens st) en); simpl; auto. repeat split; auto. discriminate.
    + intros t th' A. left. apply same_thr; auto.
  - (* GcGens *) inversion H; subst st'; clear H. apply gc_gens_lst; auto.
  - (* RelCollect *) inversion H; subst st'; clear H. unfold rel_collect.
    destruct (released_idx _ _ _); (apply (inv_lst_frame st); simpl; auto using incl_refl;
      [intros e en' A B; left; apply same_ent; auto | intros t th' A; left; apply same_thr; auto]).
  - (* RelRemove *) unfold rel_remove in H. destruct (pendrel st) as [td|] eqn:Ep; [|discriminate].
    inversion H; subst st'; clear H.
    destruct (im_pend st M td Ep) as [Asc F].
    destruct (release_buckets_perm td (buckets st) Asc) as (picked & _ & _ & Perm).
    { intros i Hi. destruct (F i Hi) as (c & Ec & _). apply nth_error_Some. congruence. }
    apply (inv_lst_frame st); simpl; auto.
    + intros c Hc. eapply Permutation_in; [exact Perm|]. apply in_or_app; auto.
    + intros e en' A B. left. apply same_ent; auto.
    + intros t th' A. left. apply same_thr; auto.
Qed.
