(* C18 — single flight: at any time a key is attached to at most one entry of its cache's payload; every goroutine
   inside its loader owns its own still-loading entry of its key, so at most ONE loader per key is attached to the
   map; and no entry is orphaned with its size still accounted: an entry that left the map and carries a size was
   either marked deleted by a cleaning pass (its generation was dropped as stale) or belongs to a released cache
   (Release subtracted it). This is what makes the accounting exact: the only way an entry leaves payload[key] is
   recover (own entry, size 0), Cache.Cleanup (deleted) and Release — never a second creator writing over it. The waiter's
   retry `c.mu.Lock(); e, ok = c.payload[key]` is what keeps it so; the `if ok` variant is refuted in Props.v. *)
From Coq Require Import List ZArith Bool Arith Lia.
From C18 Require Import Model ProofsRelease ProofsManaged ProofsCoherent ProofsPayload ProofsAcct.
Import ListNotations.
Local Open Scope nat_scope.

Definition orph_ok (cs : list cache) (en : entry) : Prop :=
  eattached en = false -> edeleted en = true \/ is_released cs (ecache en) = true \/ estat en <> EValid.

Definition inv_orph (st : state) : Prop :=
  forall e en, nth_error (entries st) e = Some en -> orph_ok (caches st) en.

Lemma inv_orph_same st st' :
  entries st' = entries st -> (forall c, is_released (caches st) c = true -> is_released (caches st') c = true) ->
  inv_orph st -> inv_orph st'.
Proof.
  intros E C I e en He. rewrite E in He. intros A. destruct (I e en He A) as [D|[R|S]]; auto.
Qed.

Lemma orph_keep cs (f : entry -> entry) en :
  eattached (f en) = eattached en -> edeleted (f en) = edeleted en -> ecache (f en) = ecache en -> estat (f en) = estat en ->
  orph_ok cs en -> orph_ok cs (f en).
Proof. intros A D C S H. unfold orph_ok in *. rewrite A, D, C, S. exact H. Qed.

Lemma recover_entries_nth c k i es e en' :
  nth_error (recover_entries true c k i es) e = Some en' ->
  (e <> i /\ nth_error es e = Some en') \/ (e = i /\ estat en' = EAbandoned).
Proof.
  unfold recover_entries. intros H. rewrite nth_error_upd in H. destruct (Nat.eqb_spec i e).
  - right. split; auto. destruct (nth_error _ e); [|discriminate]. simpl in H. inversion H; subst. reflexivity.
  - left. split; auto. destruct (find_entry c k es) as [j|]; auto.
    destruct (Nat.eqb_spec j i); simpl in H; auto.
    subst j. rewrite nth_error_upd_other in H; auto.
Qed.

Lemma step_thread_orph st t st' : step_thread repaired st t = Some st' -> inv_acc st -> inv_orph st -> inv_orph st'.
Proof.
  intros H IA IO. pose proof (step_thread_fields _ _ _ _ H) as (_ & _ & Hc).
  unfold step_thread in H. destruct IA as [IE IT _ _ _].
  destruct (nth_error (threads st) t) as [th|] eqn:Hth; [|discriminate].
  pose proof (IT t th Hth) as Tt. unfold twf in Tt.
  intros e en' He. rewrite Hc.
  destruct (tpc th) as [rt | i | i | g s v | r] eqn:Hpc; try discriminate.
  - destruct (nth_error (caches st) (tcache th)) as [ca|]; [|discriminate].
    destruct (creleased ca); [discriminate|]. rewrite blind_retry_repaired in H.
    destruct (find_entry (tcache th) (tkey th) (entries st)) as [i|].
    + destruct (nth_error (entries st) i) as [en|] eqn:Hen; [|discriminate]. unfold move_gen in H.
      destruct (Nat.eqb (egen en) (ccur ca)); inversion H; subst st'; simpl in He; [eapply IO; eauto|].
      rewrite nth_error_upd in He. destruct (Nat.eqb i e); [|eapply IO; eauto].
      destruct (nth_error (entries st) e) as [en0|] eqn:E0; [|discriminate]. simpl in He. inversion He; subst.
      apply orph_keep; auto. eapply IO; eauto.
    + inversion H; subst st'; simpl in He. destruct (Nat.lt_ge_cases e (length (entries st))).
      * rewrite nth_error_app1 in He; auto. eapply IO; eauto.
      * rewrite nth_error_app2 in He; auto. destruct (e - length (entries st)); simpl in He; [|destruct n; discriminate].
        inversion He; subst. intros A. discriminate.
  - destruct (nth_error (entries st) i) as [en|]; [|discriminate].
    destruct (estat en); [discriminate| |]; inversion H; subst st'; simpl in He; eapply IO; eauto.
  - destruct Tt as (en & Hen & Hst & Hown). rewrite Hen in H.
    destruct (IE i en Hen) as (_ & _ & Hld).
    destruct (tout th).
    + destruct (nth_error (caches st) (tcache th)); [|discriminate]. inversion H; subst st'; simpl in He.
      rewrite nth_error_upd in He. destruct (Nat.eqb_spec i e); [|eapply IO; eauto].
      subst e. rewrite Hen in He. simpl in He. inversion He; subst en'. intros A. simpl in A.
      destruct (Hld Hst) as [A'|D]; [congruence|]. left. exact D.
    + inversion H; subst st'; simpl in He. apply recover_entries_nth in He.
      destruct He as [[_ He]|[_ He]]; [eapply IO; eauto|]. intros _. right. right. congruence.
    + inversion H; subst st'; simpl in He. apply recover_entries_nth in He.
      destruct He as [[_ He]|[_ He]]; [eapply IO; eauto|]. intros _. right. right. congruence.
  - inversion H; subst st'; simpl in He. eapply IO; eauto.
Qed.

Lemma mark_stale_caches need st c :
  is_released (caches (fst (mark_stale need st))) c = is_released (caches st) c.
Proof.
  unfold mark_stale. destruct (ms_loop (listed st) 0 need (gens st) 0) as [[[l bytes] gs] n]. cbv zeta.
  destruct (Z.ltb bytes need); [|reflexivity].
  set (st1 := set_gens (set_listed st l) gs).
  assert (R : is_released (caches (rotate st1)) c = is_released (caches st) c) by (rewrite is_released_rotate; reflexivity).
  set (st2 := rotate st1) in *. clearbody st2. destruct (listed st2); simpl; auto.
Qed.

Lemma step_orph st l st' : step st l = Some st' -> inv_acc st -> inv_orph st -> inv_orph st'.
Proof.
  intros H IA IO. destruct l; simpl in H.
  - inversion H; subst. apply (inv_orph_same st); auto.
  - eapply step_thread_orph; eauto.
  - inversion H; subst. apply (inv_orph_same st); auto. intros c R. unfold new_cache. simpl.
    rewrite is_released_app; auto. unfold is_released in R. destruct (nth_error (caches st) c) eqn:E; [|discriminate].
    apply nth_error_Some. congruence.
  - destruct (Nat.ltb c (length (caches st))) eqn:Hc; [|discriminate]. apply Nat.ltb_lt in Hc. inversion H; subst. clear H.
    intros e en' He. unfold release in *. simpl in *. rewrite nth_error_map in He.
    destruct (nth_error (entries st) e) as [en|] eqn:E0; [|discriminate]. simpl in He. inversion He; subst en'. clear He.
    assert (Mono : forall c0, is_released (caches st) c0 = true ->
                     is_released (upd c (fun ca => mkC (ccur ca) true) (caches st)) c0 = true).
    { intros c0 R. rewrite is_released_upd. destruct (Nat.eqb c c0); auto.
      unfold is_released in R. destruct (nth_error (caches st) c0); auto. }
    destruct (in_cache c en) eqn:Hin.
    + intros _. right. left. simpl. unfold in_cache in Hin. apply andb_prop in Hin. destruct Hin as [_ Hin].
      apply Nat.eqb_eq in Hin. rewrite Hin, is_released_upd, Nat.eqb_refl.
      destruct (nth_error (caches st) c) eqn:N; auto. apply nth_error_None in N. lia.
    + intros A. destruct (IO e en E0 A) as [D|[R|S]]; auto.
  - inversion H; subst. unfold do_rotate. destruct (_ || _); apply (inv_orph_same st); auto.
    intros c R. simpl. change (is_released (caches (rotate st)) c = true). rewrite is_released_rotate. auto.
  - inversion H; subst. unfold clean_begin.
    destruct (limit st =? 0)%Z; [apply (inv_orph_same st); auto|].
    destruct (acct st <=? limit st)%Z; [apply (inv_orph_same st); auto|].
    pose proof (mark_stale_entries (Z.max (acct st / 20) (acct st - limit st)) st) as [He _].
    pose proof (mark_stale_caches (Z.max (acct st / 20) (acct st - limit st)) st) as Hc.
    destruct (mark_stale _ st) as [st1 n]. simpl in *. apply (inv_orph_same st); simpl; auto.
    intros c R. rewrite Hc. auto.
  - rewrite clean_cache_v_repaired in H. inversion H; subst. clear H.
    intros e en' He. unfold clean_cache in *. simpl in *. rewrite nth_error_map in He.
    destruct (nth_error (entries st) e) as [en|] eqn:E0; [|discriminate]. simpl in He. inversion He; subst en'. clear He.
    unfold delete_stale_in. destruct (stale_in c (gens st) en); [|eapply IO; eauto].
    intros _. left. reflexivity.
  - inversion H; subst. apply (inv_orph_same st); auto.
  - inversion H; subst. unfold rel_collect. destruct (released_idx _ _ _); apply (inv_orph_same st); auto.
  - unfold rel_remove in H. destruct (pendrel st); [|discriminate]. inversion H; subst. apply (inv_orph_same st); auto.
Qed.

Lemma run_orph : forall ls st st', run st ls = Some st' -> race_free st ls = true -> inv_acc st -> inv_orph st ->
  inv_acc st' /\ inv_orph st'.
Proof.
  induction ls; intros st st' H R IA IO; unfold run in H; simpl in H.
  - inversion H; subst; auto.
  - simpl in R. apply andb_prop in R. destruct R as [R1 R2]. apply negb_true_iff in R1.
    unfold step in R2. destruct (step_v repaired st a) eqn:E; [|discriminate].
    eapply IHls; eauto; [eapply step_acc; eauto|eapply step_orph; eauto].
Qed.

(* ------------------------------------------------------------------ the statement *)
Record single_flight (st : state) : Prop := {
  (* payload[key] is one entry: two attached entries of one cache and key are the same entry *)
  sf_one : forall e1 e2 en1 en2, nth_error (entries st) e1 = Some en1 -> nth_error (entries st) e2 = Some en2 ->
             eattached en1 = true -> eattached en2 = true ->
             ecache en1 = ecache en2 -> ekey en1 = ekey en2 -> e1 = e2;
  (* a goroutine inside its loader owns a still-loading entry of its own cache and key *)
  sf_own : forall t th e, nth_error (threads st) t = Some th -> tpc th = PLoad e ->
             exists en, nth_error (entries st) e = Some en /\ estat en = ELoading /\ eowner en = t /\
                        ecache en = tcache th /\ ekey en = tkey th;
  (* two goroutines inside their loaders for the same cache and key: at most one of their entries is in the map
     (the other one was removed by a cleaning pass or by Release; never overwritten) *)
  sf_load : forall t1 t2 th1 th2 e1 e2 en1 en2, t1 <> t2 ->
             nth_error (threads st) t1 = Some th1 -> nth_error (threads st) t2 = Some th2 ->
             tpc th1 = PLoad e1 -> tpc th2 = PLoad e2 -> tcache th1 = tcache th2 -> tkey th1 = tkey th2 ->
             nth_error (entries st) e1 = Some en1 -> nth_error (entries st) e2 = Some en2 ->
             eattached en1 = true -> eattached en2 = true -> False;
  (* no orphan: an entry that is not in the map and carries a size was deleted by a cleaning pass or belongs to a
     released cache *)
  sf_orph : forall e en, nth_error (entries st) e = Some en -> eattached en = false -> esize en <> 0%Z ->
             edeleted en = true \/ is_released (caches st) (ecache en) = true
}.

Theorem single_flight_reachable lim mg es ls st :
  run (init lim mg es) ls = Some st -> race_free (init lim mg es) ls = true -> single_flight st.
Proof.
  intros H R.
  pose proof (no_poisoning lim mg es ls st H) as [U _].
  pose proof (run_coh ls _ _ H (init_coh lim mg es)) as [TC _].
  destruct (run_orph ls _ _ H R (init_acc lim mg es)) as [IA IO].
  { intros e en He. destruct e; discriminate. }
  assert (Own : forall t th e, nth_error (threads st) t = Some th -> tpc th = PLoad e ->
             exists en, nth_error (entries st) e = Some en /\ estat en = ELoading /\ eowner en = t /\
                        ecache en = tcache th /\ ekey en = tkey th).
  { intros t th e Ht Hpc. pose proof (ia_thr st IA t th Ht) as T1. pose proof (TC t th Ht) as T2.
    unfold twf in T1. unfold thread_ok in T2. rewrite Hpc in T1, T2.
    destruct T1 as (en & He & S & O). destruct T2 as (en2 & He2 & C & K). rewrite He in He2. inversion He2; subst en2.
    exists en. auto. }
  split; auto.
  - intros t1 t2 th1 th2 e1 e2 en1 en2 Hne H1 H2 P1 P2 C K E1 E2 A1 A2.
    destruct (Own t1 th1 e1 H1 P1) as (x1 & X1 & _ & O1 & C1 & K1).
    destruct (Own t2 th2 e2 H2 P2) as (x2 & X2 & _ & O2 & C2 & K2).
    rewrite E1 in X1. rewrite E2 in X2. inversion X1; subst x1. inversion X2; subst x2.
    assert (e1 = e2) by (apply (U e1 e2 en1 en2); auto; congruence).
    subst e2. rewrite E1 in E2. inversion E2; subst en2. congruence.
  - intros e en He A Hs. destruct (IO e en He A) as [D|[Rl|S]]; auto.
    exfalso. apply Hs. destruct (ia_ent st IA e en He) as (_ & Z & _). auto.
Qed.
