(* C18 — a cleaning pass (Cleaner.Cleanup with no step of another goroutine in between) leaves the
   accounted size at or under the limit. *)
From Coq Require Import List ZArith Bool Arith Lia.
From C18 Require Import Model ProofsRelease ProofsAcct.
Import ListNotations.
Local Open Scope nat_scope.

Definition lsum (gs : list gen) (l : list nat) : Z := zsum (map (fun g => gsz g gs) l).

Lemma acct_lsum st : acct st = lsum (gens st) (listed st).
Proof. reflexivity. Qed.

Lemma lsum_marks gs gs' l : marks gs gs' -> lsum gs' l = lsum gs l.
Proof. intros [_ M]. unfold lsum. apply zsum_map_ext. intros g _. apply (M g). Qed.

Lemma ms_loop_sum : forall l bytes need gs n,
  let r := ms_loop l bytes need gs n in
  let l' := fst (fst (fst r)) in let b' := snd (fst (fst r)) in let gs' := snd (fst r) in
  (lsum gs' l' + b' = lsum gs l + bytes)%Z /\ ((b' < need)%Z -> length l' <= 1) /\ marks gs gs'.
Proof.
  induction l as [|g l IH]; intros bytes need gs n; simpl.
  - repeat split; auto; apply marks_refl.
  - destruct l as [|g2 l2].
    + simpl. repeat split; auto; apply marks_refl.
    + destruct (Z.ltb_spec bytes need).
      * specialize (IH (bytes + gsz g gs)%Z need (gmark g gs) (S n)). cbv zeta in IH.
        destruct IH as (S1 & S2 & S3). split; [|split].
        -- rewrite S1. rewrite (lsum_marks gs (gmark g gs)) by apply marks_gmark.
           unfold lsum. simpl. lia.
        -- exact S2.
        -- eapply marks_trans; [apply marks_gmark|exact S3].
      * simpl. split; [lia|split; [lia|apply marks_refl]].
Qed.

Lemma mark_stale_bound need st :
  (acct st - need <= limit st)%Z -> (0 <= limit st)%Z ->
  (acct (fst (mark_stale need st)) <= limit st)%Z /\ limit (fst (mark_stale need st)) = limit st.
Proof.
  intros Hneed Hlim. unfold mark_stale.
  pose proof (ms_loop_sum (listed st) 0 need (gens st) 0) as M. cbv zeta in M.
  destruct (ms_loop (listed st) 0 need (gens st) 0) as [[[l bytes] gs] n]. simpl in M.
  destruct M as (S1 & S2 & S3). cbv zeta.
  destruct (Z.ltb_spec bytes need).
  - specialize (S2 H). unfold rotate. simpl.
    destruct l as [|x l]; simpl.
    + split; auto; try (rewrite acct_lsum; simpl; unfold lsum; simpl; lia).
    + destruct l; [|simpl in S2; lia]. simpl. split; auto;
        try (rewrite acct_lsum; simpl; unfold lsum; simpl; rewrite gsz_gmark, gsz_new; lia).
  - simpl. split; auto. rewrite acct_lsum. simpl. rewrite acct_lsum in Hneed. lia.
Qed.

Lemma clean_begin_bound st :
  (0 <= limit st)%Z -> limit st <> 0%Z ->
  (acct (clean_begin st) <= limit st)%Z /\ limit (clean_begin st) = limit st.
Proof.
  intros H0 Hnz. unfold clean_begin. destruct (Z.eqb_spec (limit st) 0); [contradiction|].
  destruct (Z.leb_spec (acct st) (limit st)); [simpl; split; auto|].
  destruct (mark_stale_bound (Z.max (acct st / 20) (acct st - limit st)) st) as [B L]; auto; [lia|].
  destruct (mark_stale _ st) as [st1 k]. simpl in *. split; auto.
Qed.

Lemma mark_stale_limit need st : limit (fst (mark_stale need st)) = limit st.
Proof.
  unfold mark_stale. destruct (ms_loop (listed st) 0 need (gens st) 0) as [[[l bytes] gs] n]. cbv zeta.
  destruct (Z.ltb bytes need); [|reflexivity].
  set (st2 := rotate _). assert (limit st2 = limit st) by reflexivity. clearbody st2.
  destruct (listed st2); simpl; auto.
Qed.

Lemma clean_begin_bound_limit st : limit (clean_begin st) = limit st.
Proof.
  unfold clean_begin. destruct (limit st =? 0)%Z; auto. destruct (acct st <=? limit st)%Z; auto.
  pose proof (mark_stale_limit (Z.max (acct st / 20) (acct st - limit st)) st).
  destruct (mark_stale _ st). simpl in *. auto.
Qed.

Lemma clean_all_acct : forall bk st b c st' b' c',
  clean_all bk st b c = Some (st', b', c') -> acct st' = acct st /\ limit st' = limit st.
Proof.
  induction bk; simpl; intros st b c st' b' c' H.
  - inversion H; subst; auto.
  - apply IHbk in H. destruct H as [A L]. rewrite clean_cache_v_repaired in A, L. split; [rewrite A|rewrite L]; reflexivity.
Qed.

Theorem cleanup_pass_bound st st' r :
  exec_ev st ECleanup = Some (st', r) -> (0 <= limit st)%Z -> limit st <> 0%Z ->
  (acct st' <= limit st)%Z.
Proof.
  intros H H0 Hnz. simpl in H. destruct (clean_begin_bound st H0 Hnz) as [B L].
  destruct (ret (clean_begin st)) as [|z rest]; [inversion H; subst; auto|].
  destruct z; try (inversion H; subst; auto; fail).
  destruct p; try (inversion H; subst; auto; fail).
  destruct (clean_all (buckets st) (clean_begin st) 0 0) as [[[st2 bytes] cleaned]|] eqn:E; [|discriminate].
  inversion H; subst. apply clean_all_acct in E. destruct E as [A _]. rewrite A. auto.
Qed.
