(* C18 — lookups are coherent: whatever the interleaving, a lookup returns a value that a loader produces
   for the same cache and key; an error / panic only reaches the goroutine whose loader produced it. *)
From Coq Require Import List ZArith Bool Arith Lia.
From C18 Require Import Model ProofsRelease.
Import ListNotations.
Local Open Scope nat_scope.

Definition produced (ths : list thread) (c k : nat) (v : Z) : Prop :=
  exists t th s, nth_error ths t = Some th /\ tcache th = c /\ tkey th = k /\ tout th = OVal v s.

Definition thread_ok (es : list entry) (ths : list thread) (th : thread) : Prop :=
  match tpc th with
  | PStart _ => True
  | PWait e | PLoad e => exists en, nth_error es e = Some en /\ ecache en = tcache th /\ ekey en = tkey th
  | PAdd _ _ v => exists s, tout th = OVal v s
  | PDone (RVal v) => produced ths (tcache th) (tkey th) v
  | PDone RErr => tout th = OErr
  | PDone RPanic => tout th = OPanic
  end.

Definition entry_ok (ths : list thread) (en : entry) : Prop :=
  estat en = EValid -> produced ths (ecache en) (ekey en) (evalue en).

Record inv_coh (st : state) : Prop := {
  ic_thr : forall t th, nth_error (threads st) t = Some th -> thread_ok (entries st) (threads st) th;
  ic_ent : forall e en, nth_error (entries st) e = Some en -> entry_ok (threads st) en
}.

Definition same_call (a b : thread) : Prop := tcache a = tcache b /\ tkey a = tkey b /\ tout a = tout b.

Definition ths_le (ths ths' : list thread) : Prop :=
  forall t th, nth_error ths t = Some th -> exists th', nth_error ths' t = Some th' /\ same_call th' th.

Lemma produced_mono ths ths' c k v : ths_le ths ths' -> produced ths c k v -> produced ths' c k v.
Proof.
  intros H (t & th & s & E & A & B & C). destruct (H t th E) as (th' & E' & A' & B' & C').
  exists t, th', s. repeat split; congruence.
Qed.

Definition ents_le (es es' : list entry) : Prop :=
  forall e en, nth_error es e = Some en -> exists en', nth_error es' e = Some en' /\ ecache en' = ecache en /\ ekey en' = ekey en.

Lemma thread_ok_mono es es' ths ths' th :
  ents_le es es' -> ths_le ths ths' -> thread_ok es ths th -> thread_ok es' ths' th.
Proof.
  intros He Ht. unfold thread_ok. destruct (tpc th) as [rt | e | e | g s v | [v| |]]; auto.
  - intros (en & E & A & B). destruct (He e en E) as (en' & E' & A' & B'). exists en'. repeat split; congruence.
  - intros (en & E & A & B). destruct (He e en E) as (en' & E' & A' & B'). exists en'. repeat split; congruence.
  - apply produced_mono; auto.
Qed.

Lemma ths_le_refl ths : ths_le ths ths.
Proof. intros t th E. exists th. repeat split; auto. Qed.

Lemma ths_le_set_pc t p ths : ths_le ths (set_pc t p ths).
Proof.
  intros t' th E. unfold set_pc. rewrite nth_error_upd. destruct (Nat.eqb t t'); rewrite E; simpl; eexists; split; eauto; repeat split; auto.
Qed.

Lemma ths_le_app ths x : ths_le ths (ths ++ [x]).
Proof. intros t th E. exists th. split; [|repeat split; auto]. rewrite nth_error_app1; auto. apply nth_error_Some; congruence. Qed.

Lemma ents_le_refl es : ents_le es es.
Proof. intros e en E. exists en; auto. Qed.

Lemma ents_le_upd es i f : (forall en, ecache (f en) = ecache en /\ ekey (f en) = ekey en) -> ents_le es (upd i f es).
Proof.
  intros Hf e en E. rewrite nth_error_upd. destruct (Nat.eqb i e); rewrite E; simpl; eexists; split; eauto.
Qed.

Lemma ents_le_trans a b c : ents_le a b -> ents_le b c -> ents_le a c.
Proof.
  intros H1 H2 e en E. destruct (H1 e en E) as (en' & E' & A & B). destruct (H2 e en' E') as (en'' & E'' & A' & B').
  exists en''. repeat split; congruence.
Qed.

Lemma ents_le_map es f : (forall en, ecache (f en) = ecache en /\ ekey (f en) = ekey en) -> ents_le es (map f es).
Proof. intros Hf e en E. exists (f en). split; [|apply Hf]. rewrite nth_error_map, E; auto. Qed.

Lemma ents_le_app es x : ents_le es (es ++ [x]).
Proof. intros e en E. exists en. split; auto. rewrite nth_error_app1; auto. apply nth_error_Some; congruence. Qed.

(* maintenance steps: threads untouched, entries keep cache, key, status and value *)
Lemma inv_coh_maint st st' :
  threads st' = threads st -> ents_le (entries st) (entries st') ->
  (forall e en', nth_error (entries st') e = Some en' ->
     exists en, nth_error (entries st) e = Some en /\ ecache en' = ecache en /\ ekey en' = ekey en /\
                estat en' = estat en /\ evalue en' = evalue en) ->
  inv_coh st -> inv_coh st'.
Proof.
  intros Ht Hle Hback [T E]. split; rewrite Ht.
  - intros t th Hth. eapply thread_ok_mono; eauto using ths_le_refl.
  - intros e en' He. destruct (Hback e en' He) as (en & He0 & A & B & C & D).
    specialize (E e en He0). unfold entry_ok in *. rewrite A, B, C, D. auto.
Qed.

Lemma back_same st st' : entries st' = entries st ->
  forall e en', nth_error (entries st') e = Some en' ->
     exists en, nth_error (entries st) e = Some en /\ ecache en' = ecache en /\ ekey en' = ekey en /\
                estat en' = estat en /\ evalue en' = evalue en.
Proof. intros -> e en' E. exists en'; auto. Qed.

Lemma back_map st es' f : es' = map f (entries st) ->
  (forall en, ecache (f en) = ecache en /\ ekey (f en) = ekey en /\ estat (f en) = estat en /\ evalue (f en) = evalue en) ->
  forall e en', nth_error es' e = Some en' ->
     exists en, nth_error (entries st) e = Some en /\ ecache en' = ecache en /\ ekey en' = ekey en /\
                estat en' = estat en /\ evalue en' = evalue en.
Proof.
  intros -> Hf e en' E. rewrite nth_error_map in E. destruct (nth_error (entries st) e) as [en|] eqn:E0; [|discriminate].
  inversion E; subst. exists en. split; auto.
Qed.

Lemma mark_stale_entries need st : entries (fst (mark_stale need st)) = entries st /\ threads (fst (mark_stale need st)) = threads st.
Proof.
  unfold mark_stale. destruct (ms_loop (listed st) 0 need (gens st) 0) as [[[l bytes] gs] n]. cbv zeta.
  destruct (Z.ltb bytes need); [|split; reflexivity].
  set (st2 := rotate _). assert (entries st2 = entries st /\ threads st2 = threads st) by (split; reflexivity).
  clearbody st2. destruct (listed st2); simpl; auto.
Qed.

Lemma find_idx_some {A} (p : A -> bool) : forall l i j, find_idx p l i = Some j ->
  exists x, nth_error l (j - i) = Some x /\ p x = true /\ i <= j.
Proof.
  induction l; simpl; intros i j H; [discriminate|].
  destruct (p a) eqn:P.
  - inversion H; subst. exists a. rewrite Nat.sub_diag. auto.
  - destruct (IHl (S i) j H) as (x & E & Px & Hle). exists x. repeat split; auto; [|lia].
    replace (j - i) with (S (j - S i)) by lia. auto.
Qed.

Lemma find_entry_some c k es i : find_entry c k es = Some i ->
  exists en, nth_error es i = Some en /\ eattached en = true /\ ecache en = c /\ ekey en = k.
Proof.
  intros H. apply find_idx_some in H. destruct H as (en & E & P & _). rewrite Nat.sub_0_r in E.
  exists en. unfold ematch in P. apply andb_prop in P. destruct P as [P K]. apply andb_prop in P. destruct P as [A C].
  apply Nat.eqb_eq in K, C. auto.
Qed.

Lemma set_thr_self st t p th : nth_error (threads st) t = Some th ->
  nth_error (threads (set_thr st t p)) t = Some (mkT (tcache th) (tkey th) (tout th) p).
Proof. intros E. unfold set_thr, set_pc. simpl. rewrite nth_error_upd, Nat.eqb_refl, E. auto. Qed.

(* a thread step described by: new entries es', new pc p of thread t *)
Lemma inv_coh_thread st t th es' gs' p :
  nth_error (threads st) t = Some th ->
  ents_le (entries st) es' ->
  (forall e en', nth_error es' e = Some en' -> entry_ok (threads st) en') ->
  thread_ok es' (threads st) (mkT (tcache th) (tkey th) (tout th) p) ->
  inv_coh st -> inv_coh (set_thr (set_gens (set_entries st es') gs') t p).
Proof.
  intros Hth Hle Hent Hnew [T E]. split; simpl.
  - intros t' th' H'. unfold set_pc in H'. rewrite nth_error_upd in H'.
    destruct (Nat.eqb_spec t t').
    + subst t'. rewrite Hth in H'. simpl in H'. inversion H'; subst th'.
      eapply thread_ok_mono; [apply ents_le_refl|apply ths_le_set_pc|]. exact Hnew.
    + eapply thread_ok_mono; [exact Hle|apply ths_le_set_pc|]. eapply T; eauto.
  - intros e en' He. specialize (Hent e en' He). unfold entry_ok in *. intros V.
    eapply produced_mono; [apply ths_le_set_pc|]. auto.
Qed.

Lemma setters_id st : set_gens (set_entries st (entries st)) (gens st) = st.
Proof. destruct st; reflexivity. Qed.

Lemma step_thread_coh st t st' : step_thread repaired st t = Some st' -> inv_coh st -> inv_coh st'.
Proof.
  unfold step_thread. intros H I. pose proof I as [T E].
  destruct (nth_error (threads st) t) as [th|] eqn:Hth; [|discriminate].
  pose proof (T t th Hth) as Tt. unfold thread_ok in Tt.
  destruct (tpc th) as [rt | i | i | g s v | r] eqn:Hpc; try discriminate.
  - (* PStart *)
    destruct (nth_error (caches st) (tcache th)) as [ca|] eqn:Hca; [|discriminate].
    destruct (creleased ca); [discriminate|]. rewrite blind_retry_repaired in H.
    destruct (find_entry (tcache th) (tkey th) (entries st)) as [i|] eqn:Hf.
    + destruct (find_entry_some _ _ _ _ Hf) as (en & Hen & Hatt & Hc & Hk).
      rewrite Hen in H. destruct (move_gen i en (ccur ca) (entries st) (gens st)) as [es gs] eqn:Hm.
      inversion H; subst st'. clear H.
      assert (Hes : es = entries st \/ es = upd i (set_egen (ccur ca)) (entries st)).
      { unfold move_gen in Hm. destruct (Nat.eqb (egen en) (ccur ca)); inversion Hm; auto. }
      assert (Hle : ents_le (entries st) es).
      { destruct Hes as [->| ->]; [apply ents_le_refl|apply ents_le_upd; intros; split; reflexivity]. }
      apply inv_coh_thread with (th := th); auto.
      * intros e en' He. destruct Hes as [->| ->]; [eapply E; eauto|].
        rewrite nth_error_upd in He. destruct (Nat.eqb i e).
        -- destruct (nth_error (entries st) e) as [en0|] eqn:E0; [|discriminate]. simpl in He. inversion He; subst.
           specialize (E e en0 E0). unfold entry_ok in *. simpl. auto.
        -- eapply E; eauto.
      * unfold thread_ok. simpl. destruct (Hle i en Hen) as (en' & Hen' & A & B).
        destruct (estat en) eqn:Hs; simpl.
        -- exists en'. repeat split; congruence.
        -- specialize (E i en Hen Hs). rewrite Hc, Hk in E. exact E.
        -- exists en'. repeat split; congruence.
    + inversion H; subst st'. clear H.
      replace (set_thr (set_entries st (entries st ++ [mkE (tcache th) (tkey th) t ELoading (ccur ca) 0 false true 0])) t (PLoad (length (entries st))))
        with (set_thr (set_gens (set_entries st (entries st ++ [mkE (tcache th) (tkey th) t ELoading (ccur ca) 0 false true 0])) (gens st)) t (PLoad (length (entries st))))
        by (destruct st; reflexivity).
      apply inv_coh_thread with (th := th); auto.
      * apply ents_le_app.
      * intros e en' He. destruct (Nat.lt_ge_cases e (length (entries st))).
        -- rewrite nth_error_app1 in He; auto. eapply E; eauto.
        -- rewrite nth_error_app2 in He; auto. destruct (e - length (entries st)); simpl in He.
           ++ inversion He; subst. unfold entry_ok. simpl. discriminate.
           ++ destruct n; discriminate.
      * unfold thread_ok. simpl. eexists. split; [rewrite nth_error_app2 by lia; rewrite Nat.sub_diag; reflexivity|]. simpl. split; reflexivity.
  - (* PWait *)
    destruct Tt as (en & Hen & Hc & Hk). rewrite Hen in H.
    destruct (estat en) eqn:Hs; [discriminate| |]; inversion H; subst st'; clear H;
      rewrite <- (setters_id st) at 1; apply inv_coh_thread with (th := th); auto using ents_le_refl.
    + unfold thread_ok. simpl. specialize (E i en Hen Hs). rewrite Hc, Hk in E. exact E.
    + unfold thread_ok. simpl. auto.
  - (* PLoad *)
    destruct Tt as (en & Hen & Hc & Hk). rewrite Hen in H.
    destruct (tout th) as [v s| |] eqn:Hout.
    + destruct (nth_error (caches st) (tcache th)) as [ca|] eqn:Hca; [|discriminate].
      inversion H; subst st'. clear H.
      apply inv_coh_thread with (th := th); auto.
      * apply ents_le_upd. intros; split; reflexivity.
      * intros e en' He. rewrite nth_error_upd in He. destruct (Nat.eqb_spec i e).
        -- subst e. rewrite Hen in He. simpl in He. inversion He; subst en'. unfold entry_ok. simpl. intros _.
           exists t, th, s. repeat split; auto.
        -- eapply E; eauto.
      * unfold thread_ok. simpl. eauto.
    + inversion H; subst st'. clear H.
      match goal with |- inv_coh (set_thr (set_entries st ?es) t ?p) =>
        replace (set_thr (set_entries st es) t p) with (set_thr (set_gens (set_entries st es) (gens st)) t p) by (destruct st; reflexivity) end.
      apply inv_coh_thread with (th := th); auto.
      * unfold recover_entries. eapply ents_le_trans; [|apply ents_le_upd; intros; split; reflexivity].
        destruct (find_entry (tcache th) (tkey th) (entries st)); [|apply ents_le_refl].
        match goal with |- context [if ?b then _ else _] => destruct b end; [apply ents_le_refl|apply ents_le_upd; intros; split; reflexivity].
      * intros e en' He. unfold recover_entries in He. rewrite nth_error_upd in He.
        assert (Hx : forall es0, (es0 = entries st \/ exists j, es0 = upd j detach (entries st)) ->
                 forall en0, nth_error es0 e = Some en0 -> entry_ok (threads st) en0).
        { intros es0 [->|[j ->]] en0 H0; [eapply E; eauto|]. rewrite nth_error_upd in H0. destruct (Nat.eqb j e); [|eapply E; eauto].
          destruct (nth_error (entries st) e) eqn:E0; [|discriminate]. simpl in H0. inversion H0; subst.
          specialize (E e e0 E0). unfold entry_ok in *. simpl. auto. }
        match type of He with context [nth_error ?es0 e] => specialize (Hx es0) end.
        destruct (Nat.eqb i e).
        -- match type of He with option_map _ ?o = _ => destruct o eqn:E0; [|discriminate] end.
           simpl in He. inversion He; subst. unfold entry_ok. simpl. discriminate.
        -- apply Hx; auto. destruct (find_entry (tcache th) (tkey th) (entries st)); auto.
           match goal with |- context [if ?b then _ else _] => destruct b end; eauto.
    + inversion H; subst st'. clear H.
      match goal with |- inv_coh (set_thr (set_entries st ?es) t ?p) =>
        replace (set_thr (set_entries st es) t p) with (set_thr (set_gens (set_entries st es) (gens st)) t p) by (destruct st; reflexivity) end.
      apply inv_coh_thread with (th := th); auto.
      * unfold recover_entries. eapply ents_le_trans; [|apply ents_le_upd; intros; split; reflexivity].
        destruct (find_entry (tcache th) (tkey th) (entries st)); [|apply ents_le_refl].
        match goal with |- context [if ?b then _ else _] => destruct b end; [apply ents_le_refl|apply ents_le_upd; intros; split; reflexivity].
      * intros e en' He. unfold recover_entries in He. rewrite nth_error_upd in He.
        assert (Hx : forall es0, (es0 = entries st \/ exists j, es0 = upd j detach (entries st)) ->
                 forall en0, nth_error es0 e = Some en0 -> entry_ok (threads st) en0).
        { intros es0 [->|[j ->]] en0 H0; [eapply E; eauto|]. rewrite nth_error_upd in H0. destruct (Nat.eqb j e); [|eapply E; eauto].
          destruct (nth_error (entries st) e) eqn:E0; [|discriminate]. simpl in H0. inversion H0; subst.
          specialize (E e e0 E0). unfold entry_ok in *. simpl. auto. }
        match type of He with context [nth_error ?es0 e] => specialize (Hx es0) end.
        destruct (Nat.eqb i e).
        -- match type of He with option_map _ ?o = _ => destruct o eqn:E0; [|discriminate] end.
           simpl in He. inversion He; subst. unfold entry_ok. simpl. discriminate.
        -- apply Hx; auto. destruct (find_entry (tcache th) (tkey th) (entries st)); auto.
           match goal with |- context [if ?b then _ else _] => destruct b end; eauto.
  - (* PAdd *)
    inversion H; subst st'. clear H. destruct Tt as (s0 & Hout).
    replace (set_gens st (gadd g s (gens st))) with (set_gens (set_entries st (entries st)) (gadd g s (gens st))) by (destruct st; reflexivity).
    apply inv_coh_thread with (th := th); auto using ents_le_refl.
    unfold thread_ok. simpl. exists t, th, s0. auto.
Qed.

Lemma step_coh st l st' : step st l = Some st' -> inv_coh st -> inv_coh st'.
Proof.
  intros H I. destruct l; simpl in H.
  - (* Spawn *) inversion H; subst st'. clear H. destruct I as [T E]. split; simpl.
    + intros t th Hth. destruct (Nat.lt_ge_cases t (length (threads st))).
      * rewrite nth_error_app1 in Hth; auto.
        eapply thread_ok_mono; [apply ents_le_refl|apply ths_le_app|]. eapply T; eauto.
      * rewrite nth_error_app2 in Hth; auto. destruct (t - length (threads st)); simpl in Hth.
        -- inversion Hth; subst. unfold thread_ok. simpl. auto.
        -- destruct n; discriminate.
    + intros e en He V. eapply produced_mono; [apply ths_le_app|]. eapply E; eauto.
  - eapply step_thread_coh; eauto.
  - inversion H; subst. apply (inv_coh_maint st); auto using ents_le_refl. apply back_same; auto.
  - destruct (Nat.ltb c (length (caches st))); [|discriminate]. inversion H; subst.
    apply (inv_coh_maint st); auto.
    + simpl. apply ents_le_map. intros en. destruct (in_cache c en); auto.
    + simpl. apply back_map with (f := fun e => if in_cache c e then detach e else e); auto.
      intros en. destruct (in_cache c en); auto.
  - inversion H; subst. unfold do_rotate. destruct (_ || _); apply (inv_coh_maint st); auto using ents_le_refl; apply back_same; auto.
  - inversion H; subst. unfold clean_begin.
    destruct (limit st =? 0)%Z; [apply (inv_coh_maint st); auto using ents_le_refl; apply back_same; auto|].
    destruct (acct st <=? limit st)%Z; [apply (inv_coh_maint st); auto using ents_le_refl; apply back_same; auto|].
    destruct (mark_stale_entries (Z.max (acct st / 20) (acct st - limit st)) st) as [He Ht].
    destruct (mark_stale _ st) as [st1 n]. simpl in He, Ht.
    apply (inv_coh_maint st); simpl; auto.
    + rewrite He. apply ents_le_refl.
    + apply back_same; auto.
  - rewrite clean_cache_v_repaired in H. inversion H; subst. apply (inv_coh_maint st); auto.
    + simpl. apply ents_le_map. intros en. unfold delete_stale_in. destruct (stale_in c (gens st) en); auto.
    + simpl. apply back_map with (f := delete_stale_in c (gens st)); auto.
      intros en. unfold delete_stale_in. destruct (stale_in c (gens st) en); auto.
  - inversion H; subst. apply (inv_coh_maint st); auto using ents_le_refl. apply back_same; auto.
  - inversion H; subst. unfold rel_collect. destruct (released_idx _ _ _); apply (inv_coh_maint st); auto using ents_le_refl; apply back_same; auto.
  - unfold rel_remove in H. destruct (pendrel st); [|discriminate]. inversion H; subst.
    apply (inv_coh_maint st); auto using ents_le_refl. apply back_same; auto.
Qed.

Lemma init_coh lim mg es : inv_coh (init lim mg es).
Proof. split; simpl; intros ? ? H; destruct t || destruct e; discriminate. Qed.

Lemma run_coh : forall ls st st', run st ls = Some st' -> inv_coh st -> inv_coh st'.
Proof.
  induction ls; intros st st' H I; unfold run in H; simpl in H.
  - inversion H; subst; auto.
  - destruct (step_v repaired st a) eqn:E; [|discriminate]. eapply IHls; eauto. eapply step_coh; eauto.
Qed.

(* what a finished lookup returned *)
Definition returned_ok (st : state) (th : thread) : Prop :=
  match tpc th with
  | PDone (RVal v) => exists t' th' s, nth_error (threads st) t' = Some th' /\
                        tcache th' = tcache th /\ tkey th' = tkey th /\ tout th' = OVal v s
  | PDone RErr => tout th = OErr
  | PDone RPanic => tout th = OPanic
  | PAdd _ _ v => exists s, tout th = OVal v s   (* a creator returns its own loader's value *)
  | _ => True
  end.

Theorem get_coherent lim mg es ls st :
  run (init lim mg es) ls = Some st ->
  forall t th, nth_error (threads st) t = Some th -> returned_ok st th.
Proof.
  intros H t th Hth. pose proof (run_coh ls _ _ H (init_coh lim mg es)) as [T _].
  specialize (T t th Hth). unfold thread_ok in T. unfold returned_ok.
  destruct (tpc th) as [rt| | | | [v| |]]; auto.
Qed.
