(* C18 — the size field is honest: in every reachable state (all interleavings, no domain restriction) every valid entry
   that is in a payload map carries size = entrySize + the size its loader reported, and entries that are not valid carry
   size 0; hence live (sum of the size fields) = occupied (what the live entries really occupy). Together with
   C18_accounting_total: getSize = what the live entries occupy. save's `if e.deleted { size = 0 }` only ever zeroes
   entries that have left the map; the seeded `|| e.gen.stale` zeroes an entry that stays (Props.v). *)
From Coq Require Import List ZArith Bool Arith Lia.
From C18 Require Import Model ProofsRelease ProofsManaged ProofsCoherent ProofsListing ProofsFull.
Import ListNotations.
Local Open Scope nat_scope.

Definition touts_le (ths ths' : list thread) : Prop :=
  forall x th, nth_error ths x = Some th -> exists th', nth_error ths' x = Some th' /\ tout th' = tout th.

Definition ent_p (z : Z) (ths : list thread) (en : entry) : Prop :=
  (eattached en = true -> edeleted en = false) /\
  (estat en = EValid -> exists th s, nth_error ths (eowner en) = Some th /\ tout th = OVal (evalue en) s /\
                                     (edeleted en = false -> esize en = (z + s)%Z)) /\
  (estat en <> EValid -> esize en = 0%Z).

Definition ent_keep (en en' : entry) : Prop :=
  estat en' = estat en /\ eowner en' = eowner en /\ evalue en' = evalue en /\ esize en' = esize en /\
  (eattached en' = true -> eattached en = true /\ edeleted en' = edeleted en) /\
  (edeleted en = true -> edeleted en' = true).

Lemma ent_keep_refl en : ent_keep en en.
Proof. repeat split; auto. Qed.

Lemma ent_p_keep z ths ths' en en' : ent_keep en en' -> touts_le ths ths' -> ent_p z ths en -> ent_p z ths' en'.
Proof.
  intros (S & O & V & Z & A & D) T (P1 & P2 & P3). repeat split.
  - intros A'. destruct (A A') as [A0 D0]. rewrite D0. auto.
  - intros S'. rewrite S in S'. destruct (P2 S') as (th & s & H1 & H2 & H3). destruct (T _ _ H1) as (th' & H1' & H2').
    exists th', s. rewrite O, V, Z. repeat split; auto; [congruence|].
    intros D'. apply H3. destruct (edeleted en) eqn:E; auto. rewrite (D eq_refl) in D'. discriminate.
  - intros S'. rewrite S in S'. rewrite Z. auto.
Qed.

Record inv_hon (z : Z) (st : state) : Prop := {
  ih_esz : esz st = z;
  ih_ent : forall e en, nth_error (entries st) e = Some en -> ent_p z (threads st) en;
  ih_own : forall t th e, nth_error (threads st) t = Some th -> tpc th = PLoad e ->
             exists en, nth_error (entries st) e = Some en /\ estat en = ELoading /\ eowner en = t
}.

Lemma touts_le_refl ths : touts_le ths ths.
Proof. intros x th H. eauto. Qed.
Lemma touts_le_set_pc t p ths : touts_le ths (set_pc t p ths).
Proof.
  intros x th H. unfold set_pc. rewrite nth_error_upd, H. destruct (Nat.eqb t x); simpl; eauto.
Qed.
Lemma touts_le_app ths a : touts_le ths (ths ++ [a]).
Proof. intros x th H. exists th. split; auto. rewrite nth_error_app1; auto. apply nth_error_Some. congruence. Qed.

Lemma set_pc_nth t p ths x th' : nth_error (set_pc t p ths) x = Some th' ->
  exists th, nth_error ths x = Some th /\ ((x = t /\ tpc th' = p) \/ (x <> t /\ th' = th)).
Proof.
  unfold set_pc. rewrite nth_error_upd. destruct (Nat.eqb_spec t x).
  - destruct (nth_error ths x) as [th|]; [|discriminate]. simpl. intros H. inversion H; subst. exists th. split; auto.
  - intros H. exists th'. split; auto.
Qed.

(* maintenance steps: threads and esz untouched, entries mapped by a keeping function *)
Lemma hon_maint z st st' f :
  esz st' = esz st -> threads st' = threads st -> entries st' = map f (entries st) -> (forall en, ent_keep en (f en)) ->
  inv_hon z st -> inv_hon z st'.
Proof.
  intros E T M K [I1 I2 I3]. split; rewrite ?E, ?T, ?M; auto.
  - intros e en' H. rewrite nth_error_map in H. destruct (nth_error (entries st) e) as [en|] eqn:E0; [|discriminate].
    simpl in H. inversion H; subst. eapply ent_p_keep; [apply K|apply touts_le_refl|eauto].
  - intros t th e Ht P. destruct (I3 t th e Ht P) as (en & H1 & H2 & H3). exists (f en).
    rewrite nth_error_map, H1. destruct (K en) as (S & O & _). simpl. repeat split; congruence.
Qed.

Lemma hon_same z st st' :
  esz st' = esz st -> threads st' = threads st -> entries st' = entries st -> inv_hon z st -> inv_hon z st'.
Proof.
  intros E T M. apply (hon_maint z st st' (fun x => x)); auto; [rewrite map_id; auto|intros; apply ent_keep_refl].
Qed.

Lemma mark_stale_esz need st : esz (fst (mark_stale need st)) = esz st.
Proof.
  unfold mark_stale. destruct (ms_loop (listed st) 0 need (gens st) 0) as [[[l bytes] gs] n]. cbv zeta.
  destruct (Z.ltb bytes need); [|reflexivity].
  set (st2 := rotate _). assert (esz st2 = esz st) by reflexivity.
  clearbody st2. destruct (listed st2); simpl; auto.
Qed.

(* thread steps: new entries es', thread t gets pc p *)
Lemma hon_thread z st t th es' gs' p :
  nth_error (threads st) t = Some th -> inv_hon z st ->
  (forall e en', nth_error es' e = Some en' ->
     (exists en, nth_error (entries st) e = Some en /\ ent_keep en en') \/
     (ent_p z (threads st) en' /\ forall en, nth_error (entries st) e = Some en -> eowner en = t)) ->
  (forall e en, nth_error (entries st) e = Some en -> eowner en <> t \/ (forall q, p <> PLoad q) ->
     exists en', nth_error es' e = Some en' /\ (eowner en <> t -> estat en' = estat en /\ eowner en' = eowner en)) ->
  (forall e, p = PLoad e -> exists en, nth_error es' e = Some en /\ estat en = ELoading /\ eowner en = t) ->
  inv_hon z (set_thr (set_gens (set_entries st es') gs') t p).
Proof.
  intros Hth [I1 I2 I3] Hes Hfw Hp. split; simpl; auto.
  - intros e en' H. destruct (Hes e en' H) as [(en & H0 & K)|[P _]].
    + eapply ent_p_keep; [exact K|apply touts_le_set_pc|eauto].
    + eapply ent_p_keep; [apply ent_keep_refl|apply touts_le_set_pc|exact P].
  - intros x th' e Hx P. destruct (set_pc_nth _ _ _ _ _ Hx) as (th0 & H0 & [[-> Hpc]|[Hne ->]]).
    + rewrite P in Hpc. symmetry in Hpc. apply Hp; auto.
    + destruct (I3 x th0 e H0 P) as (en & E1 & E2 & E3).
      destruct (Hfw e en E1) as (en' & E' & K); [left; congruence|].
      destruct K as [K1 K2]; [congruence|]. exists en'. repeat split; congruence.
Qed.

Lemma app_nth_cases {A} (l : list A) a e x : nth_error (l ++ [a]) e = Some x ->
  nth_error l e = Some x \/ (e = length l /\ x = a).
Proof.
  intros H. destruct (Nat.lt_ge_cases e (length l)).
  - rewrite nth_error_app1 in H; auto.
  - rewrite nth_error_app2 in H; auto. destruct (e - length l) eqn:D; simpl in H; [|destruct n; discriminate].
    inversion H; subst. right. split; auto. lia.
Qed.

Lemma step_thread_hon z st t st' : step_thread repaired st t = Some st' -> inv_hon z st -> inv_hon z st'.
Proof.
  unfold step_thread. intros H I. pose proof I as [I1 I2 I3].
  destruct (nth_error (threads st) t) as [th|] eqn:Hth; [|discriminate].
  destruct (tpc th) as [rt | i | i | g s v | r] eqn:Hpc; try discriminate.
  - destruct (nth_error (caches st) (tcache th)) as [ca|]; [|discriminate].
    destruct (creleased ca); [discriminate|]. rewrite blind_retry_repaired in H.
    destruct (find_entry (tcache th) (tkey th) (entries st)) as [i|].
    + destruct (nth_error (entries st) i) as [en|] eqn:Hen; [|discriminate].
      destruct (move_gen i en (ccur ca) (entries st) (gens st)) as [es gs] eqn:Hm.
      inversion H; subst st'. clear H.
      assert (Hes : es = entries st \/ es = upd i (set_egen (ccur ca)) (entries st)).
      { unfold move_gen in Hm. destruct (Nat.eqb (egen en) (ccur ca)); inversion Hm; auto. }
      assert (Hnl : forall q, (match estat en with EValid => PDone (RVal (evalue en)) | _ => PWait i end) <> PLoad q)
        by (intros q; destruct (estat en); discriminate).
      apply hon_thread with (th := th); auto.
      * intros e en' He. left. destruct Hes as [->| ->]; [exists en'; split; auto; apply ent_keep_refl|].
        rewrite nth_error_upd in He. destruct (Nat.eqb i e).
        -- destruct (nth_error (entries st) e) as [en0|]; [|discriminate]. simpl in He. inversion He; subst.
           exists en0. split; auto. repeat split; auto.
        -- exists en'. split; auto. apply ent_keep_refl.
      * intros e en0 He _. destruct Hes as [->| ->]; [exists en0; auto|].
        rewrite nth_error_upd. destruct (Nat.eqb i e); rewrite He; simpl; eexists; split; eauto.
      * intros e Hp. exfalso. eapply Hnl; eauto.
    + inversion H; subst st'. clear H.
      replace (set_thr (set_entries st (entries st ++ [mkE (tcache th) (tkey th) t ELoading (ccur ca) 0 false true 0])) t (PLoad (length (entries st))))
        with (set_thr (set_gens (set_entries st (entries st ++ [mkE (tcache th) (tkey th) t ELoading (ccur ca) 0 false true 0])) (gens st)) t (PLoad (length (entries st))))
        by (destruct st; reflexivity).
      apply hon_thread with (th := th); auto.
      * intros e en' He. apply app_nth_cases in He. destruct He as [He|[-> ->]].
        -- left. exists en'. split; auto. apply ent_keep_refl.
        -- right. split.
           ++ repeat split; simpl; auto; try discriminate.
           ++ intros en He. assert (length (entries st) < length (entries st)) by (apply nth_error_Some; congruence). lia.
      * intros e en0 He _. exists en0. split; auto. rewrite nth_error_app1; auto. apply nth_error_Some. congruence.
      * intros e Hp. inversion Hp; subst. eexists. split; [rewrite nth_error_app2 by lia; rewrite Nat.sub_diag; reflexivity|]. auto.
  - destruct (nth_error (entries st) i) as [en|]; [|discriminate].
    destruct (estat en); [discriminate| |]; inversion H; subst st'; clear H;
      rewrite <- (setters_id st) at 1; (apply hon_thread with (th := th); auto;
      [ intros e en' He; left; exists en'; split; auto; apply ent_keep_refl
      | intros e en0 He _; exists en0; auto
      | intros e Hp; discriminate ]).
  - destruct (I3 t th i Hth Hpc) as (en & Hen & Hst & Hown). rewrite Hen in H.
    assert (Hrec : forall r0, inv_hon z (set_thr (set_entries st (recover_entries true (tcache th) (tkey th) i (entries st))) t (PDone r0))).
    { intros r0.
      match goal with |- inv_hon z (set_thr (set_entries st ?es) t ?p) =>
        replace (set_thr (set_entries st es) t p) with (set_thr (set_gens (set_entries st es) (gens st)) t p) by (destruct st; reflexivity) end.
      assert (Hshape : exists f, (forall x, ent_keep x (f x)) /\
                recover_entries true (tcache th) (tkey th) i (entries st) = upd i abandon (upd i f (entries st))).
      { unfold recover_entries. destruct (find_entry (tcache th) (tkey th) (entries st)) as [j|].
        - destruct (Nat.eqb_spec j i); simpl.
          + subst. exists detach. split; auto. intros x. repeat split; simpl; auto; discriminate.
          + exists (fun x => x). split; [intros; apply ent_keep_refl|]. f_equal.
            clear. generalize i. induction (entries st); destruct i0; simpl; auto. f_equal; auto.
        - exists (fun x => x). split; [intros; apply ent_keep_refl|]. f_equal.
          clear. generalize i. induction (entries st); destruct i0; simpl; auto. f_equal; auto. }
      destruct Hshape as (f & Hf & ->).
      apply hon_thread with (th := th); auto.
      - intros e en' He. rewrite nth_error_upd in He. destruct (Nat.eqb_spec i e).
        + subst e. rewrite (nth_error_upd_same _ _ _ _ Hen) in He. simpl in He. inversion He; subst en'.
          right. split; [|intros en0 H0; congruence].
          destruct (Hf en) as (S & O & V & Z & A & D). destruct (I2 i en Hen) as (P1 & P2 & P3).
          repeat split; simpl; try discriminate.
          * intros A'. destruct (A A') as [A0 D0]. rewrite D0. auto.
          * intros _. rewrite Z. apply P3. congruence.
        + rewrite nth_error_upd_other in He by auto. left. exists en'. split; auto. apply ent_keep_refl.
      - intros e en0 He _. destruct (Nat.eqb_spec i e).
        + subst e. rewrite Hen in He. inversion He; subst en0. eexists. split.
          * apply nth_error_upd_same. apply nth_error_upd_same. eauto.
          * intros N. congruence.
        + exists en0. rewrite !nth_error_upd_other by auto. auto.
      - intros e Hp. discriminate. }
    destruct (tout th) as [v s| |] eqn:Hout.
    + destruct (nth_error (caches st) (tcache th)) as [ca|]; [|discriminate].
      rewrite stale_zero_repaired, orb_false_r in H. inversion H; subst st'. clear H.
      apply hon_thread with (th := th); auto.
      * intros e en' He. rewrite nth_error_upd in He. destruct (Nat.eqb_spec i e).
        -- subst e. rewrite Hen in He. simpl in He. inversion He; subst en'.
           right. split; [|intros en0 H0; congruence].
           destruct (I2 i en Hen) as (P1 & _ & _). repeat split; simpl; auto; try congruence.
           intros _. exists th, s. rewrite Hown. repeat split; auto.
           intros D. rewrite D, I1. reflexivity.
        -- left. exists en'. split; auto. apply ent_keep_refl.
      * intros e en0 He _. destruct (Nat.eqb_spec i e).
        -- subst e. rewrite Hen in He. inversion He; subst en0. eexists. split; [apply nth_error_upd_same; eauto|].
           intros N. congruence.
        -- exists en0. rewrite nth_error_upd_other by auto. auto.
      * intros e Hp. discriminate.
    + inversion H; subst st'. apply Hrec.
    + inversion H; subst st'. apply Hrec.
  - inversion H; subst st'. clear H.
    replace (set_gens st (gadd g s (gens st))) with (set_gens (set_entries st (entries st)) (gadd g s (gens st))) by (destruct st; reflexivity).
    apply hon_thread with (th := th); auto.
    + intros e en' He. left. exists en'. split; auto. apply ent_keep_refl.
    + intros e en0 He _. exists en0. auto.
    + intros e Hp. discriminate.
Qed.

Lemma step_hon z st l st' : step st l = Some st' -> inv_hon z st -> inv_hon z st'.
Proof.
  intros H I. destruct l; simpl in H.
  - inversion H; subst st'. clear H. destruct I as [I1 I2 I3]. split; simpl; auto.
    + intros e en He. eapply ent_p_keep; [apply ent_keep_refl|apply touts_le_app|eauto].
    + intros t th e Ht P. apply app_nth_cases in Ht. destruct Ht as [Ht|[-> ->]]; [eauto|discriminate].
  - eapply step_thread_hon; eauto.
  - inversion H; subst. apply (hon_same z st); auto.
  - destruct (Nat.ltb c (length (caches st))); [|discriminate]. inversion H; subst.
    apply (hon_maint z st _ (fun e => if in_cache c e then detach e else e)); auto.
    intros en. destruct (in_cache c en); [|apply ent_keep_refl]. repeat split; simpl; auto; discriminate.
  - inversion H; subst. unfold do_rotate. destruct (_ || _); apply (hon_same z st); auto.
  - inversion H; subst. unfold clean_begin.
    destruct (limit st =? 0)%Z; [apply (hon_same z st); auto|].
    destruct (acct st <=? limit st)%Z; [apply (hon_same z st); auto|].
    destruct (mark_stale_entries (Z.max (acct st / 20) (acct st - limit st)) st) as [He Ht].
    pose proof (mark_stale_esz (Z.max (acct st / 20) (acct st - limit st)) st) as Hz.
    destruct (mark_stale _ st) as [st1 n]. simpl in *. apply (hon_same z st); auto.
  - rewrite clean_cache_v_repaired in H. inversion H; subst.
    apply (hon_maint z st _ (delete_stale_in c (gens st))); auto.
    intros en. unfold delete_stale_in. destruct (stale_in c (gens st) en); [|apply ent_keep_refl].
    repeat split; simpl; auto; discriminate.
  - inversion H; subst. apply (hon_same z st); auto.
  - inversion H; subst. unfold rel_collect. destruct (released_idx _ _ _); apply (hon_same z st); auto.
  - unfold rel_remove in H. destruct (pendrel st); [|discriminate]. inversion H; subst. apply (hon_same z st); auto.
Qed.

Lemma run_hon z : forall ls st st', run st ls = Some st' -> inv_hon z st -> inv_hon z st'.
Proof.
  induction ls; intros st st' H I; unfold run in H; simpl in H.
  - inversion H; subst; auto.
  - destruct (step_v repaired st a) eqn:E; [|discriminate]. eapply IHls; eauto. eapply step_hon; eauto.
Qed.

Lemma zsum_ext {A} (f g : A -> Z) : forall l, (forall x, In x l -> f x = g x) -> zsum (map f l) = zsum (map g l).
Proof. induction l; simpl; intros H; auto. rewrite H, IHl; auto. Qed.

Theorem sizes_honest lim mg es ls st :
  run (init lim mg es) ls = Some st ->
  (forall e en, nth_error (entries st) e = Some en -> eattached en = true ->
     match estat en with
     | EValid => exists th s, nth_error (threads st) (eowner en) = Some th /\ tout th = OVal (evalue en) s /\
                              esize en = (es + s)%Z
     | _ => esize en = 0%Z
     end) /\
  live st = occupied st.
Proof.
  intros H.
  assert (I : inv_hon es st).
  { apply (run_hon es ls _ _ H). split; simpl; auto.
    - intros e en He. destruct e; discriminate.
    - intros t th e He. destruct t; discriminate. }
  destruct I as [I1 I2 I3].
  assert (P : forall e en, nth_error (entries st) e = Some en -> eattached en = true ->
     match estat en with
     | EValid => exists th s, nth_error (threads st) (eowner en) = Some th /\ tout th = OVal (evalue en) s /\
                              esize en = (es + s)%Z
     | _ => esize en = 0%Z
     end).
  { intros e en He A. destruct (I2 e en He) as (P1 & P2 & P3). destruct (estat en) eqn:S.
    - apply P3. discriminate.
    - destruct (P2 eq_refl) as (th & s & H1 & H2 & H3). exists th, s. auto.
    - apply P3. discriminate. }
  split; auto.
  unfold live, occupied. apply zsum_ext. intros en Hin. apply In_nth_error in Hin. destruct Hin as [e He].
  destruct (eattached en) eqn:A; simpl; auto.
  specialize (P e en He A). destruct (estat en); auto.
  destruct P as (th & s & H1 & H2 & H3). unfold owner_size. rewrite H1, H2, I1. auto.
Qed.

Theorem accounting_occupied lim mg es ls st :
  (0 <= es)%Z -> Forall label_ok ls ->
  run (init lim mg es) ls = Some st -> race_free (init lim mg es) ls = true ->
  no_stale_attached st -> acct st = occupied st.
Proof.
  intros Hes F H R NS. rewrite (accounting_total lim mg es ls st Hes F H R NS).
  apply (sizes_honest lim mg es ls st H).
Qed.
