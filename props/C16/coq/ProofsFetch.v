(* C16 — lemmas about the fetch half: merge of the per-source streams and alignment. *)
From Coq Require Import List Bool Arith NArith Lia Permutation.
From VLib Require Import CaseLib.
From C16 Require Import Model CaseDefs ProofsSearch.
Import ListNotations.

Lemma key_eqb_eq : forall a b, key_eqb a b = true <-> a = b.
Proof.
  intros [a s] [b t]; unfold key_eqb; simpl. rewrite andb_true_iff, id_eqb_eq, Nat.eqb_eq.
  split; [intros [-> ->]; auto | intros H; inversion H; auto].
Qed.
Lemma key_eqb_refl : forall a, key_eqb a a = true.
Proof. intros; now apply key_eqb_eq. Qed.

(* ---------------------------------------------------------------- merge2: equations *)
Lemma merge2_nil_l : forall lt B, merge2 lt [] B = B.
Proof. intros lt [|b B]; reflexivity. Qed.
Lemma merge2_nil_r : forall lt A, merge2 lt A [] = A.
Proof. intros lt [|a A]; reflexivity. Qed.
Lemma merge2_cons : forall lt a A b B,
  merge2 lt (a :: A) (b :: B) =
  if lt (fst b) (fst a) then b :: merge2 lt (a :: A) B else a :: merge2 lt A (b :: B).
Proof. reflexivity. Qed.

Lemma merge2_ind' : forall lt (P : list doc -> list doc -> list doc -> Prop),
  (forall B, P [] B B) -> (forall A, P A [] A) ->
  (forall a A b B, lt (fst b) (fst a) = true -> P (a :: A) B (merge2 lt (a :: A) B) ->
                   P (a :: A) (b :: B) (b :: merge2 lt (a :: A) B)) ->
  (forall a A b B, lt (fst b) (fst a) = false -> P A (b :: B) (merge2 lt A (b :: B)) ->
                   P (a :: A) (b :: B) (a :: merge2 lt A (b :: B))) ->
  forall A B, P A B (merge2 lt A B).
Proof.
  intros lt P H1 H2 H3 H4. induction A as [|a A IHA]; intros B.
  - rewrite merge2_nil_l; auto.
  - induction B as [|b B IHB].
    + rewrite merge2_nil_r; auto.
    + rewrite merge2_cons. destruct (lt (fst b) (fst a)) eqn:E; auto.
Qed.

Lemma merge2_perm : forall lt A B, Permutation (A ++ B) (merge2 lt A B).
Proof.
  intros lt. apply (merge2_ind' lt (fun A B M => Permutation (A ++ B) M)); intros.
  - apply Permutation_refl.
  - rewrite app_nil_r. apply Permutation_refl.
  - eapply perm_trans; [apply Permutation_sym, Permutation_middle|]. now apply perm_skip.
  - simpl. now apply perm_skip.
Qed.

Lemma nmerge_perm : forall lt ss, Permutation (concat ss) (nmerge lt ss).
Proof.
  intros lt [|s0 r]; simpl; [constructor|]. revert s0.
  induction r as [|s r IH]; intros s0; simpl.
  - rewrite app_nil_r. apply Permutation_refl.
  - eapply perm_trans; [|apply IH]. rewrite app_assoc. apply Permutation_app_tail, merge2_perm.
Qed.

(* ---------------------------------------------------------------- (a) + (b) *)
Definition was_delivered (streams : list (src * list sdoc)) (d : doc) : Prop :=
  In (snd d) (delivered streams (fst d)).

Lemma attach_delivered : forall streams st d, In st streams -> In d (attach st) -> was_delivered streams d.
Proof.
  intros streams st d Hst Hd. unfold attach in Hd. apply in_map_iff in Hd.
  destruct Hd as [[i t] [<- Hit]]. unfold was_delivered, delivered; simpl.
  apply in_flat_map. exists st; split; auto. rewrite Nat.eqb_refl.
  apply in_flat_map. exists (i, t); split; auto. simpl. rewrite id_eqb_refl. simpl; auto.
Qed.

Lemma drop_ff_incl : forall lt cur M d, In d (drop_ff lt cur M) -> In d M.
Proof.
  induction M as [|x M IH]; simpl; intros d H; auto.
  destruct (lt (fst x) cur); auto. 
Qed.

Lemma memb_N_In : forall x l, memb N.eqb x l = true <-> In x l.
Proof.
  intros x l; unfold memb; rewrite existsb_exists. split.
  - intros [y [Hy E]]; apply N.eqb_eq in E; subst; auto.
  - intros H; exists x; split; auto using N.eqb_refl.
Qed.

Lemma align_sound : forall lt streams req M,
  (forall d, In d M -> was_delivered streams d) ->
  docs_sound req streams (align lt req M) = true.
Proof.
  intros lt streams req; induction req as [|cur r IH]; intros M HM; simpl; auto.
  destruct (drop_ff lt cur M) as [|d M2] eqn:E.
  - simpl. rewrite key_eqb_refl. simpl. apply IH. intros d [].
  - assert (Hd : forall x, In x (d :: M2) -> was_delivered streams x).
    { intros x Hx. apply HM. eapply drop_ff_incl. rewrite E. exact Hx. }
    destruct (key_eqb cur (fst d)) eqn:K; simpl.
    + rewrite K. simpl. apply key_eqb_eq in K. subst cur.
      rewrite andb_true_iff; split.
      * apply orb_true_iff; right. apply memb_N_In. apply (Hd d). simpl; auto.
      * apply IH. intros x Hx. apply Hd. simpl; auto.
    + rewrite key_eqb_refl. simpl. apply IH. exact Hd.
Qed.

Lemma fetch_sound : forall req streams, docs_sound req streams (fetch req streams) = true.
Proof.
  intros req streams. unfold fetch. apply align_sound.
  intros d Hd. apply (Permutation_in _ (Permutation_sym (nmerge_perm _ _))) in Hd.
  apply in_concat in Hd. destruct Hd as [s [Hs Hd]]. apply in_map_iff in Hs.
  destruct Hs as [st [<- Hst]]. eapply attach_delivered; eauto.
Qed.

Lemma docs_sound_length : forall req streams out, docs_sound req streams out = true -> length out = length req.
Proof.
  induction req as [|k r IH]; intros streams [|d o] H; simpl in *; try discriminate; auto.
  rewrite !andb_true_iff in H. f_equal. eapply IH. apply H.
Qed.
