(* C16 — executable model, extension "request context" (no proofs in this file). Mirrors:
     proxy/search/ingestor.go   searchHost / searchShard under a context that may expire: a client.Search call
                                issued on a done context fails at once; a call that is still running when the
                                context expires fails then (gRPC client behaviour: status Canceled /
                                DeadlineExceeded); such an error is an ordinary replica error for searchShard
                                (appended to errs, next replica);
                                searchStores: one goroutine per shard, each sends exactly one ShardResponse,
                                the receive loop in ARRIVAL order (wants-old / too-many-fractions return at once,
                                other errors are collected, answers converted), then DeduplicateErrors(errs):
                                errors + data => ErrPartialResponse, errors only => error, else complete;
                                Search: hot -> cold fallback on the SAME request context (the cold tier starts
                                when the hot tier's verdict arrived), MergeQPRs, paginateIDs, and — only when
                                ShouldFetch and the page is not empty — the re-check util.IsCancelled(ctx)
                                => ctx.Err() before FetchDocsStream;
     proxyapi/grpc_search.go, grpc_complex_search.go, grpc_get_aggregation.go, grpc_get_histogram.go
                                which request each handler hands to doSearch (ShouldFetch, size/offset, hist,
                                aggs), its own validation, and the mapping of the outcome (Model.api_of).
   Time is logical (nat). A replica's answer is AVAILABLE at a time (None = never); the context expires at a
   time (None = never). A call issued at time t on a replica available at a returns at max t a — unless the
   context is done by then. util.IsCancelled(ctx) at time t  <=>  expiry <= t. *)
From Coq Require Export List Bool Arith NArith ZArith.
From C16 Require Export Model ModelExt.
Export ListNotations.

(* a replica of a timed search: source, what it does with the call once it gets to answer, when *)
Definition treplica := (src * beh * option nat)%type.
Definition tshard := list treplica.

(* util.IsCancelled(ctx) at time t *)
Definition cancelled (d : option nat) (t : nat) : bool :=
  match d with Some e => Nat.leb e t | None => false end.

(* one client.Search call issued at time t *)
Inductive callres := CAnswers (t : nat) | CCtxErr (t : nat) | CNever.
Definition call (d : option nat) (t : nat) (av : option nat) : callres :=
  if cancelled d t then CCtxErr t                    (* the call fails at once on a done context *)
  else match av with
       | Some a =>
           let t' := Nat.max t a in
           match d with
           | Some e => if Nat.leb e t' then CCtxErr e else CAnswers t'   (* still running at the expiry *)
           | None => CAnswers t'
           end
       | None => match d with Some e => CCtxErr e | None => CNever end
       end.

(* searchShard (ShuffleReplicas = false) started at time t: the shard's result and when it is sent *)
Inductive tshard_res := TSR (r : shard_res) (t : nat) | TSNever.
Fixpoint tsearch_shard (d : option nat) (t : nat) (sh : tshard) : tshard_res :=
  match sh with
  | [] => TSR SFail t
  | (s, b, av) :: r =>
      match call d t av with
      | CNever => TSNever
      | CCtxErr t' => tsearch_shard d t' r            (* errs = append(errs, err); continue *)
      | CAnswers t' =>
          match b with
          | BOk l x => TSR (SAns s l x) t'
          | BErr => tsearch_shard d t' r
          | BWantsOld => TSR SWantsOld t'
          | BTooManyFrac => TSR STooManyFrac t'
          | BTooManyUniq => TSR SFail t'
          end
      end
  end.

(* one ShardResponse on respChan: when (None = never) and what *)
Definition ev := (option nat * shard_res)%type.
Definition ev_of (r : tshard_res) : ev :=
  match r with TSR x t => (Some t, x) | TSNever => (None, SFail) end.

(* arrival order on the channel: by time; at the same time the scheduler decides — the only choice that
   matters is between a wants-old and a too-many-fractions verdict: [prio] = wants-old first *)
Definition t_ltb (a b : option nat) : bool :=
  match a, b with
  | Some x, Some y => Nat.ltb x y
  | Some _, None => true
  | None, _ => false
  end.
Definition t_eqb (a b : option nat) : bool :=
  match a, b with
  | Some x, Some y => Nat.eqb x y
  | None, None => true
  | _, _ => false
  end.
Definition ev_before (prio : bool) (a b : ev) : bool :=
  t_ltb (fst a) (fst b)
  || (t_eqb (fst a) (fst b)
      && (if prio then is_wo (snd a) && is_tmf (snd b) else is_tmf (snd a) && is_wo (snd b))).
Fixpoint ev_insert (prio : bool) (x : ev) (l : list ev) : list ev :=
  match l with
  | [] => [x]
  | y :: r => if ev_before prio x y then x :: y :: r else y :: ev_insert prio x r
  end.
Definition arrival (prio : bool) (l : list ev) : list ev := fold_right (ev_insert prio) [] l.

(* the receive loop of searchStores and what follows it; [t] = current time *)
Inductive ttier := TT (r : tier_res) (tend : nat) | TTHang.
Definition after_loop (qs : list (src * list id)) (xs : list extra) (nerr : nat) : tier_res :=
  match nerr with
  | O => TOk false qs xs
  | S _ => match qs with [] => TFail | _ => TOk true qs xs end
  end.
Fixpoint recv_loop (evs : list ev) (qs : list (src * list id)) (xs : list extra) (nerr : nat) (t : nat) : ttier :=
  match evs with
  | [] => TT (after_loop qs xs nerr) t                     (* respChan closed *)
  | (None, _) :: _ => TTHang                                (* a shard that never answers under a context that never expires *)
  | (Some t', r) :: rest =>
      let t2 := Nat.max t t' in
      match r with
      | SWantsOld => TT TWantsOld t2                        (* return nil, err (the deferred cancel aborts the rest) *)
      | STooManyFrac => TT TTooManyFrac t2
      | SFail => recv_loop rest qs xs (S nerr) t2           (* errs = append(errs, err) *)
      | SAns s l x => recv_loop rest (qs ++ [(s, l)]) (xs ++ [x]) nerr t2
      end
  end.

(* searchStores started at time t0 *)
Definition tsearch_stores (prio : bool) (d : option nat) (t0 : nat) (shards : list tshard) : ttier :=
  recv_loop (arrival prio (map (fun sh => ev_of (tsearch_shard d t0 sh)) shards)) [] [] 0 t0.

Inductive tsres := TS (r : sres) | TSHang.

Section DeadlineWithSort.
  Variable sort : (ids -> ids -> bool) -> list ids -> list ids.

  (* Search after searchStores: merge, paginate, and the fetch start. [fetch] = sr.ShouldFetch,
     [tend] = when the verdict arrived, [gap] = time spent until the re-check of the context,
     [ffail] = sources whose Fetch call fails (as Model.search_full) *)
  Definition tfinish (d : option nat) (t : tier_res) (tend : nat) (off size : nat) (rev : bool) (itv : N) (naggs : nat)
             (fetch : bool) (gap : nat) (ffail : list src) : sres :=
    match finish sort t off size rev itv naggs with
    | SOk p (k :: l) r =>
        if fetch then
          if cancelled d (tend + gap) then SErr EOther       (* return nil, nil, 0, ctx.Err() *)
          else if forallb (fun k => existsb (Nat.eqb (snd k)) ffail) (k :: l) then SErr EFetch
          else SOk p (k :: l) r
        else SOk p (k :: l) r
    | r => r
    end.

  (* Ingestor.Search under a request context expiring at [d] *)
  Definition tsearch (p1 p2 : bool) (d : option nat) (hot hotread cold : list tshard) (off size : nat) (rev : bool)
             (itv : N) (naggs : nat) (fetch : bool) (gap : nat) (ffail : list src) : tsres :=
    let h := match hotread with [] => hot | _ => hotread end in
    match tsearch_stores p1 d 0 h with
    | TTHang => TSHang
    | TT TWantsOld t1 =>
        match cold with
        | [] => TS (SErr EWantsOld)
        | _ => match tsearch_stores p2 d t1 cold with
               | TTHang => TSHang
               | TT t t2 => TS (tfinish d t t2 off size rev itv naggs fetch gap ffail)
               end
        end
    | TT t t1 => TS (tfinish d t t1 off size rev itv naggs fetch gap ffail)
    end.

  (* the four proxyapi handlers: what they ask from doSearch *)
  Inductive handler := HSearch | HComplex | HAgg | HHist.
  Inductive tapi := TA (a : api) | TAHang.
  (* request validation; a histogram is asked <=> itv > 0, aggregations <=> naggs > 0 *)
  Definition h_invalid (h : handler) (size : nat) (itv : N) (naggs : nat) : bool :=
    match h with
    | HSearch => Nat.eqb size 0
    | HComplex => Nat.eqb size 0 && N.eqb itv 0 && Nat.eqb naggs 0
    | HAgg => Nat.eqb naggs 0
    | HHist => N.eqb itv 0
    end.
  Definition h_fetch (h : handler) : bool := match h with HSearch | HComplex => true | HAgg | HHist => false end.
  Definition tapi_of (h : handler) (p1 p2 : bool) (d : option nat) (hot hotread cold : list tshard) (off size : nat)
             (rev : bool) (itv : N) (naggs : nat) (gap : nat) (ffail : list src) : tapi :=
    if h_invalid h size itv naggs then TA (AErr GInvalidArgument)
    else
      let r := match h with
               | HSearch => tsearch p1 p2 d hot hotread cold off size rev 0%N 0 true gap ffail
               | HComplex => tsearch p1 p2 d hot hotread cold off size rev itv naggs true gap ffail
               | HAgg => tsearch p1 p2 d hot hotread cold 0 0 false 0%N naggs false gap ffail
               | HHist => tsearch p1 p2 d hot hotread cold 0 0 false itv 0 false gap ffail
               end in
      match r with TSHang => TAHang | TS s => TA (api_of s) end.
End DeadlineWithSort.

(* ------------------------------------------------------------------ what the deadline did to the replicas *)
(* the behaviours without time *)
Definition strip (sh : tshard) : shard := map (fun r => (fst (fst r), snd (fst r))) sh.
(* a shard delivered its answer before the expiry: searchShard, started at t0, ends with an answer *)
Definition delivered_answer (d : option nat) (t0 : nat) (sh : tshard) : bool :=
  match tsearch_shard d t0 sh with TSR (SAns _ _ _) _ => true | _ => false end.
(* when the shard would deliver without any deadline (None = never) and what *)
Definition natural (t0 : nat) (sh : tshard) : tshard_res := tsearch_shard None t0 sh.
(* the context expires before this shard has delivered: its natural delivery time is not before the expiry *)
Definition expires_before (d : option nat) (t0 : nat) (sh : tshard) : bool :=
  match natural t0 sh with
  | TSR _ t => cancelled d t
  | TSNever => match d with Some _ => true | None => false end
  end.

(* ------------------------------------------------------------------ the seeded two-site variant (refuted) *)
(* site 1: the shard goroutine does not send its error when the search context is done at that moment;
   site 2: after the loop the cancellation is reported only when nothing at all was received *)
Fixpoint recv_loop_m9 (d : option nat) (evs : list ev) (qs : list (src * list id)) (xs : list extra) (nerr : nat)
         (t : nat) : ttier :=
  match evs with
  | [] => TT (match qs, nerr with
              | [], O => if cancelled d t then TFail else TOk false [] []      (* site 2: return nil, ctx.Err() *)
              | _, _ => after_loop qs xs nerr
              end) t
  | (None, _) :: _ => TTHang
  | (Some t', r) :: rest =>
      let t2 := Nat.max t t' in
      match r with
      | SAns s l x => recv_loop_m9 d rest (qs ++ [(s, l)]) (xs ++ [x]) nerr t2
      | _ =>
          if cancelled d t' then recv_loop_m9 d rest qs xs nerr t2               (* site 1: nothing is sent *)
          else match r with
               | SWantsOld => TT TWantsOld t2
               | STooManyFrac => TT TTooManyFrac t2
               | _ => recv_loop_m9 d rest qs xs (S nerr) t2
               end
      end
  end.
Definition tsearch_stores_m9 (prio : bool) (d : option nat) (t0 : nat) (shards : list tshard) : ttier :=
  recv_loop_m9 d (arrival prio (map (fun sh => ev_of (tsearch_shard d t0 sh)) shards)) [] [] 0 t0.
