(* C16 — lemmas about the search half: classification, merge, page. *)
From Coq Require Import List Bool Arith NArith Lia Permutation Sorted.
From VLib Require Import CaseLib.
From C16 Require Import Model CaseDefs.
Import ListNotations.

(* ---------------------------------------------------------------- the order on IDs *)
Lemma id_eqb_eq : forall a b, id_eqb a b = true <-> a = b.
Proof.
  intros [a1 a2] [b1 b2]; unfold id_eqb; simpl.
  rewrite andb_true_iff, !N.eqb_eq. split; [intros [-> ->]; auto | intros H; inversion H; auto].
Qed.
Lemma id_eqb_refl : forall a, id_eqb a a = true.
Proof. intros; now apply id_eqb_eq. Qed.

Lemma id_ltb_irrefl : forall a, id_ltb a a = false.
Proof.
  intros [a1 a2]; unfold id_ltb; simpl. rewrite !N.ltb_irrefl, andb_false_r. reflexivity.
Qed.
Lemma id_ltb_spec : forall a b, id_ltb a b = true <->
  (fst a < fst b \/ (fst a = fst b /\ snd a < snd b))%N.
Proof.
  intros [a1 a2] [b1 b2]; unfold id_ltb; simpl.
  rewrite orb_true_iff, andb_true_iff, !N.ltb_lt, N.eqb_eq. tauto.
Qed.
Lemma id_ltb_trans : forall a b c, id_ltb a b = true -> id_ltb b c = true -> id_ltb a c = true.
Proof. intros a b c; rewrite !id_ltb_spec; lia. Qed.
Lemma id_ltb_total : forall a b, id_ltb a b = false -> id_ltb b a = false -> a = b.
Proof.
  intros [a1 a2] [b1 b2] H1 H2.
  destruct (N.lt_total a1 b1) as [L|[E|L]].
  - assert (X : id_ltb (a1,a2) (b1,b2) = true) by (apply id_ltb_spec; simpl; lia). congruence.
  - subst. destruct (N.lt_total a2 b2) as [L|[E|L]].
    + assert (X : id_ltb (b1,a2) (b1,b2) = true) by (apply id_ltb_spec; simpl; lia). congruence.
    + subst; reflexivity.
    + assert (X : id_ltb (b1,b2) (b1,a2) = true) by (apply id_ltb_spec; simpl; lia). congruence.
  - assert (X : id_ltb (b1,b2) (a1,a2) = true) by (apply id_ltb_spec; simpl; lia). congruence.
Qed.

Lemma before_irrefl : forall rev a, before rev a a = false.
Proof. intros [] a; apply id_ltb_irrefl. Qed.
Lemma before_trans : forall rev a b c, before rev a b = true -> before rev b c = true -> before rev a c = true.
Proof. intros [] a b c; simpl; eauto using id_ltb_trans. Qed.
Lemma before_total : forall rev a b, before rev a b = false -> before rev b a = false -> a = b.
Proof. intros [] a b; simpl; intros; [apply id_ltb_total|symmetry; apply id_ltb_total]; auto. Qed.

(* ---------------------------------------------------------------- membership helpers *)
Lemma memb_id_In : forall x l, memb id_eqb x l = true <-> In x l.
Proof.
  intros x l; unfold memb; rewrite existsb_exists. split.
  - intros [y [Hy E]]; apply id_eqb_eq in E; subst; auto.
  - intros H; exists x; split; auto using id_eqb_refl.
Qed.
Lemma memb_nat_In : forall x l, memb Nat.eqb x l = true <-> In x l.
Proof.
  intros x l; unfold memb; rewrite existsb_exists. split.
  - intros [y [Hy E]]; apply Nat.eqb_eq in E; subst; auto.
  - intros H; exists x; split; auto using Nat.eqb_refl.
Qed.

Lemma nodupb_In : forall l x, In x (nodupb l) <-> In x l.
Proof.
  induction l as [|a l IH]; simpl; intros x; [tauto|].
  destruct (memb id_eqb a l) eqn:E.
  - rewrite IH. split; auto. intros [->|H]; auto. now apply memb_id_In.
  - simpl. rewrite IH. tauto.
Qed.
Lemma nodupb_NoDup : forall l, NoDup (nodupb l).
Proof.
  induction l as [|a l IH]; simpl; [constructor|].
  destruct (memb id_eqb a l) eqn:E; auto.
  constructor; auto. rewrite nodupb_In. intros H; apply memb_id_In in H; congruence.
Qed.

Lemma same_set_length : forall (l1 l2 : list id), NoDup l1 -> NoDup l2 ->
  (forall x, In x l1 <-> In x l2) -> length l1 = length l2.
Proof.
  intros l1 l2 N1 N2 H. apply Nat.le_antisymm; apply NoDup_incl_length; auto; intros x; apply H.
Qed.

(* ---------------------------------------------------------------- strictly sorted lists of IDs *)
Definition ssorted (rev : bool) (K : list id) := StronglySorted (fun a b => before rev a b = true) K.

Lemma ssorted_NoDup : forall rev K, ssorted rev K -> NoDup K.
Proof.
  induction 1 as [|a K S IH F]; constructor; auto.
  intros Hin. rewrite Forall_forall in F. specialize (F _ Hin). rewrite before_irrefl in F; discriminate.
Qed.
Lemma ssorted_app_inv : forall rev K1 K2, ssorted rev (K1 ++ K2) ->
  ssorted rev K1 /\ ssorted rev K2 /\ forall a b, In a K1 -> In b K2 -> before rev a b = true.
Proof.
  induction K1 as [|x K1 IH]; simpl; intros K2 H.
  - split; [constructor|split; [assumption|intros a b Ha; destruct Ha]].
  - inversion H as [|? ? S F]; subst. destruct (IH _ S) as [S1 [S2 C]].
    rewrite Forall_forall in F. repeat split; auto.
    + constructor; auto. apply Forall_forall; intros y Hy; apply F, in_or_app; auto.
    + intros a b [->|Ha] Hb; [apply F, in_or_app; auto | auto].
Qed.
Lemma ssorted_bool : forall rev K, ssorted rev K -> strictly_sorted rev K = true.
Proof.
  induction 1 as [|a K S IH F]; simpl; auto.
  rewrite IH, andb_true_r. destruct K; auto. inversion F; auto.
Qed.
Lemma ssorted_firstn : forall rev n K, ssorted rev K -> ssorted rev (firstn n K).
Proof.
  intros rev n K H. rewrite <- (firstn_skipn n K) in H. now apply ssorted_app_inv in H.
Qed.
Lemma ssorted_skipn : forall rev n K, ssorted rev K -> ssorted rev (skipn n K).
Proof.
  intros rev n K H. rewrite <- (firstn_skipn n K) in H. now apply ssorted_app_inv in H.
Qed.

(* the rank of the element at index |K1| of the sorted duplicate-free list is |K1| *)
Lemma rank_at : forall rev U K1 x K2, ssorted rev (K1 ++ x :: K2) ->
  (forall y, In y (K1 ++ x :: K2) <-> In y U) -> rank rev U x = length K1.
Proof.
  intros rev U K1 x K2 S Hset. unfold rank.
  pose proof (ssorted_NoDup _ _ S) as ND.
  destruct (ssorted_app_inv _ _ _ S) as [S1 [S2 C]].
  apply same_set_length; [apply nodupb_NoDup | eapply ssorted_NoDup; eauto |].
  intros y. rewrite nodupb_In, filter_In, <- Hset. split.
  - intros [Hin Hb]. apply in_app_or in Hin. destruct Hin as [|[->|Hin]]; auto.
    + rewrite before_irrefl in Hb; discriminate.
    + inversion S2 as [|? ? _ F]; subst. rewrite Forall_forall in F.
      pose proof (before_trans _ _ _ _ (F _ Hin) Hb) as X. rewrite before_irrefl in X; discriminate.
  - intros Hin; split; [apply in_or_app; auto | apply C; simpl; auto].
Qed.

Lemma In_firstn_split : forall (n : nat) (l : list id) x, In x (firstn n l) ->
  exists l1 l2, l = l1 ++ x :: l2 /\ length l1 < n.
Proof.
  induction n as [|n IH]; intros l x H; [destruct l; inversion H|].
  destruct l as [|a l]; simpl in H; [tauto|]. destruct H as [->|H].
  - exists [], l; simpl; split; auto; lia.
  - destruct (IH _ _ H) as [l1 [l2 [-> L]]]. exists (a :: l1), l2; simpl; split; auto; lia.
Qed.

Lemma page_ok_sorted : forall rev U K off size, ssorted rev K -> (forall y, In y K <-> In y U) ->
  page_ok rev U off size (firstn size (skipn off K)) = true.
Proof.
  intros rev U K off size S Hset. unfold page_ok. rewrite !andb_true_iff. repeat split.
  - apply ssorted_bool, ssorted_firstn, ssorted_skipn, S.
  - apply forallb_forall. intros x Hx.
    destruct (In_firstn_split _ _ _ Hx) as [B1 [B2 [EB LB]]].
    assert (EK : K = (firstn off K ++ B1) ++ x :: B2) by (rewrite <- app_assoc, <- EB; symmetry; apply firstn_skipn).
    assert (Loff : length (firstn off K) = off).
    { apply firstn_length_le. destruct (le_lt_dec off (length K)); auto.
      rewrite skipn_all2 in EB by lia. destruct B1; discriminate. }
    rewrite andb_true_iff; split.
    + apply memb_id_In, Hset. rewrite EK. apply in_or_app; simpl; auto.
    + rewrite EK in S, Hset. rewrite (rank_at _ _ _ _ _ S Hset), app_length, Loff.
      unfold in_page. rewrite andb_true_iff, Nat.leb_le, Nat.ltb_lt. lia.
  - apply forallb_forall. intros u Hu. apply orb_true_iff.
    destruct (in_page off size (rank rev U u)) eqn:P; [right | left; reflexivity].
    apply Hset in Hu. apply in_split in Hu. destruct Hu as [K1 [K2 EK]]. subst K.
    rewrite (rank_at _ _ _ _ _ S Hset) in P. unfold in_page in P.
    rewrite andb_true_iff, Nat.leb_le, Nat.ltb_lt in P.
    apply memb_id_In. rewrite skipn_app.
    replace (off - length K1) with 0 by lia. simpl. rewrite firstn_app.
    apply in_or_app; right. rewrite skipn_length.
    destruct (size - (length K1 - off)) eqn:E; [lia|]. simpl; auto.
Qed.

(* ---------------------------------------------------------------- dedup of a sorted list *)
Definition sort_ok (sort : (ids -> ids -> bool) -> list ids -> list ids) : Prop :=
  forall rev l, Permutation l (sort (lessf rev) l)
                /\ StronglySorted (fun a b => lessf rev b a = false) (sort (lessf rev) l).

Lemma dedup_from_spec : forall rev l last,
  StronglySorted (fun a b => lessf rev b a = false) l ->
  Forall (fun y => lessf rev y last = false) l ->
  let d := dedup_from last l in
  ssorted rev (map fst d)
  /\ Forall (fun y => lessf rev last y = true) d
  /\ (forall y, In y d -> In y l)
  /\ (forall y, In y l -> fst y = fst last \/ In (fst y) (map fst d)).
Proof.
  intros rev l; induction l as [|y r IH]; intros last S F; simpl.
  - repeat split; auto; try constructor; try (intros ? []).
  - inversion S as [|? ? Sr Fy]; subst. inversion F as [|? ? Hy Fr]; subst.
    destruct (id_eqb (fst last) (fst y)) eqn:E.
    + destruct (IH last Sr Fr) as [A [B [C D]]]. split; [|split; [|split]]; auto.
      intros z [->|Hz]; [left; symmetry; now apply id_eqb_eq | auto].
    + destruct (IH y Sr Fy) as [A [B [C D]]].
      assert (Lt : lessf rev last y = true).
      { unfold lessf in *. destruct (before rev (fst last) (fst y)) eqn:X; auto.
        exfalso. pose proof (before_total _ _ _ X Hy) as Q. rewrite Q, id_eqb_refl in E; discriminate. }
      split; [|split; [|split]].
      * simpl. constructor; auto. rewrite Forall_forall in B |- *.
        intros k Hk. apply in_map_iff in Hk. destruct Hk as [z [<- Hz]]. apply (B _ Hz).
      * constructor; auto. rewrite Forall_forall in B |- *. intros z Hz.
        unfold lessf in *. eapply before_trans; [exact Lt | apply (B _ Hz)].
      * intros z [->|Hz]; auto.
      * intros z [->|Hz]; [right; simpl; auto|]. destruct (D _ Hz) as [Q|Q]; right; simpl; auto.
Qed.

Lemma dedup_spec : forall rev l, StronglySorted (fun a b => lessf rev b a = false) l ->
  ssorted rev (map fst (dedup l))
  /\ (forall y, In y (dedup l) -> In y l)
  /\ (forall k, In k (map fst l) <-> In k (map fst (dedup l))).
Proof.
  intros rev [|x r] S; simpl.
  - repeat split; auto; try constructor; tauto.
  - inversion S as [|? ? Sr Fx]; subst.
    destruct (dedup_from_spec rev r x Sr Fx) as [A [B [C D]]]. split; [|split; [|intros k; split]].
    + constructor; auto. rewrite Forall_forall in B |- *.
      intros k Hk. apply in_map_iff in Hk. destruct Hk as [z [<- Hz]]. apply (B _ Hz).
    + intros y [->|Hy]; auto.
    + intros [->|Hk]; auto. apply in_map_iff in Hk. destruct Hk as [z [<- Hz]].
      destruct (D _ Hz) as [Q|Q]; [left; auto | right; auto].
    + intros [->|Hk]; auto. apply in_map_iff in Hk. destruct Hk as [z [<- Hz]].
      right. apply in_map, C, Hz.
Qed.

Lemma map_fst_tag : forall qs, map fst (flat_map tag qs) = flat_map snd qs.
Proof.
  induction qs as [|[s l] qs IH]; auto.
  change (flat_map tag ((s,l) :: qs)) with (tag (s,l) ++ flat_map tag qs).
  change (flat_map snd ((s,l) :: qs)) with (l ++ flat_map snd qs).
  rewrite map_app. f_equal; [|exact IH].
  unfold tag; simpl. rewrite map_map; simpl. apply map_id.
Qed.

Lemma In_tag_sources : forall qs k, In k (flat_map tag qs) ->
  existsb (fun q => Nat.eqb (fst q) (snd k) && memb id_eqb (fst k) (snd q)) qs = true.
Proof.
  intros qs k H. apply in_flat_map in H. destruct H as [q [Hq Hk]].
  apply existsb_exists. exists q; split; auto.
  unfold tag in Hk. apply in_map_iff in Hk. destruct Hk as [i [<- Hi]]. simpl.
  rewrite Nat.eqb_refl. simpl. now apply memb_id_In.
Qed.

Lemma firstn_In : forall {A} n (l : list A) x, In x (firstn n l) -> In x l.
Proof. intros A n l x H. rewrite <- (firstn_skipn n l). apply in_or_app; auto. Qed.
Lemma skipn_In : forall {A} n (l : list A) x, In x (skipn n l) -> In x l.
Proof. intros A n l x H. rewrite <- (firstn_skipn n l). apply in_or_app; auto. Qed.

Section WithSort.
  Variable sort : (ids -> ids -> bool) -> list ids -> list ids.
  Hypothesis sort_is_ok : sort_ok sort.

  (* the page computed by MergeQPRs + paginateIDs is the page of the specification *)
  Lemma finish_page : forall qs off size rev,
    let out := paginate (merge_qprs sort qs (off + size) rev) off size in
    page_ok rev (flat_map snd qs) off size (map fst out) = true /\ sources_ok qs out = true.
  Proof.
    intros qs off size rev out. subst out. unfold paginate, merge_qprs.
    destruct (sort_is_ok rev (flat_map tag qs)) as [P S].
    destruct (dedup_spec rev _ S) as [A [B C]].
    set (D := dedup (sort (lessf rev) (flat_map tag qs))) in *.
    split.
    - rewrite <- firstn_map, <- skipn_map, <- firstn_map.
      rewrite <- firstn_skipn_comm, firstn_firstn, Nat.min_id.
      apply page_ok_sorted; auto.
      intros y. rewrite <- C, <- map_fst_tag. split; intros H; apply in_map_iff in H;
        destruct H as [z [<- Hz]]; apply in_map.
      + eapply Permutation_in; [apply Permutation_sym, P | exact Hz].
      + eapply Permutation_in; [apply P | exact Hz].
    - unfold sources_ok. apply forallb_forall. intros k Hk.
      apply In_tag_sources. eapply Permutation_in; [apply Permutation_sym, P|].
      apply B. eapply firstn_In, skipn_In, firstn_In, Hk.
  Qed.

  Lemma finish_ok : forall t off size rev itv naggs,
    match tier_verdict t, finish sort t off size rev itv naggs with
    | VErr k, SErr k' => k = k'
    | VOk p qs xs, SOk p' out r =>
        p = p' /\ page_ok rev (flat_map snd qs) off size (map fst out) = true /\ sources_ok qs out = true
        /\ r = merge_rest sort qs xs rev itv naggs
    | _, _ => False
    end.
  Proof.
    intros [p qs xs| | |] off size rev itv naggs; simpl; auto. split; auto.
    destruct (finish_page qs off size rev) as [A B]. auto.
  Qed.

  Lemma search_ok : forall p1 p2 hot hotread cold off size rev itv naggs,
    match verdict_of p1 p2 hot hotread cold, search sort p1 p2 hot hotread cold off size rev itv naggs with
    | VErr k, SErr k' => k = k'
    | VOk p qs xs, SOk p' out r =>
        p = p' /\ page_ok rev (flat_map snd qs) off size (map fst out) = true /\ sources_ok qs out = true
        /\ r = merge_rest sort qs xs rev itv naggs
    | _, _ => False
    end.
  Proof.
    intros. unfold verdict_of, search.
    destruct (search_stores p1 match hotread with [] => hot | _ :: _ => hotread end) eqn:E.
    - apply (finish_ok (TOk partial qs xs)).
    - destruct cold; simpl; auto. apply finish_ok.
    - apply (finish_ok TTooManyFrac).
    - apply (finish_ok TFail).
  Qed.

  Lemma cold_fallback : forall p1 p2 hot hotread cold off size rev itv naggs,
    search_stores p1 (match hotread with [] => hot | _ => hotread end) = TWantsOld ->
    cold <> [] ->
    search sort p1 p2 hot hotread cold off size rev itv naggs = search sort p2 p2 cold [] [] off size rev itv naggs.
  Proof.
    intros p1 p2 hot hotread cold off size rev itv naggs H NE. unfold search at 1. rewrite H.
    unfold search. destruct cold as [|c cold]; [congruence|].
    destruct (search_stores p2 (c :: cold)); reflexivity.
  Qed.

  Lemma no_cold_tier : forall p1 p2 hot hotread off size rev itv naggs,
    search_stores p1 (match hotread with [] => hot | _ => hotread end) = TWantsOld ->
    search sort p1 p2 hot hotread [] off size rev itv naggs = SErr EWantsOld.
  Proof. intros. unfold search. rewrite H. reflexivity. Qed.
End WithSort.

(* ---------------------------------------------------------------- the executable sort is a sort *)
Lemma insert_perm : forall lt x l, Permutation (x :: l) (insert lt x l).
Proof.
  induction l as [|y r IH]; simpl; auto. destruct (lt y x); auto.
  eapply perm_trans; [apply perm_swap | apply perm_skip, IH].
Qed.
Lemma insert_sorted : forall rev x l,
  StronglySorted (fun a b => lessf rev b a = false) l ->
  StronglySorted (fun a b => lessf rev b a = false) (insert (lessf rev) x l).
Proof.
  intros rev x l; induction 1 as [|y r S IH F]; simpl.
  - constructor; constructor.
  - destruct (lessf rev y x) eqn:E.
    + constructor; auto. rewrite Forall_forall in F |- *. intros z Hz.
      apply (Permutation_in _ (Permutation_sym (insert_perm _ _ _))) in Hz. destruct Hz as [<-|Hz]; auto.
      unfold lessf in *. destruct (before rev (fst x) (fst y)) eqn:X; auto.
      pose proof (before_trans _ _ _ _ E X) as Q. rewrite before_irrefl in Q; discriminate.
    + constructor; [constructor; auto|]. constructor; auto.
      rewrite Forall_forall in F |- *. intros z Hz. specialize (F _ Hz). unfold lessf in *.
      destruct (before rev (fst z) (fst x)) eqn:X; auto.
      destruct (before rev (fst y) (fst z)) eqn:Y.
      * pose proof (before_trans _ _ _ _ Y X); congruence.
      * pose proof (before_total _ _ _ F Y) as Q. rewrite Q in X. congruence.
Qed.
Lemma isort_ok : sort_ok isort.
Proof.
  intros rev l; induction l as [|x l [P S]]; simpl; split; auto; try constructor.
  - eapply perm_trans; [apply perm_skip, P | apply insert_perm].
  - now apply insert_sorted.
Qed.

(* ---------------------------------------------------------------- tier classification *)
Lemma search_stores_spec : forall prio shards,
  let rs := map search_shard shards in
  match search_stores prio shards with
  | TOk p qs xs => qs = answers rs /\ xs = extras rs /\ existsb is_wo rs = false /\ existsb is_tmf rs = false
                /\ p = existsb is_fail rs /\ (p = true -> qs <> [])
  | TFail => existsb is_wo rs = false /\ existsb is_tmf rs = false
             /\ existsb is_fail rs = true /\ answers rs = []
  | TWantsOld => existsb is_wo rs = true
  | TTooManyFrac => existsb is_tmf rs = true
  end.
Proof.
  intros prio shards rs. unfold search_stores. fold rs.
  destruct (existsb is_wo rs) eqn:W, (existsb is_tmf rs) eqn:T; simpl; auto.
  - destruct prio; auto.
  - destruct (existsb is_fail rs) eqn:F.
    + destruct (answers rs) eqn:A; repeat split; auto. discriminate.
    + repeat split; auto. discriminate.
Qed.

Lemma search_shard_spec : forall sh,
  match search_shard sh with
  | SAns s l x => exists pre post, sh = pre ++ (s, BOk l x) :: post /\ Forall (fun r => snd r = BErr) pre
  | SWantsOld => exists pre s post, sh = pre ++ (s, BWantsOld) :: post /\ Forall (fun r => snd r = BErr) pre
  | STooManyFrac => exists pre s post, sh = pre ++ (s, BTooManyFrac) :: post /\ Forall (fun r => snd r = BErr) pre
  | SFail => Forall (fun r => snd r = BErr) sh
             \/ exists pre s post, sh = pre ++ (s, BTooManyUniq) :: post /\ Forall (fun r => snd r = BErr) pre
  end.
Proof.
  induction sh as [|[s b] r IH]; simpl; auto.
  destruct b.
  - exists [], r; auto.
  - destruct (search_shard r) as [s' l' x'| | |].
    + destruct IH as [pre [post [-> F]]]. exists ((s, BErr) :: pre), post; split; auto.
    + destruct IH as [pre [s' [post [-> F]]]]. exists ((s, BErr) :: pre), s', post; split; auto.
    + destruct IH as [pre [s' [post [-> F]]]]. exists ((s, BErr) :: pre), s', post; split; auto.
    + destruct IH as [F|[pre [s' [post [-> F]]]]]; [left; auto | right].
      exists ((s, BErr) :: pre), s', post; split; auto.
  - exists [], s, r; auto.
  - exists [], s, r; auto.
  - right. exists [], s, r; auto.
Qed.
