(* C16 — Ingestor.Documents: expandIDsBySources + fetch + uniqueIDIterator. *)
From Coq Require Import List Bool Arith NArith Lia Permutation.
From VLib Require Import CaseLib.
From C16 Require Import Model CaseDefs ProofsSearch ProofsFetch ProofsAlign.
Import ListNotations.

Definition did (d : doc) : id := fst (fst d).

(* ---------------------------------------------------------------- uniq: members and IDs *)
Lemma uniq_go_in : forall l prev found d, In d (uniq_go prev found l) -> d = found \/ In d l.
Proof.
  induction l as [|x l IH]; simpl; intros prev found d H.
  - destruct H as [<-|[]]; auto.
  - destruct (id_eqb (fst (fst x)) (fst (fst prev))).
    + destruct (IH _ _ _ H) as [->|Hin]; auto. destruct (is_empty x); auto.
    + destruct H as [<-|H]; auto. destruct (IH _ _ _ H) as [->|Hin]; auto.
Qed.
Lemma uniq_in : forall l d, In d (uniq l) -> In d l.
Proof.
  intros [|x l] d H; simpl in *; auto. destruct (uniq_go_in _ _ _ _ H); auto.
Qed.

Lemma compress_cons2 : forall x y r,
  compress (x :: y :: r) = if id_eqb x y then compress (y :: r) else x :: compress (y :: r).
Proof. reflexivity. Qed.

Lemma uniq_go_ids : forall l prev found, did found = did prev ->
  map did (uniq_go prev found l) = compress (did prev :: map did l).
Proof.
  induction l as [|x l IH]; intros prev found E; simpl uniq_go.
  - simpl. now rewrite E.
  - cbn [map]. rewrite compress_cons2. fold (did x) (did prev). rewrite (id_eqb_sym (did prev) (did x)).
    destruct (id_eqb (did x) (did prev)) eqn:Q.
    + apply IH. destruct (is_empty x); auto. apply id_eqb_eq in Q. congruence.
    + cbn [map]. rewrite E. f_equal. now apply IH.
Qed.
Lemma uniq_ids : forall l, map did (uniq l) = compress (map did l).
Proof. intros [|x l]; simpl uniq; [reflexivity|]. now apply uniq_go_ids. Qed.

(* ---------------------------------------------------------------- soundness *)
Lemma docs_sound_each : forall req streams out, docs_sound req streams out = true ->
  forall d, In d out -> In (fst d) req /\ (snd d = 0%N \/ In (snd d) (delivered streams (fst d))).
Proof.
  induction req as [|k r IH]; intros streams [|x o] H d Hd; simpl in *; try discriminate; try tauto.
  rewrite !andb_true_iff in H. destruct H as [[K D] R]. apply key_eqb_eq in K.
  destruct Hd as [<-|Hd].
  - split; [left; auto|]. apply orb_true_iff in D. destruct D as [D|D].
    + left. now apply N.eqb_eq.
    + right. rewrite <- K. now apply memb_N_In.
  - destruct (IH _ _ R _ Hd). auto.
Qed.

Lemma docs_sound_ids : forall req streams out, docs_sound req streams out = true ->
  map did out = map fst req.
Proof.
  induction req as [|k r IH]; intros streams [|d o] H; simpl in *; try discriminate; auto.
  rewrite !andb_true_iff in H. destruct H as [[K _] R]. apply key_eqb_eq in K.
  f_equal; [unfold did; now rewrite <- K | eapply IH; eauto].
Qed.

Lemma compress_repeat : forall n x l, compress (repeat x (S n) ++ l) = compress (x :: l).
Proof.
  induction n as [|n IH]; intros x l; [reflexivity|].
  change (repeat x (S (S n)) ++ l) with (x :: x :: (repeat x n ++ l)).
  rewrite compress_cons2, id_eqb_refl. apply (IH x l).
Qed.

Definition exp_ids (groups : list (id * list src)) : list id := map fst (expand groups).

Lemma exp_ids_cons : forall i o gs, exp_ids ((i, o) :: gs) = repeat i (length o) ++ exp_ids gs.
Proof.
  intros. unfold exp_ids, expand. cbn [flat_map]. rewrite map_app. f_equal. simpl.
  induction o; simpl; f_equal; auto.
Qed.

Lemma compress_expand : forall gs x, Forall (fun g => snd g <> []) gs ->
  compress (x :: exp_ids gs) = compress (x :: map fst gs).
Proof.
  induction gs as [|[i o] gs IH]; intros x F; [reflexivity|].
  inversion F as [|? ? Ho F']; subst. simpl in Ho. rewrite exp_ids_cons.
  destruct o as [|s o]; [congruence|]. simpl length. cbn [map fst].
  destruct (repeat i (S (length o)) ++ exp_ids gs) as [|y r] eqn:E; [discriminate|].
  assert (y = i) by (simpl in E; congruence). subst y.
  rewrite !compress_cons2. rewrite <- E, compress_repeat, IH by auto. reflexivity.
Qed.

Lemma list_id_eqb_refl : forall l, list_eqb id_eqb l l = true.
Proof. induction l; simpl; auto. now rewrite id_eqb_refl. Qed.

Lemma documents_sound : forall groups srcs streams,
  Forall (fun g => snd g <> [] /\ incl (snd g) srcs) groups ->
  udocs_sound (map fst groups) srcs streams (documents groups streams) = true.
Proof.
  intros groups srcs streams F. unfold udocs_sound, documents. apply andb_true_iff; split.
  - change (fun d : doc => fst (fst d)) with did. rewrite uniq_ids.
    pose proof (docs_sound_length _ _ _ (fetch_sound (expand groups) streams)) as L.
    assert (E : map did (fetch (expand groups) streams) = exp_ids groups)
      by (apply docs_sound_ids with (streams := streams), fetch_sound).
    rewrite E.
    assert (C : compress (exp_ids groups) = compress (map fst groups)).
    { destruct groups as [|[i o] gs]; [reflexivity|]. inversion F as [|? ? [Ho _] F']; subst. simpl in Ho.
      rewrite exp_ids_cons. destruct o as [|s o]; [congruence|]. simpl length.
      rewrite compress_repeat. cbn [map fst]. apply compress_expand.
      eapply Forall_impl; [|exact F']. simpl; tauto. }
    rewrite C. apply list_id_eqb_refl.
  - apply forallb_forall. intros d Hd. apply uniq_in in Hd.
    destruct (docs_sound_each _ _ _ (fetch_sound (expand groups) streams) d Hd) as [A B].
    apply andb_true_iff; split.
    + apply memb_nat_In. destruct d as [[i s0] t]. simpl in *.
      unfold expand in A. apply in_flat_map in A. destruct A as [g [Hg A]].
      apply in_map_iff in A. destruct A as [s [E Hs]]. inversion E; subst.
      rewrite Forall_forall in F. destruct (F g Hg) as [_ I]. now apply I.
    + apply orb_true_iff. destruct B as [B|B]; [left; now apply N.eqb_eq | right; now apply memb_N_In].
Qed.

(* ---------------------------------------------------------------- completeness *)
Definition step (f x : doc) : doc := if is_empty x then f else x.
Definition choose (run : list doc) : doc :=
  match run with [] => ((0%N, 0%N, 0), 0%N) | d :: r => fold_left step r d end.

Lemma last_nonempty : forall (l : list doc) x a b, last (x :: l) a = last (x :: l) b.
Proof.
  induction l as [|y l IH]; intros x a b; [reflexivity|].
  change (last (x :: y :: l) a) with (last (y :: l) a). change (last (x :: y :: l) b) with (last (y :: l) b). apply IH.
Qed.

Lemma uniq_go_run : forall r prev found rest, (forall x, In x r -> did x = did prev) ->
  uniq_go prev found (r ++ rest) = uniq_go (last r prev) (fold_left step r found) rest.
Proof.
  induction r as [|x r IH]; intros prev found rest H; [reflexivity|].
  simpl app. simpl uniq_go. fold (did x) (did prev). rewrite (H x) by (simpl; auto). rewrite id_eqb_refl.
  rewrite IH.
  - f_equal. destruct r as [|y r]; [reflexivity|].
    change (last (x :: y :: r) prev) with (last (y :: r) prev). apply last_nonempty.
  - intros y Hy. rewrite (H y), (H x); simpl; auto.
Qed.

Fixpoint runs_ok (prev : id) (runs : list (list doc)) : Prop :=
  match runs with
  | [] => True
  | run :: rest => exists d r, run = d :: r /\ did d <> prev /\ (forall x, In x r -> did x = did d) /\ runs_ok (did d) rest
  end.

Lemma last_did : forall r d, (forall x, In x r -> did x = did d) -> did (last r d) = did d.
Proof.
  induction r as [|x r IH]; intros d H; [reflexivity|].
  destruct r as [|y r]; [apply H; simpl; auto|].
  change (last (x :: y :: r) d) with (last (y :: r) d). apply IH. intros z Hz; apply H; simpl in *; tauto.
Qed.

Lemma uniq_go_runs : forall runs prev found, runs_ok (did prev) runs ->
  uniq_go prev found (concat runs) = found :: map choose runs.
Proof.
  induction runs as [|run runs IH]; intros prev found H; [reflexivity|].
  destruct H as [d [r [-> [Ne [Hr Hok]]]]]. simpl concat. simpl app. simpl uniq_go.
  fold (did d) (did prev). destruct (id_eqb (did d) (did prev)) eqn:Q; [apply id_eqb_eq in Q; congruence|].
  f_equal. rewrite uniq_go_run by auto. rewrite IH; [reflexivity|]. now rewrite last_did.
Qed.

Lemma uniq_runs : forall runs, (forall p, match runs with [] => True | (d :: _) :: _ => did d <> p -> runs_ok p runs | [] :: _ => False end) ->
  uniq (concat runs) = map choose runs.
Proof.
  intros [|[|d r] runs] H; [reflexivity | destruct (H (0%N,0%N)) |].
  simpl concat. simpl app. simpl uniq.
  assert (Ok : runs_ok (N.succ (fst (did d)), snd (did d)) ((d :: r) :: runs)).
  { apply H. destruct (did d) as [a b]; simpl. intros E. inversion E. lia. }
  destruct Ok as [d' [r' [E [_ [Hr Hok]]]]]. inversion E; subst d' r'.
  rewrite uniq_go_run by auto. rewrite uniq_go_runs; [reflexivity|]. now rewrite last_did.
Qed.

Lemma step_nonempty : forall d x, negb (is_empty (step d x)) = negb (is_empty d) || negb (is_empty x).
Proof.
  intros d x. unfold step. destruct (is_empty x) eqn:E; simpl.
  - now rewrite orb_false_r.
  - rewrite E. simpl. now rewrite orb_true_r.
Qed.
Lemma choose_nonempty : forall run, run <> [] ->
  negb (is_empty (choose run)) = existsb (fun x => negb (is_empty x)) run.
Proof.
  intros [|d r] H; [congruence|]. simpl. clear H. revert d.
  induction r as [|x r IH]; intros d; simpl; [now rewrite orb_false_r|].
  rewrite IH, step_nonempty, orb_assoc. reflexivity.
Qed.

Definition runs_of (streams : list (src * list sdoc)) (groups : list (id * list src)) : list (list doc) :=
  map (fun g => map (fun s => expected_doc streams (fst g, s)) (snd g)) groups.

Lemma concat_runs : forall streams groups,
  concat (runs_of streams groups) = map (expected_doc streams) (expand groups).
Proof.
  intros streams; induction groups as [|g gs IH]; [reflexivity|].
  unfold runs_of, expand in *. cbn [map concat flat_map]. rewrite map_app, IH, map_map. reflexivity.
Qed.

Lemma runs_ok_groups : forall streams groups p,
  NoDup (map fst groups) -> Forall (fun g => snd g <> []) groups ->
  match groups with [] => True | g :: _ => fst g <> p end ->
  runs_ok p (runs_of streams groups).
Proof.
  intros streams; induction groups as [|[i o] gs IH]; intros p ND F Hp; [exact I|].
  inversion ND as [|? ? Hni ND']; subst. inversion F as [|? ? Ho F']; subst. simpl in Ho, Hp.
  destruct o as [|s o]; [congruence|]. cbn [runs_of map fst snd].
  exists (expected_doc streams (i, s)), (map (fun s0 => expected_doc streams (i, s0)) o).
  split; [reflexivity|]. split; [exact Hp|]. split.
  - intros x Hx. apply in_map_iff in Hx. destruct Hx as [s0 [<- _]]. reflexivity.
  - apply IH; auto. destruct gs as [|g gs]; [exact I|]. intros E. apply Hni. simpl. left. exact E.
Qed.

Lemma existsb_map : forall {A B} (f : A -> B) (p : B -> bool) l, existsb p (map f l) = existsb (fun x => p (f x)) l.
Proof. induction l; simpl; auto. now rewrite IHl. Qed.

(* with well-behaved streams, no repeated ID and at least one source per ID: one document per
   requested ID, non-empty exactly when one of the sources sent a non-empty document for it *)
Lemma documents_complete : forall groups streams,
  well_behaved (expand groups) streams = true ->
  NoDup (map fst groups) -> Forall (fun g => snd g <> []) groups ->
  map (fun d => negb (N.eqb (snd d) 0)) (documents groups streams)
  = map (fun g => some_delivered (snd g) streams (fst g)) groups.
Proof.
  intros groups streams W ND F. unfold documents.
  rewrite (fetch_complete_eq _ _ W), <- concat_runs.
  rewrite uniq_runs.
  2:{ intros p. destruct groups as [|[i o] gs]; [exact I|].
      inversion F as [|? ? Ho F']; subst. simpl in Ho. destruct o as [|s o]; [congruence|].
      cbn [runs_of map fst snd]. intros Hp.
      apply (runs_ok_groups streams ((i, s :: o) :: gs) p ND F). simpl. exact Hp. }
  unfold runs_of. rewrite !map_map. apply map_ext_in. intros g Hg.
  rewrite Forall_forall in F. specialize (F g Hg).
  transitivity (existsb (fun x => negb (is_empty x)) (map (fun s => expected_doc streams (fst g, s)) (snd g))).
  - apply (choose_nonempty (map (fun s => expected_doc streams (fst g, s)) (snd g))).
    destruct (snd g); [congruence | discriminate].
  - rewrite existsb_map. reflexivity.
Qed.
