(* C16 — proxyapi response assembly: the page is a slice of the merged order, the documents are
   aligned with it, Total does not depend on the paging. *)
From Coq Require Import List Bool Arith NArith ZArith Lia Permutation.
From VLib Require Import CaseLib.
From C16 Require Import Model ModelExt CaseDefs ProofsSearch ProofsFetch ProofsAlign ProofsRest ProofsFds.
Import ListNotations.

Lemma api_docs_ids : forall l stream, map fst (api_docs l stream) = map fst l.
Proof.
  induction l as [|k r IH]; intros stream; simpl; auto.
  destruct stream as [|d s]; simpl; f_equal; apply IH.
Qed.

Definition doc_of (streams : list (src * list sdoc)) (k : ids) (d : id * N) : Prop :=
  fst d = fst k /\ (snd d = 0%N \/ In (snd d) (delivered streams k)).

Lemma api_docs_sound : forall l streams stream, docs_sound l streams stream = true ->
  Forall2 (doc_of streams) l (api_docs l stream).
Proof.
  induction l as [|k r IH]; intros streams [|d s] H; simpl in *; try discriminate; [constructor|].
  rewrite !andb_true_iff in H. destruct H as [[K D] R]. apply key_eqb_eq in K.
  constructor; [|now apply IH]. split; [reflexivity|]. simpl.
  apply orb_true_iff in D. destruct D as [D|D]; [left; now apply N.eqb_eq | right; now apply memb_N_In].
Qed.

Section WithSort.
  Variable sort : (ids -> ids -> bool) -> list ids -> list ids.
  Hypothesis sort_is_ok : sort_ok sort.

  (* MergeQPRs with limit offset+size followed by paginateIDs = the slice of the unlimited merged order *)
  Lemma page_is_slice : forall qs off size rev,
    paginate (merge_qprs sort qs (off + size) rev) off size = firstn size (skipn off (merged_all sort qs rev)).
  Proof.
    intros. unfold paginate, merge_qprs, merged_all.
    rewrite <- firstn_skipn_comm, firstn_firstn, Nat.min_id. reflexivity.
  Qed.

  Lemma finish_shape : forall t off size rev itv naggs,
    match tier_verdict t, finish sort t off size rev itv naggs with
    | VErr k, SErr k' => k = k'
    | VOk p qs xs, SOk p' l x =>
        p = p' /\ l = paginate (merge_qprs sort qs (off + size) rev) off size /\ x = merge_rest sort qs xs rev itv naggs
    | _, _ => False
    end.
  Proof. intros [p qs xs| | |] off size rev itv naggs; simpl; auto. Qed.

  Lemma search_shape : forall p1 p2 hot hotread cold off size rev itv naggs,
    match verdict_of p1 p2 hot hotread cold, search sort p1 p2 hot hotread cold off size rev itv naggs with
    | VErr k, SErr k' => k = k'
    | VOk p qs xs, SOk p' l x =>
        p = p' /\ l = paginate (merge_qprs sort qs (off + size) rev) off size /\ x = merge_rest sort qs xs rev itv naggs
    | _, _ => False
    end.
  Proof.
    intros. unfold verdict_of, search.
    destruct (search_stores p1 match hotread with [] => hot | _ :: _ => hotread end) eqn:E.
    - apply (finish_shape (TOk partial qs xs)).
    - destruct cold; simpl; auto. apply finish_shape.
    - apply (finish_shape TTooManyFrac).
    - apply (finish_shape TFail).
  Qed.

  Definition page_of (q : areq) (qs : list (src * list id)) : list ids :=
    firstn (Z.to_nat (a_size q)) (skipn (Z.to_nat (a_off q)) (merged_all sort qs (a_rev q))).

  Lemma api_paging : forall q p1 p2 hot hotread cold calls,
    match api_full sort q p1 p2 hot hotread cold calls with
    | DResp flag code docs total hist =>
        a_invalid q = false
        /\ exists qs xs, verdict_of p1 p2 hot hotread cold = VOk flag qs xs
           /\ map fst docs = map fst (page_of q qs)
           /\ Forall2 (doc_of (live calls)) (page_of q qs) docs
           /\ page_ok (a_rev q) (flat_map snd qs) (Z.to_nat (a_off q)) (Z.to_nat (a_size q)) (map fst docs) = true
           /\ sources_ok qs (page_of q qs) = true
           /\ total = to_int64 (total_spec (flat_map snd qs) xs)
           /\ code = (if flag then CPartial else CNo)
           /\ (flag = false -> errs_spec xs = 0)
           /\ (page_of q qs <> [] -> fds_fails calls = false)
           /\ hist = match a_hist q with
                     | Some _ => Some (x_hist (merge_rest sort qs xs (a_rev q) (a_itv q) 0))
                     | None => None
                     end
    | DOnlyError => verdict_of p1 p2 hot hotread cold = VErr ETooManyFrac
    | DErr GInvalidArgument => a_invalid q = true \/ verdict_of p1 p2 hot hotread cold = VErr EWantsOld
    | DErr GInternal => True
    end.
  Proof.
    intros. unfold api_full. destruct (a_invalid q) eqn:Inv; [left; reflexivity|].
    pose proof (search_shape p1 p2 hot hotread cold (Z.to_nat (a_off q)) (Z.to_nat (a_size q)) (a_rev q) (a_itv q) 0) as SH.
    pose proof (search_ok sort sort_is_ok p1 p2 hot hotread cold (Z.to_nat (a_off q)) (Z.to_nat (a_size q)) (a_rev q) (a_itv q) 0) as OK.
    destruct (search sort p1 p2 hot hotread cold (Z.to_nat (a_off q)) (Z.to_nat (a_size q)) (a_rev q) (a_itv q) 0) as [k|p l x];
      destruct (verdict_of p1 p2 hot hotread cold) as [k'|p' qs xs]; try contradiction.
    - subst k'. destruct k; simpl; auto.
    - destruct SH as [-> [El Ex]]. destruct OK as [_ [PO [SO _]]].
      rewrite page_is_slice in El. fold (page_of q qs) in El.
      unfold api_finish.
      assert (F : match (match l with [] => FdOk [] | _ :: _ => fds l calls end) with
                  | FdErr => True
                  | FdOk stream => Forall2 (doc_of (live calls)) l (api_docs l stream)
                                   /\ (l <> [] -> fds_fails calls = false)
                  end).
      { destruct l as [|k0 l0]; [split; [constructor | congruence]|].
        unfold fds. destruct (fds_fails calls) eqn:FF; [exact I|]. split; auto.
        apply api_docs_sound, fetch_sound. }
      destruct (match l with [] => FdOk [] | _ :: _ => fds l calls end) as [|stream]; [exact I|].
      destruct F as [F1 F2].
      destruct (negb p && negb (x_errs x =? 0)) eqn:SE; [exact I|].
      split; [reflexivity|]. exists qs, xs. rewrite api_docs_ids. subst l.
      split; [reflexivity|]. split; [reflexivity|]. split; [exact F1|]. split; [exact PO|]. split; [exact SO|].
      split; [subst x; now rewrite total_ok|]. split; [reflexivity|].
      split.
      { intros ->. simpl in SE. apply negb_false_iff, Nat.eqb_eq in SE. subst x. now rewrite errs_ok in SE. }
      split; [exact F2|]. subst x. reflexivity.
  Qed.
End WithSort.

(* Total (and the whole rest of the merged QPR) does not depend on offset and size *)
Lemma total_paging_independent : forall sort q q' p1 p2 hot hotread cold,
  a_rev q = a_rev q' -> a_hist q = a_hist q' ->
  match search sort p1 p2 hot hotread cold (Z.to_nat (a_off q)) (Z.to_nat (a_size q)) (a_rev q) (a_itv q) 0,
        search sort p1 p2 hot hotread cold (Z.to_nat (a_off q')) (Z.to_nat (a_size q')) (a_rev q') (a_itv q') 0 with
  | SOk p _ x, SOk p' _ x' => p = p' /\ x = x'
  | SErr k, SErr k' => k = k'
  | _, _ => False
  end.
Proof.
  intros sort q q' p1 p2 hot hotread cold Er Eh. unfold a_itv. rewrite <- Er, <- Eh.
  unfold search.
  destruct (search_stores p1 match hotread with [] => hot | _ :: _ => hotread end) eqn:E; simpl; auto.
  destruct cold as [|c0 cold]; simpl; auto. destruct (search_stores p2 (c0 :: cold)); simpl; auto.
Qed.
