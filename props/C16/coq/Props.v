From C16 Require Import Model Proofs.

Theorem C16_docs_length : forall req streams, length (fetch req streams) = length req.
Proof. intros; apply align_length. Qed.
Print Assumptions C16_docs_length.
