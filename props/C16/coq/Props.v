(* C16 — property theorems. Only statements closed by `exact <lemma>`, Print Assumptions beneath,
   the refutations of the code before commit 2959d55, and the non-vacuity examples. *)
From C16 Require Import Model CaseDefs Proofs.

(* Per shard: the replicas are tried in order; plain errors are skipped; the first replica that does
   anything else decides: an answer, or a special refusal (too-many-uniq fails the shard at once). *)
Theorem C16_shard_first_answer_decides : forall sh,
  match search_shard sh with
  | SAns s l => exists pre post, sh = pre ++ (s, BOk l) :: post /\ Forall (fun r => snd r = BErr) pre
  | SWantsOld => exists pre s post, sh = pre ++ (s, BWantsOld) :: post /\ Forall (fun r => snd r = BErr) pre
  | STooManyFrac => exists pre s post, sh = pre ++ (s, BTooManyFrac) :: post /\ Forall (fun r => snd r = BErr) pre
  | SFail => Forall (fun r => snd r = BErr) sh
             \/ exists pre s post, sh = pre ++ (s, BTooManyUniq) :: post /\ Forall (fun r => snd r = BErr) pre
  end.
Proof. exact search_shard_spec. Qed.
Print Assumptions C16_shard_first_answer_decides.

(* Per tier: a response is built from exactly the shards that had an answering replica; it is
   flagged partial if and only if some shard had none (and then at least one had); when no shard
   answers the tier fails; a special refusal of any shard wins over everything. *)
Theorem C16_tier_complete_or_partial : forall prio shards,
  let rs := map search_shard shards in
  match search_stores prio shards with
  | TOk p qs => qs = answers rs /\ existsb is_wo rs = false /\ existsb is_tmf rs = false
                /\ p = existsb is_fail rs /\ (p = true -> qs <> [])
  | TFail => existsb is_wo rs = false /\ existsb is_tmf rs = false
             /\ existsb is_fail rs = true /\ answers rs = []
  | TWantsOld => existsb is_wo rs = true
  | TTooManyFrac => existsb is_tmf rs = true
  end.
Proof. exact search_stores_spec. Qed.
Print Assumptions C16_tier_complete_or_partial.

(* Whole search, for EVERY sorting function that returns a sorted permutation (sort.Sort is not
   stable): the outcome is the error of the deciding tier, or carries that tier's partial flag and
   the returned IDs are exactly the page [off, off+size) of the duplicate-free union of the
   answering shards' IDs in response order (rank specification, CaseDefs.page_ok — the same checker
   the correspondence run applies to the real output), each with a source that really answered it. *)
Theorem C16_complete_or_partial : forall sort, sort_ok sort ->
  forall p1 p2 hot hotread cold off size rev,
  match verdict_of p1 p2 hot hotread cold, search sort p1 p2 hot hotread cold off size rev with
  | VErr k, SErr k' => k = k'
  | VOk p qs, SOk p' out =>
      p = p' /\ page_ok rev (flat_map snd qs) off size (map fst out) = true /\ sources_ok qs out = true
  | _, _ => False
  end.
Proof. exact search_ok. Qed.
Print Assumptions C16_complete_or_partial.

(* A hot tier that declares the range too old hands the query to the long-term stores, and the
   outcome is exactly the outcome of searching those alone (same classification, same page);
   without long-term stores it is the wants-old error. *)
Theorem C16_cold_fallback : forall sort p1 p2 hot hotread cold off size rev,
  search_stores p1 (match hotread with [] => hot | _ => hotread end) = TWantsOld ->
  (cold <> [] -> search sort p1 p2 hot hotread cold off size rev = search sort p2 p2 cold [] [] off size rev)
  /\ (cold = [] -> search sort p1 p2 hot hotread cold off size rev = SErr EWantsOld).
Proof.
  intros sort p1 p2 hot hotread cold off size rev H. split.
  - exact (cold_fallback sort p1 p2 hot hotread cold off size rev H).
  - intros ->. exact (no_cold_tier sort p1 p2 hot hotread off size rev H).
Qed.
Print Assumptions C16_cold_fallback.

(* Documents, for ALL stream contents (missing, truncated, reordered, duplicated, unrequested
   documents, any number of streams in any order): exactly one document per requested ID, the i-th
   one carries the i-th ID and source, and is empty or a payload that the ID's own source really
   sent under that ID. No hypothesis: since 2959d55 the comparison is total. *)
Theorem C16_docs_aligned : forall req streams,
  docs_sound req streams (fetch req streams) = true
  /\ length (fetch req streams) = length req.
Proof.
  intros req streams. split; [exact (fetch_sound req streams)|].
  exact (docs_sound_length req streams _ (fetch_sound req streams)).
Qed.
Print Assumptions C16_docs_aligned.

(* ... and when the streams are well behaved — every store sends the requested documents it has in
   request order (unrequested documents anywhere, documents missing, stream cut short or broken are
   all allowed), one stream per source, request without duplicates — nothing is lost: the i-th
   document is exactly what the i-th ID's source sent for it, and empty only if it sent nothing. *)
Theorem C16_docs_complete : forall req streams,
  well_behaved req streams = true ->
  docs_complete req streams (fetch req streams) = true.
Proof. exact fetch_complete. Qed.
Print Assumptions C16_docs_complete.

(* The hot store refuses exactly when it is mature and the range starts before its oldest
   fraction (or it holds nothing). *)
Theorem C16_hot_refusal : forall mature oldest from,
  hot_refuses mature oldest from = true <-> mature = true /\ (oldest = 0 \/ from < oldest)%N.
Proof. exact hot_refuses_spec. Qed.
Print Assumptions C16_hot_refusal.

(* ---------------------------------------------------------------- non-vacuity *)
(* the hypothesis on the sorting function is satisfiable: the executable instance *)
Example C16_sort_hypothesis_witnessed : sort_ok isort.
Proof. exact isort_ok. Qed.

(* a partial response: shard 2 has no answering replica; duplicate ID (7,1) collapsed *)
Example C16_partial_example :
  search isort true true
    [[(0, BErr); (1, BOk [(9,0); (7,1); (3,0)]%N)]; [(2, BErr); (3, BTooManyUniq)]; [(4, BOk [(8,0); (7,1)]%N)]]
    [] [] 1 3 false
  = SOk true [((8,0)%N, 4); ((7,1)%N, 1); ((3,0)%N, 1)].
Proof. vm_compute. reflexivity. Qed.

(* cold fallback taken *)
Example C16_cold_example :
  search isort true true [[(0, BWantsOld)]; [(1, BOk [(9,0)]%N)]] [] [[(2, BOk [(1,1); (1,0)]%N)]] 0 5 false
  = SOk false [((1,1)%N, 2); ((1,0)%N, 2)].
Proof. vm_compute. reflexivity. Qed.

(* alignment with an unrequested document at the head of each of two streams, a missing document
   and a stream that stops early *)
Example C16_two_unknown_heads :
  fetch [((9,0)%N, 0); ((8,0)%N, 1); ((7,0)%N, 0); ((6,0)%N, 1)]
        [(0, [((5,5), 11); ((9,0), 12); ((7,0), 13)]%N); (1, [((4,4), 21); ((8,0), 22)]%N)]
  = [(((9,0)%N, 0), 12%N); (((8,0)%N, 1), 22%N); (((7,0)%N, 0), 13%N); (((6,0)%N, 1), 0%N)].
Proof. vm_compute. reflexivity. Qed.

(* the hypothesis of C16_docs_complete holds for the streams of C16_two_unknown_heads (unrequested
   heads, a missing document), and fails for a stream that swaps two requested documents *)
Example C16_well_behaved_witnessed :
  well_behaved [((9,0)%N, 0); ((8,0)%N, 1); ((7,0)%N, 0); ((6,0)%N, 1)]
        [(0, [((5,5), 11); ((9,0), 12); ((7,0), 13)]%N); (1, [((4,4), 21); ((8,0), 22)]%N)] = true
  /\ well_behaved [((9,0)%N, 0); ((7,0)%N, 0)] [(0, [((7,0), 13); ((9,0), 12)]%N)] = false.
Proof. split; vm_compute; reflexivity. Qed.

(* ---------------------------------------------------------------- the code before 2959d55 *)
(* DESIGN section 9 #11: two streams both starting with unrequested documents: panic *)
Example C16_two_unknown_heads_v0_refuted :
  exists req s0 s1, fetch_v0 false req s0 s1 = None /\ exists out, fetch req [s0; s1] = out /\ length out = length req.
Proof.
  exists [((9,0)%N, 0); ((8,0)%N, 1)], (0, [((5,5), 11); ((9,0), 12)]%N), (1, [((4,4), 21); ((8,0), 22)]%N).
  split; [vm_compute; reflexivity | eexists; split; [reflexivity | vm_compute; reflexivity]].
Qed.

(* ... and, because requested IDs were looked up with their hint, one unrequested document at the
   head of a single stream was enough *)
Example C16_single_unknown_head_v0_refuted :
  exists req s0, fetch_v0 true req s0 (1, []) = None
                 /\ fetch req [s0] = [(((9,0)%N, 0), 12%N)].
Proof.
  exists [((9,0)%N, 0)], (0, [((5,5), 11); ((9,0), 12)]%N). split; vm_compute; reflexivity.
Qed.

(* ... and the fast-forward over late documents never ran: a document repeated by the store hid
   every later document (here the document of (8,0)), which the repaired code delivers *)
Example C16_no_fast_forward_v0_refuted :
  exists req s0, fetch_v0 true req s0 (1, []) = Some [(((9,0)%N, 0), 12%N); (((8,0)%N, 0), 0%N)]
                 /\ fetch req [s0] = [(((9,0)%N, 0), 12%N); (((8,0)%N, 0), 14%N)].
Proof.
  exists [((9,0)%N, 0); ((8,0)%N, 0)], (0, [((9,0), 12); ((9,0), 13); ((8,0), 14)]%N). split; vm_compute; reflexivity.
Qed.
