(* C16 — property theorems. Only statements closed by `exact <lemma>`, Print Assumptions beneath,
   the refutations of the code before commit 2959d55, and the non-vacuity examples. *)
From Coq Require Import Permutation.
From C16 Require Import Model CaseDefs Proofs.

(* Per shard: the replicas are tried in order; plain errors are skipped; the first replica that does
   anything else decides: an answer, or a special refusal (too-many-uniq fails the shard at once). *)
Theorem C16_shard_first_answer_decides : forall sh,
  match search_shard sh with
  | SAns s l x => exists pre post, sh = pre ++ (s, BOk l x) :: post /\ Forall (fun r => snd r = BErr) pre
  | SWantsOld => exists pre s post, sh = pre ++ (s, BWantsOld) :: post /\ Forall (fun r => snd r = BErr) pre
  | STooManyFrac => exists pre s post, sh = pre ++ (s, BTooManyFrac) :: post /\ Forall (fun r => snd r = BErr) pre
  | SFail => Forall (fun r => snd r = BErr) sh
             \/ exists pre s post, sh = pre ++ (s, BTooManyUniq) :: post /\ Forall (fun r => snd r = BErr) pre
  end.
Proof. exact search_shard_spec. Qed.
Print Assumptions C16_shard_first_answer_decides.

(* Per tier: a response is built from exactly the shards that had an answering replica; it is
   flagged partial if and only if some shard had none (and then at least one had); when no shard
   answers the tier fails; a special refusal of any shard wins over everything. *)
Theorem C16_tier_complete_or_partial : forall prio shards,
  let rs := map search_shard shards in
  match search_stores prio shards with
  | TOk p qs xs => qs = answers rs /\ xs = extras rs /\ existsb is_wo rs = false /\ existsb is_tmf rs = false
                /\ p = existsb is_fail rs /\ (p = true -> qs <> [])
  | TFail => existsb is_wo rs = false /\ existsb is_tmf rs = false
             /\ existsb is_fail rs = true /\ answers rs = []
  | TWantsOld => existsb is_wo rs = true
  | TTooManyFrac => existsb is_tmf rs = true
  end.
Proof. exact search_stores_spec. Qed.
Print Assumptions C16_tier_complete_or_partial.

(* Whole search, for EVERY sorting function that returns a sorted permutation (sort.Sort is not
   stable): the outcome is the error of the deciding tier, or carries that tier's partial flag and
   - the returned IDs are exactly the page [off, off+size) of the duplicate-free union of the
     answering shards' IDs in response order (rank specification CaseDefs.page_ok — the checker the
     correspondence run applies to the real output), each with a source that really answered it;
   - Total = sum of the answering shards' totals minus the number of dropped duplicates (uint64
     arithmetic; untouched when the sum is 0);
   - every histogram bucket = sum of what the answering shards report for it minus the dropped
     duplicates falling into it (when an interval is given), as uint64;
   - the number of store soft errors = the sum over the answering shards;
   - one merged aggregation per aggregation query; its NotExists is the sum; a bin exists iff some
     answering shard has it, and then Total/Sum/NotExists/Samples (and Min/Max, when no shard reports
     a negative Total) are those of exactly the containers the answering shards hold for that bin.
   Nothing depends on the order in which the answers arrived. *)
Theorem C16_complete_or_partial : forall sort, sort_ok sort ->
  forall p1 p2 hot hotread cold off size rev itv naggs,
  match verdict_of p1 p2 hot hotread cold, search sort p1 p2 hot hotread cold off size rev itv naggs with
  | VErr k, SErr k' => k = k'
  | VOk p qs xs, SOk p' out r =>
      p = p' /\ page_ok rev (flat_map snd qs) off size (map fst out) = true /\ sources_ok qs out = true
      /\ rest_desc itv naggs qs xs r
  | _, _ => False
  end.
Proof. exact search_whole. Qed.
Print Assumptions C16_complete_or_partial.

(* proxyapi Search / ComplexSearch (after request validation): the API answer is a gRPC error, a
   response carrying only the too-many-fractions error, or a response with documents — and then
   partial_response = true with code PARTIAL_RESPONSE exactly when some shard of the deciding tier
   had no answering replica; a response with code NO and partial_response = false is only given
   when every shard answered AND no answering store reported a soft error. So an incomplete result
   is never presented as complete. The content of the response is the search outcome above. *)
Theorem C16_api_honest : forall sort, sort_ok sort ->
  forall p1 p2 hot hotread cold off size rev itv naggs ffail,
  match api_of (search_full sort p1 p2 hot hotread cold off size rev itv naggs ffail) with
  | AResp flag code l x =>
      exists qs xs, verdict_of p1 p2 hot hotread cold = VOk flag qs xs
                    /\ code = (if flag then CPartial else CNo)
                    /\ (flag = false -> x_errs x = 0 /\ errs_spec xs = 0)
                    /\ page_ok rev (flat_map snd qs) off size (map fst l) = true
                    /\ sources_ok qs l = true
                    /\ x = merge_rest sort qs xs rev itv naggs
  | AErr GInvalidArgument => verdict_of p1 p2 hot hotread cold = VErr EWantsOld
  | AOnlyError => verdict_of p1 p2 hot hotread cold = VErr ETooManyFrac
  | AErr GInternal => True
  end.
Proof. exact api_honest. Qed.
Print Assumptions C16_api_honest.

(* Store soft errors (SearchResponse.errors), as the code is: when every shard answered, one soft
   error of any answering store turns the whole answer into gRPC Internal and the data is dropped;
   in a partial response they are not looked at (see C16_soft_error_hidden_in_partial). What a caller
   can rely on: code NO => no store reported a soft error (C16_api_honest). *)
Theorem C16_api_soft_errors : forall p l x,
  api_of (SOk p l x) = if p then AResp true CPartial l x
                       else if Nat.eqb (x_errs x) 0 then AResp false CNo l x else AErr GInternal.
Proof. exact api_soft_errors. Qed.
Print Assumptions C16_api_soft_errors.

(* A proxy serves a sequence of searches. The outcome of each search is a function of THAT search's
   own replica behaviours (and request) only — whatever searches came before or come after: the k-th
   outcome of a run is the outcome of searching with the k-th behaviours on a fresh proxy. So every
   theorem above holds for each search of a sequence: complete iff every shard had an answering
   replica in THIS search, partial iff some had none and at least one had, IDs = merge over exactly
   the shards answering in THIS search. *)
Theorem C16_state_independent : forall sort pre q post st,
  nth (length pre) (proxy_run sort st (pre ++ q :: post)) (SErr EOther) = search_req sort q
  /\ proxy_run sort st (pre ++ q :: post) = map (search_req sort) (pre ++ q :: post).
Proof. intros. split; [apply proxy_run_nth | apply proxy_run_map]. Qed.
Print Assumptions C16_state_independent.

(* ShuffleReplicas: for EVERY order in which the replicas of a shard are tried, the shard's outcome is
   one of its replicas' own behaviours; and when no replica gives a special refusal, whether the
   shard answers does not depend on the order (it answers iff some replica does). *)
Theorem C16_any_replica_order : forall sh sh', Permutation sh sh' ->
  match search_shard sh' with
  | SAns s l x => In (s, BOk l x) sh
  | SWantsOld => exists s, In (s, BWantsOld) sh
  | STooManyFrac => exists s, In (s, BTooManyFrac) sh
  | SFail => Forall (fun r => snd r = BErr) sh \/ exists s, In (s, BTooManyUniq) sh
  end
  /\ (forallb (fun r => plain (snd r)) sh = true ->
      is_fail (search_shard sh') = negb (existsb (fun r => is_okb (snd r)) sh)
      /\ is_wo (search_shard sh') = false /\ is_tmf (search_shard sh') = false).
Proof. exact any_replica_order. Qed.
Print Assumptions C16_any_replica_order.

(* ... hence, without special refusals, every replica order of every shard gives the same
   complete / partial / failed classification with the same number of answering shards
   (C16_shard_first_answer_decides, C16_tier_complete_or_partial, C16_complete_or_partial and
   C16_api_honest quantify over all shard lists, so they hold for each order as it is tried). *)
Theorem C16_tier_any_replica_order : forall prio prio' shards shards',
  Forall2 (@Permutation (src * beh)) shards shards' ->
  forallb (fun sh => forallb (fun r => plain (snd r)) sh) shards = true ->
  match search_stores prio shards, search_stores prio' shards' with
  | TOk p qs xs, TOk p' qs' xs' => p = p' /\ length qs = length qs'
  | TFail, TFail => True
  | _, _ => False
  end.
Proof. exact tier_any_order. Qed.
Print Assumptions C16_tier_any_replica_order.

(* A hot tier that declares the range too old hands the query to the long-term stores, and the
   outcome is exactly the outcome of searching those alone (same classification, same page);
   without long-term stores it is the wants-old error. *)
Theorem C16_cold_fallback : forall sort p1 p2 hot hotread cold off size rev itv naggs,
  search_stores p1 (match hotread with [] => hot | _ => hotread end) = TWantsOld ->
  (cold <> [] -> search sort p1 p2 hot hotread cold off size rev itv naggs
                 = search sort p2 p2 cold [] [] off size rev itv naggs)
  /\ (cold = [] -> search sort p1 p2 hot hotread cold off size rev itv naggs = SErr EWantsOld).
Proof.
  intros sort p1 p2 hot hotread cold off size rev itv naggs H. split.
  - exact (cold_fallback sort p1 p2 hot hotread cold off size rev itv naggs H).
  - intros ->. exact (no_cold_tier sort p1 p2 hot hotread off size rev itv naggs H).
Qed.
Print Assumptions C16_cold_fallback.

(* Documents, for ALL stream contents (missing, truncated, reordered, duplicated, unrequested
   documents, any number of streams in any order): exactly one document per requested ID, the i-th
   one carries the i-th ID and source, and is empty or a payload that the ID's own source really
   sent under that ID. No hypothesis: since 2959d55 the comparison is total. *)
Theorem C16_docs_aligned : forall req streams,
  docs_sound req streams (fetch req streams) = true
  /\ length (fetch req streams) = length req.
Proof.
  intros req streams. split; [exact (fetch_sound req streams)|].
  exact (docs_sound_length req streams _ (fetch_sound req streams)).
Qed.
Print Assumptions C16_docs_aligned.

(* ... and when the streams are well behaved — every store sends the requested documents it has in
   request order (unrequested documents anywhere, documents missing, stream cut short or broken are
   all allowed), one stream per source, request without duplicates — nothing is lost: the i-th
   document is exactly what the i-th ID's source sent for it, and empty only if it sent nothing. *)
Theorem C16_docs_complete : forall req streams,
  well_behaved req streams = true ->
  docs_complete req streams (fetch req streams) = true.
Proof. exact fetch_complete. Qed.
Print Assumptions C16_docs_complete.

(* Ingestor.Documents (fetch by ID: every ID asked from every store, uniqueIDIterator on top), for
   ALL stream contents and every order of the sources inside an ID's group: the returned IDs are the
   requested IDs with consecutive repetitions collapsed, and every document is empty or a payload
   that one of the stores really sent under that ID. *)
Theorem C16_documents_aligned : forall groups srcs streams,
  Forall (fun g => snd g <> [] /\ incl (snd g) srcs) groups ->
  udocs_sound (map fst groups) srcs streams (documents groups streams) = true.
Proof. exact documents_sound. Qed.
Print Assumptions C16_documents_aligned.

(* ... and with well-behaved streams and no repeated ID: one document per requested ID, non-empty
   exactly when one of the stores sent a non-empty document for it. *)
Theorem C16_documents_complete : forall groups streams,
  well_behaved (expand groups) streams = true ->
  NoDup (map fst groups) -> Forall (fun g => snd g <> []) groups ->
  map (fun d => negb (N.eqb (snd d) 0)) (documents groups streams)
  = map (fun g => some_delivered (snd g) streams (fst g)) groups.
Proof. exact documents_complete. Qed.
Print Assumptions C16_documents_complete.

(* The hot store refuses exactly when it is mature and the range starts before its oldest
   fraction (or it holds nothing). *)
Theorem C16_hot_refusal : forall mature oldest from,
  hot_refuses mature oldest from = true <-> mature = true /\ (oldest = 0 \/ from < oldest)%N.
Proof. exact hot_refuses_spec. Qed.
Print Assumptions C16_hot_refusal.

(* ---------------------------------------------------------------- non-vacuity *)
(* the hypothesis on the sorting function is satisfiable: the executable instance *)
Example C16_sort_hypothesis_witnessed : sort_ok isort.
Proof. exact isort_ok. Qed.

(* a partial response: shard 2 has no answering replica; duplicate ID (7,1) collapsed *)
Example C16_partial_example :
  search isort true true
    [[(0, BErr); (1, BOk [(9,0); (7,1); (3,0)]%N (mkX 5 [(6%N, 2%Z); (8%N, 1%Z)] [] 1))]; [(2, BErr); (3, BTooManyUniq)];
     [(4, BOk [(8,0); (7,1)]%N (mkX 4 [(6%N, 1%Z)] [] 0))]]
    [] [] 1 3 false 2%N 0
  = SOk true [((8,0)%N, 4); ((7,1)%N, 1); ((3,0)%N, 1)] (mkX 8 [(6%N, 2%Z); (8%N, 1%Z)] [] 1).
Proof. vm_compute. reflexivity. Qed.

(* cold fallback taken *)
Example C16_cold_example :
  search isort true true [[(0, BWantsOld)]; [(1, BOk [(9,0)]%N X0)]] [] [[(2, BOk [(1,1); (1,0)]%N X0)]] 0 5 false 0%N 0
  = SOk false [((1,1)%N, 2); ((1,0)%N, 2)] X0.
Proof. vm_compute. reflexivity. Qed.

(* the soft error of store 1 is not visible in the partial API answer of C16_partial_example, while
   the same soft error with every shard answering turns the answer into Internal *)
Example C16_soft_error_hidden_in_partial :
  (exists l x, api_of (search_full isort true true
     [[(1, BOk [(9,0)]%N (mkX 1 [] [] 1))]; [(2, BErr)]; [(4, BOk [(8,0)]%N X0)]] [] [] 0 3 false 0%N 0 [])
     = AResp true CPartial l x /\ x_errs x = 1)
  /\ api_of (search_full isort true true
     [[(1, BOk [(9,0)]%N (mkX 1 [] [] 1))]; [(4, BOk [(8,0)]%N X0)]] [] [] 0 3 false 0%N 0 []) = AErr GInternal.
Proof. split; [eexists; eexists; split; vm_compute; reflexivity | vm_compute; reflexivity]. Qed.

(* an inconsistent store (duplicate ID (7,1) in two shards, no count reported for its bucket) makes
   the repair wrap: the bucket reads 2^64-1 — the model follows the uint64 arithmetic *)
Example C16_hist_repair_wraps :
  exists l x, search isort true true [[(0, BOk [(7,1)]%N X0)]; [(1, BOk [(7,1)]%N X0)]] [] [] 0 3 false 2%N 0 = SOk false l x
              /\ hlookup (x_hist x) 6%N = 18446744073709551615%Z.
Proof. eexists; eexists; split; vm_compute; reflexivity. Qed.

(* Documents: ID (5,0) asked from stores 0 and 1, only store 1 has it; ID (4,0): nobody *)
Example C16_documents_example :
  documents [((5,0)%N, [0; 1]); ((4,0)%N, [1; 0])] [(0, [((5,0), 0); ((4,0), 0)]%N); (1, [((5,0), 7); ((4,0), 0)]%N)]
  = [(((5,0)%N, 1), 7%N); (((4,0)%N, 1), 0%N)].
Proof. vm_compute. reflexivity. Qed.

(* alignment with an unrequested document at the head of each of two streams, a missing document
   and a stream that stops early *)
Example C16_two_unknown_heads :
  fetch [((9,0)%N, 0); ((8,0)%N, 1); ((7,0)%N, 0); ((6,0)%N, 1)]
        [(0, [((5,5), 11); ((9,0), 12); ((7,0), 13)]%N); (1, [((4,4), 21); ((8,0), 22)]%N)]
  = [(((9,0)%N, 0), 12%N); (((8,0)%N, 1), 22%N); (((7,0)%N, 0), 13%N); (((6,0)%N, 1), 0%N)].
Proof. vm_compute. reflexivity. Qed.

(* the hypothesis of C16_docs_complete holds for the streams of C16_two_unknown_heads (unrequested
   heads, a missing document), and fails for a stream that swaps two requested documents *)
Example C16_well_behaved_witnessed :
  well_behaved [((9,0)%N, 0); ((8,0)%N, 1); ((7,0)%N, 0); ((6,0)%N, 1)]
        [(0, [((5,5), 11); ((9,0), 12); ((7,0), 13)]%N); (1, [((4,4), 21); ((8,0), 22)]%N)] = true
  /\ well_behaved [((9,0)%N, 0); ((7,0)%N, 0)] [(0, [((7,0), 13); ((9,0), 12)]%N)] = false.
Proof. split; vm_compute; reflexivity. Qed.

(* a proxy that remembers, per shard, the position of the replica that answered last and starts the
   next search there WITHOUT wrapping around is not state independent, and breaks the property:
   search 1 — replica 0 fails, replica 1 answers; search 2 (rolling restart) — replica 0 is back,
   replica 1 is down: the shard is reported failed (the tier fails; with a second answering shard the
   response is partial) although it has an answering replica. The real proxy answers completely. *)
Example C16_sticky_start_refuted :
  let s1 := [[(0, BErr); (1, BOk [(9,0)]%N X0)]] in
  let s2 := [[(0, BOk [(9,0)]%N X0); (1, BErr)]] in
  sticky_run true [0] [s1; s2] = [TOk false [(1, [(9,0)]%N)] [X0]; TFail]
  /\ map (search_stores true) [s1; s2] = [TOk false [(1, [(9,0)]%N)] [X0]; TOk false [(0, [(9,0)]%N)] [X0]]
  /\ sticky_run true [0; 0] [s1 ++ [[(2, BOk [(8,0)]%N X0)]]; s2 ++ [[(2, BOk [(8,0)]%N X0)]]]
     = [TOk false [(1, [(9,0)]%N); (2, [(8,0)]%N)] [X0; X0]; TOk true [(2, [(8,0)]%N)] [X0]].
Proof. repeat split; vm_compute; reflexivity. Qed.

(* ---------------------------------------------------------------- the code before 2959d55 *)
(* DESIGN section 9 #11: two streams both starting with unrequested documents: panic *)
Example C16_two_unknown_heads_v0_refuted :
  exists req s0 s1, fetch_v0 false req s0 s1 = None /\ exists out, fetch req [s0; s1] = out /\ length out = length req.
Proof.
  exists [((9,0)%N, 0); ((8,0)%N, 1)], (0, [((5,5), 11); ((9,0), 12)]%N), (1, [((4,4), 21); ((8,0), 22)]%N).
  split; [vm_compute; reflexivity | eexists; split; [reflexivity | vm_compute; reflexivity]].
Qed.

(* ... and, because requested IDs were looked up with their hint, one unrequested document at the
   head of a single stream was enough *)
Example C16_single_unknown_head_v0_refuted :
  exists req s0, fetch_v0 true req s0 (1, []) = None
                 /\ fetch req [s0] = [(((9,0)%N, 0), 12%N)].
Proof.
  exists [((9,0)%N, 0)], (0, [((5,5), 11); ((9,0), 12)]%N). split; vm_compute; reflexivity.
Qed.

(* ... and the fast-forward over late documents never ran: a document repeated by the store hid
   every later document (here the document of (8,0)), which the repaired code delivers *)
Example C16_no_fast_forward_v0_refuted :
  exists req s0, fetch_v0 true req s0 (1, []) = Some [(((9,0)%N, 0), 12%N); (((8,0)%N, 0), 0%N)]
                 /\ fetch req [s0] = [(((9,0)%N, 0), 12%N); (((8,0)%N, 0), 14%N)].
Proof.
  exists [((9,0)%N, 0); ((8,0)%N, 0)], (0, [((9,0), 12); ((9,0), 13); ((8,0), 14)]%N). split; vm_compute; reflexivity.
Qed.
