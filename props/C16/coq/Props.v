(* C16 — property theorems. Only statements closed by `exact <lemma>`, Print Assumptions beneath,
   the refutations of the code before commit 2959d55, and the non-vacuity examples. *)
From Coq Require Import Permutation.
From C16 Require Import Model CaseDefs Proofs.
From C16 Require Import ModelExt ModelDeadline ProofsDeadline ProofsDeadlineContent ModelRetain ProofsRetain.

(* Per shard: the replicas are tried in order; plain errors are skipped; the first replica that does
   anything else decides: an answer, or a special refusal (too-many-uniq fails the shard at once). *)
Theorem C16_shard_first_answer_decides : forall sh,
  match search_shard sh with
  | SAns s l x => exists pre post, sh = pre ++ (s, BOk l x) :: post /\ Forall (fun r => snd r = BErr) pre
  | SWantsOld => exists pre s post, sh = pre ++ (s, BWantsOld) :: post /\ Forall (fun r => snd r = BErr) pre
  | STooManyFrac => exists pre s post, sh = pre ++ (s, BTooManyFrac) :: post /\ Forall (fun r => snd r = BErr) pre
  | SFail => Forall (fun r => snd r = BErr) sh
             \/ exists pre s post, sh = pre ++ (s, BTooManyUniq) :: post /\ Forall (fun r => snd r = BErr) pre
  end.
Proof. exact search_shard_spec. Qed.
Print Assumptions C16_shard_first_answer_decides.

(* Per tier: a response is built from exactly the shards that had an answering replica; it is
   flagged partial if and only if some shard had none (and then at least one had); when no shard
   answers the tier fails; a special refusal of any shard wins over everything. *)
Theorem C16_tier_complete_or_partial : forall prio shards,
  let rs := map search_shard shards in
  match search_stores prio shards with
  | TOk p qs xs => qs = answers rs /\ xs = extras rs /\ existsb is_wo rs = false /\ existsb is_tmf rs = false
                /\ p = existsb is_fail rs /\ (p = true -> qs <> [])
  | TFail => existsb is_wo rs = false /\ existsb is_tmf rs = false
             /\ existsb is_fail rs = true /\ answers rs = []
  | TWantsOld => existsb is_wo rs = true
  | TTooManyFrac => existsb is_tmf rs = true
  end.
Proof. exact search_stores_spec. Qed.
Print Assumptions C16_tier_complete_or_partial.

(* Whole search, for EVERY sorting function that returns a sorted permutation (sort.Sort is not
   stable): the outcome is the error of the deciding tier, or carries that tier's partial flag and
   - the returned IDs are exactly the page [off, off+size) of the duplicate-free union of the
     answering shards' IDs in response order (rank specification CaseDefs.page_ok — the checker the
     correspondence run applies to the real output), each with a source that really answered it;
   - Total = sum of the answering shards' totals minus the number of dropped duplicates (uint64
     arithmetic; untouched when the sum is 0);
   - every histogram bucket = sum of what the answering shards report for it minus the dropped
     duplicates falling into it (when an interval is given), as uint64;
   - the number of store soft errors = the sum over the answering shards;
   - one merged aggregation per aggregation query; its NotExists is the sum; a bin exists iff some
     answering shard has it, and then Total/Sum/NotExists/Samples (and Min/Max, when no shard reports
     a negative Total) are those of exactly the containers the answering shards hold for that bin.
   Nothing depends on the order in which the answers arrived. *)
Theorem C16_complete_or_partial : forall sort, sort_ok sort ->
  forall p1 p2 hot hotread cold off size rev itv naggs,
  match verdict_of p1 p2 hot hotread cold, search sort p1 p2 hot hotread cold off size rev itv naggs with
  | VErr k, SErr k' => k = k'
  | VOk p qs xs, SOk p' out r =>
      p = p' /\ page_ok rev (flat_map snd qs) off size (map fst out) = true /\ sources_ok qs out = true
      /\ rest_desc itv naggs qs xs r
  | _, _ => False
  end.
Proof. exact search_whole. Qed.
Print Assumptions C16_complete_or_partial.

(* proxyapi Search / ComplexSearch (after request validation): the API answer is a gRPC error, a
   response carrying only the too-many-fractions error, or a response with documents — and then
   partial_response = true with code PARTIAL_RESPONSE exactly when some shard of the deciding tier
   had no answering replica; a response with code NO and partial_response = false is only given
   when every shard answered AND no answering store reported a soft error. So an incomplete result
   is never presented as complete. The content of the response is the search outcome above. *)
Theorem C16_api_honest : forall sort, sort_ok sort ->
  forall p1 p2 hot hotread cold off size rev itv naggs ffail,
  match api_of (search_full sort p1 p2 hot hotread cold off size rev itv naggs ffail) with
  | AResp flag code l x =>
      exists qs xs, verdict_of p1 p2 hot hotread cold = VOk flag qs xs
                    /\ code = (if flag then CPartial else CNo)
                    /\ (flag = false -> x_errs x = 0 /\ errs_spec xs = 0)
                    /\ page_ok rev (flat_map snd qs) off size (map fst l) = true
                    /\ sources_ok qs l = true
                    /\ x = merge_rest sort qs xs rev itv naggs
  | AErr GInvalidArgument => verdict_of p1 p2 hot hotread cold = VErr EWantsOld
  | AOnlyError => verdict_of p1 p2 hot hotread cold = VErr ETooManyFrac
  | AErr GInternal => True
  end.
Proof. exact api_honest. Qed.
Print Assumptions C16_api_honest.

(* Store soft errors (SearchResponse.errors), as the code is: when every shard answered, one soft
   error of any answering store turns the whole answer into gRPC Internal and the data is dropped;
   in a partial response they are not looked at (see C16_soft_error_hidden_in_partial). What a caller
   can rely on: code NO => no store reported a soft error (C16_api_honest). *)
Theorem C16_api_soft_errors : forall p l x,
  api_of (SOk p l x) = if p then AResp true CPartial l x
                       else if Nat.eqb (x_errs x) 0 then AResp false CNo l x else AErr GInternal.
Proof. exact api_soft_errors. Qed.
Print Assumptions C16_api_soft_errors.

(* A proxy serves a sequence of searches. The outcome of each search is a function of THAT search's
   own replica behaviours (and request) only — whatever searches came before or come after: the k-th
   outcome of a run is the outcome of searching with the k-th behaviours on a fresh proxy. So every
   theorem above holds for each search of a sequence: complete iff every shard had an answering
   replica in THIS search, partial iff some had none and at least one had, IDs = merge over exactly
   the shards answering in THIS search. *)
Theorem C16_state_independent : forall sort pre q post st,
  nth (length pre) (proxy_run sort st (pre ++ q :: post)) (SErr EOther) = search_req sort q
  /\ proxy_run sort st (pre ++ q :: post) = map (search_req sort) (pre ++ q :: post).
Proof. intros. split; [apply proxy_run_nth | apply proxy_run_map]. Qed.
Print Assumptions C16_state_independent.

(* ShuffleReplicas: for EVERY order in which the replicas of a shard are tried, the shard's outcome is
   one of its replicas' own behaviours; and when no replica gives a special refusal, whether the
   shard answers does not depend on the order (it answers iff some replica does). *)
Theorem C16_any_replica_order : forall sh sh', Permutation sh sh' ->
  match search_shard sh' with
  | SAns s l x => In (s, BOk l x) sh
  | SWantsOld => exists s, In (s, BWantsOld) sh
  | STooManyFrac => exists s, In (s, BTooManyFrac) sh
  | SFail => Forall (fun r => snd r = BErr) sh \/ exists s, In (s, BTooManyUniq) sh
  end
  /\ (forallb (fun r => plain (snd r)) sh = true ->
      is_fail (search_shard sh') = negb (existsb (fun r => is_okb (snd r)) sh)
      /\ is_wo (search_shard sh') = false /\ is_tmf (search_shard sh') = false).
Proof. exact any_replica_order. Qed.
Print Assumptions C16_any_replica_order.

(* ... hence, without special refusals, every replica order of every shard gives the same
   complete / partial / failed classification with the same number of answering shards
   (C16_shard_first_answer_decides, C16_tier_complete_or_partial, C16_complete_or_partial and
   C16_api_honest quantify over all shard lists, so they hold for each order as it is tried). *)
Theorem C16_tier_any_replica_order : forall prio prio' shards shards',
  Forall2 (@Permutation (src * beh)) shards shards' ->
  forallb (fun sh => forallb (fun r => plain (snd r)) sh) shards = true ->
  match search_stores prio shards, search_stores prio' shards' with
  | TOk p qs xs, TOk p' qs' xs' => p = p' /\ length qs = length qs'
  | TFail, TFail => True
  | _, _ => False
  end.
Proof. exact tier_any_order. Qed.
Print Assumptions C16_tier_any_replica_order.

(* A hot tier that declares the range too old hands the query to the long-term stores, and the
   outcome is exactly the outcome of searching those alone (same classification, same page);
   without long-term stores it is the wants-old error. *)
Theorem C16_cold_fallback : forall sort p1 p2 hot hotread cold off size rev itv naggs,
  search_stores p1 (match hotread with [] => hot | _ => hotread end) = TWantsOld ->
  (cold <> [] -> search sort p1 p2 hot hotread cold off size rev itv naggs
                 = search sort p2 p2 cold [] [] off size rev itv naggs)
  /\ (cold = [] -> search sort p1 p2 hot hotread cold off size rev itv naggs = SErr EWantsOld).
Proof.
  intros sort p1 p2 hot hotread cold off size rev itv naggs H. split.
  - exact (cold_fallback sort p1 p2 hot hotread cold off size rev itv naggs H).
  - intros ->. exact (no_cold_tier sort p1 p2 hot hotread off size rev itv naggs H).
Qed.
Print Assumptions C16_cold_fallback.

(* Documents, for ALL stream contents (missing, truncated, reordered, duplicated, unrequested
   documents, any number of streams in any order): exactly one document per requested ID, the i-th
   one carries the i-th ID and source, and is empty or a payload that the ID's own source really
   sent under that ID. No hypothesis: since 2959d55 the comparison is total. *)
Theorem C16_docs_aligned : forall req streams,
  docs_sound req streams (fetch req streams) = true
  /\ length (fetch req streams) = length req.
Proof.
  intros req streams. split; [exact (fetch_sound req streams)|].
  exact (docs_sound_length req streams _ (fetch_sound req streams)).
Qed.
Print Assumptions C16_docs_aligned.

(* ... and when the streams are well behaved — every store sends the requested documents it has in
   request order (unrequested documents anywhere, documents missing, stream cut short or broken are
   all allowed), one stream per source, request without duplicates — nothing is lost: the i-th
   document is exactly what the i-th ID's source sent for it, and empty only if it sent nothing. *)
Theorem C16_docs_complete : forall req streams,
  well_behaved req streams = true ->
  docs_complete req streams (fetch req streams) = true.
Proof. exact fetch_complete. Qed.
Print Assumptions C16_docs_complete.

(* Ingestor.Documents (fetch by ID: every ID asked from every store, uniqueIDIterator on top), for
   ALL stream contents and every order of the sources inside an ID's group: the returned IDs are the
   requested IDs with consecutive repetitions collapsed, and every document is empty or a payload
   that one of the stores really sent under that ID. *)
Theorem C16_documents_aligned : forall groups srcs streams,
  Forall (fun g => snd g <> [] /\ incl (snd g) srcs) groups ->
  udocs_sound (map fst groups) srcs streams (documents groups streams) = true.
Proof. exact documents_sound. Qed.
Print Assumptions C16_documents_aligned.

(* ... and with well-behaved streams and no repeated ID: one document per requested ID, non-empty
   exactly when one of the stores sent a non-empty document for it. *)
Theorem C16_documents_complete : forall groups streams,
  well_behaved (expand groups) streams = true ->
  NoDup (map fst groups) -> Forall (fun g => snd g <> []) groups ->
  map (fun d => negb (N.eqb (snd d) 0)) (documents groups streams)
  = map (fun g => some_delivered (snd g) streams (fst g)) groups.
Proof. exact documents_complete. Qed.
Print Assumptions C16_documents_complete.

(* The hot store refuses exactly when it is mature and the range starts before its oldest
   fraction (or it holds nothing). *)
Theorem C16_hot_refusal : forall mature oldest from,
  hot_refuses mature oldest from = true <-> mature = true /\ (oldest = 0 \/ from < oldest)%N.
Proof. exact hot_refuses_spec. Qed.
Print Assumptions C16_hot_refusal.

(* ---------------------------------------------------------------- non-vacuity *)
(* the hypothesis on the sorting function is satisfiable: the executable instance *)
Example C16_sort_hypothesis_witnessed : sort_ok isort.
Proof. exact isort_ok. Qed.

(* a partial response: shard 2 has no answering replica; duplicate ID (7,1) collapsed *)
Example C16_partial_example :
  search isort true true
    [[(0, BErr); (1, BOk [(9,0); (7,1); (3,0)]%N (mkX 5 [(6%N, 2%Z); (8%N, 1%Z)] [] 1))]; [(2, BErr); (3, BTooManyUniq)];
     [(4, BOk [(8,0); (7,1)]%N (mkX 4 [(6%N, 1%Z)] [] 0))]]
    [] [] 1 3 false 2%N 0
  = SOk true [((8,0)%N, 4); ((7,1)%N, 1); ((3,0)%N, 1)] (mkX 8 [(6%N, 2%Z); (8%N, 1%Z)] [] 1).
Proof. vm_compute. reflexivity. Qed.

(* cold fallback taken *)
Example C16_cold_example :
  search isort true true [[(0, BWantsOld)]; [(1, BOk [(9,0)]%N X0)]] [] [[(2, BOk [(1,1); (1,0)]%N X0)]] 0 5 false 0%N 0
  = SOk false [((1,1)%N, 2); ((1,0)%N, 2)] X0.
Proof. vm_compute. reflexivity. Qed.

(* the soft error of store 1 is not visible in the partial API answer of C16_partial_example, while
   the same soft error with every shard answering turns the answer into Internal *)
Example C16_soft_error_hidden_in_partial :
  (exists l x, api_of (search_full isort true true
     [[(1, BOk [(9,0)]%N (mkX 1 [] [] 1))]; [(2, BErr)]; [(4, BOk [(8,0)]%N X0)]] [] [] 0 3 false 0%N 0 [])
     = AResp true CPartial l x /\ x_errs x = 1)
  /\ api_of (search_full isort true true
     [[(1, BOk [(9,0)]%N (mkX 1 [] [] 1))]; [(4, BOk [(8,0)]%N X0)]] [] [] 0 3 false 0%N 0 []) = AErr GInternal.
Proof. split; [eexists; eexists; split; vm_compute; reflexivity | vm_compute; reflexivity]. Qed.

(* an inconsistent store (duplicate ID (7,1) in two shards, no count reported for its bucket) makes
   the repair wrap: the bucket reads 2^64-1 — the model follows the uint64 arithmetic *)
Example C16_hist_repair_wraps :
  exists l x, search isort true true [[(0, BOk [(7,1)]%N X0)]; [(1, BOk [(7,1)]%N X0)]] [] [] 0 3 false 2%N 0 = SOk false l x
              /\ hlookup (x_hist x) 6%N = 18446744073709551615%Z.
Proof. eexists; eexists; split; vm_compute; reflexivity. Qed.

(* Documents: ID (5,0) asked from stores 0 and 1, only store 1 has it; ID (4,0): nobody *)
Example C16_documents_example :
  documents [((5,0)%N, [0; 1]); ((4,0)%N, [1; 0])] [(0, [((5,0), 0); ((4,0), 0)]%N); (1, [((5,0), 7); ((4,0), 0)]%N)]
  = [(((5,0)%N, 1), 7%N); (((4,0)%N, 1), 0%N)].
Proof. vm_compute. reflexivity. Qed.

(* alignment with an unrequested document at the head of each of two streams, a missing document
   and a stream that stops early *)
Example C16_two_unknown_heads :
  fetch [((9,0)%N, 0); ((8,0)%N, 1); ((7,0)%N, 0); ((6,0)%N, 1)]
        [(0, [((5,5), 11); ((9,0), 12); ((7,0), 13)]%N); (1, [((4,4), 21); ((8,0), 22)]%N)]
  = [(((9,0)%N, 0), 12%N); (((8,0)%N, 1), 22%N); (((7,0)%N, 0), 13%N); (((6,0)%N, 1), 0%N)].
Proof. vm_compute. reflexivity. Qed.

(* the hypothesis of C16_docs_complete holds for the streams of C16_two_unknown_heads (unrequested
   heads, a missing document), and fails for a stream that swaps two requested documents *)
Example C16_well_behaved_witnessed :
  well_behaved [((9,0)%N, 0); ((8,0)%N, 1); ((7,0)%N, 0); ((6,0)%N, 1)]
        [(0, [((5,5), 11); ((9,0), 12); ((7,0), 13)]%N); (1, [((4,4), 21); ((8,0), 22)]%N)] = true
  /\ well_behaved [((9,0)%N, 0); ((7,0)%N, 0)] [(0, [((7,0), 13); ((9,0), 12)]%N)] = false.
Proof. split; vm_compute; reflexivity. Qed.

(* a proxy that remembers, per shard, the position of the replica that answered last and starts the
   next search there WITHOUT wrapping around is not state independent, and breaks the property:
   search 1 — replica 0 fails, replica 1 answers; search 2 (rolling restart) — replica 0 is back,
   replica 1 is down: the shard is reported failed (the tier fails; with a second answering shard the
   response is partial) although it has an answering replica. The real proxy answers completely. *)
Example C16_sticky_start_refuted :
  let s1 := [[(0, BErr); (1, BOk [(9,0)]%N X0)]] in
  let s2 := [[(0, BOk [(9,0)]%N X0); (1, BErr)]] in
  sticky_run true [0] [s1; s2] = [TOk false [(1, [(9,0)]%N)] [X0]; TFail]
  /\ map (search_stores true) [s1; s2] = [TOk false [(1, [(9,0)]%N)] [X0]; TOk false [(0, [(9,0)]%N)] [X0]]
  /\ sticky_run true [0; 0] [s1 ++ [[(2, BOk [(8,0)]%N X0)]]; s2 ++ [[(2, BOk [(8,0)]%N X0)]]]
     = [TOk false [(1, [(9,0)]%N); (2, [(8,0)]%N)] [X0; X0]; TOk true [(2, [(8,0)]%N)] [X0]].
Proof. repeat split; vm_compute; reflexivity. Qed.

(* ---------------------------------------------------------------- the code before 2959d55 *)
(* DESIGN section 9 #11: two streams both starting with unrequested documents: panic *)
Example C16_two_unknown_heads_v0_refuted :
  exists req s0 s1, fetch_v0 false req s0 s1 = None /\ exists out, fetch req [s0; s1] = out /\ length out = length req.
Proof.
  exists [((9,0)%N, 0); ((8,0)%N, 1)], (0, [((5,5), 11); ((9,0), 12)]%N), (1, [((4,4), 21); ((8,0), 22)]%N).
  split; [vm_compute; reflexivity | eexists; split; [reflexivity | vm_compute; reflexivity]].
Qed.

(* ... and, because requested IDs were looked up with their hint, one unrequested document at the
   head of a single stream was enough *)
Example C16_single_unknown_head_v0_refuted :
  exists req s0, fetch_v0 true req s0 (1, []) = None
                 /\ fetch req [s0] = [(((9,0)%N, 0), 12%N)].
Proof.
  exists [((9,0)%N, 0)], (0, [((5,5), 11); ((9,0), 12)]%N). split; vm_compute; reflexivity.
Qed.

(* ... and the fast-forward over late documents never ran: a document repeated by the store hid
   every later document (here the document of (8,0)), which the repaired code delivers *)
Example C16_no_fast_forward_v0_refuted :
  exists req s0, fetch_v0 true req s0 (1, []) = Some [(((9,0)%N, 0), 12%N); (((8,0)%N, 0), 0%N)]
                 /\ fetch req [s0] = [(((9,0)%N, 0), 12%N); (((8,0)%N, 0), 14%N)].
Proof.
  exists [((9,0)%N, 0); ((8,0)%N, 0)], (0, [((9,0), 12); ((9,0), 13); ((8,0), 14)]%N). split; vm_compute; reflexivity.
Qed.

(* ================================================================ extension (round 6) *)

(* FetchDocsStream makes one Fetch call per source of the request ([calls]: the calls in the order they
   were made, each failing or opening a stream with arbitrary content). It returns an error if and
   only if something was asked and EVERY call failed. *)
Theorem C16_fetch_all_failed_is_error : forall req calls,
  (fds req calls = FdErr <-> calls <> [] /\ Forall (fun c => snd c = FFail) calls)
  /\ (calls_valid req calls = true -> (calls <> [] <-> req <> []))
  /\ (calls_valid req calls = true -> req <> [] -> Forall (fun c => snd c = FFail) calls -> fds req calls = FdErr).
Proof. exact fetch_all_failed_is_error. Qed.
Print Assumptions C16_fetch_all_failed_is_error.

(* ... and when at least one call opened a stream (whatever the others did, whatever the streams
   contain): a document stream with exactly one document per requested ID in request order, each empty
   or really sent by the ID's own source under that ID; every ID of a source whose call failed comes
   back EMPTY; and when the live streams are well behaved every other document is exactly what its
   source sent (the failed calls disturb nothing). *)
Theorem C16_fetch_some_failed_is_empty_docs : forall req calls,
  (exists s l, In (s, FStream l) calls) \/ calls = [] ->
  exists out, fds req calls = FdOk out
    /\ out = fetch req (live calls)
    /\ length out = length req
    /\ docs_sound req (live calls) out = true
    /\ (NoDup (map fst calls) -> forall i k, nth_error req i = Some k -> In (snd k) (failed calls) ->
          nth_error out i = Some (k, 0%N))
    /\ (well_behaved req (live calls) = true -> out = map (expected_doc (live calls)) req).
Proof. exact fetch_some_failed_is_empty_docs. Qed.
Print Assumptions C16_fetch_some_failed_is_empty_docs.

(* The decision Model.search_full takes through the list of failing stores is this very decision
   on the returned page (so C16_api_honest / C16_state_independent speak about the transcribed code). *)
Theorem C16_fetch_decision_in_search : forall (l : list ids) calls ffail, l <> [] -> calls_valid l calls = true ->
  (forall s, In s (map fst calls) -> (In s ffail <-> In s (failed calls))) ->
  forallb (fun k => existsb (Nat.eqb (snd k)) ffail) l = fds_fails calls.
Proof. exact search_full_decision. Qed.
Print Assumptions C16_fetch_decision_in_search.

(* Ingestor.Documents: an error exactly when something was asked and every store's Fetch call failed;
   otherwise the unique-ID view (C16_documents_aligned / _complete) of the stream of the live stores. *)
Theorem C16_documents_all_failed_is_error : forall groups calls,
  match documents_full groups calls with
  | DcErr => calls <> [] /\ Forall (fun c => snd c = FFail) calls
  | DcOk out => fds_fails calls = false /\ out = documents groups (live calls)
  end.
Proof. exact documents_full_spec. Qed.
Print Assumptions C16_documents_all_failed_is_error.

(* Which buckets exist in the merged histogram, for every sorting function: the map has each key once;
   a bucket exists iff some answering shard reports it (with any count, 0 included) or — with an
   interval — the duplicate repair touched it (some ID of that bucket was answered more often than
   once). Nothing is ever removed: a bucket counted down to 0 by the repair, and a bucket reported
   with count 0, stay in the map with value 0 (C16_hist_zero_bucket_stays); a repair of a bucket no
   shard reported creates it with 2^64-1 (C16_hist_repair_wraps). Equivalently the key set is
   CaseDefs.hist_keys_spec, the list the correspondence run compares the real key set with. *)
Theorem C16_hist_keys_exact : forall sort, sort_ok sort -> forall qs xs rev itv naggs,
  let h := x_hist (merge_rest sort qs xs rev itv naggs) in
  let U := flat_map snd qs in
  NoDup (map fst h)
  /\ (forall k, In k (map fst h) <->
        (exists x, In x xs /\ In k (map fst (x_hist x)))
        \/ (itv <> 0%N /\ (exists i, In i U /\ bucket_of itv i = k) /\ reps_in_bucket itv U k <> 0%Z))
  /\ (forall k, In k (map fst h) <-> In k (hist_keys_spec itv U xs)).
Proof. exact hist_keys_exact. Qed.
Print Assumptions C16_hist_keys_exact.

(* proxyapi Search / ComplexSearch, whole response, for every sorting function, request (any int64
   offset and size), store behaviours and fetch calls. A response with documents is only given for a
   valid request and a deciding tier with verdict VOk flag qs xs, and then:
   - the documents are exactly the slice [offset, offset+size) of the merged order of the answering
     shards (MergeQPRs without any limit: the cut is applied AFTER the merge) — as many as there are,
     none when the offset is beyond the result; the same list satisfies the rank specification page_ok;
   - the i-th document carries the i-th ID and a payload that is empty or was really sent by the
     store the ID came from, under that ID (doc_of);
   - Total is the int64 of the merged total of ALL answering shards — offset and size do not occur in it
     (C16_total_paging_independent);
   - partial_response = flag with code PARTIAL_RESPONSE / NO accordingly; complete only without soft errors;
   - a non-empty page is never answered when every fetch call failed;
   - the histogram is given exactly when asked and is the merged one.
   InvalidArgument is only given for an invalid request (size <= 0 where a size is needed, negative
   size/offset) or a wants-old verdict; the only-error response only for too-many-fractions. *)
Theorem C16_api_paging_exact : forall sort, sort_ok sort -> forall q p1 p2 hot hotread cold calls,
  match api_full sort q p1 p2 hot hotread cold calls with
  | DResp flag code docs total hist =>
      a_invalid q = false
      /\ exists qs xs, verdict_of p1 p2 hot hotread cold = VOk flag qs xs
         /\ map fst docs = map fst (page_of sort q qs)
         /\ Forall2 (doc_of (live calls)) (page_of sort q qs) docs
         /\ page_ok (a_rev q) (flat_map snd qs) (Z.to_nat (a_off q)) (Z.to_nat (a_size q)) (map fst docs) = true
         /\ sources_ok qs (page_of sort q qs) = true
         /\ total = to_int64 (total_spec (flat_map snd qs) xs)
         /\ code = (if flag then CPartial else CNo)
         /\ (flag = false -> errs_spec xs = 0)
         /\ (page_of sort q qs <> [] -> fds_fails calls = false)
         /\ hist = match a_hist q with
                   | Some _ => Some (x_hist (merge_rest sort qs xs (a_rev q) (a_itv q) 0))
                   | None => None
                   end
  | DOnlyError => verdict_of p1 p2 hot hotread cold = VErr ETooManyFrac
  | DErr GInvalidArgument => a_invalid q = true \/ verdict_of p1 p2 hot hotread cold = VErr EWantsOld
  | DErr GInternal => True
  end.
Proof. exact api_paging. Qed.
Print Assumptions C16_api_paging_exact.

(* two requests that differ only in offset / size (and explain / with_total): same classification, same
   partial flag, and the same rest of the merged QPR — Total, histogram, soft errors *)
Theorem C16_total_paging_independent : forall sort q q' p1 p2 hot hotread cold,
  a_rev q = a_rev q' -> a_hist q = a_hist q' ->
  match search sort p1 p2 hot hotread cold (Z.to_nat (a_off q)) (Z.to_nat (a_size q)) (a_rev q) (a_itv q) 0,
        search sort p1 p2 hot hotread cold (Z.to_nat (a_off q')) (Z.to_nat (a_size q')) (a_rev q') (a_itv q') 0 with
  | SOk p _ x, SOk p' _ x' => p = p' /\ x = x'
  | SErr k, SErr k' => k = k'
  | _, _ => False
  end.
Proof. exact total_paging_independent. Qed.
Print Assumptions C16_total_paging_independent.

(* Aggregations with ANY number of samples, for every random generator of the reservoir (state type,
   seed, step function — all arbitrary): the scalar view (samples and generator state forgotten) of the
   real merge, SamplesContainer.Merge with InsertSample's replacement above 8096 samples, IS the model
   merge the correspondence run executes, applied to the answers with their samples erased. Hence per
   aggregation and bin: the bin exists iff some answering shard has it; Total, Sum, NotExists (and
   Min/Max when no shard reports a negative Total) are exactly those of the containers the answering
   shards hold for it. Only the sample multiset is outside (and non-integer values: float rounding). *)
Theorem C16_agg_scalar_exact_unbounded : forall R seed next sort qs xs rev itv naggs,
  let A := map (erase_aggr R) (merge_aggs_r R seed next xs naggs) in
  A = x_aggs (merge_rest sort qs (map extra_erase xs) rev itv naggs)
  /\ length A = naggs
  /\ forall j, j < naggs ->
       snd (nth j A e0) = zsum (map (fun x => snd (nth j (x_aggs x) e0)) xs)
       /\ forall b,
          match bin_parts j b xs with
          | [] => blookup (fst (nth j A e0)) b = None
          | ps => exists h, blookup (fst (nth j A e0)) b = Some h /\ sc_scalar_desc ps h
          end.
Proof. exact agg_scalar_exact. Qed.
Print Assumptions C16_agg_scalar_exact_unbounded.

(* ... and up to the bound the real container is exactly Model.sc_merge (samples concatenated, generator
   untouched); the reservoir never grows beyond 8096 *)
Theorem C16_reservoir_below_bound : forall R next (h : scr R) x s r v,
  ((N.of_nat (length (sc_samples (r_sc R h)) + length (sc_samples x)) <= max_samples)%N ->
     scr_merge R next h x = mkScr R (sc_merge (r_sc R h) x) (r_rng R h))
  /\ ((N.of_nat (length s) <= max_samples)%N ->
      (N.of_nat (length (fst (insert_sample R next (s, r) v))) <= max_samples)%N).
Proof. exact reservoir_below_bound. Qed.
Print Assumptions C16_reservoir_below_bound.

(* ---------------------------------------------------------------- non-vacuity of the extension *)
(* both stores refuse the fetch: error; the hypotheses of C16_fetch_all_failed_is_error hold *)
Example C16_all_failed_example :
  let req := [((9,0)%N, 0); ((8,0)%N, 1); ((7,0)%N, 0)] in
  let calls := [(1, FFail); (0, FFail)] in
  calls_valid req calls = true /\ req <> [] /\ Forall (fun c : src * fcall => snd c = FFail) calls /\ fds req calls = FdErr.
Proof. repeat split; try (vm_compute; reflexivity); [discriminate | repeat constructor]. Qed.

(* store 0 refuses, store 1 delivers (and an unrequested document first): the IDs of store 0 come back
   empty, the document of store 1 intact; hypotheses of C16_fetch_some_failed_is_empty_docs witnessed *)
Example C16_some_failed_example :
  let req := [((9,0)%N, 0); ((8,0)%N, 1); ((7,0)%N, 0)] in
  let calls := [(1, FStream [((4,4), 21); ((8,0), 22)]%N); (0, FFail)] in
  (exists s l, In (s, FStream l) calls) /\ NoDup (map fst calls) /\ well_behaved req (live calls) = true
  /\ fds req calls = FdOk [(((9,0)%N, 0), 0%N); (((8,0)%N, 1), 22%N); (((7,0)%N, 0), 0%N)].
Proof.
  split; [eexists; eexists; left; reflexivity|]. split; [repeat constructor; simpl; intuition discriminate|].
  split; vm_compute; reflexivity.
Qed.

(* shard 0 counts one document in bucket 6 and answers ID (7,1); shard 1 answers the same ID: the
   repair counts bucket 6 down to 0 and the bucket STAYS (value 0); bucket 8, reported with count 0 by
   shard 1 only, stays as well *)
Example C16_hist_zero_bucket_stays :
  exists l x, search isort true true [[(0, BOk [(7,1)]%N (mkX 1 [(6%N, 1%Z)] [] 0))]; [(1, BOk [(7,1)]%N (mkX 1 [(8%N, 0%Z)] [] 0))]]
                     [] [] 0 3 false 2%N 0 = SOk false l x
              /\ x_hist x = [(6%N, 0%Z); (8%N, 0%Z)] /\ x_total x = 1%Z.
Proof. eexists; eexists; split; [vm_compute; reflexivity | split; reflexivity]. Qed.

(* paging through the API model: merged order (9,0) (8,0) (7,1) (3,0); offset 1 size 2 gives (8,0) (7,1)
   with their documents; offset 7 gives no document; Total is 9 in both; size 0 is refused by Search
   and allowed by ComplexSearch with a histogram *)
Example C16_api_paging_example :
  let hot := [[(0, BOk [(9,0); (7,1); (3,0)]%N (mkX 5 [] [] 0))]; [(1, BOk [(8,0); (7,1)]%N (mkX 5 [] [] 0))]] in
  let q off size := mkAreq KSearch off size false None false true in
  api_full isort (q 1 2)%Z true true hot [] [] [(1, FStream [((8,0), 22)]%N); (0, FStream [((7,1), 11)]%N)]
    = DResp false CNo [((8,0)%N, 22%N); ((7,1)%N, 11%N)] 9 None
  /\ api_full isort (q 7 2)%Z true true hot [] [] [] = DResp false CNo [] 9 None
  /\ api_full isort (q 0 0)%Z true true hot [] [] [] = DErr GInvalidArgument
  /\ api_full isort (mkAreq KComplex 0 0 false (Some 2%N) false true) true true hot [] [] []
      = DResp false CNo [] 9 (Some [(6%N, 18446744073709551615%Z)])   (* no shard reports a histogram: the repair of (7,1) wraps *)
  /\ api_full isort (q (-1) 2)%Z true true hot [] [] [] = DErr GInvalidArgument.
Proof. repeat split; vm_compute; reflexivity. Qed.

(* the reservoir really replaces: a full container (8096 samples) merged with one more sample keeps
   8096 samples, one of them replaced, while Total/Sum/Min/Max move on; generator: a counter *)
Example C16_reservoir_example :
  let next (r : N) := (r, (r + 1)%N) in
  let h := mkScr N (mkSc 8096 0 0 0 0 (repeat 0%Z (N.to_nat 8096))) 5%N in
  let m := scr_merge N next h (mkSc 1 7 7 7 0 [7%Z]) in
  length (sc_samples (r_sc N m)) = N.to_nat 8096 /\ nth 5 (sc_samples (r_sc N m)) 0%Z = 7%Z
  /\ er N m = mkSc 8097 7 0 7 0 [] /\ r_rng N m = 6%N.
Proof. repeat split; vm_compute; reflexivity. Qed.

(* ================================================================ extension (round 7): the request context *)

(* One shard under a request context expiring at d (replicas whose answer becomes available at a logical
   time, or never; searchShard started at t): once the context is done every remaining replica fails at once
   (the shard fails at that very time); a shard that ends with anything but a plain failure — an answer or a
   special refusal — did so BEFORE the expiry and it is exactly what it does without any deadline, at the
   same time; a shard whose natural delivery is before the expiry is not touched by the deadline; a shard
   whose natural delivery is not before the expiry does not deliver an answer. *)
Theorem C16_deadline_shard : forall d sh t,
  (cancelled d t = true -> tsearch_shard d t sh = TSR SFail t)
  /\ (forall r t', tsearch_shard d t sh = TSR r t' -> decisive r = true ->
        cancelled d t' = false /\ tsearch_shard None t sh = TSR r t')
  /\ (expires_before d t sh = false -> tsearch_shard d t sh = natural t sh)
  /\ (expires_before d t sh = true -> delivered_answer d t sh = false).
Proof. exact deadline_shard. Qed.
Print Assumptions C16_deadline_shard.

(* searchStores' receive loop over the ShardResponses in arrival order (by time; ties by the scheduler): a
   response is built from exactly the answers received; it is flagged partial iff some shard sent a failure
   (its own, or the context error of a call still running at the expiry) — and then at least one shard
   answered and at least one did not deliver; it is complete only if EVERY shard delivered its answer. *)
Theorem C16_deadline_tier : forall prio d t0 shards p qs xs tend,
  tsearch_stores prio d t0 shards = TT (TOk p qs xs) tend ->
  let evs := arrival prio (map (fun sh => ev_of (tsearch_shard d t0 sh)) shards) in
  Permutation evs (map (fun sh => ev_of (tsearch_shard d t0 sh)) shards)
  /\ qs = answers (map snd evs) /\ xs = extras (map snd evs)
  /\ p = existsb is_fail (map snd evs)
  /\ (p = true -> qs <> [] /\ existsb (fun sh => negb (delivered_answer d t0 sh)) shards = true)
  /\ (p = false -> forallb (delivered_answer d t0) shards = true).
Proof. exact tier_content. Qed.
Print Assumptions C16_deadline_tier.

(* Ingestor.Search under a request context, with or without the fetch stage, for EVERY availability pattern
   of the replicas, every expiry time, every scheduling choice, every time spent before the re-check of the
   context, every sorting function: a complete-looking response (no error, not flagged partial) is only
   given when every shard of the deciding tier (the hot tier, or the long-term stores after a wants-old
   verdict, started when that verdict arrived) delivered, before the expiry, the very answer it gives
   without any deadline. Hence: if the context expires before every shard of the deciding tier has delivered
   its answer, the call returns an error or a response flagged partial (or, with no expiry and a store that
   never answers, does not return) — never a complete-looking response that misses a shard. *)
Theorem C16_deadline_honest : forall sort p1 p2 d hot hotread cold off size rev itv naggs fetch gap ffail,
  match tsearch sort p1 p2 d hot hotread cold off size rev itv naggs fetch gap ffail with
  | TS (SOk false l x) =>
      exists t0 tier, deciding_tier p1 d hot hotread cold = Some (t0, tier) /\ all_delivered d t0 tier
  | _ => True
  end
  /\ (forall t0 tier, deciding_tier p1 d hot hotread cold = Some (t0, tier) ->
      existsb (expires_before d t0) tier = true ->
      honest_outcome (tsearch sort p1 p2 d hot hotread cold off size rev itv naggs fetch gap ffail)).
Proof. exact deadline_honest. Qed.
Print Assumptions C16_deadline_honest.

(* The four proxyapi handlers (Search, ComplexSearch — also with size 0 and only hist / aggs —,
   GetAggregation and GetHistogram, which never reach the fetch stage): a response with partial_response =
   false or with code NO has both, and is only given when every shard of the deciding tier delivered its
   answer before the expiry (no shard's natural delivery is at or after the expiry). *)
Theorem C16_deadline_api_honest : forall sort h p1 p2 d hot hotread cold off size rev itv naggs gap ffail,
  match tapi_of sort h p1 p2 d hot hotread cold off size rev itv naggs gap ffail with
  | TA (AResp flag code l x) =>
      (flag = false \/ code = CNo) ->
      flag = false /\ code = CNo
      /\ exists t0 tier, deciding_tier p1 d hot hotread cold = Some (t0, tier) /\ all_delivered d t0 tier
                         /\ existsb (expires_before d t0) tier = false
  | _ => True
  end.
Proof. exact deadline_api_honest. Qed.
Print Assumptions C16_deadline_api_honest.

(* ... and whatever Ingestor.Search returns under a request context — complete or flagged partial — has
   exactly the content the untimed theorems describe, over the answers that were RECEIVED from the deciding
   tier (C16_deadline_tier: the answers of exactly the shards that delivered): the returned IDs are the page
   [off, off+size) of their duplicate-free union in response order (rank specification page_ok), each with a
   source that answered it; Total, histogram, soft errors and aggregations are those of exactly these answers
   (rest_desc); and documents are only fetched when the context was not yet done at the re-check.
   (Hypotheses witnessed by C16_sort_hypothesis_witnessed and C16_deadline_example.) *)
Theorem C16_deadline_response_content : forall sort, sort_ok sort ->
  forall p1 p2 d hot hotread cold off size rev itv naggs fetch gap ffail p l x,
  tsearch sort p1 p2 d hot hotread cold off size rev itv naggs fetch gap ffail = TS (SOk p l x) ->
  exists t0 tier prio tend qs xs,
    deciding_tier p1 d hot hotread cold = Some (t0, tier)
    /\ tsearch_stores prio d t0 tier = TT (TOk p qs xs) tend
    /\ page_ok rev (flat_map snd qs) off size (map fst l) = true /\ sources_ok qs l = true
    /\ rest_desc itv naggs qs xs x
    /\ (fetch = true -> l <> [] -> cancelled d (tend + gap) = false).
Proof. exact deadline_response_content. Qed.
Print Assumptions C16_deadline_response_content.

(* ---------------------------------------------------------------- non-vacuity of the request-context extension *)
(* shard 0 answers at time 1, shard 1 would answer at time 5; the context expires at 3:
   without fetch (GetAggregation / GetHistogram / size 0) the response is flagged partial and holds shard 0
   only; with the fetch stage the re-check of the context turns it into an error; with no expiry, or an
   expiry after both answers, the response is complete. The hypotheses of C16_deadline_honest hold. *)
Example C16_deadline_example :
  let hot := [[(0, BOk [(9,0)]%N X0, Some 1)]; [(1, BOk [(8,0)]%N X0, Some 5)]] in
  tsearch isort true true (Some 3) hot [] [] 0 4 false 0%N 0 false 0 [] = TS (SOk true [((9,0)%N, 0)] X0)
  /\ tsearch isort true true (Some 3) hot [] [] 0 4 false 0%N 0 true 0 [] = TS (SErr EOther)
  /\ tsearch isort true true None hot [] [] 0 4 false 0%N 0 true 0 [] = TS (SOk false [((9,0)%N, 0); ((8,0)%N, 1)] X0)
  /\ tsearch isort true true (Some 6) hot [] [] 0 4 false 0%N 0 true 0 [] = TS (SOk false [((9,0)%N, 0); ((8,0)%N, 1)] X0)
  /\ tsearch isort true true (Some 6) hot [] [] 0 4 false 0%N 0 true 1 [] = TS (SErr EOther)
  /\ deciding_tier true (Some 3) hot [] [] = Some (0, hot)
  /\ existsb (expires_before (Some 3) 0) hot = true
  /\ tapi_of isort HHist true true (Some 3) hot [] [] 0 0 false 2%N 0 0 [] = TA (AResp true CPartial [] X0)
  /\ tapi_of isort HAgg true true (Some 3) hot [] [] 0 0 false 0%N 1 0 [] = TA (AResp true CPartial [] (mkX 0 [] [([], 0%Z)] 0))
  /\ tapi_of isort HComplex true true (Some 3) hot [] [] 0 0 false 2%N 0 0 [] = TA (AResp true CPartial [] X0)
  /\ tapi_of isort HSearch true true (Some 3) hot [] [] 0 4 false 0%N 0 0 [] = TA (AErr GInternal).
Proof. repeat split; vm_compute; reflexivity. Qed.

(* the cold fallback shares the request context: the hot verdict (wants-old) arrives at time 2, the
   long-term store would answer at time 4, the context expires at 3: its first replica fails at the expiry,
   the second one is asked on a done context and fails at once: error. Expiry at 5: complete. *)
Example C16_deadline_cold_example :
  let cold := [[(1, BOk [(8,0)]%N X0, Some 4); (2, BOk [(8,0)]%N X0, Some 1)]] in
  tsearch isort true true (Some 3) [[(0, BWantsOld, Some 2)]] [] cold 0 4 false 0%N 0 false 0 [] = TS (SErr EOther)
  /\ tsearch isort true true (Some 5) [[(0, BWantsOld, Some 2)]] [] cold 0 4 false 0%N 0 false 0 [] = TS (SOk false [((8,0)%N, 1)] X0)
  /\ deciding_tier true (Some 5) [[(0, BWantsOld, Some 2)]] [] cold = Some (2, cold).
Proof. repeat split; vm_compute; reflexivity. Qed.

(* the seeded two-site variant of searchStores (a shard goroutine does not send its error once the context
   is done; the cancellation is reported only when nothing at all was received) is NOT honest: shard 1 is
   still running when the context expires at 3, and the tier answers complete with shard 0 only — while the
   transcribed code flags that response partial. *)
Example C16_deadline_two_site_variant_refuted :
  exists d shards qs xs t,
    tsearch_stores_m9 true d 0 shards = TT (TOk false qs xs) t
    /\ existsb (expires_before d 0) shards = true /\ length qs < length shards
    /\ tsearch_stores true d 0 shards = TT (TOk true qs xs) t.
Proof.
  exists (Some 3), [[(0, BOk [(9,0)]%N X0, Some 1)]; [(1, BOk [(8,0)]%N X0, Some 5)]], [(0, [(9,0)]%N)], [X0], 3.
  repeat split; try (vm_compute; reflexivity); try apply le_n.
Qed.

(* ================================================================ extension (round 8): OldestCT after retention *)

(* After a retention pass that truncated the k oldest-listed fractions, OldestCT — which the hot store's
   wants-old refusal (C16_hot_refusal) compares `from` with — is the creation time of the oldest REMAINING
   fraction: a member of the remaining list and not above any of them (whatever OldestCT was before). *)
Theorem C16_oldest_after_truncation : forall prev cts k,
  skipn k cts <> [] -> Forall (fun c => c <> 0%N) (skipn k cts) ->
  In (oldest_after prev cts k) (skipn k cts)
  /\ Forall (fun c => (oldest_after prev cts k <= c)%N) (skipn k cts).
Proof. exact oldest_after_truncation. Qed.
Print Assumptions C16_oldest_after_truncation.

(* hypotheses witnessed; and the seeded variant (the local list is not advanced past the truncated fractions)
   keeps the creation time of a fraction it has just deleted: a range starting between the two is answered
   instead of refused *)
Example C16_oldest_after_truncation_example :
  skipn 2 [10; 20; 30; 40]%N <> [] /\ Forall (fun c => c <> 0%N) (skipn 2 [10; 20; 30; 40]%N)
  /\ oldest_after 10 [10; 20; 30; 40]%N 2 = 30%N
  /\ oldest_after_stale 10 [10; 20; 30; 40]%N 2 = 10%N
  /\ earlier_than_oldest (oldest_after 10 [10; 20; 30; 40]%N 2) 25 = true
  /\ earlier_than_oldest (oldest_after_stale 10 [10; 20; 30; 40]%N 2) 25 = false.
Proof. repeat split; try (vm_compute; reflexivity); [discriminate | repeat constructor; discriminate]. Qed.
