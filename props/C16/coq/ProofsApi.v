(* C16 — proxyapi level: what an API answer tells about the shards; replica orders. *)
From Coq Require Import List Bool Arith NArith ZArith Lia Permutation.
From VLib Require Import CaseLib.
From C16 Require Import Model CaseDefs ProofsSearch ProofsRest.
Import ListNotations.

Section WithSort.
  Variable sort : (ids -> ids -> bool) -> list ids -> list ids.
  Hypothesis sort_is_ok : sort_ok sort.

  Lemma search_full_cases : forall p1 p2 hot hotread cold off size rev itv naggs ffail,
    let r := search sort p1 p2 hot hotread cold off size rev itv naggs in
    let f := search_full sort p1 p2 hot hotread cold off size rev itv naggs ffail in
    f = r \/ (f = SErr EFetch /\ exists p l x, r = SOk p l x /\ l <> []).
  Proof.
    intros. subst r f. unfold search_full.
    destruct (search sort p1 p2 hot hotread cold off size rev itv naggs) as [k|p [|y l] x]; auto.
    match goal with |- context [if ?c then _ else _] => destruct c end; auto. right; split; auto. exists p, (y :: l), x; split; auto; discriminate.
  Qed.

  (* the API answer is an error, or complete, or says it is partial *)
  Lemma api_honest : forall p1 p2 hot hotread cold off size rev itv naggs ffail,
    match api_of (search_full sort p1 p2 hot hotread cold off size rev itv naggs ffail) with
    | AResp flag code l x =>
        exists qs xs, verdict_of p1 p2 hot hotread cold = VOk flag qs xs
                      /\ code = (if flag then CPartial else CNo)
                      /\ (flag = false -> x_errs x = 0 /\ errs_spec xs = 0)
                      /\ page_ok rev (flat_map snd qs) off size (map fst l) = true
                      /\ sources_ok qs l = true
                      /\ x = merge_rest sort qs xs rev itv naggs
    | AErr GInvalidArgument => verdict_of p1 p2 hot hotread cold = VErr EWantsOld
    | AOnlyError => verdict_of p1 p2 hot hotread cold = VErr ETooManyFrac
    | AErr GInternal => True
    end.
  Proof.
    intros.
    pose proof (search_ok sort sort_is_ok p1 p2 hot hotread cold off size rev itv naggs) as OK.
    destruct (search_full_cases p1 p2 hot hotread cold off size rev itv naggs ffail) as [E|[E _]];
      rewrite E; [|simpl; exact I].
    destruct (search sort p1 p2 hot hotread cold off size rev itv naggs) as [k|p l x];
      destruct (verdict_of p1 p2 hot hotread cold) as [k'|p' qs xs]; try contradiction.
    - subst k'. destruct k; simpl; auto.
    - destruct OK as [-> [A [B C]]]. destruct p; simpl.
      + exists qs, xs. split; [reflexivity|]. split; [reflexivity|]. split; [intros; discriminate|].
        split; [exact A|]. split; [exact B | exact C].
      + destruct (Nat.eqb_spec (x_errs x) 0) as [Z|NZ]; [|exact I].
        exists qs, xs. split; [reflexivity|]. split; [reflexivity|].
        split; [intros _; split; [exact Z | subst x; now rewrite errs_ok in Z]|].
        split; [exact A|]. split; [exact B | exact C].
  Qed.

  (* store soft errors: with every shard answering they turn the whole answer into Internal (the data
     is dropped); in a partial response they are not looked at *)
  Lemma api_soft_errors : forall p l x,
    api_of (SOk p l x) = if p then AResp true CPartial l x
                         else if Nat.eqb (x_errs x) 0 then AResp false CNo l x else AErr GInternal.
  Proof. intros [] l x; reflexivity. Qed.
End WithSort.

(* ---------------------------------------------------------------- sequences of searches *)
Lemma proxy_run_nth : forall sort pre q post st,
  nth (length pre) (proxy_run sort st (pre ++ q :: post)) (SErr EOther) = search_req sort q.
Proof.
  intros sort; induction pre as [|p pre IH]; intros q post st; simpl; auto.
Qed.
Lemma proxy_run_map : forall sort qs st, proxy_run sort st qs = map (search_req sort) qs.
Proof. intros sort; induction qs as [|q qs IH]; intros st; simpl; auto. now rewrite IH. Qed.

(* ---------------------------------------------------------------- any replica order *)
Definition plain (b : beh) : bool := match b with BOk _ _ | BErr => true | _ => false end.
Definition is_okb (b : beh) : bool := match b with BOk _ _ => true | _ => false end.

Lemma search_shard_members : forall sh,
  match search_shard sh with
  | SAns s l x => In (s, BOk l x) sh
  | SWantsOld => exists s, In (s, BWantsOld) sh
  | STooManyFrac => exists s, In (s, BTooManyFrac) sh
  | SFail => Forall (fun r => snd r = BErr) sh \/ exists s, In (s, BTooManyUniq) sh
  end.
Proof.
  intros sh. pose proof (search_shard_spec sh) as H. destruct (search_shard sh).
  - destruct H as [pre [post [-> _]]]. apply in_or_app; simpl; auto.
  - destruct H as [pre [s [post [-> _]]]]. exists s. apply in_or_app; simpl; auto.
  - destruct H as [pre [s [post [-> _]]]]. exists s. apply in_or_app; simpl; auto.
  - destruct H as [H|[pre [s [post [-> _]]]]]; auto. right. exists s. apply in_or_app; simpl; auto.
Qed.

(* whatever order the replicas are tried in: the outcome is one of the replicas' own behaviours, and
   when no replica gives a special refusal, whether the shard answers does not depend on the order *)
Lemma any_replica_order : forall sh sh', Permutation sh sh' ->
  match search_shard sh' with
  | SAns s l x => In (s, BOk l x) sh
  | SWantsOld => exists s, In (s, BWantsOld) sh
  | STooManyFrac => exists s, In (s, BTooManyFrac) sh
  | SFail => Forall (fun r => snd r = BErr) sh \/ exists s, In (s, BTooManyUniq) sh
  end
  /\ (forallb (fun r => plain (snd r)) sh = true ->
      is_fail (search_shard sh') = negb (existsb (fun r => is_okb (snd r)) sh)
      /\ is_wo (search_shard sh') = false /\ is_tmf (search_shard sh') = false).
Proof.
  intros sh sh' P. pose proof (search_shard_members sh') as M. split.
  - destruct (search_shard sh').
    + eapply Permutation_in; [apply Permutation_sym, P | exact M].
    + destruct M as [s M]. exists s. eapply Permutation_in; [apply Permutation_sym, P | exact M].
    + destruct M as [s M]. exists s. eapply Permutation_in; [apply Permutation_sym, P | exact M].
    + destruct M as [M|[s M]].
      * left. rewrite Forall_forall in *. intros r Hr. apply M. eapply Permutation_in; eauto.
      * right. exists s. eapply Permutation_in; [apply Permutation_sym, P | exact M].
  - intros Hp. rewrite forallb_forall in Hp.
    assert (Hp' : forall r, In r sh' -> plain (snd r) = true).
    { intros r Hr. apply Hp. eapply Permutation_in; [apply Permutation_sym, P | exact Hr]. }
    destruct (search_shard sh') as [s l x| | |]; simpl.
    + repeat split; auto. symmetry. apply negb_false_iff, existsb_exists.
      exists (s, BOk l x). split; auto. eapply Permutation_in; [apply Permutation_sym, P | exact M].
    + destruct M as [s M]. specialize (Hp' _ M). discriminate.
    + destruct M as [s M]. specialize (Hp' _ M). discriminate.
    + repeat split; auto. destruct M as [M|[s M]]; [|specialize (Hp' _ M); discriminate].
      symmetry. apply negb_true_iff. destruct (existsb (fun r => is_okb (snd r)) sh) eqn:E; auto.
      apply existsb_exists in E. destruct E as [r [Hr Ok]]. rewrite Forall_forall in M.
      rewrite (M r) in Ok; [discriminate|]. eapply Permutation_in; eauto.
Qed.

(* tier level: with no special refusals, every replica order of every shard gives the same
   complete / partial / failed classification and the same number of answers *)
Lemma tier_any_order : forall prio prio' shards shards',
  Forall2 (@Permutation (src * beh)) shards shards' ->
  forallb (fun sh => forallb (fun r => plain (snd r)) sh) shards = true ->
  match search_stores prio shards, search_stores prio' shards' with
  | TOk p qs xs, TOk p' qs' xs' => p = p' /\ length qs = length qs'
  | TFail, TFail => True
  | _, _ => False
  end.
Proof.
  intros prio prio' shards shards' F Hp.
  assert (K : map is_fail (map search_shard shards) = map is_fail (map search_shard shards')
              /\ existsb is_wo (map search_shard shards) = false /\ existsb is_tmf (map search_shard shards) = false
              /\ existsb is_wo (map search_shard shards') = false /\ existsb is_tmf (map search_shard shards') = false).
  { induction F as [|sh sh' l l' P F IH]; simpl in *; auto.
    apply andb_true_iff in Hp. destruct Hp as [H1 H2]. destruct (IH H2) as [A [B [C [D E]]]].
    destruct (any_replica_order sh sh' P) as [_ Q]. destruct (Q H1) as [Q1 [Q2 Q3]].
    destruct (any_replica_order sh sh (Permutation_refl _)) as [_ Q']. destruct (Q' H1) as [R1 [R2 R3]].
    rewrite A, Q1, R1, Q2, Q3, R2, R3, B, C, D, E. auto. }
  destruct K as [A [B [C [D E]]]].
  assert (L : forall rs, length (answers rs) = length (filter (fun b => negb b) (map is_fail rs))
                         \/ existsb is_wo rs = true \/ existsb is_tmf rs = true).
  { induction rs as [|r rs IH]; [left; reflexivity|]. destruct r; simpl.
    - destruct IH as [IH|[IH|IH]]; [left; now rewrite IH | right; left; exact IH | right; right; exact IH].
    - right; left; reflexivity.
    - right; right; reflexivity.
    - destruct IH as [IH|[IH|IH]]; [left; exact IH | right; left; exact IH | right; right; exact IH]. }
  assert (F1 : existsb is_fail (map search_shard shards) = existsb is_fail (map search_shard shards')).
  { clear -A. revert A. generalize (map search_shard shards) (map search_shard shards').
    induction l as [|a l IH]; intros [|b l'] H; simpl in *; try discriminate; auto.
    inversion H. rewrite H1. f_equal. auto. }
  assert (LA : length (answers (map search_shard shards)) = length (answers (map search_shard shards'))).
  { destruct (L (map search_shard shards)) as [X|[X|X]]; [|congruence|congruence].
    destruct (L (map search_shard shards')) as [Y|[Y|Y]]; [|congruence|congruence].
    rewrite X, Y, A. reflexivity. }
  unfold search_stores. rewrite B, C, D, E, <- F1. simpl.
  destruct (existsb is_fail (map search_shard shards)).
  - destruct (answers (map search_shard shards)) eqn:X, (answers (map search_shard shards')) eqn:Y;
      simpl in LA; try discriminate; auto.
  - auto.
Qed.
