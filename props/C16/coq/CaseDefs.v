(* C16 — shape of the generated cases and the two executable verdicts. No proofs. *)
From VLib Require Import CaseLib.
From C16 Require Import Model.

Definition ids_eqb (a b : ids) : bool := key_eqb a b.
Definition doc_eqb (a b : doc) : bool := key_eqb (fst a) (fst b) && N.eqb (snd a) (snd b).
Definition errk_eqb (a b : errk) : bool :=
  match a, b with
  | EWantsOld, EWantsOld | ETooManyFrac, ETooManyFrac | EOther, EOther | EFetch, EFetch => true
  | _, _ => false
  end.
Definition memb {A} (eqb : A -> A -> bool) (x : A) (l : list A) : bool := existsb (eqb x) l.

(* ------------------------------------------------------------------ specification of the ID list
   [out] is the page [off, off+size) of the duplicate-free union U listed in response order,
   stated through ranks (independent of any sorting algorithm):
   rank u = number of distinct members of U that come strictly before u. *)
Fixpoint nodupb (l : list id) : list id :=
  match l with
  | [] => []
  | x :: r => if memb id_eqb x r then nodupb r else x :: nodupb r
  end.
Definition rank (rev : bool) (U : list id) (u : id) : nat :=
  length (nodupb (filter (fun v => before rev v u) U)).
Fixpoint strictly_sorted (rev : bool) (l : list id) : bool :=
  match l with
  | [] => true
  | x :: r => match r with [] => true | y :: _ => before rev x y end && strictly_sorted rev r
  end.
Definition in_page (off size r : nat) : bool := Nat.leb off r && Nat.ltb r (off + size).
Definition page_ok (rev : bool) (U : list id) (off size : nat) (out : list id) : bool :=
  strictly_sorted rev out
  && forallb (fun x => memb id_eqb x U && in_page off size (rank rev U x)) out
  && forallb (fun u => negb (in_page off size (rank rev U u)) || memb id_eqb u out) U.

(* every returned (ID, source) was really answered by that source *)
Definition sources_ok (qs : list (src * list id)) (out : list ids) : bool :=
  forallb (fun k => existsb (fun q => Nat.eqb (fst q) (snd k) && memb id_eqb (fst k) (snd q)) qs) out.

(* the tier that decides the response, or the error the response must be *)
Inductive verdict := VErr (k : errk) | VOk (partial : bool) (qs : list (src * list id)).
Definition tier_verdict (t : tier_res) : verdict :=
  match t with
  | TOk p qs => VOk p qs
  | TWantsOld => VErr EWantsOld
  | TTooManyFrac => VErr ETooManyFrac
  | TFail => VErr EOther
  end.
Definition verdict_of (p1 p2 : bool) (hot hotread cold : list shard) : verdict :=
  let h := match hotread with [] => hot | _ => hotread end in
  match search_stores p1 h with
  | TWantsOld => match cold with [] => VErr EWantsOld | _ => tier_verdict (search_stores p2 cold) end
  | t => tier_verdict t
  end.

Definition bools2 : list (bool * bool) := [(true, true); (true, false); (false, true); (false, false)].

(* is the observed search outcome one the property allows, under scheduling choice (p1,p2)? *)
Definition search_allowed (hot hotread cold : list shard) (off size : nat) (rev : bool)
           (ffail : list src) (impl : sres) (pp : bool * bool) : bool :=
  match verdict_of (fst pp) (snd pp) hot hotread cold, impl with
  | VErr k, SErr k' => errk_eqb k k'
  | VOk p qs, SOk p' out =>
      Bool.eqb p p'
      && page_ok rev (flat_map snd qs) off size (map fst out)
      && sources_ok qs out
      && (* a response with documents requested cannot be delivered when every fetch call failed *)
         negb (match out with [] => false | _ => forallb (fun k => memb Nat.eqb (snd k) ffail) out end)
  | VOk p qs, SErr EFetch =>
      (* allowed only when the page is not empty and every page member can have been assigned to a
         store whose fetch call failed *)
      let U := flat_map snd qs in
      let page := filter (fun u => in_page off size (rank rev U u)) U in
      negb (match page with [] => true | _ => false end)
      && forallb (fun u => existsb (fun q => memb Nat.eqb (fst q) ffail && memb id_eqb u (snd q)) qs) page
  | _, _ => false
  end.

(* ------------------------------------------------------------------ specification of the documents *)
Definition delivered (streams : list (src * list sdoc)) (k : ids) : list N :=
  flat_map (fun st => if Nat.eqb (fst st) (snd k)
                      then flat_map (fun d => if id_eqb (fst d) (fst k) then [snd d] else []) (snd st)
                      else []) streams.

(* (a)+(b): one document per requested ID, in request order, each empty or really delivered by the
   ID's own source under that ID *)
Fixpoint docs_sound (req : list ids) (streams : list (src * list sdoc)) (out : list doc) : bool :=
  match req, out with
  | [], [] => true
  | k :: r, d :: o =>
      key_eqb k (fst d) && (N.eqb (snd d) 0 || memb N.eqb (snd d) (delivered streams k))
      && docs_sound r streams o
  | _, _ => false
  end.

(* a stream is well behaved when the requested documents it delivers come in request order
   (unrequested documents may be anywhere; documents may be missing; the stream may stop early) *)
Fixpoint increasing_from (lo : nat) (req : list ids) (l : list ids) : bool :=
  match l with
  | [] => true
  | k :: r =>
      match pos req k with
      | None => increasing_from lo req r
      | Some p => Nat.leb lo p && increasing_from (S p) req r
      end
  end.
Fixpoint nodup_keys (l : list ids) : bool :=
  match l with [] => true | x :: r => negb (memb key_eqb x r) && nodup_keys r end.
Fixpoint nodup_nat (l : list nat) : bool :=
  match l with [] => true | x :: r => negb (memb Nat.eqb x r) && nodup_nat r end.
Definition well_behaved (req : list ids) (streams : list (src * list sdoc)) : bool :=
  nodup_keys req && nodup_nat (map fst streams)
  && forallb (fun st => increasing_from 0 req (map fst (attach st))) streams.

(* (c): with well-behaved streams every delivered document arrives, at its place *)
Definition expected_doc (streams : list (src * list sdoc)) (k : ids) : doc :=
  (k, match delivered streams k with [] => 0%N | d :: _ => d end).
Definition docs_complete (req : list ids) (streams : list (src * list sdoc)) (out : list doc) : bool :=
  list_eqb doc_eqb out (map (expected_doc streams) req).

(* ------------------------------------------------------------------ cases *)
Inductive fres := FPanic | FOk (out : list doc).

Inductive case :=
(* one Ingestor.Search against scripted stores; impl = error kind, or partial flag + returned IDs *)
| CSearch (hot hotread cold : list shard) (off size : nat) (rev : bool) (ffail : list src) (impl : sres)
(* the document stream of one FetchDocsStream (from Search, or called directly): requested IDs,
   the streams of the sources whose Fetch call succeeded in call order, documents read *)
| CFetch (req : list ids) (streams : list (src * list sdoc)) (impl : fres)
(* the hot store's refusal predicate: impl = earlierThanOldestFrac(from) with OldestCT = oldest *)
| CRefuse (oldest from : N) (impl : bool).

Definition sres_agrees (m impl : sres) : bool :=
  match m, impl with
  | SErr a, SErr b => errk_eqb a b
  | SOk p l, SOk p' l' => Bool.eqb p p' && list_eqb id_eqb (map fst l) (map fst l')
  | _, _ => false
  end.

(* model output = implementation output (IDs; the source of a duplicated ID is any valid one) *)
Definition case_agrees (c : case) : bool :=
  match c with
  | CSearch hot hotread cold off size rev ffail impl =>
      existsb (fun pp => sres_agrees (search_full isort (fst pp) (snd pp) hot hotread cold off size rev ffail) impl)
              bools2
  | CFetch req streams impl =>
      match impl with
      | FPanic => false
      | FOk out => list_eqb doc_eqb (fetch req streams) out
      end
  | CRefuse oldest from impl => Bool.eqb (earlier_than_oldest oldest from) impl
  end.

(* implementation output satisfies the property *)
Definition case_spec_ok (c : case) : bool :=
  match c with
  | CSearch hot hotread cold off size rev ffail impl =>
      existsb (search_allowed hot hotread cold off size rev ffail impl) bools2
  | CFetch req streams impl =>
      match impl with
      | FPanic => false
      | FOk out =>
          docs_sound req streams out
          && (negb (well_behaved req streams) || docs_complete req streams out)
      end
  | CRefuse oldest from impl =>
      (* refuses exactly the ranges that start before the oldest stored fraction (or when nothing is stored) *)
      Bool.eqb impl (N.eqb oldest 0 || N.ltb from oldest)
  end.

Definition diff_indices (l : list case) : list nat := bad_indices (fun c => negb (case_agrees c)) l.
Definition specfail_indices (l : list case) : list nat := bad_indices (fun c => negb (case_spec_ok c)) l.
