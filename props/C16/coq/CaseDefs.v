(* C16 — shape of the generated cases and the two executable verdicts. No proofs. *)
From VLib Require Import CaseLib.
From C16 Require Import Model ModelExt ModelDeadline ModelRetain.

Definition ids_eqb (a b : ids) : bool := key_eqb a b.
Definition doc_eqb (a b : doc) : bool := key_eqb (fst a) (fst b) && N.eqb (snd a) (snd b).
Definition errk_eqb (a b : errk) : bool :=
  match a, b with
  | EWantsOld, EWantsOld | ETooManyFrac, ETooManyFrac | EOther, EOther | EFetch, EFetch => true
  | _, _ => false
  end.
Definition memb {A} (eqb : A -> A -> bool) (x : A) (l : list A) : bool := existsb (eqb x) l.

(* ------------------------------------------------------------------ specification of the ID list
   [out] is the page [off, off+size) of the duplicate-free union U listed in response order,
   stated through ranks (independent of any sorting algorithm):
   rank u = number of distinct members of U that come strictly before u. *)
Fixpoint nodupb (l : list id) : list id :=
  match l with
  | [] => []
  | x :: r => if memb id_eqb x r then nodupb r else x :: nodupb r
  end.
Definition rank (rev : bool) (U : list id) (u : id) : nat :=
  length (nodupb (filter (fun v => before rev v u) U)).
Fixpoint strictly_sorted (rev : bool) (l : list id) : bool :=
  match l with
  | [] => true
  | x :: r => match r with [] => true | y :: _ => before rev x y end && strictly_sorted rev r
  end.
Definition in_page (off size r : nat) : bool := Nat.leb off r && Nat.ltb r (off + size).
Definition page_ok (rev : bool) (U : list id) (off size : nat) (out : list id) : bool :=
  strictly_sorted rev out
  && forallb (fun x => memb id_eqb x U && in_page off size (rank rev U x)) out
  && forallb (fun u => negb (in_page off size (rank rev U u)) || memb id_eqb u out) U.

(* every returned (ID, source) was really answered by that source *)
Definition sources_ok (qs : list (src * list id)) (out : list ids) : bool :=
  forallb (fun k => existsb (fun q => Nat.eqb (fst q) (snd k) && memb id_eqb (fst k) (snd q)) qs) out.

(* ------------------------------------------------------------------ specification of the rest of the QPR
   over exactly the answering shards (independent of the arrival order of the answers) *)
Definition zsum (l : list Z) : Z := fold_right Z.add 0%Z l.
Definition count_id (U : list id) (p : id -> bool) : Z := Z.of_nat (length (filter p U)).
(* number of duplicates that the merge drops: all IDs minus distinct IDs *)
Definition reps_total (U : list id) : Z := (Z.of_nat (length U) - Z.of_nat (length (nodupb U)))%Z.
Definition reps_in_bucket (itv : N) (U : list id) (k : N) : Z :=
  if N.eqb itv 0 then 0%Z
  else (count_id U (fun i => N.eqb (bucket_of itv i) k) - count_id (nodupb U) (fun i => N.eqb (bucket_of itv i) k))%Z.
Definition total_spec (U : list id) (xs : list extra) : Z :=
  let T := wrap64 (zsum (map x_total xs)) in
  if Z.ltb 0 T then wrap64 (T - reps_total U) else T.
(* what one store reports for bucket k (all entries with that key; a proto map has one) *)
Definition hsumk (h : list (N * Z)) (k : N) : Z := zsum (map snd (filter (fun kc => N.eqb (fst kc) k) h)).
Definition hist_spec (itv : N) (U : list id) (xs : list extra) (k : N) : Z :=
  wrap64 (zsum (map (fun x => hsumk (x_hist x) k) xs) - reps_in_bucket itv U k).
Definition hist_keys_spec (itv : N) (U : list id) (xs : list extra) : list N :=
  flat_map (fun x => map fst (x_hist x)) xs
  ++ (if N.eqb itv 0 then [] else map (bucket_of itv) (filter (fun i => negb (Z.eqb (reps_in_bucket itv U (bucket_of itv i)) 0)) U)).
Definition errs_spec (xs : list extra) : nat := fold_right Nat.add 0 (map x_errs xs).

(* aggregation j, bin b: the containers the answering shards hold for it (with samples) *)
Definition bin_parts (j : nat) (b : bin) (xs : list extra) : list sc :=
  flat_map (fun x => map snd (filter (fun bh => bin_eqb (fst bh) b) (fst (nth j (x_aggs x) ([], 0%Z))))) xs.
Definition nonempty_parts (l : list sc) : list sc := filter (fun h => negb (Z.eqb (sc_total h) 0)) l.
Fixpoint zmin_list (d : Z) (l : list Z) : Z :=
  match l with [] => d | x :: r => match r with [] => x | _ => Z.min x (zmin_list d r) end end.
Fixpoint zmax_list (d : Z) (l : list Z) : Z :=
  match l with [] => d | x :: r => match r with [] => x | _ => Z.max x (zmax_list d r) end end.
Fixpoint zinsert (x : Z) (l : list Z) : list Z :=
  match l with [] => [x] | y :: r => if Z.leb x y then x :: l else y :: zinsert x r end.
Definition zsort (l : list Z) : list Z := fold_right zinsert [] l.
Definition zlist_eqb := list_eqb Z.eqb.
Definition bin_spec_ok (j : nat) (b : bin) (xs : list extra) (h : sc) : bool :=
  let ps := bin_parts j b xs in
  let ne := nonempty_parts ps in
  Z.eqb (sc_total h) (zsum (map sc_total ne))
  && Z.eqb (sc_sum h) (zsum (map sc_sum ne))
  && Z.eqb (sc_ne h) (zsum (map sc_ne ps))
  && Z.eqb (sc_min h) (zmin_list (sc_min new_sc) (map sc_min ne))
  && Z.eqb (sc_max h) (zmax_list (sc_max new_sc) (map sc_max ne))
  && zlist_eqb (zsort (sc_samples h)) (zsort (flat_map sc_samples ne)).
Definition agg_keys (j : nat) (xs : list extra) : list bin :=
  flat_map (fun x => map fst (fst (nth j (x_aggs x) ([], 0%Z)))) xs.
Definition agg_spec_ok (j : nat) (xs : list extra) (a : agg) : bool :=
  Z.eqb (snd a) (zsum (map (fun x => snd (nth j (x_aggs x) ([], 0%Z))) xs))
  && forallb (fun bh => memb bin_eqb (fst bh) (agg_keys j xs) && bin_spec_ok j (fst bh) xs (snd bh)) (fst a)
  && forallb (fun b => memb bin_eqb b (map fst (fst a))) (agg_keys j xs).
Fixpoint aggs_spec_ok (j : nat) (xs : list extra) (l : list agg) : bool :=
  match l with [] => true | a :: r => agg_spec_ok j xs a && aggs_spec_ok (S j) xs r end.

Definition rest_spec_ok (rev : bool) (itv : N) (naggs : nat) (qs : list (src * list id)) (xs : list extra) (r : extra) : bool :=
  let U := flat_map snd qs in
  Z.eqb (x_total r) (total_spec U xs)
  && forallb (fun k => Z.eqb (hlookup (x_hist r) k) (hist_spec itv U xs k)) (map fst (x_hist r) ++ hist_keys_spec itv U xs)
  && forallb (fun k => memb N.eqb k (hist_keys_spec itv U xs)) (map fst (x_hist r))
  && forallb (fun k => memb N.eqb k (map fst (x_hist r))) (hist_keys_spec itv U xs)
  && Nat.eqb (length (x_aggs r)) naggs
  && aggs_spec_ok 0 xs (x_aggs r)
  && Nat.eqb (x_errs r) (errs_spec xs).

(* canonical comparison of two merged rests (association lists in any order, samples as multisets) *)
Definition sc_eqb (a b : sc) : bool :=
  Z.eqb (sc_total a) (sc_total b) && Z.eqb (sc_sum a) (sc_sum b) && Z.eqb (sc_min a) (sc_min b)
  && Z.eqb (sc_max a) (sc_max b) && Z.eqb (sc_ne a) (sc_ne b)
  && zlist_eqb (zsort (sc_samples a)) (zsort (sc_samples b)).
Definition agg_eqb (a b : agg) : bool :=
  Z.eqb (snd a) (snd b)
  && forallb (fun bh => match blookup (fst b) (fst bh) with Some h => sc_eqb (snd bh) h | None => false end) (fst a)
  && forallb (fun bh => match blookup (fst a) (fst bh) with Some _ => true | None => false end) (fst b).
Definition hist_eqb (a b : list (N * Z)) : bool :=
  forallb (fun kc => memb N.eqb (fst kc) (map fst b) && Z.eqb (snd kc) (hlookup b (fst kc))) a
  && forallb (fun kc => memb N.eqb (fst kc) (map fst a)) b.
Definition extra_eqb (a b : extra) : bool :=
  Z.eqb (x_total a) (x_total b) && hist_eqb (x_hist a) (x_hist b)
  && list_eqb agg_eqb (x_aggs a) (x_aggs b) && Nat.eqb (x_errs a) (x_errs b).

(* the tier that decides the response, or the error the response must be *)
Inductive verdict := VErr (k : errk) | VOk (partial : bool) (qs : list (src * list id)) (xs : list extra).
Definition tier_verdict (t : tier_res) : verdict :=
  match t with
  | TOk p qs xs => VOk p qs xs
  | TWantsOld => VErr EWantsOld
  | TTooManyFrac => VErr ETooManyFrac
  | TFail => VErr EOther
  end.
Definition verdict_of (p1 p2 : bool) (hot hotread cold : list shard) : verdict :=
  let h := match hotread with [] => hot | _ => hotread end in
  match search_stores p1 h with
  | TWantsOld => match cold with [] => VErr EWantsOld | _ => tier_verdict (search_stores p2 cold) end
  | t => tier_verdict t
  end.

Definition bools2 : list (bool * bool) := [(true, true); (true, false); (false, true); (false, false)].

(* is the observed search outcome one the property allows, under scheduling choice (p1,p2)? *)
Definition search_allowed (hot hotread cold : list shard) (off size : nat) (rev : bool) (itv : N) (naggs : nat)
           (ffail : list src) (impl : sres) (pp : bool * bool) : bool :=
  match verdict_of (fst pp) (snd pp) hot hotread cold, impl with
  | VErr k, SErr k' => errk_eqb k k'
  | VOk p qs xs, SOk p' out r =>
      Bool.eqb p p'
      && page_ok rev (flat_map snd qs) off size (map fst out)
      && sources_ok qs out
      && rest_spec_ok rev itv naggs qs xs r
      && (* a response with documents requested cannot be delivered when every fetch call failed *)
         negb (match out with [] => false | _ => forallb (fun k => memb Nat.eqb (snd k) ffail) out end)
  | VOk p qs xs, SErr EFetch =>
      (* allowed only when the page is not empty and every page member can have been assigned to a
         store whose fetch call failed *)
      let U := flat_map snd qs in
      let page := filter (fun u => in_page off size (rank rev U u)) U in
      negb (match page with [] => true | _ => false end)
      && forallb (fun u => existsb (fun q => memb Nat.eqb (fst q) ffail && memb id_eqb u (snd q)) qs) page
  | _, _ => false
  end.

(* ------------------------------------------------------------------ API level *)
Definition ecode_eqb (a b : ecode) := match a, b with CNo, CNo | CPartial, CPartial => true | _, _ => false end.
Definition gcode_eqb (a b : grpc_code) :=
  match a, b with GInvalidArgument, GInvalidArgument | GInternal, GInternal => true | _, _ => false end.
(* the API answer allowed for a search outcome the property allows: an error, or a response that is
   complete (code NO, flag false: every shard of the deciding tier answered and no store reported a
   soft error), or one that says it is partial (code PARTIAL_RESPONSE and flag true) *)
Definition api_allowed (hot hotread cold : list shard) (off size : nat) (rev : bool) (itv : N) (naggs : nat)
           (ffail : list src) (impl : api) (pp : bool * bool) : bool :=
  match verdict_of (fst pp) (snd pp) hot hotread cold, impl with
  | VErr ETooManyFrac, AOnlyError => true
  | VErr EWantsOld, AErr GInvalidArgument => true
  | VErr EOther, AErr GInternal => true
  | VOk p qs xs, AResp flag code out r =>
      Bool.eqb flag p && ecode_eqb code (if p then CPartial else CNo)
      && (p || Nat.eqb (errs_spec xs) 0)
      && search_allowed hot hotread cold off size rev itv naggs ffail
           (SOk p out (mkX (x_total r) (x_hist r) (x_aggs r) (errs_spec xs))) pp   (* soft errors are not visible in a response *)
  | VOk p qs xs, AErr GInternal =>
      (negb p && negb (Nat.eqb (errs_spec xs) 0))
      || search_allowed hot hotread cold off size rev itv naggs ffail (SErr EFetch) pp
  | _, _ => false
  end.

(* ------------------------------------------------------------------ specification of the documents *)
Definition delivered (streams : list (src * list sdoc)) (k : ids) : list N :=
  flat_map (fun st => if Nat.eqb (fst st) (snd k)
                      then flat_map (fun d => if id_eqb (fst d) (fst k) then [snd d] else []) (snd st)
                      else []) streams.

(* (a)+(b): one document per requested ID, in request order, each empty or really delivered by the
   ID's own source under that ID *)
Fixpoint docs_sound (req : list ids) (streams : list (src * list sdoc)) (out : list doc) : bool :=
  match req, out with
  | [], [] => true
  | k :: r, d :: o =>
      key_eqb k (fst d) && (N.eqb (snd d) 0 || memb N.eqb (snd d) (delivered streams k))
      && docs_sound r streams o
  | _, _ => false
  end.

(* a stream is well behaved when the requested documents it delivers come in request order
   (unrequested documents may be anywhere; documents may be missing; the stream may stop early) *)
Fixpoint increasing_from (lo : nat) (req : list ids) (l : list ids) : bool :=
  match l with
  | [] => true
  | k :: r =>
      match pos req k with
      | None => increasing_from lo req r
      | Some p => Nat.leb lo p && increasing_from (S p) req r
      end
  end.
Fixpoint nodup_keys (l : list ids) : bool :=
  match l with [] => true | x :: r => negb (memb key_eqb x r) && nodup_keys r end.
Fixpoint nodup_nat (l : list nat) : bool :=
  match l with [] => true | x :: r => negb (memb Nat.eqb x r) && nodup_nat r end.
Definition well_behaved (req : list ids) (streams : list (src * list sdoc)) : bool :=
  nodup_keys req && nodup_nat (map fst streams)
  && forallb (fun st => increasing_from 0 req (map fst (attach st))) streams.

(* (c): with well-behaved streams every delivered document arrives, at its place *)
Definition expected_doc (streams : list (src * list sdoc)) (k : ids) : doc :=
  (k, match delivered streams k with [] => 0%N | d :: _ => d end).
Definition docs_complete (req : list ids) (streams : list (src * list sdoc)) (out : list doc) : bool :=
  list_eqb doc_eqb out (map (expected_doc streams) req).


(* ------------------------------------------------------------------ extension: FetchDocsStream calls, direct
   MergeQPRs, the assembled API response *)
Definition is_nil {A} (l : list A) : bool := match l with [] => true | _ => false end.
Definition is_ffail (c : fcall) : bool := match c with FFail => true | FStream _ => false end.
Definition asked_eqb (a b : src * list id) : bool := Nat.eqb (fst a) (fst b) && list_eqb id_eqb (snd a) (snd b).

(* exactly one Fetch call per source of the request; the i-th call was asked for exactly the IDs of its
   source, in request order *)
Definition calls_cover (req : list ids) (calls : list (src * fcall)) : bool :=
  nodup_nat (map fst calls)
  && forallb (fun k => memb Nat.eqb (snd k) (map fst calls)) req
  && forallb (fun c => existsb (fun k => Nat.eqb (snd k) (fst c)) req) calls.
Definition asked_ok (req : list ids) (calls : list (src * fcall)) (asked : list (src * list id)) : bool :=
  list_eqb Nat.eqb (map fst asked) (map fst calls)
  && forallb (fun a => list_eqb id_eqb (snd a) (map fst (filter (fun k => Nat.eqb (snd k) (fst a)) req))) asked.

Fixpoint forallb2 {A B} (p : A -> B -> bool) (a : list A) (b : list B) : bool :=
  match a, b with
  | [], [] => true
  | x :: a', y :: b' => p x y && forallb2 p a' b'
  | _, _ => false
  end.

(* the property's last sentence for one FetchDocsStream: an error exactly when every call failed (and
   something was asked); else one document per ID, each empty or really sent by its own source, empty
   for the sources whose call failed, complete for well-behaved streams *)
Definition fds_spec_ok (req : list ids) (calls : list (src * fcall)) (asked : list (src * list id)) (impl : fds_res) : bool :=
  calls_cover req calls && asked_ok req calls asked
  && match impl with
     | FdErr => negb (is_nil calls) && forallb (fun c => is_ffail (snd c)) calls
     | FdOk out =>
         (is_nil calls || negb (forallb (fun c => is_ffail (snd c)) calls))
         && docs_sound req (live calls) out
         && forallb2 (fun k d => negb (memb Nat.eqb (snd k) (failed calls)) || N.eqb (snd d) 0) req out
         && (negb (well_behaved req (live calls)) || docs_complete req (live calls) out)
     end.

Fixpoint nodup_N (l : list N) : bool :=
  match l with [] => true | x :: r => negb (memb N.eqb x r) && nodup_N r end.
(* histogram of a merged answer: exactly the expected keys, each with the expected count *)
Definition hist_spec_ok (itv : N) (U : list id) (xs : list extra) (h : list (N * Z)) : bool :=
  nodup_N (map fst h)
  && forallb (fun k => Z.eqb (hlookup h k) (hist_spec itv U xs k)) (map fst h ++ hist_keys_spec itv U xs)
  && forallb (fun k => memb N.eqb k (hist_keys_spec itv U xs)) (map fst h)
  && forallb (fun k => memb N.eqb k (map fst h)) (hist_keys_spec itv U xs).

(* the store each returned ID was fetched from (sources are not visible in an API response) *)
Definition src_asked (asked : list (src * list id)) (i : id) : option src :=
  match filter (fun a => memb id_eqb i (snd a)) asked with a :: _ => Some (fst a) | [] => None end.
Fixpoint obs_req (asked : list (src * list id)) (l : list id) : option (list ids) :=
  match l with
  | [] => Some []
  | i :: r =>
      match src_asked asked i, obs_req asked r with
      | Some s, Some t => Some ((i, s) :: t)
      | _, _ => None
      end
  end.

Definition apid_eqb (a b : apid) : bool :=
  match a, b with
  | DErr x, DErr y => gcode_eqb x y
  | DOnlyError, DOnlyError => true
  | DResp f c d t h, DResp f' c' d' t' h' =>
      Bool.eqb f f' && ecode_eqb c c' && list_eqb (pair_eqb id_eqb N.eqb) d d' && Z.eqb t t'
      && option_eqb hist_eqb h h'
  | _, _ => false
  end.

(* model of the handler on the observed scheduling choice pp; the documents are assembled from the page
   with the sources the stores were really asked for *)
Definition page_agrees (q : areq) (hot hotread cold : list shard) (calls : list (src * fcall))
           (asked : list (src * list id)) (impl : apid) (pp : bool * bool) : bool :=
  if a_invalid q then apid_eqb (DErr GInvalidArgument) impl
  else
    match search isort (fst pp) (snd pp) hot hotread cold (Z.to_nat (a_off q)) (Z.to_nat (a_size q)) (a_rev q) (a_itv q) 0 with
    | SErr ETooManyFrac => apid_eqb DOnlyError impl
    | SErr EWantsOld => apid_eqb (DErr GInvalidArgument) impl
    | SErr _ => apid_eqb (DErr GInternal) impl
    | SOk p l x =>
        match obs_req asked (map fst l) with
        | Some l' => apid_eqb (api_finish q p l' x calls) impl
        | None => false
        end
    end.

(* the response the property allows: validation error; the error of the deciding tier; or exactly the
   slice [offset, offset+size) of the duplicate-free union in response order with aligned documents,
   Total of the whole result (not of the page), partial flag and code of the deciding tier *)
Definition page_allowed (q : areq) (hot hotread cold : list shard) (calls : list (src * fcall))
           (asked : list (src * list id)) (impl : apid) (pp : bool * bool) : bool :=
  if a_invalid q then match impl with DErr GInvalidArgument => true | _ => false end
  else
    let off := Z.to_nat (a_off q) in
    let size := Z.to_nat (a_size q) in
    match verdict_of (fst pp) (snd pp) hot hotread cold, impl with
    | VErr ETooManyFrac, DOnlyError => true
    | VErr EWantsOld, DErr GInvalidArgument => true
    | VErr EOther, DErr GInternal => true
    | VOk p qs xs, DResp flag code docs total hist =>
        let U := flat_map snd qs in
        Bool.eqb flag p && ecode_eqb code (if p then CPartial else CNo)
        && (p || Nat.eqb (errs_spec xs) 0)
        && page_ok (a_rev q) U off size (map fst docs)
        && Z.eqb total (to_int64 (total_spec U xs))
        && match a_hist q, hist with
           | None, None => true
           | Some itv, Some h => hist_spec_ok itv U xs h
           | _, _ => false
           end
        && match obs_req asked (map fst docs) with
           | None => false
           | Some req =>
               let out := combine req (map snd docs) in
               sources_ok qs req && calls_cover req calls && asked_ok req calls asked
               && (is_nil req || negb (forallb (fun c => is_ffail (snd c)) calls))
               && docs_sound req (live calls) out
               && forallb2 (fun k d => negb (memb Nat.eqb (snd k) (failed calls)) || N.eqb (snd d) 0) req out
               && (negb (well_behaved req (live calls)) || docs_complete req (live calls) out)
           end
    | VOk p qs xs, DErr GInternal =>
        let U := flat_map snd qs in
        (negb p && negb (Nat.eqb (errs_spec xs) 0))
        || (existsb (fun u => in_page off size (rank (a_rev q) U u)) U
            && negb (is_nil calls) && forallb (fun c => is_ffail (snd c)) calls)
    | _, _ => false
    end.

Definition sres_agrees_fwd (m impl : sres) : bool :=
  match m, impl with
  | SErr a, SErr b => errk_eqb a b
  | SOk p l r, SOk p' l' r' => Bool.eqb p p' && list_eqb id_eqb (map fst l) (map fst l') && extra_eqb r r'
  | _, _ => false
  end.
(* ------------------------------------------------------------------ extension: the request context expires
   mid-search. The specification does NOT use the timed model: it is evaluated on what was observed — the
   stores that really ANSWERED the Search call (every other replica failed with the context error or was
   never asked) — with the untimed checkers above: a response must be the page / rest / flag of exactly the
   shards that had an answering replica, complete only if every shard had one; an error is accepted when it is
   the verdict's, or (kind "other") when the context expired while a replica had not answered yet. *)
Definition eff_shard (answered : list src) (sh : tshard) : shard :=
  map (fun r => (fst (fst r), if memb Nat.eqb (fst (fst r)) answered then snd (fst r) else BErr)) sh.
Definition eff_tier (answered : list src) (t : list tshard) : list shard := map (eff_shard answered) t.
(* the context expired while some replica had not answered: expiry e <= its availability (or never available) *)
Definition expired_on_someone (d : option nat) (answered : list src) (tiers : list treplica) : bool :=
  match d with
  | None => false
  | Some e => existsb (fun r => negb (memb Nat.eqb (fst (fst r)) answered)
                                && match snd r with Some a => Nat.leb e a | None => true end) tiers
  end.
Definition dl_allowed (d : option nat) (hot hotread cold : list tshard) (off size : nat) (rev : bool) (itv : N)
           (naggs : nat) (answered : list src) (impl : sres) (pp : bool * bool) : bool :=
  search_allowed (eff_tier answered hot) (eff_tier answered hotread) (eff_tier answered cold) off size rev itv naggs [] impl pp
  || match impl with
     | SErr EOther => expired_on_someone d answered (concat (hot ++ hotread ++ cold))
     | _ => false
     end.
Definition tsres_agrees (m : tsres) (impl : sres) : bool :=
  match m with TS r => sres_agrees_fwd r impl | TSHang => false end.

(* what each handler asks (ModelDeadline.tapi_of) and shows *)
Definition h_off (h : handler) (off : nat) : nat := match h with HSearch | HComplex => off | _ => 0 end.
Definition h_size (h : handler) (size : nat) : nat := match h with HSearch | HComplex => size | _ => 0 end.
Definition h_rev (h : handler) (rev : bool) : bool := match h with HSearch | HComplex => rev | _ => false end.
Definition h_itv (h : handler) (itv : N) : N := match h with HComplex | HHist => itv | _ => 0%N end.
Definition h_naggs (h : handler) (naggs : nat) : nat := match h with HComplex | HAgg => naggs | _ => 0 end.
Definition shows_hist (h : handler) (itv : N) : bool := negb (N.eqb (h_itv h itv) 0).
Definition dlapi_allowed (h : handler) (d : option nat) (hot hotread cold : list tshard) (off size : nat) (rev : bool)
           (itv : N) (naggs : nat) (answered : list src) (impl : api) (pp : bool * bool) : bool :=
  if h_invalid h size itv naggs then match impl with AErr GInvalidArgument => true | _ => false end
  else
    match verdict_of (fst pp) (snd pp) (eff_tier answered hot) (eff_tier answered hotread) (eff_tier answered cold), impl with
    | VErr ETooManyFrac, AOnlyError => true
    | VErr EWantsOld, AErr GInvalidArgument => true
    | VErr EOther, AErr GInternal => true
    | VOk p qs xs, AResp flag code out r =>
        let U := flat_map snd qs in
        Bool.eqb flag p && ecode_eqb code (if p then CPartial else CNo)
        && (p || Nat.eqb (errs_spec xs) 0)
        && page_ok (h_rev h rev) U (h_off h off) (h_size h size) (map fst out)
        && Z.eqb (x_total r) (total_spec U xs)
        && (negb (shows_hist h itv) || hist_spec_ok (h_itv h itv) U xs (x_hist r))
    | VOk p qs xs, AErr GInternal =>
        (negb p && negb (Nat.eqb (errs_spec xs) 0))
        || expired_on_someone d answered (concat (hot ++ hotread ++ cold))
    | _, AErr GInternal => expired_on_someone d answered (concat (hot ++ hotread ++ cold))
    | _, _ => false
    end.
Definition dlapi_agrees (h : handler) (itv : N) (m : tapi) (impl : api) : bool :=
  match m, impl with
  | TA (AErr a), AErr b => gcode_eqb a b
  | TA AOnlyError, AOnlyError => true
  | TA (AResp f c l r), AResp f' c' l' r' =>
      Bool.eqb f f' && ecode_eqb c c' && list_eqb id_eqb (map fst l) (map fst l')
      && Z.eqb (x_total r) (x_total r')
      && (negb (shows_hist h itv) || hist_eqb (x_hist r) (x_hist r'))
  | _, _ => false
  end.

(* ------------------------------------------------------------------ cases *)
Inductive fres := FPanic | FOk (out : list doc).

(* Documents(): out IDs = the requested IDs with consecutive repetitions collapsed; every document
   empty or delivered by its own source (one of the stores) under its ID *)
Fixpoint compress (l : list id) : list id :=
  match l with
  | [] => []
  | x :: r => match r with y :: _ => if id_eqb x y then compress r else x :: compress r | [] => [x] end
  end.
Definition udocs_sound (orig : list id) (srcs : list src) (streams : list (src * list sdoc)) (out : list doc) : bool :=
  list_eqb id_eqb (map (fun d => fst (fst d)) out) (compress orig)
  && forallb (fun d => memb Nat.eqb (snd (fst d)) srcs
                       && (N.eqb (snd d) 0 || memb N.eqb (snd d) (delivered streams (fst d)))) out.
(* with well-behaved streams and no repeated ID: a document comes back non-empty exactly when some
   store sent a non-empty one for it *)
Definition some_delivered (srcs : list src) (streams : list (src * list sdoc)) (i : id) : bool :=
  existsb (fun s => negb (N.eqb (snd (expected_doc streams (i, s))) 0)) srcs.
Definition udocs_complete (orig : list id) (srcs : list src) (streams : list (src * list sdoc)) (out : list doc) : bool :=
  list_eqb Bool.eqb (map (fun d => negb (N.eqb (snd d) 0)) out) (map (some_delivered srcs streams) orig).
Definition canon_groups (orig : list id) (srcs : list src) : list (id * list src) := map (fun i => (i, srcs)) orig.

Inductive case :=
(* one Ingestor.Search against scripted stores; impl = error kind, or partial flag + returned IDs +
   the rest of the merged QPR (total, histogram, aggregations, number of soft errors).
   With ShuffleReplicas the replicas of each shard are listed in the order they were called. *)
| CSearch (hot hotread cold : list shard) (off size : nat) (rev : bool) (itv : N) (naggs : nat)
          (ffail : list src) (impl : sres)
(* the same through the real proxyapi Search / ComplexSearch handler: impl = the API answer *)
| CApi (hot hotread cold : list shard) (off size : nat) (rev : bool) (itv : N) (naggs : nat)
       (ffail : list src) (impl : api)
(* the document stream of one FetchDocsStream (from Search, or called directly): requested IDs,
   the streams of the sources whose Fetch call succeeded in call order, documents read *)
| CFetch (req : list ids) (streams : list (src * list sdoc)) (impl : fres)
(* Ingestor.Documents: requested IDs, all sources, streams (call order), documents read *)
| CDocs (orig : list id) (srcs : list src) (streams : list (src * list sdoc)) (impl : fres)
(* the hot store's refusal predicate: impl = earlierThanOldestFrac(from) with OldestCT = oldest *)
| CRefuse (oldest from : N) (impl : bool)
(* one FetchDocsStream with every Fetch call it made (in call order: what the call did, which IDs it
   was asked for) and the result: an error, or the documents read *)
| CFds (req : list ids) (calls : list (src * fcall)) (asked : list (src * list id)) (impl : fds_res)
(* the all-calls-failed decision alone (Ingestor.Documents, where the expanded request is not observable) *)
| CFdsErr (calls : list (src * fcall)) (impl_err : bool)
(* seq.MergeQPRs called directly, as Ingestor.Search calls it: answers (IDs, rest), limit -> merged IDs, rest *)
| CMerge (rev : bool) (itv : N) (limit naggs : nat) (qs : list (src * list id)) (xs : list extra)
         (impl_ids : list ids) (impl : extra)
(* the real proxyapi Search / ComplexSearch handler, whole response: documents (id, payload tag) in
   response order, total (int64), flag, code, histogram *)
| CPage (q : areq) (hot hotread cold : list shard) (calls : list (src * fcall)) (asked : list (src * list id))
        (impl : apid)
(* Ingestor.Search under a request context that expires at logical time d (None = never) against stores whose
   answer becomes available at a logical time: fetch = ShouldFetch; answered = the stores that really answered
   the Search call (observed); impl as CSearch *)
| CDl (d : option nat) (hot hotread cold : list tshard) (off size : nat) (rev : bool) (itv : N) (naggs : nat)
      (fetch : bool) (answered : list src) (impl : sres)
(* the same through the real proxyapi handlers Search / ComplexSearch / GetAggregation / GetHistogram *)
| CDlApi (h : handler) (d : option nat) (hot hotread cold : list tshard) (off size : nat) (rev : bool) (itv : N)
         (naggs : nat) (answered : list src) (impl : api)
(* one real retention pass (FracManager.shrinkSizes) on a real fraction manager: OldestCT before, the creation
   times in list order before the pass, the number of fractions truncated, OldestCT after, and the real
   earlierThanOldestFrac verdict for some `from` values (all times replaced by their rank) *)
| CRetain (prev : N) (cts : list N) (k : nat) (oldest_impl : N) (probes : list (N * bool)).

Definition sres_agrees (m impl : sres) : bool :=
  match m, impl with
  | SErr a, SErr b => errk_eqb a b
  | SOk p l r, SOk p' l' r' => Bool.eqb p p' && list_eqb id_eqb (map fst l) (map fst l') && extra_eqb r r'
  | _, _ => false
  end.
Definition api_agrees (m impl : api) : bool :=
  match m, impl with
  | AErr a, AErr b => gcode_eqb a b
  | AOnlyError, AOnlyError => true
  | AResp f c l r, AResp f' c' l' r' =>
      Bool.eqb f f' && ecode_eqb c c' && list_eqb id_eqb (map fst l) (map fst l')
      && extra_eqb (mkX (x_total r) (x_hist r) (x_aggs r) 0) (mkX (x_total r') (x_hist r') (x_aggs r') 0)
  | _, _ => false
  end.

(* model output = implementation output (IDs; the source of a duplicated ID is any valid one) *)
Definition case_agrees (c : case) : bool :=
  match c with
  | CSearch hot hotread cold off size rev itv naggs ffail impl =>
      existsb (fun pp => sres_agrees (search_full isort (fst pp) (snd pp) hot hotread cold off size rev itv naggs ffail) impl)
              bools2
  | CApi hot hotread cold off size rev itv naggs ffail impl =>
      existsb (fun pp => api_agrees (api_of (search_full isort (fst pp) (snd pp) hot hotread cold off size rev itv naggs ffail)) impl)
              bools2
  | CFetch req streams impl =>
      match impl with
      | FPanic => false
      | FOk out => list_eqb doc_eqb (fetch req streams) out
      end
  | CDocs orig srcs streams impl =>
      match impl with
      | FPanic => false
      | FOk out =>
          (* the order of the sources inside an ID's group is a map iteration order of the real code:
             compared when it cannot matter (well-behaved streams), up to which non-empty copy is taken *)
          let g := canon_groups orig srcs in
          negb (well_behaved (expand g) streams)
          || (let m := documents g streams in
              list_eqb id_eqb (map (fun d => fst (fst d)) m) (map (fun d => fst (fst d)) out)
              && list_eqb Bool.eqb (map is_empty m) (map is_empty out))
      end
  | CRefuse oldest from impl => Bool.eqb (earlier_than_oldest oldest from) impl
  | CFds req calls asked impl =>
      calls_valid req calls
      && list_eqb asked_eqb asked (map (fun c => (fst c, map fst (group req (fst c)))) calls)
      && match fds req calls, impl with
         | FdErr, FdErr => true
         | FdOk m, FdOk out => list_eqb doc_eqb m out
         | _, _ => false
         end
  | CFdsErr calls impl => Bool.eqb (fds_fails calls) impl
  | CMerge rev itv limit naggs qs xs impl_ids impl =>
      list_eqb id_eqb (map fst (merge_qprs isort qs limit rev)) (map fst impl_ids)
      && extra_eqb (merge_rest isort qs xs rev itv naggs) impl
  | CPage q hot hotread cold calls asked impl =>
      existsb (page_agrees q hot hotread cold calls asked impl) bools2
  | CDl d hot hotread cold off size rev itv naggs fetch answered impl =>
      existsb (fun pp => tsres_agrees (tsearch isort (fst pp) (snd pp) d hot hotread cold off size rev itv naggs fetch 0 []) impl)
              bools2
  | CDlApi h d hot hotread cold off size rev itv naggs answered impl =>
      existsb (fun pp => dlapi_agrees h itv (tapi_of isort h (fst pp) (snd pp) d hot hotread cold off size rev itv naggs 0 []) impl)
              bools2
  | CRetain prev cts k oldest_impl probes =>
      N.eqb (oldest_after prev cts k) oldest_impl
      && forallb (fun p => Bool.eqb (earlier_than_oldest (oldest_after prev cts k) (fst p)) (snd p)) probes
  end.

(* implementation output satisfies the property *)
Definition case_spec_ok (c : case) : bool :=
  match c with
  | CSearch hot hotread cold off size rev itv naggs ffail impl =>
      existsb (search_allowed hot hotread cold off size rev itv naggs ffail impl) bools2
  | CApi hot hotread cold off size rev itv naggs ffail impl =>
      existsb (api_allowed hot hotread cold off size rev itv naggs ffail impl) bools2
  | CFetch req streams impl =>
      match impl with
      | FPanic => false
      | FOk out =>
          docs_sound req streams out
          && (negb (well_behaved req streams) || docs_complete req streams out)
      end
  | CDocs orig srcs streams impl =>
      match impl with
      | FPanic => false
      | FOk out =>
          udocs_sound orig srcs streams out
          && (negb (well_behaved (expand (canon_groups orig srcs)) streams) || udocs_complete orig srcs streams out)
      end
  | CRefuse oldest from impl =>
      (* refuses exactly the ranges that start before the oldest stored fraction (or when nothing is stored) *)
      Bool.eqb impl (N.eqb oldest 0 || N.ltb from oldest)
  | CFds req calls asked impl => fds_spec_ok req calls asked impl
  | CFdsErr calls impl => Bool.eqb impl (negb (is_nil calls) && forallb (fun c => is_ffail (snd c)) calls)
  | CMerge rev itv limit naggs qs xs impl_ids impl =>
      page_ok rev (flat_map snd qs) 0 limit (map fst impl_ids) && sources_ok qs impl_ids
      && rest_spec_ok rev itv naggs qs xs impl
      && nodup_N (map fst (x_hist impl))
  | CPage q hot hotread cold calls asked impl =>
      existsb (page_allowed q hot hotread cold calls asked impl) bools2
  | CDl d hot hotread cold off size rev itv naggs fetch answered impl =>
      existsb (dl_allowed d hot hotread cold off size rev itv naggs answered impl) bools2
  | CDlApi h d hot hotread cold off size rev itv naggs answered impl =>
      existsb (dlapi_allowed h d hot hotread cold off size rev itv naggs answered impl) bools2
  | CRetain prev cts k oldest_impl probes =>
      (* OldestCT is the creation time of the oldest REMAINING fraction, and the hot store refuses exactly the
         ranges that start before every remaining fraction was created *)
      let rest := skipn k cts in
      negb (is_nil rest) && forallb (fun c => negb (N.eqb c 0)) rest
      && memb N.eqb oldest_impl rest && forallb (N.leb oldest_impl) rest
      && forallb (fun p => Bool.eqb (snd p) (forallb (N.ltb (fst p)) rest)) probes
  end.

Definition diff_indices (l : list case) : list nat := bad_indices (fun c => negb (case_agrees c)) l.
Definition specfail_indices (l : list case) : list nat := bad_indices (fun c => negb (case_spec_ok c)) l.
