(* C16 — aggregations in the proxy merge: per aggregation and per bin, the merged container is
   described by exactly the containers the answering shards hold for that bin. *)
From Coq Require Import List Bool Arith NArith ZArith Lia Permutation.
From VLib Require Import CaseLib.
From C16 Require Import Model CaseDefs ProofsSearch.
Import ListNotations.
Local Open Scope Z_scope.

Definition e0 : agg := ([], 0).

Lemma agg_merge_e0 : forall d, agg_merge d e0 = d.
Proof. intros [q n]. unfold agg_merge, e0; simpl. now rewrite Z.add_0_r. Qed.

Lemma aggs_merge_length : forall dst a, length (aggs_merge dst a) = length dst.
Proof. induction dst as [|d ds IH]; intros [|x xs]; simpl; auto. Qed.
Lemma aggs_fold_length : forall l dst, length (fold_left aggs_merge l dst) = length dst.
Proof. induction l as [|a l IH]; intros dst; simpl; auto. now rewrite IH, aggs_merge_length. Qed.

Lemma aggs_merge_nth : forall dst a j, (j < length dst)%nat ->
  nth j (aggs_merge dst a) e0 = agg_merge (nth j dst e0) (nth j a e0).
Proof.
  induction dst as [|d ds IH]; intros a j H; simpl in H; [lia|].
  destruct a as [|x xs]; simpl.
  - destruct j; now rewrite agg_merge_e0.
  - destruct j; auto. apply IH. lia.
Qed.
Lemma aggs_fold_nth : forall l dst j, (j < length dst)%nat ->
  nth j (fold_left aggs_merge l dst) e0 = fold_left agg_merge (map (fun a => nth j a e0) l) (nth j dst e0).
Proof.
  induction l as [|a l IH]; intros dst j H; simpl; auto.
  rewrite IH by (now rewrite aggs_merge_length). now rewrite aggs_merge_nth.
Qed.

Lemma agg_fold_ne : forall l q, snd (fold_left agg_merge l q) = snd q + zsum (map snd l).
Proof.
  induction l as [|a l IH]; intros q; simpl; [lia|]. rewrite IH. unfold agg_merge; simpl. lia.
Qed.

Definition bstep (q : list (bin * sc)) (bh : bin * sc) := bupd q (fst bh) (snd bh).
Lemma agg_fold_bins : forall l q, fst (fold_left agg_merge l q) = fold_left bstep (flat_map fst l) (fst q).
Proof.
  induction l as [|a l IH]; intros q; simpl; auto. rewrite IH, fold_left_app. reflexivity.
Qed.

Lemma bin_eqb_eq : forall a b, bin_eqb a b = true <-> a = b.
Proof.
  intros [a1 a2] [b1 b2]; unfold bin_eqb; simpl. rewrite andb_true_iff, !N.eqb_eq.
  split; [intros [-> ->]; auto | intros H; inversion H; auto].
Qed.

Definition dflt (o : option sc) : sc := match o with Some h => h | None => new_sc end.

Lemma blookup_bupd : forall q b x b',
  blookup (bupd q b x) b' = if bin_eqb b b' then Some (sc_merge (dflt (blookup q b)) x) else blookup q b'.
Proof.
  induction q as [|[b0 h] r IH]; intros b x b'; simpl.
  - destruct (bin_eqb b b'); reflexivity.
  - destruct (bin_eqb b0 b) eqn:E0; simpl.
    + apply bin_eqb_eq in E0. subst b0. destruct (bin_eqb b b'); reflexivity.
    + rewrite IH. destruct (bin_eqb b0 b') eqn:E1; auto.
      destruct (bin_eqb b b') eqn:E2; auto.
      apply bin_eqb_eq in E1, E2. subst. rewrite (proj2 (bin_eqb_eq b' b') eq_refl) in E0. discriminate.
Qed.

Definition parts (L : list (bin * sc)) (b : bin) : list sc := map snd (filter (fun bh => bin_eqb (fst bh) b) L).

Lemma blookup_fold : forall L q b,
  blookup (fold_left bstep L q) b =
  match parts L b with
  | [] => blookup q b
  | ps => Some (fold_left sc_merge ps (dflt (blookup q b)))
  end.
Proof.
  induction L as [|[b1 x] L IH]; intros q b; [reflexivity|].
  simpl fold_left. rewrite IH. change (bstep q (b1, x)) with (bupd q b1 x). rewrite blookup_bupd.
  unfold parts; simpl. destruct (bin_eqb b1 b) eqn:E.
  - apply bin_eqb_eq in E. subst b1. simpl.
    destruct (map snd (filter (fun bh => bin_eqb (fst bh) b) L)); reflexivity.
  - reflexivity.
Qed.

Lemma parts_flat : forall (l : list agg) b,
  parts (flat_map fst l) b = flat_map (fun a => parts (fst a) b) l.
Proof.
  induction l as [|a l IH]; intros b; [reflexivity|].
  unfold parts in *. simpl. now rewrite filter_app, map_app, IH.
Qed.

(* ---------------------------------------------------------------- one bin: fold of SamplesContainer.Merge *)
Lemma sc_fold_ne : forall ps h, sc_ne (fold_left sc_merge ps h) = sc_ne h + zsum (map sc_ne ps).
Proof.
  induction ps as [|x ps IH]; intros h; simpl; [lia|]. rewrite IH. unfold sc_merge.
  destruct (sc_total x =? 0); simpl; lia.
Qed.
Lemma sc_fold_total : forall ps h,
  sc_total (fold_left sc_merge ps h) = sc_total h + zsum (map sc_total (nonempty_parts ps)).
Proof.
  induction ps as [|x ps IH]; intros h; simpl; [lia|]. rewrite IH. unfold sc_merge, nonempty_parts; simpl.
  destruct (sc_total x =? 0); simpl; lia.
Qed.
Lemma sc_fold_sum : forall ps h,
  sc_sum (fold_left sc_merge ps h) = sc_sum h + zsum (map sc_sum (nonempty_parts ps)).
Proof.
  induction ps as [|x ps IH]; intros h; simpl; [lia|]. rewrite IH. unfold sc_merge, nonempty_parts; simpl.
  destruct (sc_total x =? 0); simpl; lia.
Qed.
Lemma sc_fold_samples : forall ps h,
  sc_samples (fold_left sc_merge ps h) = sc_samples h ++ flat_map sc_samples (nonempty_parts ps).
Proof.
  induction ps as [|x ps IH]; intros h; simpl; [now rewrite app_nil_r|]. rewrite IH.
  unfold sc_merge, nonempty_parts; simpl. destruct (sc_total x =? 0); simpl; [reflexivity|].
  now rewrite app_assoc.
Qed.

Lemma zmin_default : forall l d d', l <> [] -> zmin_list d l = zmin_list d' l.
Proof.
  induction l as [|x l IH]; intros d d' H; [congruence|]. simpl.
  destruct l as [|y l]; [reflexivity|]. f_equal. apply IH. discriminate.
Qed.
Lemma zmin_cons : forall d m l, zmin_list d (m :: l) = match l with [] => m | _ => Z.min m (zmin_list d l) end.
Proof. intros. destruct l; reflexivity. Qed.
Lemma zmax_default : forall l d d', l <> [] -> zmax_list d l = zmax_list d' l.
Proof.
  induction l as [|x l IH]; intros d d' H; [congruence|]. simpl.
  destruct l as [|y l]; [reflexivity|]. f_equal. apply IH. discriminate.
Qed.
Lemma zmax_cons : forall d m l, zmax_list d (m :: l) = match l with [] => m | _ => Z.max m (zmax_list d l) end.
Proof. intros. destruct l; reflexivity. Qed.

Lemma sc_fold_min : forall ps h, 0 <= sc_total h -> Forall (fun p => 0 <= sc_total p) ps ->
  sc_min (fold_left sc_merge ps h) =
  if sc_total h =? 0 then zmin_list (sc_min h) (map sc_min (nonempty_parts ps))
  else zmin_list (sc_min h) (sc_min h :: map sc_min (nonempty_parts ps)).
Proof.
  induction ps as [|x ps IH]; intros h Hh F; simpl.
  - destruct (sc_total h =? 0); reflexivity.
  - inversion F as [|? ? Hx F']; subst. unfold nonempty_parts; simpl. fold (nonempty_parts ps).
    destruct (Z.eqb_spec (sc_total x) 0) as [Ex|Nx]; simpl.
    + assert (T : sc_total (sc_merge h x) = sc_total h)
        by (unfold sc_merge; rewrite (proj2 (Z.eqb_eq _ _) Ex); reflexivity).
      assert (M : sc_min (sc_merge h x) = sc_min h)
        by (unfold sc_merge; rewrite (proj2 (Z.eqb_eq _ _) Ex); reflexivity).
      rewrite IH; [rewrite T, M; reflexivity | rewrite T; exact Hh | exact F'].
    + set (h' := sc_merge h x).
      assert (T : sc_total h' = sc_total h + sc_total x).
      { unfold h', sc_merge. apply Z.eqb_neq in Nx. now rewrite Nx. }
      assert (M : sc_min h' = if sc_total h =? 0 then sc_min x else Z.min (sc_min h) (sc_min x)).
      { unfold h', sc_merge. apply Z.eqb_neq in Nx. now rewrite Nx. }
      rewrite IH; auto; [|lia].
      replace (sc_total h' =? 0) with false by (symmetry; apply Z.eqb_neq; lia).
      rewrite !zmin_cons, M.
      destruct (Z.eqb_spec (sc_total h) 0) as [Eh|Nh].
      * destruct (map sc_min (nonempty_parts ps)) as [|y l] eqn:E; [reflexivity|].
        f_equal. apply zmin_default. discriminate.
      * destruct (map sc_min (nonempty_parts ps)) as [|y l] eqn:E; [reflexivity|].
        rewrite <- Z.min_assoc. f_equal. f_equal. apply zmin_default. discriminate.
Qed.

Lemma sc_fold_max : forall ps h, 0 <= sc_total h -> Forall (fun p => 0 <= sc_total p) ps ->
  sc_max (fold_left sc_merge ps h) =
  if sc_total h =? 0 then zmax_list (sc_max h) (map sc_max (nonempty_parts ps))
  else zmax_list (sc_max h) (sc_max h :: map sc_max (nonempty_parts ps)).
Proof.
  induction ps as [|x ps IH]; intros h Hh F; simpl.
  - destruct (sc_total h =? 0); reflexivity.
  - inversion F as [|? ? Hx F']; subst. unfold nonempty_parts; simpl. fold (nonempty_parts ps).
    destruct (Z.eqb_spec (sc_total x) 0) as [Ex|Nx]; simpl.
    + assert (T : sc_total (sc_merge h x) = sc_total h)
        by (unfold sc_merge; rewrite (proj2 (Z.eqb_eq _ _) Ex); reflexivity).
      assert (M : sc_max (sc_merge h x) = sc_max h)
        by (unfold sc_merge; rewrite (proj2 (Z.eqb_eq _ _) Ex); reflexivity).
      rewrite IH; [rewrite T, M; reflexivity | rewrite T; exact Hh | exact F'].
    + set (h' := sc_merge h x).
      assert (T : sc_total h' = sc_total h + sc_total x).
      { unfold h', sc_merge. apply Z.eqb_neq in Nx. now rewrite Nx. }
      assert (M : sc_max h' = if sc_total h =? 0 then sc_max x else Z.max (sc_max h) (sc_max x)).
      { unfold h', sc_merge. apply Z.eqb_neq in Nx. now rewrite Nx. }
      rewrite IH; auto; [|lia].
      replace (sc_total h' =? 0) with false by (symmetry; apply Z.eqb_neq; lia).
      rewrite !zmax_cons, M.
      destruct (Z.eqb_spec (sc_total h) 0) as [Eh|Nh].
      * destruct (map sc_max (nonempty_parts ps)) as [|y l] eqn:E; [reflexivity|].
        f_equal. apply zmax_default. discriminate.
      * destruct (map sc_max (nonempty_parts ps)) as [|y l] eqn:E; [reflexivity|].
        rewrite <- Z.max_assoc. f_equal. f_equal. apply zmax_default. discriminate.
Qed.

(* what the merged container of one bin is, in terms of the parts *)
Definition sc_desc (ps : list sc) (h : sc) : Prop :=
  let ne := nonempty_parts ps in
  sc_total h = zsum (map sc_total ne) /\ sc_sum h = zsum (map sc_sum ne)
  /\ sc_ne h = zsum (map sc_ne ps) /\ sc_samples h = flat_map sc_samples ne
  /\ (Forall (fun p => 0 <= sc_total p) ps ->
      sc_min h = zmin_list (sc_min new_sc) (map sc_min ne) /\ sc_max h = zmax_list (sc_max new_sc) (map sc_max ne)).

Lemma sc_fold_desc : forall ps, sc_desc ps (fold_left sc_merge ps new_sc).
Proof.
  intros ps. unfold sc_desc. rewrite sc_fold_total, sc_fold_sum, sc_fold_ne, sc_fold_samples. simpl.
  repeat split; auto.
  - rewrite sc_fold_min; simpl; auto. lia.
  - rewrite sc_fold_max; simpl; auto. lia.
Qed.

(* ---------------------------------------------------------------- the merged aggregations *)
Section WithSort.
  Variable sort : (ids -> ids -> bool) -> list ids -> list ids.

  Lemma aggs_ok : forall qs xs rev itv naggs,
    let r := merge_rest sort qs xs rev itv naggs in
    length (x_aggs r) = naggs
    /\ forall j, (j < naggs)%nat ->
       snd (nth j (x_aggs r) e0) = zsum (map (fun x => snd (nth j (x_aggs x) e0)) xs)
       /\ forall b,
          match bin_parts j b xs with
          | [] => blookup (fst (nth j (x_aggs r) e0)) b = None
          | ps => exists h, blookup (fst (nth j (x_aggs r) e0)) b = Some h /\ sc_desc ps h
          end.
  Proof.
    intros. subst r. unfold merge_rest; simpl. fold e0. split.
    - now rewrite aggs_fold_length, repeat_length.
    - intros j Hj. rewrite aggs_fold_nth by (now rewrite repeat_length).
      rewrite nth_repeat. split.
      + rewrite agg_fold_ne, !map_map. reflexivity.
      + intros b. rewrite agg_fold_bins, blookup_fold, parts_flat. simpl.
        assert (E : flat_map (fun a : list (bin * sc) * Z => parts (fst a) b)
                      (map (fun a : list agg => nth j a e0) (map x_aggs xs)) = bin_parts j b xs).
        { unfold bin_parts, parts. rewrite map_map. rewrite !flat_map_concat_map, map_map. reflexivity. }
        rewrite E. destruct (bin_parts j b xs) as [|p ps] eqn:P; [reflexivity|].
        eexists; split; [reflexivity|]. apply (sc_fold_desc (p :: ps)).
  Qed.
End WithSort.
