(* C16 — the key set of the merged histogram (which buckets exist). *)
From Coq Require Import List Bool Arith NArith ZArith Lia Permutation.
From VLib Require Import CaseLib.
From C16 Require Import Model ModelExt CaseDefs ProofsSearch ProofsFetch ProofsAlign ProofsRest.
Import ListNotations.

Lemma hupd_keys : forall h k f x, In x (map fst (hupd h k f)) <-> In x (map fst h) \/ x = k.
Proof.
  induction h as [|[k0 c] r IH]; intros k f x; simpl.
  - split; [intros [H|[]]; auto | intros [[]|H]; auto].
  - destruct (N.eqb_spec k0 k) as [->|NE]; simpl.
    + split; [tauto | intros [[H|H]|H]; auto].
    + rewrite IH. tauto.
Qed.

Lemma hupd_NoDup : forall h k f, NoDup (map fst h) -> NoDup (map fst (hupd h k f)).
Proof.
  induction h as [|[k0 c] r IH]; intros k f N; simpl.
  - constructor; [intros [] | constructor].
  - inversion N as [|? ? N1 N2]; subst. destruct (N.eqb_spec k0 k) as [->|NE]; simpl.
    + constructor; auto.
    + constructor; auto. rewrite hupd_keys. intros [H|H]; auto.
Qed.

Lemma hfold_keys : forall {A} (g : A -> N) (f : A -> Z -> Z) l h x,
  In x (map fst (fold_left (fun d a => hupd d (g a) (f a)) l h)) <-> In x (map fst h) \/ In x (map g l).
Proof.
  intros A g f l; induction l as [|a l IH]; intros h x; simpl; [tauto|].
  rewrite IH, hupd_keys. intuition.
Qed.
Lemma hfold_NoDup : forall {A} (g : A -> N) (f : A -> Z -> Z) l h,
  NoDup (map fst h) -> NoDup (map fst (fold_left (fun d a => hupd d (g a) (f a)) l h)).
Proof.
  intros A g f l; induction l as [|a l IH]; intros h N; simpl; auto. apply IH. now apply hupd_NoDup.
Qed.

Lemma hist_add_keys : forall s d x, In x (map fst (hist_add d s)) <-> In x (map fst d) \/ In x (map fst s).
Proof. intros. unfold hist_add. apply (hfold_keys (fun kc : N * Z => fst kc) (fun kc c => wrap64 (c + snd kc))). Qed.
Lemma hist_add_NoDup : forall s d, NoDup (map fst d) -> NoDup (map fst (hist_add d s)).
Proof. intros. unfold hist_add. now apply (hfold_NoDup (fun kc : N * Z => fst kc) (fun kc c => wrap64 (c + snd kc))). Qed.

Lemma hist_fold_keys : forall hs d x,
  In x (map fst (fold_left hist_add hs d)) <-> In x (map fst d) \/ exists h, In h hs /\ In x (map fst h).
Proof.
  induction hs as [|h hs IH]; intros d x; simpl.
  - split; auto. intros [H|[h [[] _]]]; auto.
  - rewrite IH, hist_add_keys. split.
    + intros [[H|H]|[h' [H1 H2]]]; eauto.
    + intros [H|[h' [[<-|H1] H2]]]; eauto.
Qed.
Lemma hist_fold_NoDup : forall hs d, NoDup (map fst d) -> NoDup (map fst (fold_left hist_add hs d)).
Proof. induction hs as [|h hs IH]; intros d N; simpl; auto. apply IH. now apply hist_add_NoDup. Qed.

Lemma hist_repair_keys : forall itv reps h x,
  In x (map fst (hist_repair itv reps h)) <->
  In x (map fst h) \/ (itv <> 0%N /\ In x (map (fun r : ids => bucket_of itv (fst r)) reps)).
Proof.
  intros itv reps h x. unfold hist_repair. destruct (N.eqb_spec itv 0) as [->|NE].
  - split; auto. intros [H|[H _]]; auto. congruence.
  - rewrite (hfold_keys (fun r : ids => bucket_of itv (fst r)) (fun _ c => wrap64 (c - 1))). tauto.
Qed.
Lemma hist_repair_NoDup : forall itv reps h, NoDup (map fst h) -> NoDup (map fst (hist_repair itv reps h)).
Proof.
  intros itv reps h N. unfold hist_repair. destruct (N.eqb itv 0); auto.
  now apply (hfold_NoDup (fun r : ids => bucket_of itv (fst r)) (fun _ c => wrap64 (c - 1))).
Qed.

Lemma filter_length_pos : forall {A} (p : A -> bool) l, (0 < length (filter p l))%nat <-> exists a, In a l /\ p a = true.
Proof.
  intros A p l. split.
  - destruct (filter p l) as [|a r] eqn:E; simpl; [lia|]. intros _. exists a. apply filter_In. rewrite E; simpl; auto.
  - intros [a Ha]. apply filter_In in Ha. destruct (filter p l); [destruct Ha | simpl; lia].
Qed.

Section WithSort.
  Variable sort : (ids -> ids -> bool) -> list ids -> list ids.
  Hypothesis sort_is_ok : sort_ok sort.

  (* a dropped duplicate falls into bucket k  <=>  the answers hold more IDs than distinct IDs in k *)
  Lemma dup_bucket_iff : forall rev qs itv k, itv <> 0%N ->
    In k (map (fun r : ids => bucket_of itv (fst r)) (dups (sort (lessf rev) (flat_map tag qs))))
    <-> reps_in_bucket itv (flat_map snd qs) k <> 0%Z.
  Proof.
    intros rev qs itv k Hi. rewrite <- (nbucket_reps sort sort_is_ok rev qs itv k Hi). unfold nbucket.
    match goal with |- _ <-> Z.of_nat (length ?F) <> 0%Z => set (FF := F) end.
    split.
    - intros H. apply in_map_iff in H. destruct H as [r [E Hr]].
      assert (Hin : In r FF) by (apply filter_In; split; auto; now apply N.eqb_eq).
      destruct FF; [destruct Hin | simpl; lia].
    - intros H. destruct FF as [|r F'] eqn:EF; [simpl in H; congruence|].
      assert (Hin : In r FF) by (rewrite EF; simpl; auto).
      apply filter_In in Hin. destruct Hin as [Hr E]. apply N.eqb_eq in E.
      apply in_map_iff. exists r. auto.
  Qed.

  Lemma reps_bucket_member : forall itv U k, reps_in_bucket itv U k <> 0%Z ->
    itv <> 0%N /\ exists i, In i U /\ bucket_of itv i = k.
  Proof.
    intros itv U k H. unfold reps_in_bucket in H. revert H.
    destruct (N.eqb_spec itv 0) as [->|NE]; intros H; [congruence|].
    split; auto. unfold count_id in H.
    assert (LE : (length (filter (fun i : id => N.eqb (bucket_of itv i) k) (nodupb U))
                  <= length (filter (fun i : id => N.eqb (bucket_of itv i) k) U))%nat).
    { apply NoDup_incl_length; [apply NoDup_filter, nodupb_NoDup|].
      intros a Ha. apply filter_In in Ha. destruct Ha as [Ia Pa]. apply (proj1 (nodupb_In _ _)) in Ia.
      apply filter_In; split; [exact Ia | exact Pa]. }
    assert (P : (0 < length (filter (fun i : id => N.eqb (bucket_of itv i) k) U))%nat) by lia.
    apply filter_length_pos in P. destruct P as [i [Hi E]]. apply N.eqb_eq in E. eauto.
  Qed.

  Lemma hist_keys_ok : forall qs xs rev itv naggs,
    let h := x_hist (merge_rest sort qs xs rev itv naggs) in
    let U := flat_map snd qs in
    NoDup (map fst h)
    /\ (forall k, In k (map fst h) <->
          (exists x, In x xs /\ In k (map fst (x_hist x)))
          \/ (itv <> 0%N /\ (exists i, In i U /\ bucket_of itv i = k) /\ reps_in_bucket itv U k <> 0%Z))
    /\ (forall k, In k (map fst h) <-> In k (hist_keys_spec itv U xs)).
  Proof.
    intros qs xs rev itv naggs h U. subst h. unfold merge_rest; simpl.
    assert (K : forall k, In k (map fst (hist_repair itv (dups (sort (lessf rev) (flat_map tag qs)))
                                          (fold_left hist_add (map x_hist xs) []))) <->
          (exists x, In x xs /\ In k (map fst (x_hist x)))
          \/ (itv <> 0%N /\ (exists i, In i U /\ bucket_of itv i = k) /\ reps_in_bucket itv U k <> 0%Z)).
    { intros k. rewrite hist_repair_keys, hist_fold_keys. simpl. split.
      - intros [[[]|[h [Hh Hk]]]|[Hi Hd]].
        + left. apply in_map_iff in Hh. destruct Hh as [x [<- Hx]]. eauto.
        + right. apply (dup_bucket_iff rev qs itv k Hi) in Hd. split; auto. split; auto.
          apply (reps_bucket_member itv U k Hd).
      - intros [[x [Hx Hk]]|[Hi [_ Hr]]].
        + left. right. exists (x_hist x). split; auto. now apply in_map.
        + right. split; auto. now apply (dup_bucket_iff rev qs itv k Hi). }
    split; [|split]; auto.
    - apply hist_repair_NoDup, hist_fold_NoDup. constructor.
    - intros k. rewrite K. unfold hist_keys_spec. rewrite in_app_iff, in_flat_map. fold U.
      split.
      + intros [H|[Hi [[i [Hu Eb]] Hr]]]; [left; auto|]. right.
        apply N.eqb_neq in Hi. rewrite Hi. apply in_map_iff. exists i. split; auto.
        apply filter_In. split; auto. rewrite Eb. apply negb_true_iff. now apply Z.eqb_neq.
      + intros [H|H]; [left; auto|]. right. destruct (N.eqb_spec itv 0) as [->|NE]; [destruct H|].
        apply in_map_iff in H. destruct H as [i [Eb Hf]]. apply filter_In in Hf. destruct Hf as [Hu Hr].
        apply negb_true_iff, Z.eqb_neq in Hr. rewrite Eb in Hr. split; auto. split; eauto.
  Qed.
End WithSort.
