From Coq Require Import List NArith Lia.
From C16 Require Import ModelRetain.
Import ListNotations.

Lemma fold_min_spec : forall r x, In (fold_left N.min r x) (x :: r) /\ Forall (fun c => (fold_left N.min r x <= c)%N) (x :: r).
Proof.
  induction r as [|y r IH]; intros x; simpl.
  - split; [left; reflexivity|]. constructor; [lia|constructor].
  - destruct (IH (N.min x y)) as (I & F). inversion F as [|? ? F1 F2]; subst. split.
    + destruct I as [I|I]; [|right; right; exact I].
      destruct (N.min_spec x y) as [(_ & E)|(_ & E)]; [left|right; left]; rewrite <- I; exact (eq_sym E).
    + constructor; [lia|]. constructor; [lia|exact F2].
Qed.

Lemma oldest_after_truncation : forall prev cts k,
  skipn k cts <> [] -> Forall (fun c => c <> 0%N) (skipn k cts) ->
  In (oldest_after prev cts k) (skipn k cts)
  /\ Forall (fun c => (oldest_after prev cts k <= c)%N) (skipn k cts).
Proof.
  intros prev cts k NE NZ. unfold oldest_after, oldest_ct.
  destruct (skipn k cts) as [|x r]; [congruence|].
  destruct (fold_min_spec r x) as (I & F).
  destruct (N.eqb_spec (fold_left N.min r x) 0) as [E|E].
  - exfalso. rewrite E in I. rewrite Forall_forall in NZ. exact (NZ _ I eq_refl).
  - split; assumption.
Qed.
