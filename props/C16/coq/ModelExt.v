(* C16 — executable model, extension (no proofs in this file). Mirrors:
     proxy/search/ingestor.go      groupIDsBySource, FetchDocsStream (one Fetch call per source of the
                                   request; the all-calls-failed decision), Documents (same decision),
                                   Search: the fetch is started only for a non-empty page; negative
                                   size / offset => ErrInvalidArgument
     proxyapi/grpc_search.go, grpc_complex_search.go, grpc_v1.go
                                   request validation (size), doSearch (error mapping), makeProtoDocs
                                   (i-th document = Id of the i-th returned ID + Data of the i-th
                                   document of the stream, empty when the stream is exhausted), Total
                                   (int64 of the uint64), partial_response / error code, makeProtoHistogram
     seq/qpr.go                    SamplesContainer.Merge with InsertSample (reservoir replacement at
                                   8096 samples; the random generator of the container is a Section
                                   variable), and responseToQPR's last-wins conversion of a timeseries
                                   into the bin map (ingestor.go). *)
From Coq Require Export List Bool Arith NArith ZArith.
From C16 Require Export Model.
Export ListNotations.

(* ------------------------------------------------------------------ (1) FetchDocsStream *)
(* groupIDsBySource: hostsIDs[source] = the requested IDs of that source, in request order *)
Definition group (req : list ids) (s : src) : list ids := filter (fun k => Nat.eqb (snd k) s) req.
(* the key set of that map = the distinct sources of the request. The real code iterates over a Go
   map: the order of the calls is a parameter of the model (the list [calls] below). *)
Fixpoint srcs_of (req : list ids) : list src :=
  match req with
  | [] => []
  | k :: r => let t := srcs_of r in if existsb (Nat.eqb (snd k)) t then t else snd k :: t
  end.

(* what one Fetch call does: fails, or opens a stream that delivers these documents before its end
   (EOF, a broken stream, the count check: all three end the stream for the merge) *)
Inductive fcall := FFail | FStream (l : list sdoc).
Inductive fds_res := FdErr | FdOk (out : list doc).

Definition live (calls : list (src * fcall)) : list (src * list sdoc) :=
  flat_map (fun c => match snd c with FStream l => [(fst c, l)] | FFail => [] end) calls.
Definition failed (calls : list (src * fcall)) : list src :=
  flat_map (fun c => match snd c with FFail => [fst c] | FStream _ => [] end) calls.

(* len(errs) > 0 && len(streams) == 0 *)
Definition fds_fails (calls : list (src * fcall)) : bool :=
  match failed calls, live calls with
  | _ :: _, [] => true
  | _, _ => false
  end.

(* FetchDocsStream read to the end (one document per requested ID). [calls]: the Fetch calls in the
   order they were made, each with what it did. *)
Definition fds (req : list ids) (calls : list (src * fcall)) : fds_res :=
  if fds_fails calls then FdErr else FdOk (fetch req (live calls)).

(* the calls the code makes for a request: exactly one per source of the request, in some order *)
Fixpoint nodup_natb (l : list nat) : bool :=
  match l with [] => true | x :: r => negb (existsb (Nat.eqb x) r) && nodup_natb r end.
Definition calls_valid (req : list ids) (calls : list (src * fcall)) : bool :=
  nodup_natb (map fst calls)
  && forallb (fun s => existsb (Nat.eqb s) (srcs_of req)) (map fst calls)
  && forallb (fun s => existsb (Nat.eqb s) (map fst calls)) (srcs_of req).

(* Ingestor.Documents with the error decision *)
Inductive docs_res := DcErr | DcOk (out : list doc).
Definition documents_full (groups : list (id * list src)) (calls : list (src * fcall)) : docs_res :=
  match fds (expand groups) calls with
  | FdErr => DcErr
  | FdOk out => DcOk (uniq out)
  end.

(* ------------------------------------------------------------------ (3) proxyapi: request -> response *)
Inductive akind := KSearch | KComplex.
(* the request fields that matter: offset and size are int64; hist = Some interval (ms) when a
   histogram is asked (ComplexSearch only); explain and with_total do not change the response content
   (with_total is only forwarded to the stores; Total is always copied) *)
Record areq := mkAreq {
  a_kind : akind; a_off : Z; a_size : Z; a_rev : bool; a_hist : option N; a_explain : bool; a_with_total : bool }.

(* Search: size <= 0 -> InvalidArgument. ComplexSearch: size <= 0 without hist (and without aggs, not
   modelled) -> InvalidArgument. Ingestor.Search: negative size or offset -> ErrInvalidArgument, which
   doSearch turns into InvalidArgument. *)
Definition a_invalid (q : areq) : bool :=
  match a_kind q with
  | KSearch => Z.leb (a_size q) 0
  | KComplex => Z.leb (a_size q) 0 && match a_hist q with None => true | Some _ => false end
  end
  || Z.ltb (a_size q) 0 || Z.ltb (a_off q) 0.

Definition a_itv (q : areq) : N := match a_hist q with Some i => i | None => 0%N end.

(* int64(qpr.Total) *)
Definition to_int64 (z : Z) : Z :=
  if Z.ltb z 9223372036854775808 then z else (z - 18446744073709551616)%Z.

(* makeProtoDocs: for i, id := range qpr.IDs { d, _ := docs.Next(); doc.Id = id; doc.Data = d.Data } *)
Fixpoint api_docs (l : list ids) (stream : list doc) : list (id * N) :=
  match l with
  | [] => []
  | k :: r =>
      match stream with
      | [] => (fst k, 0%N) :: api_docs r []
      | d :: s => (fst k, snd d) :: api_docs r s
      end
  end.

Inductive apid :=
| DErr (c : grpc_code)
| DOnlyError
| DResp (partial_response : bool) (code : ecode) (docs : list (id * N)) (total : Z) (hist : option (list (N * Z))).

(* everything after MergeQPRs + paginateIDs: [l] = the page (qpr.IDs), [x] the rest of the merged QPR.
   The fetch is started only when the page is not empty; its failure is an ordinary error of Search
   (Internal), also when the search itself was partial. *)
Definition api_finish (q : areq) (p : bool) (l : list ids) (x : extra) (calls : list (src * fcall)) : apid :=
  match (match l with [] => FdOk [] | _ => fds l calls end) with
  | FdErr => DErr GInternal
  | FdOk stream =>
      if negb p && negb (Nat.eqb (x_errs x) 0) then DErr GInternal
      else DResp p (if p then CPartial else CNo) (api_docs l stream) (to_int64 (x_total x))
                 (match a_hist q with Some _ => Some (x_hist x) | None => None end)
  end.

Section ApiWithSort.
  Variable sort : (ids -> ids -> bool) -> list ids -> list ids.

  (* the handler, from the validated request to the response *)
  Definition api_full (q : areq) (p1 p2 : bool) (hot hotread cold : list shard) (calls : list (src * fcall)) : apid :=
    if a_invalid q then DErr GInvalidArgument
    else
      match search sort p1 p2 hot hotread cold (Z.to_nat (a_off q)) (Z.to_nat (a_size q)) (a_rev q) (a_itv q) 0 with
      | SErr ETooManyFrac => DOnlyError
      | SErr EWantsOld => DErr GInvalidArgument
      | SErr _ => DErr GInternal
      | SOk p l x => api_finish q p l x calls
      end.

  (* the merged order before any cut: MergeQPRs without limit *)
  Definition merged_all (qs : list (src * list id)) (rev : bool) : list ids :=
    dedup (sort (lessf rev) (flat_map tag qs)).
End ApiWithSort.

(* ------------------------------------------------------------------ (4) SamplesContainer with its reservoir *)
(* maxHistogramSamples *)
Definition max_samples : N := 8096.

Fixpoint set_nth (n : nat) (v : Z) (l : list Z) : list Z :=
  match l with
  | [] => []
  | y :: r => match n with O => v :: r | S n' => y :: set_nth n' v r end
  end.

Section Reservoir.
  (* the container's random generator (fastrand.RNG, seeded in NewSamplesContainers): any state
     type, any seed, any step function *)
  Variable R : Type.
  Variable seed : R.
  Variable next : R -> N * R.

  (* a container together with the state of its generator *)
  Record scr := mkScr { r_sc : sc; r_rng : R }.

  (* InsertSample *)
  Definition insert_sample (st : list Z * R) (v : Z) : list Z * R :=
    if N.ltb (N.of_nat (length (fst st))) max_samples then (fst st ++ [v], snd st)
    else let (i, r') := next (snd st) in (set_nth (N.to_nat (i mod max_samples)) v (fst st), r').

  (* NewSamplesContainers *)
  Definition new_scr : scr := mkScr new_sc seed.

  (* SamplesContainer.Merge *)
  Definition scr_merge (h : scr) (x : sc) : scr :=
    let b := r_sc h in
    let ne := (sc_ne b + sc_ne x)%Z in
    if Z.eqb (sc_total x) 0 then mkScr (mkSc (sc_total b) (sc_sum b) (sc_min b) (sc_max b) ne (sc_samples b)) (r_rng h)
    else
      let st := fold_left insert_sample (sc_samples x) (sc_samples b, r_rng h) in
      mkScr (mkSc (sc_total b + sc_total x) (sc_sum b + sc_sum x)
                  (if Z.eqb (sc_total b) 0 then sc_min x else Z.min (sc_min b) (sc_min x))
                  (if Z.eqb (sc_total b) 0 then sc_max x else Z.max (sc_max b) (sc_max x))
                  ne (fst st))
            (snd st).

  Fixpoint bupd_r (q : list (bin * scr)) (b : bin) (x : sc) : list (bin * scr) :=
    match q with
    | [] => [(b, scr_merge new_scr x)]
    | (b', h) :: r => if bin_eqb b' b then (b', scr_merge h x) :: r else (b', h) :: bupd_r r b x
    end.
  Definition aggr := (list (bin * scr) * Z)%type.
  (* AggregatableSamples.Merge *)
  Definition agg_merge_r (q : aggr) (a : agg) : aggr :=
    (fold_left (fun q' bh => bupd_r q' (fst bh) (snd bh)) (fst a) (fst q), (snd q + snd a)%Z).
  Fixpoint aggs_merge_r (dst : list aggr) (a : list agg) : list aggr :=
    match dst, a with
    | d :: ds, x :: xs => agg_merge_r d x :: aggs_merge_r ds xs
    | ds, [] => ds
    | [], _ :: _ => []
    end.
  (* the aggregations of MergeQPRs over the answers [xs] (arrival order), naggs = len(sr.AggQ) *)
  Definition merge_aggs_r (xs : list extra) (naggs : nat) : list aggr :=
    fold_left aggs_merge_r (map x_aggs xs) (repeat ([], 0%Z) naggs).
End Reservoir.

(* the scalar fields of a container: everything but the sample multiset *)
Definition sc_erase (h : sc) : sc := mkSc (sc_total h) (sc_sum h) (sc_min h) (sc_max h) (sc_ne h) [].
Definition agg_erase (a : agg) : agg := (map (fun bh => (fst bh, sc_erase (snd bh))) (fst a), snd a).
Definition extra_erase (x : extra) : extra := mkX (x_total x) (x_hist x) (map agg_erase (x_aggs x)) (x_errs x).

(* responseToQPR: a timeseries (list of bins) becomes a map: to[tbin] = container — a later bin with
   the same (ts, label) replaces an earlier one *)
Fixpoint bset (q : list (bin * sc)) (b : bin) (h : sc) : list (bin * sc) :=
  match q with
  | [] => [(b, h)]
  | (b', h') :: r => if bin_eqb b' b then (b', h) :: r else (b', h') :: bset r b h
  end.
Definition conv_bins (ts : list (bin * sc)) : list (bin * sc) :=
  fold_left (fun q bh => bset q (fst bh) (snd bh)) ts [].
Definition conv_agg (a : agg) : agg := (conv_bins (fst a), snd a).
