(* C16 — lemmas (collected): ProofsSearch (classification, merge of IDs, page), ProofsRest (total,
   histogram, soft errors), ProofsAggs (aggregations), ProofsApi (API answer, replica orders),
   ProofsFetch / ProofsAlign (streams: soundness / completeness), ProofsDocs (Documents). *)
From Coq Require Import List Bool Arith NArith ZArith Lia.
From C16 Require Export Model ModelExt CaseDefs ProofsSearch ProofsFetch ProofsAlign ProofsRest ProofsAggs ProofsApi ProofsDocs
  ProofsFds ProofsHistKeys ProofsPaging ProofsReservoir.
Import ListNotations.

Lemma hot_refuses_spec : forall mature oldest from,
  hot_refuses mature oldest from = true <-> mature = true /\ (oldest = 0 \/ from < oldest)%N.
Proof.
  intros. unfold hot_refuses, earlier_than_oldest.
  rewrite andb_true_iff, orb_true_iff, N.eqb_eq, N.ltb_lt. tauto.
Qed.

(* the rest of the merged QPR is described by exactly the answers [xs] of the shards [qs] *)
Definition rest_desc (itv : N) (naggs : nat) (qs : list (src * list id)) (xs : list extra) (r : extra) : Prop :=
  let U := flat_map snd qs in
  x_total r = total_spec U xs
  /\ (forall k, hlookup (x_hist r) k = hist_spec itv U xs k)
  /\ x_errs r = errs_spec xs
  /\ length (x_aggs r) = naggs
  /\ forall j, j < naggs ->
       snd (nth j (x_aggs r) e0) = zsum (map (fun x => snd (nth j (x_aggs x) e0)) xs)
       /\ forall b,
          match bin_parts j b xs with
          | [] => blookup (fst (nth j (x_aggs r) e0)) b = None
          | ps => exists h, blookup (fst (nth j (x_aggs r) e0)) b = Some h /\ sc_desc ps h
          end.

Lemma merge_rest_desc : forall sort, sort_ok sort -> forall qs xs rev itv naggs,
  rest_desc itv naggs qs xs (merge_rest sort qs xs rev itv naggs).
Proof.
  intros sort Hs qs xs rev itv naggs. unfold rest_desc.
  split; [apply total_ok; auto|]. split; [intros; apply hist_ok; auto|]. split; [apply errs_ok|].
  apply (aggs_ok sort qs xs rev itv naggs).
Qed.

Lemma search_whole : forall sort, sort_ok sort ->
  forall p1 p2 hot hotread cold off size rev itv naggs,
  match verdict_of p1 p2 hot hotread cold, search sort p1 p2 hot hotread cold off size rev itv naggs with
  | VErr k, SErr k' => k = k'
  | VOk p qs xs, SOk p' out r =>
      p = p' /\ page_ok rev (flat_map snd qs) off size (map fst out) = true /\ sources_ok qs out = true
      /\ rest_desc itv naggs qs xs r
  | _, _ => False
  end.
Proof.
  intros sort Hs p1 p2 hot hotread cold off size rev itv naggs.
  pose proof (search_ok sort Hs p1 p2 hot hotread cold off size rev itv naggs) as H.
  destruct (verdict_of p1 p2 hot hotread cold), (search sort p1 p2 hot hotread cold off size rev itv naggs); auto.
  destruct H as [A [B [C D]]]. subst r. repeat split; auto; apply merge_rest_desc; auto.
Qed.

(* ---------------------------------------------------------------- extension: collected statements *)
Lemma fetch_all_failed_is_error : forall req calls,
  (fds req calls = FdErr <-> calls <> [] /\ Forall (fun c => snd c = FFail) calls)
  /\ (calls_valid req calls = true -> (calls <> [] <-> req <> []))
  /\ (calls_valid req calls = true -> req <> [] -> Forall (fun c => snd c = FFail) calls -> fds req calls = FdErr).
Proof.
  intros req calls. split; [apply fds_err_iff|]. split; [apply calls_valid_nonempty|]. apply fetch_all_failed.
Qed.

Lemma fetch_some_failed_is_empty_docs : forall req calls,
  (exists s l, In (s, FStream l) calls) \/ calls = [] ->
  exists out, fds req calls = FdOk out
    /\ out = fetch req (live calls)
    /\ length out = length req
    /\ docs_sound req (live calls) out = true
    /\ (NoDup (map fst calls) -> forall i k, nth_error req i = Some k -> In (snd k) (failed calls) ->
          nth_error out i = Some (k, 0%N))
    /\ (well_behaved req (live calls) = true -> out = map (expected_doc (live calls)) req).
Proof.
  intros req calls H.
  assert (F : fds_fails calls = false).
  { destruct (fds_fails calls) eqn:F; auto. apply fds_fails_iff in F. destruct F as [NE AF].
    destruct H as [[s [l Hl]]|E0]; [|subst calls; congruence].
    unfold all_fail in AF. rewrite Forall_forall in AF. specialize (AF _ Hl). discriminate. }
  destruct (fetch_some_failed req calls F) as [out [A [B [C [D [_ [E G]]]]]]].
  exists out. repeat split; auto.
Qed.

Lemma hist_keys_exact : forall sort, sort_ok sort -> forall qs xs rev itv naggs,
  let h := x_hist (merge_rest sort qs xs rev itv naggs) in
  let U := flat_map snd qs in
  NoDup (map fst h)
  /\ (forall k, In k (map fst h) <->
        (exists x, In x xs /\ In k (map fst (x_hist x)))
        \/ (itv <> 0%N /\ (exists i, In i U /\ bucket_of itv i = k) /\ reps_in_bucket itv U k <> 0%Z))
  /\ (forall k, In k (map fst h) <-> In k (hist_keys_spec itv U xs)).
Proof. intros sort Hs. exact (hist_keys_ok sort Hs). Qed.

Lemma reservoir_below_bound : forall R next (h : scr R) x s r v,
  ((N.of_nat (length (sc_samples (r_sc R h)) + length (sc_samples x)) <= max_samples)%N ->
     scr_merge R next h x = mkScr R (sc_merge (r_sc R h) x) (r_rng R h))
  /\ ((N.of_nat (length s) <= max_samples)%N ->
      (N.of_nat (length (fst (insert_sample R next (s, r) v))) <= max_samples)%N).
Proof. intros. split; [apply scr_merge_below | apply insert_sample_bound]. Qed.
