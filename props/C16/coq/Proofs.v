(* C16 — lemmas (collected): ProofsSearch (classification, merge, page), ProofsFetch (streams: soundness),
   ProofsAlign (streams: completeness for well-behaved streams). *)
From Coq Require Import List Bool Arith NArith Lia.
From C16 Require Export Model CaseDefs ProofsSearch ProofsFetch ProofsAlign.
Import ListNotations.

Lemma hot_refuses_spec : forall mature oldest from,
  hot_refuses mature oldest from = true <-> mature = true /\ (oldest = 0 \/ from < oldest)%N.
Proof.
  intros. unfold hot_refuses, earlier_than_oldest.
  rewrite andb_true_iff, orb_true_iff, N.eqb_eq, N.ltb_lt. tauto.
Qed.
