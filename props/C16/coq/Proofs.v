(* C16 — lemmas (collected): ProofsSearch (classification, merge of IDs, page), ProofsRest (total,
   histogram, soft errors), ProofsAggs (aggregations), ProofsApi (API answer, replica orders),
   ProofsFetch / ProofsAlign (streams: soundness / completeness), ProofsDocs (Documents). *)
From Coq Require Import List Bool Arith NArith ZArith Lia.
From C16 Require Export Model CaseDefs ProofsSearch ProofsFetch ProofsAlign ProofsRest ProofsAggs ProofsApi ProofsDocs.
Import ListNotations.

Lemma hot_refuses_spec : forall mature oldest from,
  hot_refuses mature oldest from = true <-> mature = true /\ (oldest = 0 \/ from < oldest)%N.
Proof.
  intros. unfold hot_refuses, earlier_than_oldest.
  rewrite andb_true_iff, orb_true_iff, N.eqb_eq, N.ltb_lt. tauto.
Qed.

(* the rest of the merged QPR is described by exactly the answers [xs] of the shards [qs] *)
Definition rest_desc (itv : N) (naggs : nat) (qs : list (src * list id)) (xs : list extra) (r : extra) : Prop :=
  let U := flat_map snd qs in
  x_total r = total_spec U xs
  /\ (forall k, hlookup (x_hist r) k = hist_spec itv U xs k)
  /\ x_errs r = errs_spec xs
  /\ length (x_aggs r) = naggs
  /\ forall j, j < naggs ->
       snd (nth j (x_aggs r) e0) = zsum (map (fun x => snd (nth j (x_aggs x) e0)) xs)
       /\ forall b,
          match bin_parts j b xs with
          | [] => blookup (fst (nth j (x_aggs r) e0)) b = None
          | ps => exists h, blookup (fst (nth j (x_aggs r) e0)) b = Some h /\ sc_desc ps h
          end.

Lemma merge_rest_desc : forall sort, sort_ok sort -> forall qs xs rev itv naggs,
  rest_desc itv naggs qs xs (merge_rest sort qs xs rev itv naggs).
Proof.
  intros sort Hs qs xs rev itv naggs. unfold rest_desc.
  split; [apply total_ok; auto|]. split; [intros; apply hist_ok; auto|]. split; [apply errs_ok|].
  apply (aggs_ok sort qs xs rev itv naggs).
Qed.

Lemma search_whole : forall sort, sort_ok sort ->
  forall p1 p2 hot hotread cold off size rev itv naggs,
  match verdict_of p1 p2 hot hotread cold, search sort p1 p2 hot hotread cold off size rev itv naggs with
  | VErr k, SErr k' => k = k'
  | VOk p qs xs, SOk p' out r =>
      p = p' /\ page_ok rev (flat_map snd qs) off size (map fst out) = true /\ sources_ok qs out = true
      /\ rest_desc itv naggs qs xs r
  | _, _ => False
  end.
Proof.
  intros sort Hs p1 p2 hot hotread cold off size rev itv naggs.
  pose proof (search_ok sort Hs p1 p2 hot hotread cold off size rev itv naggs) as H.
  destruct (verdict_of p1 p2 hot hotread cold), (search sort p1 p2 hot hotread cold off size rev itv naggs); auto.
  destruct H as [A [B [C D]]]. subst r. repeat split; auto; apply merge_rest_desc; auto.
Qed.
