(* C16 — lemmas. *)
From Coq Require Import List Bool Arith NArith Lia Permutation Sorted.
From C16 Require Import Model.
Import ListNotations.

Lemma align_length : forall lt req M, length (align lt req M) = length req.
Proof.
  intros lt req; induction req as [|cur r IH]; intros M; simpl; auto.
  destruct (drop_ff lt cur M) as [|d M2]; simpl; [now rewrite IH|].
  destruct (key_eqb cur (fst d)); simpl; now rewrite IH.
Qed.
