(* C16 — aggregations with any number of samples: the scalar fields (Total, Sum, Min, Max, NotExists)
   of every merged bin do not depend on the samples nor on the reservoir's random generator: the
   scalar view of the real merge (ModelExt.merge_aggs_r) is the model merge (Model.merge_rest) run on
   the answers with their samples erased. *)
From Coq Require Import List Bool Arith NArith ZArith Lia Permutation.
From VLib Require Import CaseLib.
From C16 Require Import Model ModelExt CaseDefs ProofsSearch ProofsAggs.
Import ListNotations.
Local Open Scope Z_scope.

Lemma set_nth_length : forall n v l, length (set_nth n v l) = length l.
Proof. induction n as [|n IH]; intros v [|y r]; simpl; auto. Qed.

Lemma sc_erase_new : sc_erase new_sc = new_sc.
Proof. reflexivity. Qed.

Section Reservoir.
  Variable R : Type.
  Variable seed : R.
  Variable next : R -> N * R.

  Definition er (h : scr R) : sc := sc_erase (r_sc R h).
  Definition erase_bins (q : list (bin * scr R)) : list (bin * sc) := map (fun bh => (fst bh, er (snd bh))) q.
  Definition erase_aggr (q : aggr R) : agg := (erase_bins (fst q), snd q).

  (* one Merge: the scalar fields are computed from scalar fields only *)
  Lemma scr_merge_erase : forall h x, er (scr_merge R next h x) = sc_merge (er h) (sc_erase x).
  Proof.
    intros h x. unfold er, scr_merge, sc_merge, sc_erase. simpl.
    destruct (sc_total x =? 0); reflexivity.
  Qed.

  Lemma bupd_r_erase : forall q b x,
    erase_bins (bupd_r R seed next q b x) = bupd (erase_bins q) b (sc_erase x).
  Proof.
    induction q as [|[b0 h] r IH]; intros b x; simpl.
    - unfold er at 1. fold (er (scr_merge R next (new_scr R seed) x)). rewrite scr_merge_erase.
      unfold er, new_scr. simpl r_sc. rewrite sc_erase_new. reflexivity.
    - destruct (bin_eqb b0 b); simpl.
      + rewrite scr_merge_erase. reflexivity.
      + rewrite IH. reflexivity.
  Qed.

  Lemma bins_fold_erase : forall l q,
    erase_bins (fold_left (fun q' bh => bupd_r R seed next q' (fst bh) (snd bh)) l q)
    = fold_left (fun q' bh => bupd q' (fst bh) (snd bh)) (map (fun bh => (fst bh, sc_erase (snd bh))) l) (erase_bins q).
  Proof.
    induction l as [|bh l IH]; intros q; simpl; auto. rewrite IH, bupd_r_erase. reflexivity.
  Qed.

  Lemma agg_merge_r_erase : forall q a,
    erase_aggr (agg_merge_r R seed next q a) = agg_merge (erase_aggr q) (agg_erase a).
  Proof.
    intros [q n] [l m]. unfold erase_aggr, agg_merge_r, agg_merge, agg_erase. simpl.
    rewrite bins_fold_erase. reflexivity.
  Qed.

  Lemma aggs_merge_r_erase : forall dst a,
    map erase_aggr (aggs_merge_r R seed next dst a) = aggs_merge (map erase_aggr dst) (map agg_erase a).
  Proof.
    induction dst as [|d ds IH]; intros [|x xs]; simpl; auto.
    rewrite agg_merge_r_erase, IH. reflexivity.
  Qed.

  Lemma aggs_fold_r_erase : forall l dst,
    map erase_aggr (fold_left (aggs_merge_r R seed next) l dst)
    = fold_left aggs_merge (map (map agg_erase) l) (map erase_aggr dst).
  Proof.
    induction l as [|a l IH]; intros dst; simpl; auto. rewrite IH, aggs_merge_r_erase. reflexivity.
  Qed.

  Lemma map_repeat' : forall {A B} (f : A -> B) x n, map f (repeat x n) = repeat (f x) n.
  Proof. induction n; simpl; auto. now rewrite IHn. Qed.

  (* the scalar view of the real merge = the model merge of the erased answers *)
  Lemma merge_aggs_r_erase : forall sort qs xs rev itv naggs,
    map erase_aggr (merge_aggs_r R seed next xs naggs)
    = x_aggs (merge_rest sort qs (map extra_erase xs) rev itv naggs).
  Proof.
    intros. unfold merge_aggs_r, merge_rest. simpl x_aggs.
    rewrite aggs_fold_r_erase, map_repeat'. unfold erase_aggr at 1. simpl.
    rewrite !map_map. reflexivity.
  Qed.

  (* below the bound the reservoir is the plain concatenation of Model.sc_merge, generator untouched *)
  Lemma fold_insert_below : forall vs s r,
    (N.of_nat (length s + length vs) <= max_samples)%N ->
    fold_left (insert_sample R next) vs (s, r) = (s ++ vs, r).
  Proof.
    induction vs as [|v vs IH]; intros s r H; simpl.
    - now rewrite app_nil_r.
    - unfold insert_sample at 2. simpl fst. simpl snd.
      assert (L : (N.of_nat (length s) <? max_samples)%N = true).
      { apply N.ltb_lt. simpl in H. lia. }
      rewrite L. rewrite IH.
      + now rewrite <- app_assoc.
      + rewrite app_length. simpl in *. lia.
  Qed.

  Lemma scr_merge_below : forall h x,
    (N.of_nat (length (sc_samples (r_sc R h)) + length (sc_samples x)) <= max_samples)%N ->
    scr_merge R next h x = mkScr R (sc_merge (r_sc R h) x) (r_rng R h).
  Proof.
    intros h x H. unfold scr_merge, sc_merge. destruct (sc_total x =? 0); [reflexivity|].
    rewrite fold_insert_below by exact H. reflexivity.
  Qed.

  (* the reservoir never grows beyond the bound *)
  Lemma insert_sample_bound : forall s r v, (N.of_nat (length s) <= max_samples)%N ->
    (N.of_nat (length (fst (insert_sample R next (s, r) v))) <= max_samples)%N.
  Proof.
    intros s r v H. unfold insert_sample. simpl fst. simpl snd.
    destruct (N.ltb_spec (N.of_nat (length s)) max_samples) as [L|L]; simpl.
    - rewrite app_length. simpl. lia.
    - destruct (next r) as [i r']. simpl. now rewrite set_nth_length.
  Qed.
End Reservoir.

(* ---------------------------------------------------------------- erased parts *)
Lemma nonempty_erase : forall ps, nonempty_parts (map sc_erase ps) = map sc_erase (nonempty_parts ps).
Proof.
  induction ps as [|p ps IH]; simpl; auto. unfold nonempty_parts in *. simpl.
  destruct (negb (sc_total p =? 0)); simpl; now rewrite IH.
Qed.

Lemma bin_parts_erase : forall j b xs, bin_parts j b (map extra_erase xs) = map sc_erase (bin_parts j b xs).
Proof.
  intros j b xs. unfold bin_parts. induction xs as [|x xs IH]; simpl; auto.
  rewrite map_app, <- IH. f_equal.
  unfold extra_erase. simpl x_aggs.
  replace (nth j (map agg_erase (x_aggs x)) ([], 0)) with (agg_erase (nth j (x_aggs x) ([], 0)))
    by (symmetry; apply (map_nth agg_erase (x_aggs x) ([], 0) j)).
  destruct (nth j (x_aggs x) ([], 0)) as [q n]. unfold agg_erase. simpl.
  induction q as [|[b0 h] q IHq]; simpl; auto.
  destruct (bin_eqb b0 b); simpl; now rewrite IHq.
Qed.

(* the scalar description of a merged container by the containers of the shards (ProofsAggs.sc_desc
   without the samples) *)
Definition sc_scalar_desc (ps : list sc) (h : sc) : Prop :=
  let ne := nonempty_parts ps in
  sc_total h = zsum (map sc_total ne) /\ sc_sum h = zsum (map sc_sum ne)
  /\ sc_ne h = zsum (map sc_ne ps)
  /\ (Forall (fun p => 0 <= sc_total p) ps ->
      sc_min h = zmin_list (sc_min new_sc) (map sc_min ne) /\ sc_max h = zmax_list (sc_max new_sc) (map sc_max ne)).

Lemma sc_desc_erased : forall ps h, sc_desc (map sc_erase ps) h -> sc_scalar_desc ps h.
Proof.
  intros ps h [A [B [C [_ D]]]]. unfold sc_scalar_desc.
  rewrite nonempty_erase in A, B. rewrite !map_map in A, B, C. simpl in A, B, C.
  split; [exact A|]. split; [exact B|]. split; [exact C|].
  intros F.
  assert (F' : Forall (fun p => 0 <= sc_total p) (map sc_erase ps)).
  { rewrite Forall_forall in *. intros p Hp. apply in_map_iff in Hp.
    destruct Hp as [p' [<- Hp']]. simpl. auto. }
  destruct (D F') as [D1 D2]. rewrite nonempty_erase, !map_map in D1, D2. simpl in D1, D2.
  split; [exact D1 | exact D2].
Qed.

Lemma agg_scalar_exact : forall R seed next sort qs xs rev itv naggs,
  let A := map (erase_aggr R) (merge_aggs_r R seed next xs naggs) in
  A = x_aggs (merge_rest sort qs (map extra_erase xs) rev itv naggs)
  /\ length A = naggs
  /\ forall j, (j < naggs)%nat ->
       snd (nth j A e0) = zsum (map (fun x => snd (nth j (x_aggs x) e0)) xs)
       /\ forall b,
          match bin_parts j b xs with
          | [] => blookup (fst (nth j A e0)) b = None
          | ps => exists h, blookup (fst (nth j A e0)) b = Some h /\ sc_scalar_desc ps h
          end.
Proof.
  intros R seed next sort qs xs rev itv naggs A.
  assert (E : A = x_aggs (merge_rest sort qs (map extra_erase xs) rev itv naggs))
    by (apply merge_aggs_r_erase).
  destruct (aggs_ok sort qs (map extra_erase xs) rev itv naggs) as [L D].
  split; [exact E|]. rewrite E. split; [exact L|].
  intros j Hj. destruct (D j Hj) as [D1 D2]. split.
  - rewrite D1, map_map. f_equal. apply map_ext. intros x. unfold extra_erase. simpl x_aggs.
    replace (nth j (map agg_erase (x_aggs x)) e0) with (agg_erase (nth j (x_aggs x) e0))
      by (symmetry; apply (map_nth agg_erase (x_aggs x) e0 j)).
    destruct (nth j (x_aggs x) e0); reflexivity.
  - intros b. specialize (D2 b). rewrite bin_parts_erase in D2.
    destruct (bin_parts j b xs) as [|p ps] eqn:P; simpl in D2; auto.
    destruct D2 as [h [Hh Hd]]. exists h. split; auto.
    apply (sc_desc_erased (p :: ps) h Hd).
Qed.
