(* C16 — executable model of the proxy read path.
   Mirrors (as of the repaired tree, commit 2959d55 included):
     proxy/search/ingestor.go   searchShard, searchStores, Search (hot -> cold fallback, merge,
                                paginate), groupIDsBySource/FetchDocsStream, lessFuncPosBased
     seq/qpr.go                 MergeQPRs (IDs only: concat, sort.Sort, removeRepetitionsAdvanced, limit)
     proxy/search/merged_docs_iterator.go   mergedDocStream (pairwise), newNMergedStreams,
                                mergedStreamIterator (alignment with fast-forward)
     proxy/search/docs_iterator.go  grpcStreamIterator (a stream = the documents delivered before
                                its terminal event; EOF, a broken stream and the count check all
                                end the stream the same way for the merge, see mergedDocStream.readA)
     storeapi/grpc_search.go    earlierThanOldestFrac (the hot store's refusal predicate)
   sort.Sort is an external library: it enters as a Section variable (any function that returns a
   sorted permutation); the executable instance used by the correspondence run is [isort].
   No proofs in this file. *)
From Coq Require Export List Bool Arith NArith.
Export ListNotations.

(* ------------------------------------------------------------------ identifiers *)
Definition id := (N * N)%type.                 (* seq.ID = (MID, RID) *)
Definition src := nat.                         (* source number of a store *)
Definition ids := (id * src)%type.             (* seq.IDSource without its hint *)

Definition id_eqb (a b : id) : bool := N.eqb (fst a) (fst b) && N.eqb (snd a) (snd b).
(* seq.Less *)
Definition id_ltb (a b : id) : bool :=
  N.ltb (fst a) (fst b) || (N.eqb (fst a) (fst b) && N.ltb (snd a) (snd b)).
(* IDSource.Equal / the map key {ID, Source} *)
Definition key_eqb (a b : ids) : bool := id_eqb (fst a) (fst b) && Nat.eqb (snd a) (snd b).

(* ------------------------------------------------------------------ search: one shard *)
(* what one replica does with a Search call *)
Inductive beh :=
| BOk (l : list id)      (* answers with these IDs (Code = NO_ERROR) *)
| BErr                   (* transport / internal error *)
| BWantsOld              (* hot store: range older than retention (code or legacy message) *)
| BTooManyFrac           (* Code = TOO_MANY_FRACTIONS_HIT *)
| BTooManyUniq.          (* code or legacy message *)

Definition shard := list (src * beh).          (* replicas in the order they are tried *)

Inductive shard_res := SAns (s : src) (l : list id) | SWantsOld | STooManyFrac | SFail.

(* searchShard with ShuffleReplicas = false *)
Fixpoint search_shard (sh : shard) : shard_res :=
  match sh with
  | [] => SFail
  | (s, b) :: r =>
      match b with
      | BOk l => SAns s l
      | BErr => search_shard r
      | BWantsOld => SWantsOld
      | BTooManyFrac => STooManyFrac
      | BTooManyUniq => SFail          (* returned at once as an ordinary shard error *)
      end
  end.

(* ------------------------------------------------------------------ search: one tier *)
Inductive tier_res :=
| TOk (partial : bool) (qs : list (src * list id))
| TWantsOld | TTooManyFrac | TFail.

Definition is_wo (r : shard_res) := match r with SWantsOld => true | _ => false end.
Definition is_tmf (r : shard_res) := match r with STooManyFrac => true | _ => false end.
Definition is_fail (r : shard_res) := match r with SFail => true | _ => false end.
Definition answers (rs : list shard_res) : list (src * list id) :=
  flat_map (fun r => match r with SAns s l => [(s, l)] | _ => [] end) rs.

(* searchStores. Shard answers arrive in scheduler order; the first special answer seen wins,
   so when one shard says wants-old and another too-many-fractions either may be returned:
   [prio] is that scheduling choice. Everything else does not depend on the arrival order. *)
Definition search_stores (prio : bool) (shards : list shard) : tier_res :=
  let rs := map search_shard shards in
  let wo := existsb is_wo rs in
  let tmf := existsb is_tmf rs in
  if wo && tmf then (if prio then TWantsOld else TTooManyFrac)
  else if wo then TWantsOld
  else if tmf then TTooManyFrac
  else
    let qs := answers rs in
    if existsb is_fail rs then
      match qs with [] => TFail | _ => TOk true qs end
    else TOk false qs.

(* ------------------------------------------------------------------ merge of the answers *)
(* a comes before b in the response: descending by default, ascending when reversed *)
Definition before (rev : bool) (a b : id) : bool := if rev then id_ltb a b else id_ltb b a.
Definition lessf (rev : bool) (a b : ids) : bool := before rev (fst a) (fst b).

Definition tag (q : src * list id) : list ids := map (fun i => (i, fst q)) (snd q).

(* removeRepetitionsAdvanced: keep the first element of every run of equal IDs *)
Fixpoint dedup_from (last : ids) (l : list ids) : list ids :=
  match l with
  | [] => []
  | y :: r => if id_eqb (fst last) (fst y) then dedup_from last r else y :: dedup_from y r
  end.
Definition dedup (l : list ids) : list ids :=
  match l with [] => [] | x :: r => x :: dedup_from x r end.

(* paginateIDs *)
Definition paginate (l : list ids) (off size : nat) : list ids := firstn size (skipn off l).

Inductive errk := EWantsOld | ETooManyFrac | EOther | EFetch.
Inductive sres := SErr (k : errk) | SOk (partial : bool) (l : list ids).

Section WithSort.
  (* sort.Sort(dst.IDs) / sort.Sort(sort.Reverse(dst.IDs)), given its Less *)
  Variable sort : (ids -> ids -> bool) -> list ids -> list ids.

  (* seq.MergeQPRs restricted to IDs *)
  Definition merge_qprs (qs : list (src * list id)) (limit : nat) (rev : bool) : list ids :=
    firstn limit (dedup (sort (lessf rev) (flat_map tag qs))).

  Definition finish (t : tier_res) (off size : nat) (rev : bool) : sres :=
    match t with
    | TOk p qs => SOk p (paginate (merge_qprs qs (off + size) rev) off size)
    | TWantsOld => SErr EWantsOld
    | TTooManyFrac => SErr ETooManyFrac
    | TFail => SErr EOther
    end.

  (* Ingestor.Search up to (not including) the fetch *)
  Definition search (p1 p2 : bool) (hot hotread cold : list shard) (off size : nat) (rev : bool) : sres :=
    let h := match hotread with [] => hot | _ => hotread end in
    match search_stores p1 h with
    | TWantsOld =>
        match cold with
        | [] => SErr EWantsOld
        | _ => finish (search_stores p2 cold) off size rev
        end
    | t => finish t off size rev
    end.

  (* ... and the fetch start: every Fetch call failing turns the whole search into an error.
     [ffail] = sources whose Fetch call returns an error. *)
  Definition search_full (p1 p2 : bool) (hot hotread cold : list shard) (off size : nat) (rev : bool)
             (ffail : list src) : sres :=
    match search p1 p2 hot hotread cold off size rev with
    | SOk p (x :: l) =>
        if forallb (fun k => existsb (Nat.eqb (snd k)) ffail) (x :: l) then SErr EFetch else SOk p (x :: l)
    | r => r
    end.
End WithSort.

(* executable stand-in for sort.Sort: insertion sort (stable; the real one is not — the theorems
   hold for every sorting function, and the correspondence compares sources only for validity) *)
Fixpoint insert (lt : ids -> ids -> bool) (x : ids) (l : list ids) : list ids :=
  match l with
  | [] => [x]
  | y :: r => if lt y x then y :: insert lt x r else x :: y :: r
  end.
Definition isort (lt : ids -> ids -> bool) (l : list ids) : list ids := fold_right (insert lt) [] l.

(* ------------------------------------------------------------------ fetch *)
Definition sdoc := (id * N)%type.              (* a document as sent by a store: ID + payload tag, 0 = empty *)
Definition doc := (ids * N)%type.              (* StreamingDoc: ID, Source, Data *)

(* lessFuncPosBased: positions keyed by {ID, Source}; a later duplicate overwrites an earlier one *)
Fixpoint pos_from (l : list ids) (k : ids) (i : nat) : option nat :=
  match l with
  | [] => None
  | x :: r =>
      match pos_from r k (S i) with
      | Some p => Some p
      | None => if key_eqb x k then Some i else None
      end
  end.
Definition pos (req : list ids) (k : ids) : option nat := pos_from req k 0.

Definition less (req : list ids) (a b : ids) : bool :=
  match pos req a, pos req b with
  | Some pa, Some pb => Nat.ltb pa pb
  | None, _ => true           (* a unknown (also when both are): goes first, is skipped later *)
  | Some _, None => false
  end.

(* mergedDocStream: whichever head is smaller; B only if strictly less than A *)
Fixpoint merge2 (lt : ids -> ids -> bool) (A B : list doc) {struct A} : list doc :=
  let fix aux (B : list doc) : list doc :=
    match A, B with
    | [], _ => B
    | _, [] => A
    | a :: A', b :: B' => if lt (fst b) (fst a) then b :: aux B' else a :: merge2 lt A' B
    end in
  aux B.

(* newNMergedStreams: ((s0 + s1) + s2) + ... *)
Definition nmerge (lt : ids -> ids -> bool) (streams : list (list doc)) : list doc :=
  match streams with
  | [] => []
  | s0 :: r => fold_left (merge2 lt) r s0
  end.

(* grpcStreamIterator.Next/unpackDoc: the source of the stream is attached to each document *)
Definition attach (st : src * list sdoc) : list doc := map (fun d => ((fst d, fst st), snd d)) (snd st).

(* the fast-forward loop of mergedStreamIterator.Next *)
Fixpoint drop_ff (lt : ids -> ids -> bool) (cur : ids) (M : list doc) : list doc :=
  match M with
  | [] => []
  | d :: M' => if lt (fst d) cur then drop_ff lt cur M' else M
  end.

(* mergedStreamIterator.Next pulled len(ids) times *)
Fixpoint align (lt : ids -> ids -> bool) (req : list ids) (M : list doc) : list doc :=
  match req with
  | [] => []
  | cur :: r =>
      match drop_ff lt cur M with
      | [] => (cur, 0%N) :: align lt r []
      | d :: M2 =>
          if key_eqb cur (fst d) then d :: align lt r M2
          else (cur, 0%N) :: align lt r (d :: M2)
      end
  end.

(* FetchDocsStream + reading one document per requested ID.
   [streams]: the streams of the sources whose Fetch call succeeded, in call order. *)
Definition fetch (req : list ids) (streams : list (src * list sdoc)) : list doc :=
  align (less req) req (nmerge (less req) (map attach streams)).

(* ------------------------------------------------------------------ the code before 2959d55 *)
(* lessFuncPosBased_v0: panics (None) when both are unknown; the requested IDs were looked up
   WITH their hint although the table is keyed without: [hinted] = the requested IDs carry a
   non-empty hint (real stores always set it), so the current ID is never found. *)
Definition less_v0 (pa pb : option nat) : option bool :=
  match pa, pb with
  | Some a, Some b => Some (Nat.ltb a b)
  | None, None => None
  | None, _ => Some true
  | Some _, None => Some false
  end.

Fixpoint merge2_v0 (req : list ids) (A B : list doc) {struct A} : option (list doc) :=
  let fix aux (B : list doc) : option (list doc) :=
    match A, B with
    | [], _ => Some B
    | _, [] => Some A
    | a :: A', b :: B' =>
        match less_v0 (pos req (fst b)) (pos req (fst a)) with
        | None => None
        | Some true => option_map (cons b) (aux B')
        | Some false => option_map (cons a) (merge2_v0 req A' B)
        end
    end in
  aux B.

Fixpoint drop_ff_v0 (hinted : bool) (req : list ids) (cur : ids) (M : list doc) : option (list doc) :=
  match M with
  | [] => Some []
  | d :: M' =>
      match less_v0 (pos req (fst d)) (if hinted then None else pos req cur) with
      | None => None
      | Some true => drop_ff_v0 hinted req cur M'
      | Some false => Some M
      end
  end.

Fixpoint align_v0 (hinted : bool) (full req : list ids) (M : list doc) : option (list doc) :=
  match req with
  | [] => Some []
  | cur :: r =>
      match drop_ff_v0 hinted full cur M with
      | None => None
      | Some [] => option_map (cons (cur, 0%N)) (align_v0 hinted full r [])
      | Some (d :: M2) =>
          if key_eqb cur (fst d) then option_map (cons d) (align_v0 hinted full r M2)
          else option_map (cons (cur, 0%N)) (align_v0 hinted full r (d :: M2))
      end
  end.

(* two streams at most (enough for the witnesses); None = panic in the proxy handler *)
Definition fetch_v0 (hinted : bool) (req : list ids) (s0 s1 : src * list sdoc) : option (list doc) :=
  match merge2_v0 req (attach s0) (attach s1) with
  | None => None
  | Some M => align_v0 hinted req req M
  end.

(* ------------------------------------------------------------------ hot store refusal *)
(* storeapi Search: StoreMode hot && fracManager.Mature() && earlierThanOldestFrac(from) *)
Definition earlier_than_oldest (oldest_ct from : N) : bool := N.eqb oldest_ct 0 || N.ltb from oldest_ct.
Definition hot_refuses (mature : bool) (oldest_ct from : N) : bool := mature && earlier_than_oldest oldest_ct from.
