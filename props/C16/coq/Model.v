(* C16 — executable model of the proxy read path.
   Mirrors (as of the repaired tree, commit 2959d55 included):
     proxy/search/ingestor.go   searchShard, searchStores, Search (hot -> cold fallback, merge,
                                paginate), groupIDsBySource/FetchDocsStream, lessFuncPosBased
     seq/qpr.go                 MergeQPRs (IDs only: concat, sort.Sort, removeRepetitionsAdvanced, limit)
     proxy/search/merged_docs_iterator.go   mergedDocStream (pairwise), newNMergedStreams,
                                mergedStreamIterator (alignment with fast-forward)
     proxy/search/docs_iterator.go  grpcStreamIterator (a stream = the documents delivered before
                                its terminal event; EOF, a broken stream and the count check all
                                end the stream the same way for the merge, see mergedDocStream.readA)
     storeapi/grpc_search.go    earlierThanOldestFrac (the hot store's refusal predicate)
     seq/qpr.go                 MergeQPRs beyond IDs: Total with the duplicate repair, histogram buckets,
                                AggregatableSamples.Merge / SamplesContainer.Merge, Errors (store soft errors)
     proxyapi/grpc_v1.go, grpc_search.go, grpc_complex_search.go   doSearch / processSearchErrors /
                                parseProxyError / shouldHaveResponse: search outcome -> API answer
     proxy/search/ingestor.go   Documents / expandIDsBySources; docs_iterator.go uniqueIDIterator
   sort.Sort is an external library: it enters as a Section variable (any function that returns a
   sorted permutation); the executable instance used by the correspondence run is [isort].
   No proofs in this file. *)
From Coq Require Export List Bool Arith NArith ZArith.
Export ListNotations.

(* ------------------------------------------------------------------ identifiers *)
Definition id := (N * N)%type.                 (* seq.ID = (MID, RID) *)
Definition src := nat.                         (* source number of a store *)
Definition ids := (id * src)%type.             (* seq.IDSource without its hint *)

Definition id_eqb (a b : id) : bool := N.eqb (fst a) (fst b) && N.eqb (snd a) (snd b).
(* seq.Less *)
Definition id_ltb (a b : id) : bool :=
  N.ltb (fst a) (fst b) || (N.eqb (fst a) (fst b) && N.ltb (snd a) (snd b)).
(* IDSource.Equal / the map key {ID, Source} *)
Definition key_eqb (a b : ids) : bool := id_eqb (fst a) (fst b) && Nat.eqb (snd a) (snd b).

(* ------------------------------------------------------------------ the rest of a store answer *)
(* uint64 arithmetic of Total and of the histogram counters (the duplicate repair decrements) *)
Definition wrap64 (z : Z) : Z := (z mod 18446744073709551616)%Z.

Definition bin := (N * N)%type.               (* seq.AggBin: MID, Token (tokens numbered by the harness) *)
(* seq.SamplesContainer; values are integers (exact in float64) *)
Record sc := mkSc { sc_total : Z; sc_sum : Z; sc_min : Z; sc_max : Z; sc_ne : Z; sc_samples : list Z }.
Definition agg := (list (bin * sc) * Z)%type. (* AggregatableSamples: SamplesByBin (distinct keys), NotExists *)
(* what a store answers besides IDs: Total, Histogram, Aggs, number of soft errors (resp.Errors) *)
Record extra := mkX { x_total : Z; x_hist : list (N * Z); x_aggs : list agg; x_errs : nat }.
Definition X0 : extra := mkX 0 [] [] 0.

(* ------------------------------------------------------------------ search: one shard *)
(* what one replica does with a Search call *)
Inductive beh :=
| BOk (l : list id) (x : extra)   (* answers with these IDs (Code = NO_ERROR) and the rest *)
| BErr                   (* transport / internal error *)
| BWantsOld              (* hot store: range older than retention (code or legacy message) *)
| BTooManyFrac           (* Code = TOO_MANY_FRACTIONS_HIT *)
| BTooManyUniq.          (* code or legacy message *)

Definition shard := list (src * beh).          (* replicas in the order they are tried *)

Inductive shard_res := SAns (s : src) (l : list id) (x : extra) | SWantsOld | STooManyFrac | SFail.

(* searchShard with ShuffleReplicas = false *)
Fixpoint search_shard (sh : shard) : shard_res :=
  match sh with
  | [] => SFail
  | (s, b) :: r =>
      match b with
      | BOk l x => SAns s l x
      | BErr => search_shard r
      | BWantsOld => SWantsOld
      | BTooManyFrac => STooManyFrac
      | BTooManyUniq => SFail          (* returned at once as an ordinary shard error *)
      end
  end.

(* ------------------------------------------------------------------ search: one tier *)
Inductive tier_res :=
| TOk (partial : bool) (qs : list (src * list id)) (xs : list extra)   (* xs: the rest of the same answers *)
| TWantsOld | TTooManyFrac | TFail.

Definition is_wo (r : shard_res) := match r with SWantsOld => true | _ => false end.
Definition is_tmf (r : shard_res) := match r with STooManyFrac => true | _ => false end.
Definition is_fail (r : shard_res) := match r with SFail => true | _ => false end.
Definition answers (rs : list shard_res) : list (src * list id) :=
  flat_map (fun r => match r with SAns s l _ => [(s, l)] | _ => [] end) rs.
Definition extras (rs : list shard_res) : list extra :=
  flat_map (fun r => match r with SAns _ _ x => [x] | _ => [] end) rs.

(* searchStores. Shard answers arrive in scheduler order; the first special answer seen wins,
   so when one shard says wants-old and another too-many-fractions either may be returned:
   [prio] is that scheduling choice. Everything else does not depend on the arrival order. *)
Definition search_stores (prio : bool) (shards : list shard) : tier_res :=
  let rs := map search_shard shards in
  let wo := existsb is_wo rs in
  let tmf := existsb is_tmf rs in
  if wo && tmf then (if prio then TWantsOld else TTooManyFrac)
  else if wo then TWantsOld
  else if tmf then TTooManyFrac
  else
    let qs := answers rs in
    if existsb is_fail rs then
      match qs with [] => TFail | _ => TOk true qs (extras rs) end
    else TOk false qs (extras rs).

(* ------------------------------------------------------------------ merge of the answers *)
(* a comes before b in the response: descending by default, ascending when reversed *)
Definition before (rev : bool) (a b : id) : bool := if rev then id_ltb a b else id_ltb b a.
Definition lessf (rev : bool) (a b : ids) : bool := before rev (fst a) (fst b).

Definition tag (q : src * list id) : list ids := map (fun i => (i, fst q)) (snd q).

(* removeRepetitionsAdvanced: keep the first element of every run of equal IDs *)
Fixpoint dedup_from (last : ids) (l : list ids) : list ids :=
  match l with
  | [] => []
  | y :: r => if id_eqb (fst last) (fst y) then dedup_from last r else y :: dedup_from y r
  end.
Definition dedup (l : list ids) : list ids :=
  match l with [] => [] | x :: r => x :: dedup_from x r end.

(* paginateIDs *)
Definition paginate (l : list ids) (off size : nat) : list ids := firstn size (skipn off l).

(* the duplicates removeRepetitionsAdvanced drops (each triggers one repair) *)
Fixpoint dups_from (last : ids) (l : list ids) : list ids :=
  match l with
  | [] => []
  | y :: r => if id_eqb (fst last) (fst y) then y :: dups_from last r else dups_from y r
  end.
Definition dups (l : list ids) : list ids :=
  match l with [] => [] | x :: r => dups_from x r end.

(* histogram: map[MID]uint64 as an association list *)
Fixpoint hlookup (h : list (N * Z)) (k : N) : Z :=
  match h with
  | [] => 0%Z
  | (k', c) :: r => if N.eqb k' k then c else hlookup r k
  end.
Fixpoint hupd (h : list (N * Z)) (k : N) (f : Z -> Z) : list (N * Z) :=
  match h with
  | [] => [(k, f 0%Z)]
  | (k', c) :: r => if N.eqb k' k then (k', f c) :: r else (k', c) :: hupd r k f
  end.
(* dst.Histogram[time] += count *)
Definition hist_add (dst src : list (N * Z)) : list (N * Z) :=
  fold_left (fun d kc => hupd d (fst kc) (fun c => wrap64 (c + snd kc))) src dst.
(* removeHistogramRepetition: histogram[mid - mid % interval]-- for every dropped duplicate *)
Definition bucket_of (itv : N) (i : id) : N := (fst i - fst i mod itv)%N.
Definition hist_repair (itv : N) (reps : list ids) (h : list (N * Z)) : list (N * Z) :=
  if N.eqb itv 0 then h
  else fold_left (fun d k => hupd d (bucket_of itv (fst k)) (fun c => wrap64 (c - 1))) reps h.

(* SamplesContainer: NewSamplesContainers and Merge (the reservoir replacement above 8096 samples
   is not modelled: the harness stays below) *)
Definition new_sc : sc := mkSc 0 0 9223372036854775808 (-9223372036854775808) 0 [].  (* float64(math.MaxInt64) = 2^63 *)
Definition sc_merge (h x : sc) : sc :=
  let ne := (sc_ne h + sc_ne x)%Z in
  if Z.eqb (sc_total x) 0 then mkSc (sc_total h) (sc_sum h) (sc_min h) (sc_max h) ne (sc_samples h)
  else mkSc (sc_total h + sc_total x) (sc_sum h + sc_sum x)
            (if Z.eqb (sc_total h) 0 then sc_min x else Z.min (sc_min h) (sc_min x))
            (if Z.eqb (sc_total h) 0 then sc_max x else Z.max (sc_max h) (sc_max x))
            ne (sc_samples h ++ sc_samples x).
Definition bin_eqb (a b : bin) : bool := N.eqb (fst a) (fst b) && N.eqb (snd a) (snd b).
Fixpoint blookup (q : list (bin * sc)) (b : bin) : option sc :=
  match q with
  | [] => None
  | (b', h) :: r => if bin_eqb b' b then Some h else blookup r b
  end.
Fixpoint bupd (q : list (bin * sc)) (b : bin) (x : sc) : list (bin * sc) :=
  match q with
  | [] => [(b, sc_merge new_sc x)]
  | (b', h) :: r => if bin_eqb b' b then (b', sc_merge h x) :: r else (b', h) :: bupd r b x
  end.
(* AggregatableSamples.Merge *)
Definition agg_merge (q a : agg) : agg :=
  (fold_left (fun q' bh => bupd q' (fst bh) (snd bh)) (fst a) (fst q), (snd q + snd a)%Z).
(* dst.Aggs[i].Merge(qpr.Aggs[i]) for i < len(qpr.Aggs); dst.Aggs has len(sr.AggQ) entries (a store
   answering with more aggregations than requested makes the real code index out of range: not generated) *)
Fixpoint aggs_merge (dst a : list agg) : list agg :=
  match dst, a with
  | d :: ds, x :: xs => agg_merge d x :: aggs_merge ds xs
  | ds, [] => ds
  | [], _ :: _ => []
  end.

Inductive errk := EWantsOld | ETooManyFrac | EOther | EFetch.
Inductive sres := SErr (k : errk) | SOk (partial : bool) (l : list ids) (r : extra).

Section WithSort.
  (* sort.Sort(dst.IDs) / sort.Sort(sort.Reverse(dst.IDs)), given its Less *)
  Variable sort : (ids -> ids -> bool) -> list ids -> list ids.

  (* seq.MergeQPRs restricted to IDs *)
  Definition merge_qprs (qs : list (src * list id)) (limit : nat) (rev : bool) : list ids :=
    firstn limit (dedup (sort (lessf rev) (flat_map tag qs))).

  (* seq.MergeQPRs, everything else: [xs] in arrival order; itv = histInterval (0 = none),
     naggs = len(sr.AggQ) *)
  Definition merge_rest (qs : list (src * list id)) (xs : list extra) (rev : bool) (itv : N) (naggs : nat) : extra :=
    let reps := dups (sort (lessf rev) (flat_map tag qs)) in
    let T := fold_left (fun t x => wrap64 (t + x_total x)) xs 0%Z in
    mkX (if Z.ltb 0 T then wrap64 (T - Z.of_nat (length reps)) else T)
        (hist_repair itv reps (fold_left hist_add (map x_hist xs) []))
        (fold_left aggs_merge (map x_aggs xs) (repeat ([], 0%Z) naggs))
        (fold_left (fun n x => n + x_errs x) xs 0).

  Definition finish (t : tier_res) (off size : nat) (rev : bool) (itv : N) (naggs : nat) : sres :=
    match t with
    | TOk p qs xs => SOk p (paginate (merge_qprs qs (off + size) rev) off size) (merge_rest qs xs rev itv naggs)
    | TWantsOld => SErr EWantsOld
    | TTooManyFrac => SErr ETooManyFrac
    | TFail => SErr EOther
    end.

  (* Ingestor.Search up to (not including) the fetch *)
  Definition search (p1 p2 : bool) (hot hotread cold : list shard) (off size : nat) (rev : bool)
             (itv : N) (naggs : nat) : sres :=
    let h := match hotread with [] => hot | _ => hotread end in
    match search_stores p1 h with
    | TWantsOld =>
        match cold with
        | [] => SErr EWantsOld
        | _ => finish (search_stores p2 cold) off size rev itv naggs
        end
    | t => finish t off size rev itv naggs
    end.

  (* ... and the fetch start: every Fetch call failing turns the whole search into an error.
     [ffail] = sources whose Fetch call returns an error. *)
  Definition search_full (p1 p2 : bool) (hot hotread cold : list shard) (off size : nat) (rev : bool)
             (itv : N) (naggs : nat) (ffail : list src) : sres :=
    match search p1 p2 hot hotread cold off size rev itv naggs with
    | SOk p (x :: l) r =>
        if forallb (fun k => existsb (Nat.eqb (snd k)) ffail) (x :: l) then SErr EFetch else SOk p (x :: l) r
    | r => r
    end.
End WithSort.

(* ------------------------------------------------------------------ a proxy serves a SEQUENCE of searches *)
(* one search as the proxy sees it: what every replica does with THIS search, the request, the
   scheduling choices, the stores whose Fetch call fails *)
Record sreq := mkReq {
  q_p1 : bool; q_p2 : bool; q_hot : list shard; q_hotread : list shard; q_cold : list shard;
  q_off : nat; q_size : nat; q_rev : bool; q_itv : N; q_naggs : nat; q_ffail : list src }.

Section Sequence.
  Variable sort : (ids -> ids -> bool) -> list ids -> list ids.

  Definition search_req (q : sreq) : sres :=
    search_full sort (q_p1 q) (q_p2 q) (q_hot q) (q_hotread q) (q_cold q) (q_off q) (q_size q) (q_rev q)
                (q_itv q) (q_naggs q) (q_ffail q).

  (* search.Ingestor keeps nothing from one search to the next: config, clients and the source tables
     are fixed at construction (NewIngestor); Search / searchStores / searchShard / FetchDocsStream only
     use locals. The state of the proxy between searches is therefore trivial. *)
  Definition pstate := unit.
  Definition proxy_step (st : pstate) (q : sreq) : pstate * sres := (st, search_req q).
  Fixpoint proxy_run (st : pstate) (qs : list sreq) : list sres :=
    match qs with
    | [] => []
    | q :: r => let (st', o) := proxy_step st q in o :: proxy_run st' r
    end.
End Sequence.

(* the variant of a seeded regression, kept for its refutation: searchShard remembers per shard the
   position of the replica that answered last and starts the next search there, never wrapping back
   to earlier replicas. One tier; state = start position of every shard. *)
Fixpoint answer_pos (sh : shard) : option nat :=
  match sh with
  | [] => None
  | (_, b) :: r => match b with BOk _ _ => Some 0 | BErr => option_map S (answer_pos r) | _ => None end
  end.
Fixpoint sticky_shards (starts : list nat) (shards : list shard) : list shard :=
  match shards with
  | [] => []
  | sh :: r => skipn (hd 0 starts) sh :: sticky_shards (tl starts) r
  end.
Fixpoint sticky_next (starts : list nat) (shards : list shard) : list nat :=
  match shards with
  | [] => []
  | sh :: r =>
      let st := hd 0 starts in
      (match answer_pos (skipn st sh) with Some k => st + k | None => st end) :: sticky_next (tl starts) r
  end.
Fixpoint sticky_run (prio : bool) (starts : list nat) (qs : list (list shard)) : list tier_res :=
  match qs with
  | [] => []
  | shards :: r => search_stores prio (sticky_shards starts shards) :: sticky_run prio (sticky_next starts shards) r
  end.

(* ------------------------------------------------------------------ proxyapi: outcome -> API answer *)
(* doSearch + Search/ComplexSearch after the request validation (size > 0 etc.):
   parseProxyError (too many fractions -> response carrying only that error),
   ErrPartialResponse -> the response with code PARTIAL_RESPONSE and partial_response = true
   (store soft errors are NOT looked at in this case),
   processSearchErrors (no error but some store reported a soft error -> gRPC Internal, the data is
   dropped; wants-old -> InvalidArgument; anything else -> Internal). *)
Inductive grpc_code := GInvalidArgument | GInternal.
Inductive ecode := CNo | CPartial.
Inductive api :=
| AErr (c : grpc_code)                 (* the handler returns a gRPC error *)
| AOnlyError                           (* response with error.code = TOO_MANY_FRACTIONS_HIT, nothing else *)
| AResp (partial_response : bool) (code : ecode) (l : list ids) (r : extra).

Definition api_of (r : sres) : api :=
  match r with
  | SErr ETooManyFrac => AOnlyError
  | SErr EWantsOld => AErr GInvalidArgument
  | SErr EOther | SErr EFetch => AErr GInternal
  | SOk true l x => AResp true CPartial l x
  | SOk false l x => if Nat.eqb (x_errs x) 0 then AResp false CNo l x else AErr GInternal
  end.

(* executable stand-in for sort.Sort: insertion sort (stable; the real one is not — the theorems
   hold for every sorting function, and the correspondence compares sources only for validity) *)
Fixpoint insert (lt : ids -> ids -> bool) (x : ids) (l : list ids) : list ids :=
  match l with
  | [] => [x]
  | y :: r => if lt y x then y :: insert lt x r else x :: y :: r
  end.
Definition isort (lt : ids -> ids -> bool) (l : list ids) : list ids := fold_right (insert lt) [] l.

(* ------------------------------------------------------------------ fetch *)
Definition sdoc := (id * N)%type.              (* a document as sent by a store: ID + payload tag, 0 = empty *)
Definition doc := (ids * N)%type.              (* StreamingDoc: ID, Source, Data *)

(* lessFuncPosBased: positions keyed by {ID, Source}; a later duplicate overwrites an earlier one *)
Fixpoint pos_from (l : list ids) (k : ids) (i : nat) : option nat :=
  match l with
  | [] => None
  | x :: r =>
      match pos_from r k (S i) with
      | Some p => Some p
      | None => if key_eqb x k then Some i else None
      end
  end.
Definition pos (req : list ids) (k : ids) : option nat := pos_from req k 0.

Definition less (req : list ids) (a b : ids) : bool :=
  match pos req a, pos req b with
  | Some pa, Some pb => Nat.ltb pa pb
  | None, _ => true           (* a unknown (also when both are): goes first, is skipped later *)
  | Some _, None => false
  end.

(* mergedDocStream: whichever head is smaller; B only if strictly less than A *)
Fixpoint merge2 (lt : ids -> ids -> bool) (A B : list doc) {struct A} : list doc :=
  let fix aux (B : list doc) : list doc :=
    match A, B with
    | [], _ => B
    | _, [] => A
    | a :: A', b :: B' => if lt (fst b) (fst a) then b :: aux B' else a :: merge2 lt A' B
    end in
  aux B.

(* newNMergedStreams: ((s0 + s1) + s2) + ... *)
Definition nmerge (lt : ids -> ids -> bool) (streams : list (list doc)) : list doc :=
  match streams with
  | [] => []
  | s0 :: r => fold_left (merge2 lt) r s0
  end.

(* grpcStreamIterator.Next/unpackDoc: the source of the stream is attached to each document *)
Definition attach (st : src * list sdoc) : list doc := map (fun d => ((fst d, fst st), snd d)) (snd st).

(* the fast-forward loop of mergedStreamIterator.Next *)
Fixpoint drop_ff (lt : ids -> ids -> bool) (cur : ids) (M : list doc) : list doc :=
  match M with
  | [] => []
  | d :: M' => if lt (fst d) cur then drop_ff lt cur M' else M
  end.

(* mergedStreamIterator.Next pulled len(ids) times *)
Fixpoint align (lt : ids -> ids -> bool) (req : list ids) (M : list doc) : list doc :=
  match req with
  | [] => []
  | cur :: r =>
      match drop_ff lt cur M with
      | [] => (cur, 0%N) :: align lt r []
      | d :: M2 =>
          if key_eqb cur (fst d) then d :: align lt r M2
          else (cur, 0%N) :: align lt r (d :: M2)
      end
  end.

(* FetchDocsStream + reading one document per requested ID.
   [streams]: the streams of the sources whose Fetch call succeeded, in call order. *)
Definition fetch (req : list ids) (streams : list (src * list sdoc)) : list doc :=
  align (less req) req (nmerge (less req) (map attach streams)).

(* ------------------------------------------------------------------ Documents (fetch by ID) *)
(* expandIDsBySources: every requested ID once per source; the order of the sources inside one ID's
   group is a map iteration order, so it is part of the input: groups = [(id, sources in that order)] *)
Definition expand (groups : list (id * list src)) : list ids :=
  flat_map (fun g => map (fun s => (fst g, s)) (snd g)) groups.

(* uniqueIDIterator: one document per run of consecutive documents with the same ID: the last
   non-empty one of the run, or the run's first document when all are empty *)
Definition is_empty (d : doc) : bool := N.eqb (snd d) 0.
Fixpoint uniq_go (prev found : doc) (l : list doc) : list doc :=
  match l with
  | [] => [found]
  | d :: r =>
      if id_eqb (fst (fst d)) (fst (fst prev)) then uniq_go d (if is_empty d then found else d) r
      else found :: uniq_go d d r
  end.
Definition uniq (l : list doc) : list doc :=
  match l with [] => [] | d :: r => uniq_go d d r end.

(* Ingestor.Documents read to the end *)
Definition documents (groups : list (id * list src)) (streams : list (src * list sdoc)) : list doc :=
  uniq (fetch (expand groups) streams).

(* ------------------------------------------------------------------ the code before 2959d55 *)
(* lessFuncPosBased_v0: panics (None) when both are unknown; the requested IDs were looked up
   WITH their hint although the table is keyed without: [hinted] = the requested IDs carry a
   non-empty hint (real stores always set it), so the current ID is never found. *)
Definition less_v0 (pa pb : option nat) : option bool :=
  match pa, pb with
  | Some a, Some b => Some (Nat.ltb a b)
  | None, None => None
  | None, _ => Some true
  | Some _, None => Some false
  end.

Fixpoint merge2_v0 (req : list ids) (A B : list doc) {struct A} : option (list doc) :=
  let fix aux (B : list doc) : option (list doc) :=
    match A, B with
    | [], _ => Some B
    | _, [] => Some A
    | a :: A', b :: B' =>
        match less_v0 (pos req (fst b)) (pos req (fst a)) with
        | None => None
        | Some true => option_map (cons b) (aux B')
        | Some false => option_map (cons a) (merge2_v0 req A' B)
        end
    end in
  aux B.

Fixpoint drop_ff_v0 (hinted : bool) (req : list ids) (cur : ids) (M : list doc) : option (list doc) :=
  match M with
  | [] => Some []
  | d :: M' =>
      match less_v0 (pos req (fst d)) (if hinted then None else pos req cur) with
      | None => None
      | Some true => drop_ff_v0 hinted req cur M'
      | Some false => Some M
      end
  end.

Fixpoint align_v0 (hinted : bool) (full req : list ids) (M : list doc) : option (list doc) :=
  match req with
  | [] => Some []
  | cur :: r =>
      match drop_ff_v0 hinted full cur M with
      | None => None
      | Some [] => option_map (cons (cur, 0%N)) (align_v0 hinted full r [])
      | Some (d :: M2) =>
          if key_eqb cur (fst d) then option_map (cons d) (align_v0 hinted full r M2)
          else option_map (cons (cur, 0%N)) (align_v0 hinted full r (d :: M2))
      end
  end.

(* two streams at most (enough for the witnesses); None = panic in the proxy handler *)
Definition fetch_v0 (hinted : bool) (req : list ids) (s0 s1 : src * list sdoc) : option (list doc) :=
  match merge2_v0 req (attach s0) (attach s1) with
  | None => None
  | Some M => align_v0 hinted req req M
  end.

(* ------------------------------------------------------------------ hot store refusal *)
(* storeapi Search: StoreMode hot && fracManager.Mature() && earlierThanOldestFrac(from) *)
Definition earlier_than_oldest (oldest_ct from : N) : bool := N.eqb oldest_ct 0 || N.ltb from oldest_ct.
Definition hot_refuses (mature : bool) (oldest_ct from : N) : bool := mature && earlier_than_oldest oldest_ct from.
