(* C16 — the content of a response given under a request context: the timed search hands exactly the
   answers it received to the same merge / paginate code, so the theorems about the untimed search
   (page, sources, total, histogram, aggregations) hold for it. *)
From Coq Require Import List Bool Arith NArith ZArith Lia.
From C16 Require Import Model ModelExt ModelDeadline CaseDefs Proofs ProofsDeadline.
Import ListNotations.

Lemma tfinish_ok : forall sort d t tend off size rev itv naggs fetch gap ffail p l x,
  tfinish sort d t tend off size rev itv naggs fetch gap ffail = SOk p l x ->
  exists qs xs, t = TOk p qs xs
    /\ l = paginate (merge_qprs sort qs (off + size) rev) off size
    /\ x = merge_rest sort qs xs rev itv naggs
    /\ (fetch = true -> l <> [] -> cancelled d (tend + gap) = false).
Proof.
  intros sort d t tend off size rev itv naggs fetch gap ffail p l x H. unfold tfinish in H.
  destruct t as [p' qs xs| | |]; simpl in H; try discriminate.
  exists qs, xs.
  destruct (paginate (merge_qprs sort qs (off + size) rev) off size) as [|k r] eqn:E.
  - inversion H; subst. repeat split; auto. intros _ N. congruence.
  - destruct fetch.
    + destruct (cancelled d (tend + gap)) eqn:C; [discriminate|].
      match type of H with context [if ?c then _ else _] => destruct c end; [discriminate|].
      inversion H; subst. repeat split; auto.
    + inversion H; subst. repeat split; auto. intros N; discriminate.
Qed.

Theorem deadline_response_content : forall sort, sort_ok sort ->
  forall p1 p2 d hot hotread cold off size rev itv naggs fetch gap ffail p l x,
  tsearch sort p1 p2 d hot hotread cold off size rev itv naggs fetch gap ffail = TS (SOk p l x) ->
  exists t0 tier prio tend qs xs,
    deciding_tier p1 d hot hotread cold = Some (t0, tier)
    /\ tsearch_stores prio d t0 tier = TT (TOk p qs xs) tend
    /\ page_ok rev (flat_map snd qs) off size (map fst l) = true /\ sources_ok qs l = true
    /\ rest_desc itv naggs qs xs x
    /\ (fetch = true -> l <> [] -> cancelled d (tend + gap) = false).
Proof.
  intros sort Hs p1 p2 d hot hotread cold off size rev itv naggs fetch gap ffail p l x H.
  unfold tsearch in H. unfold deciding_tier.
  set (h := match hotread with [] => hot | _ => hotread end) in *.
  destruct (tsearch_stores p1 d 0 h) as [t t1|] eqn:E1; [|discriminate].
  assert (K : forall t tend t0 tier prio,
            tsearch_stores prio d t0 tier = TT t tend ->
            tfinish sort d t tend off size rev itv naggs fetch gap ffail = SOk p l x ->
            exists tend qs xs,
              tsearch_stores prio d t0 tier = TT (TOk p qs xs) tend
              /\ page_ok rev (flat_map snd qs) off size (map fst l) = true /\ sources_ok qs l = true
              /\ rest_desc itv naggs qs xs x
              /\ (fetch = true -> l <> [] -> cancelled d (tend + gap) = false)).
  { intros t' tend t0 tier prio E F. apply tfinish_ok in F. destruct F as (qs & xs & -> & -> & -> & C).
    exists tend, qs, xs. split; [exact E|].
    destruct (finish_page sort Hs qs off size rev) as (P & S).
    split; [exact P|]. split; [exact S|]. split; [apply merge_rest_desc; exact Hs | exact C]. }
  destruct t as [p' qs xs| | |].
  - inversion H as [H']. destruct (K _ _ _ _ _ E1 H') as (tend & qs' & xs' & A).
    exists 0, h, p1, tend, qs', xs'. split; [reflexivity|exact A].
  - destruct cold as [|c cr] eqn:EC; [discriminate|]. rewrite <- EC in *.
    destruct (tsearch_stores p2 d t1 cold) as [t t2|] eqn:E2; [|discriminate].
    inversion H as [H']. destruct (K _ _ _ _ _ E2 H') as (tend & qs' & xs' & A).
    exists t1, cold, p2, tend, qs', xs'. split; [rewrite EC; reflexivity|exact A].
  - inversion H.
  - inversion H.
Qed.
