(* C16 — FetchDocsStream / Documents: the all-calls-failed decision, failed sources give empty
   documents, the others are untouched. *)
From Coq Require Import List Bool Arith NArith ZArith Lia Permutation.
From VLib Require Import CaseLib.
From C16 Require Import Model ModelExt CaseDefs ProofsSearch ProofsFetch ProofsAlign ProofsDocs.
Import ListNotations.

Definition all_fail (calls : list (src * fcall)) : Prop := Forall (fun c => snd c = FFail) calls.

Lemma live_nil_iff : forall calls, live calls = [] <-> all_fail calls.
Proof.
  induction calls as [|[s [|l]] calls IH]; simpl.
  - split; [constructor | reflexivity].
  - rewrite IH. split; [intros H; constructor; auto | intros H; inversion H; auto].
  - split; [discriminate | intros H; inversion H; discriminate].
Qed.

Lemma failed_all : forall calls, all_fail calls -> failed calls = map fst calls.
Proof.
  induction calls as [|[s c] calls IH]; intros H; [reflexivity|].
  inversion H as [|? ? Hc Hr]; subst. simpl in Hc. subst c. simpl. f_equal. auto.
Qed.

Lemma fds_fails_iff : forall calls, fds_fails calls = true <-> calls <> [] /\ all_fail calls.
Proof.
  intros calls. unfold fds_fails. split.
  - destruct (failed calls) as [|s f] eqn:F; [discriminate|].
    destruct (live calls) eqn:L; [|discriminate]. intros _.
    split; [intros ->; discriminate | now apply live_nil_iff].
  - intros [NE AF]. rewrite (failed_all _ AF). rewrite (proj2 (live_nil_iff calls) AF).
    destruct calls; [congruence | reflexivity].
Qed.

(* the sources of a request *)
Lemma srcs_of_In : forall req s, In s (srcs_of req) <-> In s (map snd req).
Proof.
  induction req as [|k r IH]; intros s; simpl; [tauto|].
  destruct (existsb (Nat.eqb (snd k)) (srcs_of r)) eqn:E.
  - rewrite IH. split; auto. intros [<-|H]; auto.
    apply existsb_exists in E. destruct E as [y [Hy Ey]]. apply Nat.eqb_eq in Ey. subst y. now apply IH.
  - simpl. rewrite IH. tauto.
Qed.
Lemma srcs_of_NoDup : forall req, NoDup (srcs_of req).
Proof.
  induction req as [|k r IH]; simpl; [constructor|].
  destruct (existsb (Nat.eqb (snd k)) (srcs_of r)) eqn:E; auto.
  constructor; auto. intros H. assert (X : existsb (Nat.eqb (snd k)) (srcs_of r) = true).
  { apply existsb_exists. exists (snd k). split; auto. apply Nat.eqb_refl. }
  congruence.
Qed.

Lemma existsb_nat_In : forall x l, existsb (Nat.eqb x) l = true <-> In x l.
Proof.
  intros x l. rewrite existsb_exists. split.
  - intros [y [Hy E]]. apply Nat.eqb_eq in E. now subst.
  - intros H. exists x. split; auto. apply Nat.eqb_refl.
Qed.
Lemma nodup_natb_NoDup : forall l, nodup_natb l = true -> NoDup l.
Proof.
  induction l as [|x l IH]; simpl; intros H; [constructor|].
  apply andb_true_iff in H. destruct H as [A B]. constructor; auto.
  intros I. apply existsb_nat_In in I. rewrite I in A. discriminate.
Qed.

(* the calls made for a request: one per source of the request *)
Lemma calls_valid_spec : forall req calls, calls_valid req calls = true ->
  NoDup (map fst calls) /\ (forall s, In s (map fst calls) <-> In s (map snd req)).
Proof.
  intros req calls H. unfold calls_valid in H. rewrite !andb_true_iff in H. destruct H as [[A B] C].
  split; [now apply nodup_natb_NoDup|]. intros s. rewrite <- srcs_of_In.
  rewrite forallb_forall in B, C. split; intros I.
  - apply existsb_nat_In. apply B. exact I.
  - apply existsb_nat_In. apply C. exact I.
Qed.
Lemma calls_valid_nonempty : forall req calls, calls_valid req calls = true -> (calls <> [] <-> req <> []).
Proof.
  intros req calls H. destruct (calls_valid_spec _ _ H) as [_ S]. split; intros NE E; subst.
  - destruct calls as [|c calls]; [congruence|]. apply (proj1 (S (fst c))). simpl; auto.
  - destruct req as [|k req]; [congruence|]. apply (proj2 (S (snd k))). simpl; auto.
Qed.

(* every Fetch call fails <=> FetchDocsStream returns an error (and only then) *)
Lemma fds_err_iff : forall req calls, fds req calls = FdErr <-> calls <> [] /\ all_fail calls.
Proof.
  intros req calls. unfold fds. rewrite <- fds_fails_iff. destruct (fds_fails calls); split; auto; discriminate.
Qed.

Lemma fetch_all_failed : forall req calls, calls_valid req calls = true -> req <> [] ->
  all_fail calls -> fds req calls = FdErr.
Proof.
  intros req calls V NE AF. apply fds_err_iff. split; auto. now apply (calls_valid_nonempty _ _ V).
Qed.

(* a source whose call failed has no stream *)
Lemma live_fst_In : forall calls s, In s (map fst (live calls)) -> exists l, In (s, FStream l) calls.
Proof.
  induction calls as [|[s0 [|l0]] calls IH]; intros s H; simpl in *; try tauto.
  - destruct (IH _ H) as [l Hl]. eauto.
  - destruct H as [<-|H]; [eauto|]. destruct (IH _ H) as [l Hl]. eauto.
Qed.
Lemma failed_In : forall calls s, In s (failed calls) <-> In (s, FFail) calls.
Proof.
  induction calls as [|[s0 [|l0]] calls IH]; intros s; simpl; try tauto.
  - rewrite IH. split; intros [H|H]; auto; [left; congruence | left; inversion H; auto].
  - rewrite IH. split; auto. intros [H|H]; auto. discriminate.
Qed.
Lemma NoDup_fst_unique : forall (calls : list (src * fcall)) s a b, NoDup (map fst calls) ->
  In (s, a) calls -> In (s, b) calls -> a = b.
Proof.
  induction calls as [|[s0 c0] calls IH]; intros s a b N Ha Hb; simpl in *; [tauto|].
  inversion N as [|? ? N1 N2]; subst.
  destruct Ha as [Ha|Ha]; destruct Hb as [Hb|Hb].
  - congruence.
  - inversion Ha; subst. exfalso. apply N1. change s with (fst (s, b)). now apply in_map.
  - inversion Hb; subst. exfalso. apply N1. change s with (fst (s, a)). now apply in_map.
  - eauto.
Qed.
Lemma failed_not_live : forall calls s, NoDup (map fst calls) -> In s (failed calls) -> ~ In s (map fst (live calls)).
Proof.
  intros calls s N F L. apply failed_In in F. destruct (live_fst_In _ _ L) as [l Hl].
  pose proof (NoDup_fst_unique _ _ _ _ N F Hl). discriminate.
Qed.

Lemma delivered_none : forall streams k, ~ In (snd k) (map fst streams) -> delivered streams k = [].
Proof.
  induction streams as [|st streams IH]; intros k H; [reflexivity|].
  unfold delivered. cbn [flat_map]. fold (delivered streams k).
  simpl in H.
  match goal with |- context [if ?c then _ else _] => destruct c eqn:E end.
  - apply Nat.eqb_eq in E. tauto.
  - simpl. apply IH. tauto.
Qed.

Lemma docs_sound_nth : forall req streams out, docs_sound req streams out = true ->
  forall i k, nth_error req i = Some k ->
  exists t, nth_error out i = Some (k, t) /\ (t = 0%N \/ In t (delivered streams k)).
Proof.
  induction req as [|k0 r IH]; intros streams [|d o] H i k Hi; simpl in H; try discriminate.
  - destruct i; simpl in Hi; discriminate Hi.
  - rewrite !andb_true_iff in H. destruct H as [[K D] R]. apply key_eqb_eq in K.
    destruct i as [|i]; simpl in *.
    + assert (Ek : k0 = k) by congruence. subst k. clear Hi. exists (snd d).
      split; [rewrite K; destruct d; reflexivity|].
      apply orb_true_iff in D. destruct D as [D|D]; [left; now apply N.eqb_eq | right; now apply memb_N_In].
    + eapply IH; eauto.
Qed.

(* some call succeeded (or nothing was asked): a stream; one document per requested ID, in order,
   each empty or really sent by the ID's own source; the IDs of the sources whose call failed come
   back empty; with well-behaved live streams every other document is exactly what its source sent *)
Lemma fetch_some_failed : forall req calls, fds_fails calls = false ->
  exists out, fds req calls = FdOk out
    /\ out = fetch req (live calls)
    /\ length out = length req
    /\ docs_sound req (live calls) out = true
    /\ (forall i k, nth_error req i = Some k -> ~ In (snd k) (map fst (live calls)) ->
          nth_error out i = Some (k, 0%N))
    /\ (NoDup (map fst calls) -> forall i k, nth_error req i = Some k -> In (snd k) (failed calls) ->
          nth_error out i = Some (k, 0%N))
    /\ (well_behaved req (live calls) = true -> out = map (expected_doc (live calls)) req).
Proof.
  intros req calls F. exists (fetch req (live calls)). unfold fds. rewrite F.
  pose proof (fetch_sound req (live calls)) as S.
  assert (E : forall i k, nth_error req i = Some k -> ~ In (snd k) (map fst (live calls)) ->
          nth_error (fetch req (live calls)) i = Some (k, 0%N)).
  { intros i k Hi NL. destruct (docs_sound_nth _ _ _ S i k Hi) as [t [Ht [->|D]]]; auto.
    rewrite (delivered_none _ _ NL) in D. destruct D. }
  repeat split; auto.
  - eapply docs_sound_length; eauto.
  - intros N i k Hi Fk. apply E; auto. now apply failed_not_live.
  - apply fetch_complete_eq.
Qed.

(* the decision taken inside Search (Model.search_full, through the list of failing sources) is this
   decision on the page *)
Lemma search_full_decision : forall (l : list ids) calls ffail, l <> [] -> calls_valid l calls = true ->
  (forall s, In s (map fst calls) -> (In s ffail <-> In s (failed calls))) ->
  forallb (fun k => existsb (Nat.eqb (snd k)) ffail) l = fds_fails calls.
Proof.
  intros l calls ffail NE V Hf. destruct (calls_valid_spec _ _ V) as [N S].
  destruct (fds_fails calls) eqn:F.
  - apply fds_fails_iff in F. destruct F as [_ AF]. apply forallb_forall. intros k Hk.
    apply existsb_nat_In. assert (I : In (snd k) (map fst calls)) by (apply S; now apply in_map).
    apply Hf; auto. rewrite (failed_all _ AF). exact I.
  - destruct (forallb (fun k => existsb (Nat.eqb (snd k)) ffail) l) eqn:A; auto.
    rewrite forallb_forall in A. exfalso.
    assert (AF : all_fail calls).
    { apply Forall_forall. intros [s c] Hc. simpl.
      assert (I : In s (map fst calls)) by (change s with (fst (s, c)); now apply in_map).
      apply S in I. apply in_map_iff in I. destruct I as [k [<- Hk]].
      specialize (A _ Hk). apply existsb_nat_In in A.
      apply Hf in A; [|apply S; now apply in_map]. apply failed_In in A.
      eapply NoDup_fst_unique; eauto. }
    assert (X : fds_fails calls = true).
    { apply fds_fails_iff. split; auto. apply (calls_valid_nonempty _ _ V). exact NE. }
    congruence.
Qed.

(* Documents: the same decision; otherwise the unique-ID view of the stream *)
Lemma documents_full_spec : forall groups calls,
  match documents_full groups calls with
  | DcErr => calls <> [] /\ all_fail calls
  | DcOk out => fds_fails calls = false /\ out = documents groups (live calls)
  end.
Proof.
  intros groups calls. unfold documents_full, fds. destruct (fds_fails calls) eqn:F.
  - now apply fds_fails_iff.
  - split; reflexivity.
Qed.
