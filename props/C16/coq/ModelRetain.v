(* C16 — executable model, extension "OldestCT after a retention pass" (no proofs). Mirrors
     fracmanager/fracmanager.go  shrinkSizes: fracs := GetAllFracs(); every truncated fraction is shifted out of
                                 the manager AND dropped from the local list (fracs = fracs[1:]); at the end
                                 OldestCT := creation time of fracs.GetOldestFrac() — of the REMAINING fractions
     fracmanager/list.go         List.GetOldestFrac: the smallest creation time; none when the list is empty or
                                 that smallest time is 0 (OldestCT is then left as it was)
   The hot store's refusal predicate earlierThanOldestFrac (Model.earlier_than_oldest) reads OldestCT. *)
From Coq Require Export List NArith.
Export ListNotations.

(* GetOldestFrac over the creation times *)
Definition oldest_ct (l : list N) : N :=
  match l with [] => 0%N | x :: r => fold_left N.min r x end.
(* OldestCT after a pass that truncated the k oldest-listed fractions of [cts] (list order of the manager) *)
Definition oldest_after (prev : N) (cts : list N) (k : nat) : N :=
  let m := oldest_ct (skipn k cts) in if N.eqb m 0 then prev else m.
(* the seeded variant: the local list is not advanced, the dropped fractions still count *)
Definition oldest_after_stale (prev : N) (cts : list N) (k : nat) : N :=
  let m := oldest_ct cts in if N.eqb m 0 then prev else m.
