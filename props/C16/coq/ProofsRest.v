(* C16 — the rest of the merged QPR: Total with the duplicate repair, histogram, soft errors,
   aggregations — over exactly the answers that were merged, whatever their arrival order. *)
From Coq Require Import List Bool Arith NArith ZArith Lia Permutation Sorted.
From VLib Require Import CaseLib.
From C16 Require Import Model CaseDefs ProofsSearch ProofsFetch ProofsAlign.
Import ListNotations.
Local Open Scope Z_scope.

(* ---------------------------------------------------------------- uint64 arithmetic *)
Lemma wrap_wrap : forall a, wrap64 (wrap64 a) = wrap64 a.
Proof. intros; unfold wrap64; apply Zmod_mod. Qed.
Lemma wrap_add_l : forall a b, wrap64 (wrap64 a + b) = wrap64 (a + b).
Proof. intros; unfold wrap64; apply Zplus_mod_idemp_l. Qed.
Lemma wrap_sub_l : forall a b, wrap64 (wrap64 a - b) = wrap64 (a - b).
Proof. intros; unfold wrap64; apply Zminus_mod_idemp_l. Qed.
Lemma wrap_0 : wrap64 0 = 0.
Proof. reflexivity. Qed.

(* ---------------------------------------------------------------- Total *)
Lemma fold_total : forall xs a,
  fold_left (fun t x => wrap64 (t + x_total x)) xs (wrap64 a) = wrap64 (a + zsum (map x_total xs)).
Proof.
  induction xs as [|x xs IH]; intros a; simpl.
  - now rewrite Z.add_0_r.
  - rewrite wrap_add_l, IH. f_equal. lia.
Qed.

Lemma fold_total0 : forall xs,
  fold_left (fun t x => wrap64 (t + x_total x)) xs 0 = wrap64 (zsum (map x_total xs)).
Proof. intros. exact (fold_total xs 0). Qed.

Lemma dups_dedup_perm_from : forall l x, Permutation (dups_from x l ++ dedup_from x l) l.
Proof.
  induction l as [|y r IH]; intros x; simpl; auto.
  destruct (id_eqb (fst x) (fst y)).
  - simpl. apply perm_skip, IH.
  - eapply perm_trans; [apply Permutation_sym, Permutation_middle|]. apply perm_skip, IH.
Qed.
Lemma dups_dedup_perm : forall l, Permutation (dups l ++ dedup l) l.
Proof.
  intros [|x r]; simpl; auto.
  eapply perm_trans; [apply Permutation_sym, Permutation_middle|]. apply perm_skip, dups_dedup_perm_from.
Qed.

Section WithSort.
  Variable sort : (ids -> ids -> bool) -> list ids -> list ids.
  Hypothesis sort_is_ok : sort_ok sort.

  Let S rev qs := sort (lessf rev) (flat_map tag qs).

  Lemma sorted_keys_perm : forall rev qs, Permutation (map fst (S rev qs)) (flat_map snd qs).
  Proof.
    intros. rewrite <- map_fst_tag. apply Permutation_map, Permutation_sym. apply (sort_is_ok rev).
  Qed.

  Lemma dedup_keys_perm : forall rev qs, Permutation (map fst (dedup (S rev qs))) (nodupb (flat_map snd qs)).
  Proof.
    intros rev qs. destruct (sort_is_ok rev (flat_map tag qs)) as [P St].
    destruct (dedup_spec rev _ St) as [A [B C]].
    apply NoDup_Permutation; [eapply ssorted_NoDup; eauto | apply nodupb_NoDup |].
    intros k. fold (S rev qs) in C. rewrite <- C, nodupb_In.
    split; apply Permutation_in; [apply sorted_keys_perm | apply Permutation_sym, sorted_keys_perm].
  Qed.

  (* the number of repairs = all IDs minus distinct IDs *)
  Lemma reps_count : forall rev qs,
    Z.of_nat (length (dups (S rev qs))) = reps_total (flat_map snd qs).
  Proof.
    intros rev qs. unfold reps_total.
    pose proof (Permutation_length (dups_dedup_perm (S rev qs))) as L. rewrite app_length in L.
    pose proof (Permutation_length (sorted_keys_perm rev qs)) as L1. rewrite map_length in L1.
    pose proof (Permutation_length (dedup_keys_perm rev qs)) as L2. rewrite map_length in L2.
    unfold ids, doc, sdoc in *. lia.
  Qed.

  Lemma total_ok : forall qs xs rev itv naggs,
    x_total (merge_rest sort qs xs rev itv naggs) = total_spec (flat_map snd qs) xs.
  Proof.
    intros. unfold merge_rest, total_spec; simpl. fold (S rev qs).
    rewrite fold_total0, reps_count. reflexivity.
  Qed.

  (* ---------------------------------------------------------------- soft errors *)
  Lemma fold_errs : forall xs a, fold_left (fun n x => (n + x_errs x)%nat) xs a = (a + errs_spec xs)%nat.
  Proof.
    unfold errs_spec. induction xs as [|x xs IH]; intros a; simpl; [lia|]. rewrite IH. lia.
  Qed.
  Lemma errs_ok : forall qs xs rev itv naggs, x_errs (merge_rest sort qs xs rev itv naggs) = errs_spec xs.
  Proof. intros. unfold merge_rest; simpl. now rewrite fold_errs. Qed.

  (* ---------------------------------------------------------------- histogram *)
  Lemma hlookup_hupd : forall h k f k',
    hlookup (hupd h k f) k' = if N.eqb k k' then f (hlookup h k) else hlookup h k'.
  Proof.
    induction h as [|[k0 c] r IH]; intros k f k'; simpl.
    - destruct (N.eqb k k'); reflexivity.
    - destruct (N.eqb_spec k0 k) as [->|N1]; simpl.
      + destruct (N.eqb_spec k k'); reflexivity.
      + rewrite IH. destruct (N.eqb_spec k0 k') as [->|N2]; auto.
        destruct (N.eqb_spec k k'); [congruence | reflexivity].
  Qed.

  Lemma hsumk_cons : forall k1 c s k, hsumk ((k1, c) :: s) k = (if N.eqb k1 k then c else 0) + hsumk s k.
  Proof. intros. unfold hsumk; simpl. destruct (N.eqb k1 k); simpl; lia. Qed.

  Lemma hist_add_lookup : forall s d k,
    wrap64 (hlookup (hist_add d s) k) = wrap64 (hlookup d k + hsumk s k).
  Proof.
    unfold hist_add. induction s as [|[k1 c] s IH]; intros d k; simpl.
    - unfold hsumk; simpl. now rewrite Z.add_0_r.
    - rewrite IH, hlookup_hupd, hsumk_cons. simpl. destruct (N.eqb_spec k1 k) as [->|Ne].
      + rewrite wrap_add_l. f_equal; lia.
      + f_equal; lia.
  Qed.

  Lemma hist_fold_lookup : forall hs d k,
    wrap64 (hlookup (fold_left hist_add hs d) k) = wrap64 (hlookup d k + zsum (map (fun h => hsumk h k) hs)).
  Proof.
    induction hs as [|h hs IH]; intros d k; simpl.
    - now rewrite Z.add_0_r.
    - rewrite IH. rewrite <- wrap_add_l, hist_add_lookup, wrap_add_l. f_equal; lia.
  Qed.

  Definition nbucket (itv k : N) (l : list ids) : Z :=
    Z.of_nat (length (filter (fun r => N.eqb (bucket_of itv (fst r)) k) l)).

  Lemma repair_lookup : forall itv reps h k,
    wrap64 (hlookup (fold_left (fun d r => hupd d (bucket_of itv (fst r)) (fun c => wrap64 (c - 1))) reps h) k)
    = wrap64 (hlookup h k - nbucket itv k reps).
  Proof.
    induction reps as [|r reps IH]; intros h k; simpl.
    - unfold nbucket; simpl. now rewrite Z.sub_0_r.
    - rewrite IH, hlookup_hupd. unfold nbucket; simpl.
      destruct (N.eqb_spec (bucket_of itv (fst r)) k) as [E|Ne]; simpl.
      + rewrite E, wrap_sub_l. f_equal. lia.
      + reflexivity.
  Qed.

  (* every counter is a uint64 *)
  Definition hwrapped (h : list (N * Z)) : Prop := Forall (fun kc => snd kc = wrap64 (snd kc)) h.
  Lemma hwrapped_lookup : forall h k, hwrapped h -> hlookup h k = wrap64 (hlookup h k).
  Proof.
    induction h as [|[k0 c] r IH]; intros k H; simpl; [reflexivity|].
    inversion H; subst. destruct (N.eqb k0 k); auto.
  Qed.
  Lemma hwrapped_hupd : forall h k f, hwrapped h -> (forall c, f c = wrap64 (f c)) -> hwrapped (hupd h k f).
  Proof.
    induction h as [|[k0 c] r IH]; intros k f H Hf; simpl.
    - constructor; [apply Hf | constructor].
    - inversion H; subst. destruct (N.eqb k0 k); constructor; simpl; auto. apply IH; auto.
  Qed.
  Lemma hwrapped_fold : forall {A} (g : A -> N) (f : A -> Z -> Z) l h,
    hwrapped h -> (forall a c, f a c = wrap64 (f a c)) ->
    hwrapped (fold_left (fun d a => hupd d (g a) (f a)) l h).
  Proof.
    intros A g f l; induction l as [|a l IH]; intros h H Hf; simpl; auto.
    apply IH; auto. apply hwrapped_hupd; auto.
  Qed.
  Lemma hwrapped_hist_fold : forall hs d, hwrapped d -> hwrapped (fold_left hist_add hs d).
  Proof.
    induction hs as [|h hs IH]; intros d H; simpl; auto. apply IH. unfold hist_add.
    apply (hwrapped_fold (fun kc : N * Z => fst kc) (fun kc c => wrap64 (c + snd kc))); auto.
    intros; now rewrite wrap_wrap.
  Qed.

  Lemma filter_map_len : forall (p : id -> bool) (l : list ids),
    length (filter (fun r => p (fst r)) l) = length (filter p (map fst l)).
  Proof. induction l as [|x l IH]; simpl; auto. destruct (p (fst x)); simpl; auto. Qed.

  Lemma nbucket_reps : forall rev qs itv k, itv <> 0%N ->
    nbucket itv k (dups (S rev qs)) = reps_in_bucket itv (flat_map snd qs) k.
  Proof.
    intros rev qs itv k Hi. unfold nbucket, reps_in_bucket, count_id.
    apply N.eqb_neq in Hi. rewrite Hi.
    set (p := fun i : id => N.eqb (bucket_of itv i) k).
    pose proof (Permutation_length (Permutation_filter' (fun r : ids => p (fst r)) _ _ (dups_dedup_perm (S rev qs)))) as L.
    rewrite filter_app, app_length, !filter_map_len in L.
    pose proof (Permutation_length (Permutation_filter' p _ _ (sorted_keys_perm rev qs))) as L1.
    pose proof (Permutation_length (Permutation_filter' p _ _ (dedup_keys_perm rev qs))) as L2.
    rewrite (filter_map_len p). lia.
  Qed.

  Lemma hist_ok : forall qs xs rev itv naggs k,
    hlookup (x_hist (merge_rest sort qs xs rev itv naggs)) k = hist_spec itv (flat_map snd qs) xs k.
  Proof.
    intros. unfold merge_rest, hist_spec; simpl. fold (S rev qs). unfold hist_repair.
    assert (W : hwrapped (fold_left hist_add (map x_hist xs) [])) by (apply hwrapped_hist_fold; constructor).
    destruct (N.eqb_spec itv 0) as [->|Hi].
    - rewrite (hwrapped_lookup _ k W), hist_fold_lookup. simpl.
      unfold reps_in_bucket; simpl. rewrite map_map. f_equal. lia.
    - rewrite hwrapped_lookup.
      2:{ apply (hwrapped_fold (fun r : ids => bucket_of itv (fst r)) (fun _ c => wrap64 (c - 1))); auto.
          intros; now rewrite wrap_wrap. }
      rewrite repair_lookup, <- wrap_sub_l, hist_fold_lookup, wrap_sub_l. simpl.
      rewrite map_map, nbucket_reps by auto. reflexivity.
  Qed.
End WithSort.
