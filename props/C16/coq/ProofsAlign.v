(* C16 — completeness of the aligned documents for well-behaved streams. *)
From Coq Require Import List Bool Arith NArith Lia Permutation.
From VLib Require Import CaseLib.
From C16 Require Import Model CaseDefs ProofsSearch ProofsFetch.
Import ListNotations.

(* ---------------------------------------------------------------- positions *)
Lemma pos_from_nth : forall l k i p, pos_from l k i = Some p ->
  exists j, p = i + j /\ nth_error l j = Some k.
Proof.
  induction l as [|x r IH]; simpl; intros k i p H; [discriminate|].
  destruct (pos_from r k (S i)) as [q|] eqn:E.
  - inversion H; subst. destruct (IH _ _ _ E) as [j [-> N]]. exists (S j); split; [lia|auto].
  - destruct (key_eqb x k) eqn:K; [|discriminate]. inversion H; subst.
    apply key_eqb_eq in K; subst. exists 0; split; [lia|auto].
Qed.
Lemma pos_inj : forall req a b p, pos req a = Some p -> pos req b = Some p -> a = b.
Proof.
  unfold pos; intros req a b p Ha Hb.
  destruct (pos_from_nth _ _ _ _ Ha) as [j [-> Na]]. destruct (pos_from_nth _ _ _ _ Hb) as [j' [E Nb]].
  assert (j = j') by lia. subst. congruence.
Qed.
Lemma pos_from_notin : forall l k i, ~ In k l -> pos_from l k i = None.
Proof.
  induction l as [|x r IH]; simpl; intros k i H; auto.
  rewrite IH by tauto. destruct (key_eqb x k) eqn:K; auto. apply key_eqb_eq in K. tauto.
Qed.
Lemma pos_from_in : forall l k i, In k l -> pos_from l k i <> None.
Proof.
  induction l as [|x r IH]; simpl; intros k i H; [tauto|].
  destruct (pos_from r k (S i)) eqn:E; [discriminate|].
  destruct H as [->|H]; [rewrite key_eqb_refl; discriminate | exfalso; eapply IH; eauto].
Qed.
Lemma memb_key_In : forall x l, memb key_eqb x l = true <-> In x l.
Proof.
  intros x l; unfold memb; rewrite existsb_exists. split.
  - intros [y [Hy E]]; apply key_eqb_eq in E; subst; auto.
  - intros H; exists x; split; auto using key_eqb_refl.
Qed.
Lemma nodup_keys_NoDup : forall l, nodup_keys l = true -> NoDup l.
Proof.
  induction l as [|x r IH]; simpl; intros H; constructor; apply andb_true_iff in H; destruct H as [A B]; auto.
  intros Hin. apply memb_key_In in Hin. rewrite Hin in A. discriminate.
Qed.
Lemma pos_from_mid : forall P cur R i, NoDup (P ++ cur :: R) ->
  pos_from (P ++ cur :: R) cur i = Some (i + length P).
Proof.
  induction P as [|x P IH]; simpl; intros cur R i ND.
  - inversion ND; subst. rewrite pos_from_notin by auto. rewrite key_eqb_refl. f_equal; lia.
  - inversion ND; subst. rewrite IH by auto. f_equal; lia.
Qed.

(* ---------------------------------------------------------------- increasing lists of documents *)
Section Req.
  Variable req : list ids.
  Notation lt := (less req).
  Definition inc (lo : nat) (L : list doc) : Prop := increasing_from lo req (map fst L) = true.

  Lemma inc_cons : forall lo d L, inc lo (d :: L) <->
    match pos req (fst d) with None => inc lo L | Some p => lo <= p /\ inc (S p) L end.
  Proof.
    intros lo d L. unfold inc; simpl. destruct (pos req (fst d)); [|tauto].
    rewrite andb_true_iff, Nat.leb_le. tauto.
  Qed.

  Lemma inc_lower : forall L lo x q, inc lo L -> In x L -> pos req (fst x) = Some q -> lo <= q.
  Proof.
    induction L as [|d L IH]; intros lo x q HI Hin Hq; [destruct Hin|].
    apply inc_cons in HI. destruct Hin as [->|Hin].
    - rewrite Hq in HI. tauto.
    - destruct (pos req (fst d)) as [p|]; [|eauto]. destruct HI as [A B].
      pose proof (IH _ _ _ B Hin Hq). lia.
  Qed.

  Definition disjS (A B : list doc) : Prop :=
    forall a b, In a A -> In b B -> snd (fst a) <> snd (fst b).

  Lemma merge2_inc : forall A B lo, inc lo A -> inc lo B -> disjS A B -> inc lo (merge2 lt A B).
  Proof.
    apply (merge2_ind' lt (fun A B M => forall lo, inc lo A -> inc lo B -> disjS A B -> inc lo M)).
    - auto.
    - auto.
    - intros a A b B L IH lo HA HB D.
      assert (D' : disjS (a :: A) B) by (intros x y Hx Hy; apply D; simpl; auto).
      apply inc_cons. apply inc_cons in HB. unfold less in L.
      destruct (pos req (fst b)) as [q|] eqn:Pb.
      + destruct HB as [Q HB]. split; auto. apply IH; auto.
        apply inc_cons. apply inc_cons in HA.
        destruct (pos req (fst a)) as [pa|]; [|discriminate].
        apply Nat.ltb_lt in L. split; [lia | tauto].
      + apply IH; auto.
    - intros a A b B L IH lo HA HB D.
      assert (D' : disjS A (b :: B)) by (intros x y Hx Hy; apply D; simpl; auto).
      apply inc_cons. apply inc_cons in HA. unfold less in L.
      destruct (pos req (fst a)) as [pa|] eqn:Pa.
      + destruct HA as [Q HA]. split; auto. apply IH; auto.
        apply inc_cons. pose proof HB as HB'. apply inc_cons in HB.
        destruct (pos req (fst b)) as [q|] eqn:Pb; [|discriminate].
        apply Nat.ltb_ge in L. destruct HB as [_ HB]. split; auto.
        assert (q <> pa).
        { intros ->. pose proof (pos_inj _ _ _ _ Pa Pb) as E.
          apply (D a b); simpl; auto. now rewrite E. }
        lia.
      + destruct (pos req (fst b)); [|discriminate]. apply IH; auto.
  Qed.

  Fixpoint pairwise (ss : list (list doc)) : Prop :=
    match ss with [] => True | s :: r => (forall t, In t r -> disjS s t) /\ pairwise r end.

  Lemma fold_merge_inc : forall r acc, inc 0 acc -> (forall s, In s r -> inc 0 s) ->
    (forall s, In s r -> disjS acc s) -> pairwise r -> inc 0 (fold_left (merge2 lt) r acc).
  Proof.
    induction r as [|s r IH]; simpl; intros acc HA HR HD [HP PW] || (simpl; intros acc HA HR HD PW; auto).
    apply IH; auto.
    - apply merge2_inc; auto.
    - intros t Ht a b Ha Hb.
      apply (Permutation_in _ (Permutation_sym (merge2_perm _ _ _))) in Ha.
      apply in_app_or in Ha. destruct Ha as [Ha|Ha]; [apply (HD t); auto | apply (HP t); auto].
  Qed.

  Lemma nmerge_inc : forall ss, (forall s, In s ss -> inc 0 s) -> pairwise ss -> inc 0 (nmerge lt ss).
  Proof.
    intros [|s0 r] H PW; simpl; [reflexivity|]. destruct PW as [HP PW].
    apply fold_merge_inc; auto; intros; apply H; simpl; auto.
  Qed.

  (* ---------------------------------------------------------------- the aligner *)
  Definition pick (M : list doc) (k : ids) : doc :=
    match filter (fun d => key_eqb k (fst d)) M with d :: _ => d | [] => (k, 0%N) end.

  Lemma drop_ff_spec : forall cur n M, pos req cur = Some n -> inc n M ->
    inc n (drop_ff lt cur M)
    /\ (forall k, pos req k <> None ->
          filter (fun d => key_eqb k (fst d)) M = filter (fun d => key_eqb k (fst d)) (drop_ff lt cur M))
    /\ match drop_ff lt cur M with [] => True | d :: _ => exists p, pos req (fst d) = Some p /\ n <= p end.
  Proof.
    intros cur n M Hc. induction M as [|d M IH]; simpl; intros HI.
    - repeat split; auto.
    - pose proof HI as HI'. apply inc_cons in HI.
      destruct (less req (fst d) cur) eqn:L; unfold less in L; rewrite Hc in L;
        destruct (pos req (fst d)) as [p|] eqn:Pd.
      + destruct HI as [Q HI]. apply Nat.ltb_lt in L. lia.
      + destruct (IH HI) as [A [B C]]. split; [exact A|]. split; [|exact C].
        intros k Hk. destruct (key_eqb k (fst d)) eqn:K; [|apply B; auto].
        apply key_eqb_eq in K. subst k. congruence.
      + destruct HI as [Q HI]. split; [exact HI'|]. split; [auto|]. exists p; auto.
      + discriminate.
  Qed.

  Lemma align_complete : forall R P M, req = P ++ R -> NoDup req -> inc (length P) M ->
    align lt R M = map (pick M) R.
  Proof.
    induction R as [|cur R IH]; intros P M E ND HI; simpl; auto.
    assert (Hc : pos req cur = Some (length P)).
    { unfold pos. rewrite E. rewrite E in ND. rewrite pos_from_mid; auto. }
    assert (E' : req = (P ++ [cur]) ++ R) by (rewrite <- app_assoc; exact E).
    assert (L' : length (P ++ [cur]) = S (length P)) by (rewrite app_length; simpl; lia).
    assert (Hk : forall k, In k R -> pos req k <> None /\ k <> cur).
    { intros k Hin. split.
      - unfold pos. apply pos_from_in. rewrite E. apply in_or_app; simpl; auto.
      - intros ->. rewrite E in ND. apply NoDup_remove_2 in ND. apply ND, in_or_app; auto. }
    destruct (drop_ff_spec cur (length P) M Hc HI) as [A [B C]].
    assert (Hcur : pos req cur <> None) by congruence.
    destruct (drop_ff lt cur M) as [|d M2] eqn:D.
    - f_equal.
      + unfold pick. rewrite (B cur Hcur). reflexivity.
      + rewrite (IH (P ++ [cur]) [] E' ND) by reflexivity.
        apply map_ext_in. intros k Hin. unfold pick. rewrite (B k); [reflexivity | apply Hk; auto].
    - destruct C as [p [Pd Lp]]. apply inc_cons in A. rewrite Pd in A. destruct A as [_ A].
      destruct (key_eqb cur (fst d)) eqn:K.
      + apply key_eqb_eq in K. f_equal.
        * unfold pick. rewrite (B cur Hcur). simpl. rewrite K, key_eqb_refl. reflexivity.
        * assert (p = length P) by (rewrite <- K, Hc in Pd; congruence). subst p.
          rewrite (IH (P ++ [cur]) M2 E' ND) by (rewrite L'; exact A).
          apply map_ext_in. intros k Hin. destruct (Hk k Hin) as [K1 K2]. unfold pick. rewrite (B k K1). simpl.
          destruct (key_eqb k (fst d)) eqn:K3; auto. apply key_eqb_eq in K3. congruence.
      + assert (p <> length P).
        { intros ->. pose proof (pos_inj _ _ _ _ Hc Pd) as Q. rewrite Q, key_eqb_refl in K. discriminate. }
        assert (HI2 : inc (S (length P)) (d :: M2)) by (apply inc_cons; rewrite Pd; split; [lia | exact A]).
        f_equal.
        * unfold pick. rewrite (B cur Hcur).
          destruct (filter (fun x => key_eqb cur (fst x)) (d :: M2)) as [|x F] eqn:Fx; auto.
          assert (Hx : In x (filter (fun x0 => key_eqb cur (fst x0)) (d :: M2))) by (rewrite Fx; simpl; auto).
          apply filter_In in Hx. destruct Hx as [Hx1 Hx2]. apply key_eqb_eq in Hx2.
          assert (Px : pos req (fst x) = Some (length P)) by (rewrite <- Hx2; exact Hc).
          pose proof (inc_lower _ _ _ _ HI2 Hx1 Px). lia.
        * rewrite (IH (P ++ [cur]) (d :: M2) E' ND) by (rewrite L'; exact HI2).
          apply map_ext_in. intros k Hin. unfold pick. rewrite (B k); [reflexivity | apply Hk; auto].
  Qed.

  Lemma filter_key_le1 : forall k M lo, pos req k <> None -> inc lo M ->
    length (filter (fun d => key_eqb k (fst d)) M) <= 1.
  Proof.
    intros k. induction M as [|d M IH]; simpl; intros lo Hk HI; [lia|].
    apply inc_cons in HI. destruct (key_eqb k (fst d)) eqn:K.
    - apply key_eqb_eq in K. subst k. destruct (pos req (fst d)) as [p|] eqn:Pd; [|congruence].
      destruct HI as [_ HI]. simpl.
      destruct (filter (fun x => key_eqb (fst d) (fst x)) M) as [|x F] eqn:Fx; simpl; [lia|].
      assert (Hx : In x (filter (fun x0 => key_eqb (fst d) (fst x0)) M)) by (rewrite Fx; simpl; auto).
      apply filter_In in Hx. destruct Hx as [Hx1 Hx2]. apply key_eqb_eq in Hx2. rewrite Hx2 in Pd.
      pose proof (inc_lower _ _ _ _ HI Hx1 Pd). lia.
    - destruct (pos req (fst d)); [destruct HI as [_ HI]|]; eapply IH; eauto.
  Qed.
End Req.

Lemma Permutation_filter' : forall {A} (f : A -> bool) l1 l2, Permutation l1 l2 -> Permutation (filter f l1) (filter f l2).
Proof.
  intros A f l1 l2 H; induction H; simpl; auto.
  - destruct (f x); auto.
  - destruct (f x), (f y); auto. apply perm_swap.
  - eapply perm_trans; eauto.
Qed.

Lemma id_eqb_sym : forall a b, id_eqb a b = id_eqb b a.
Proof. intros a b; unfold id_eqb. now rewrite (N.eqb_sym (fst a)), (N.eqb_sym (snd a)). Qed.
Lemma key_eqb_alt : forall k i s, key_eqb k (i, s) = id_eqb i (fst k) && (s =? snd k).
Proof. intros k i s; unfold key_eqb; simpl. now rewrite id_eqb_sym, Nat.eqb_sym. Qed.

Lemma delivered_one : forall (s : src) (ds : list sdoc) (k : ids),
  (if s =? snd k then flat_map (fun d : sdoc => if id_eqb (fst d) (fst k) then [snd d] else []) ds else [])
  = map snd (filter (fun d : doc => key_eqb k (fst d)) (attach (s, ds))).
Proof.
  intros s ds k; induction ds as [|[i t] ds IH].
  - unfold attach; simpl. destruct (s =? snd k); reflexivity.
  - change (attach (s, (i, t) :: ds)) with (((i, s), t) :: attach (s, ds)).
    cbn [filter]. change (fst ((i, s), t)) with (i, s). rewrite key_eqb_alt.
    cbn [flat_map fst snd].
    destruct (s =? snd k) eqn:S; destruct (id_eqb i (fst k)) eqn:I; cbn [andb map app snd];
      first [exact IH | f_equal; exact IH].
Qed.

Lemma delivered_filter : forall streams k,
  delivered streams k = map snd (filter (fun d => key_eqb k (fst d)) (concat (map attach streams))).
Proof.
  induction streams as [|[s ds] streams IH]; intros k; [reflexivity|].
  cbn [map concat]. rewrite filter_app, map_app, <- IH, <- delivered_one. reflexivity.
Qed.

Lemma pairwise_attach : forall streams, nodup_nat (map fst streams) = true ->
  pairwise (map attach streams).
Proof.
  induction streams as [|st streams IH]; simpl; intros H; auto.
  apply andb_true_iff in H. destruct H as [A B]. split; auto.
  intros t Ht a b Ha Hb. apply in_map_iff in Ht. destruct Ht as [st' [<- Hst']].
  unfold attach in Ha, Hb. apply in_map_iff in Ha, Hb.
  destruct Ha as [x [<- _]]. destruct Hb as [y [<- _]]. simpl.
  intros E. unfold src in *. assert (In (fst st) (map fst streams)) by (rewrite E; apply in_map; auto).
  apply memb_nat_In in H. rewrite H in A. discriminate.
Qed.

Lemma doc_list_eqb_refl : forall l, list_eqb doc_eqb l l = true.
Proof.
  induction l as [|d l IH]; simpl; auto. rewrite IH, andb_true_r.
  unfold doc_eqb. now rewrite key_eqb_refl, N.eqb_refl.
Qed.

Lemma fetch_complete_eq : forall req streams, well_behaved req streams = true ->
  fetch req streams = map (expected_doc streams) req.
Proof.
  intros req streams H. unfold well_behaved in H. rewrite !andb_true_iff in H.
  destruct H as [[H1 H2] H3]. pose proof (nodup_keys_NoDup _ H1) as ND.
  set (M := nmerge (less req) (map attach streams)).
  assert (HM : inc req 0 M).
  { apply nmerge_inc.
    - intros s Hs. apply in_map_iff in Hs. destruct Hs as [st [<- Hst]].
      rewrite forallb_forall in H3. apply (H3 _ Hst).
    - now apply pairwise_attach. }
  unfold fetch. fold M.
  rewrite (align_complete req req [] M eq_refl ND HM).
  symmetry. apply map_ext_in. intros k Hk.
  assert (Pk : pos req k <> None) by (apply pos_from_in; exact Hk).
  pose proof (filter_key_le1 req k M 0 Pk HM) as L1.
  pose proof (Permutation_filter' (fun d : doc => key_eqb k (fst d)) _ _ (nmerge_perm (less req) (map attach streams))) as PF.
  fold M in PF. unfold expected_doc, pick. rewrite delivered_filter. unfold doc in *.
  destruct (filter (fun d : ids * N => key_eqb k (fst d)) M) as [|d [|e F]] eqn:EF.
  - apply Permutation_sym, Permutation_nil in PF. rewrite PF. reflexivity.
  - apply Permutation_sym, Permutation_length_1_inv in PF. rewrite PF. simpl.
    assert (Hd : In d (filter (fun d : ids * N => key_eqb k (fst d)) M)) by (rewrite EF; simpl; auto).
    apply filter_In in Hd. destruct Hd as [_ Hd]. apply key_eqb_eq in Hd. subst k. destruct d; reflexivity.
  - simpl in L1. lia.
Qed.

Lemma fetch_complete : forall req streams, well_behaved req streams = true ->
  docs_complete req streams (fetch req streams) = true.
Proof.
  intros req streams H. unfold docs_complete. rewrite (fetch_complete_eq _ _ H). apply doc_list_eqb_refl.
Qed.
