(* C16 — proofs about the request context (ModelDeadline.v). *)
From Coq Require Import Permutation Lia.
From C16 Require Import Model ModelExt ModelDeadline.

(* ------------------------------------------------------------------ one shard *)
Lemma cancelled_mono : forall d t t', cancelled d t = true -> t <= t' -> cancelled d t' = true.
Proof.
  intros [e|] t t' H L; simpl in *; [|discriminate].
  apply Nat.leb_le in H. apply Nat.leb_le. lia.
Qed.

Lemma call_cancelled : forall d t av, cancelled d t = true -> call d t av = CCtxErr t.
Proof. intros d t av H. unfold call. rewrite H. reflexivity. Qed.

(* once the context is done every remaining replica fails at once: the shard fails, at that very time *)
Lemma shard_cancelled : forall d sh t, cancelled d t = true -> tsearch_shard d t sh = TSR SFail t.
Proof.
  intros d sh. induction sh as [|[[s b] av] r IH]; intros t H; simpl; [reflexivity|].
  rewrite (call_cancelled d t av H). apply IH. exact H.
Qed.

(* what a call does, case by case *)
Lemma call_cases : forall d t av,
  match call d t av with
  | CAnswers t' => cancelled d t' = false /\ call None t av = CAnswers t' /\ t <= t'
  | CCtxErr t' => cancelled d t' = true /\ t <= t'
                  /\ match call None t av with CAnswers t'' => cancelled d t'' = true | _ => True end
  | CNever => d = None /\ av = None
  end.
Proof.
  intros d t av. unfold call.
  destruct (cancelled d t) eqn:C.
  - split; [exact C|]. split; [lia|]. simpl. destruct av as [a|]; [|exact I].
    apply (cancelled_mono d t); [exact C|lia].
  - destruct av as [a|].
    + destruct d as [e|]; simpl in *.
      * apply Nat.leb_gt in C. destruct (Nat.leb e (Nat.max t a)) eqn:L; simpl; rewrite ?Nat.leb_refl, ?L;
          repeat split; try reflexivity; try lia.
      * repeat split; try reflexivity; lia.
    + destruct d as [e|]; simpl in *.
      * apply Nat.leb_gt in C. rewrite Nat.leb_refl. repeat split; try reflexivity; lia.
      * split; reflexivity.
Qed.

Definition decisive (r : shard_res) : bool := match r with SFail => false | _ => true end.

(* the natural result of a shard (no deadline) never comes earlier than its start *)
Lemma natural_time_ge : forall sh t r t', tsearch_shard None t sh = TSR r t' -> t <= t'.
Proof.
  induction sh as [|[[s b] av] rest IH]; intros t r t' H; simpl in H.
  - inversion H; lia.
  - unfold call in H. simpl in H. destruct av as [a|]; [|discriminate].
    destruct b; try (inversion H; subst; lia);
      (apply IH in H; lia).
Qed.

(* a shard that ends, under the deadline, with anything but a plain failure did so before the expiry,
   and it is exactly what it does without any deadline, at the same time *)
Lemma shard_decisive_natural : forall d sh t r t',
  tsearch_shard d t sh = TSR r t' -> decisive r = true ->
  cancelled d t' = false /\ tsearch_shard None t sh = TSR r t'.
Proof.
  intros d sh. induction sh as [|[[s b] av] rest IH]; intros t r t' H D; simpl in H.
  - inversion H; subst. discriminate.
  - pose proof (call_cases d t av) as CC. simpl.
    destruct (call d t av) as [t1|t1|] eqn:E.
    + destruct CC as (NC & N & _). rewrite N.
      destruct b; try (inversion H; subst; split; [exact NC|reflexivity]).
      apply IH; assumption.
    + destruct CC as (C & _ & _). rewrite (shard_cancelled d rest t1 C) in H. inversion H; subst. discriminate.
    + discriminate.
Qed.

(* the natural delivery of a shard is before the expiry: the deadline changes nothing for this shard *)
Lemma shard_not_expired : forall d sh t,
  expires_before d t sh = false -> tsearch_shard d t sh = natural t sh.
Proof.
  intros d sh. unfold expires_before, natural.
  induction sh as [|[[s b] av] rest IH]; intros t H; simpl in *; [reflexivity|].
  pose proof (call_cases d t av) as CC.
  destruct (call d t av) as [t1|t1|] eqn:E.
  - destruct CC as (NC & N & _). rewrite N in *. destruct b; try reflexivity. apply IH. exact H.
  - destruct CC as (C & L & N). exfalso.
    destruct (call None t av) as [t2|t2|] eqn:E2.
    + assert (G : forall r t3, tsearch_shard None t2 rest = TSR r t3 -> cancelled d t3 = true)
        by (intros r t3 G; apply (cancelled_mono d t2); [exact N | exact (natural_time_ge _ _ _ _ G)]).
      destruct b.
      * rewrite N in H. discriminate.
      * destruct (tsearch_shard None t2 rest) as [r t3|] eqn:E3.
        -- rewrite (G r t3 eq_refl) in H. discriminate.
        -- destruct d; [discriminate|]. simpl in C. discriminate.
      * rewrite N in H. discriminate.
      * rewrite N in H. discriminate.
      * rewrite N in H. discriminate.
    + unfold call in E2. simpl in E2. destruct av; discriminate.
    + destruct d; [discriminate|]. simpl in C. discriminate.
  - destruct CC as (-> & ->). unfold call. simpl. reflexivity.
Qed.

(* a shard that delivered an answer under the deadline: the natural answer, before the expiry *)
Lemma delivered_is_natural : forall d t sh,
  delivered_answer d t sh = true ->
  expires_before d t sh = false
  /\ exists s l x t', tsearch_shard d t sh = TSR (SAns s l x) t' /\ natural t sh = TSR (SAns s l x) t'
                      /\ cancelled d t' = false.
Proof.
  intros d t sh H. unfold delivered_answer in H.
  destruct (tsearch_shard d t sh) as [r t'|] eqn:E; [|discriminate].
  destruct r as [s l x| | |]; try discriminate.
  destruct (shard_decisive_natural d sh t _ _ E eq_refl) as (NC & N).
  split.
  - unfold expires_before, natural. rewrite N. exact NC.
  - exists s, l, x, t'. repeat split; assumption.
Qed.

Lemma expired_not_delivered : forall d t sh, expires_before d t sh = true -> delivered_answer d t sh = false.
Proof.
  intros d t sh H. destruct (delivered_answer d t sh) eqn:E; [|reflexivity].
  apply delivered_is_natural in E. destruct E as (E & _). congruence.
Qed.

(* ------------------------------------------------------------------ arrival order *)
Lemma ev_insert_perm : forall p x l, Permutation (ev_insert p x l) (x :: l).
Proof.
  intros p x l. induction l as [|y r IH]; simpl; [apply Permutation_refl|].
  destruct (ev_before p x y); [apply Permutation_refl|].
  eapply perm_trans; [apply perm_skip; exact IH | apply perm_swap].
Qed.

Lemma arrival_perm : forall p l, Permutation (arrival p l) l.
Proof.
  intros p l. induction l as [|x r IH]; simpl; [apply perm_nil|].
  eapply perm_trans; [apply ev_insert_perm | apply perm_skip; exact IH].
Qed.

(* ------------------------------------------------------------------ the receive loop *)
Definition is_answer_ev (e : ev) : bool :=
  match e with (Some _, SAns _ _ _) => true | _ => false end.

(* a complete verdict: nothing but answers was received, one per event *)
Lemma recv_loop_complete : forall evs qs xs nerr t qs' xs' tend,
  recv_loop evs qs xs nerr t = TT (TOk false qs' xs') tend ->
  nerr = 0 /\ forallb is_answer_ev evs = true /\ length qs' = length qs + length evs
  /\ qs' = qs ++ answers (map snd evs) /\ xs' = xs ++ extras (map snd evs).
Proof.
  induction evs as [|[[t'|] r] rest IH]; intros qs xs nerr t qs' xs' tend H; simpl in H.
  - destruct nerr; simpl in H.
    + inversion H; subst. simpl. rewrite !app_nil_r. repeat split; lia.
    + destruct qs; inversion H.
  - destruct r as [s l x| | |]; try discriminate.
    + apply IH in H. destruct H as (-> & F & L & Q & X). simpl. rewrite F.
      rewrite app_length in L. simpl in L. rewrite <- app_assoc in Q, X. simpl in Q, X.
      repeat split; try assumption; lia.
    + apply IH in H. destruct H as (H & _). discriminate.
  - discriminate.
Qed.

(* a partial verdict: at least one shard failed (it sent an error), at least one answered *)
Lemma recv_loop_partial : forall evs qs xs nerr t qs' xs' tend,
  recv_loop evs qs xs nerr t = TT (TOk true qs' xs') tend ->
  qs' <> [] /\ (nerr <> 0 \/ existsb (fun e => is_fail (snd e)) evs = true).
Proof.
  induction evs as [|[[t'|] r] rest IH]; intros qs xs nerr t qs' xs' tend H; simpl in H.
  - destruct nerr; simpl in H; [discriminate|]. destruct qs; inversion H; subst. split; [discriminate|left; discriminate].
  - destruct r as [s l x| | |]; try discriminate.
    + apply IH in H. destruct H as (N & [E|E]); (split; [exact N|]); [left; exact E | right; simpl; exact E].
    + apply IH in H. destruct H as (N & _). split; [exact N|]. right. reflexivity.
  - discriminate.
Qed.

(* ------------------------------------------------------------------ one tier *)
Lemma forallb_perm : forall A (f : A -> bool) l l', Permutation l l' -> forallb f l = forallb f l'.
Proof.
  intros A f l l' P. induction P; simpl; try congruence.
  - destruct (f x), (f y); reflexivity.
Qed.

Lemma tier_complete_all_delivered : forall prio d t0 shards qs xs tend,
  tsearch_stores prio d t0 shards = TT (TOk false qs xs) tend ->
  forallb (delivered_answer d t0) shards = true /\ length qs = length shards.
Proof.
  intros prio d t0 shards qs xs tend H. unfold tsearch_stores in H.
  apply recv_loop_complete in H. destruct H as (_ & F & L & _ & _).
  set (evs := map (fun sh => ev_of (tsearch_shard d t0 sh)) shards) in *.
  rewrite (forallb_perm _ is_answer_ev _ _ (arrival_perm prio evs)) in F.
  rewrite (Permutation_length (arrival_perm prio evs)) in L.
  unfold evs in *. rewrite map_length in L. split; [|simpl in L; exact L].
  clear L. induction shards as [|sh r IH]; simpl in *; [reflexivity|].
  apply andb_true_iff in F. destruct F as (F1 & F2). rewrite (IH F2), andb_true_r.
  unfold delivered_answer. destruct (tsearch_shard d t0 sh) as [[s l x| | |] t|]; simpl in F1; try discriminate; reflexivity.
Qed.

Lemma tier_complete_honest : forall prio d t0 shards qs xs tend,
  tsearch_stores prio d t0 shards = TT (TOk false qs xs) tend ->
  existsb (expires_before d t0) shards = false.
Proof.
  intros prio d t0 shards qs xs tend H. apply tier_complete_all_delivered in H. destruct H as (H & _).
  induction shards as [|sh r IH]; simpl in *; [reflexivity|].
  apply andb_true_iff in H. destruct H as (H1 & H2). rewrite (IH H2), orb_false_r.
  apply delivered_is_natural in H1. tauto.
Qed.

(* ------------------------------------------------------------------ Search and the handlers *)
(* the tier whose verdict the response is built from, and when its search started *)
Definition deciding_tier (p1 : bool) (d : option nat) (hot hotread cold : list tshard) : option (nat * list tshard) :=
  let h := match hotread with [] => hot | _ => hotread end in
  match tsearch_stores p1 d 0 h with
  | TTHang => None
  | TT TWantsOld t1 => match cold with [] => None | _ => Some (t1, cold) end
  | TT _ _ => Some (0, h)
  end.

(* every shard of the tier delivered, before the expiry, the answer it gives without any deadline *)
Definition all_delivered (d : option nat) (t0 : nat) (tier : list tshard) : Prop :=
  Forall (fun sh => expires_before d t0 sh = false
                    /\ exists s l x t, tsearch_shard d t0 sh = TSR (SAns s l x) t
                                       /\ natural t0 sh = TSR (SAns s l x) t /\ cancelled d t = false) tier.

Lemma forallb_delivered : forall d t0 tier, forallb (delivered_answer d t0) tier = true -> all_delivered d t0 tier.
Proof.
  intros d t0 tier H. apply Forall_forall. intros sh I.
  rewrite forallb_forall in H. apply delivered_is_natural. apply H. exact I.
Qed.

Lemma tfinish_complete : forall sort d t tend off size rev itv naggs fetch gap ffail l x,
  tfinish sort d t tend off size rev itv naggs fetch gap ffail = SOk false l x ->
  exists qs xs, t = TOk false qs xs.
Proof.
  intros sort d t tend off size rev itv naggs fetch gap ffail l x H. unfold tfinish in H.
  destruct t as [p qs xs| | |]; simpl in H; try discriminate.
  destruct (paginate _ _ _) as [|k r]; [inversion H; subst; eauto|].
  repeat match type of H with context [if ?c then _ else _] => destruct c end;
    try discriminate; inversion H; subst; eauto.
Qed.

Lemma search_complete_honest : forall sort p1 p2 d hot hotread cold off size rev itv naggs fetch gap ffail l x,
  tsearch sort p1 p2 d hot hotread cold off size rev itv naggs fetch gap ffail = TS (SOk false l x) ->
  exists t0 tier, deciding_tier p1 d hot hotread cold = Some (t0, tier)
                  /\ all_delivered d t0 tier /\ existsb (expires_before d t0) tier = false.
Proof.
  intros sort p1 p2 d hot hotread cold off size rev itv naggs fetch gap ffail l x H.
  unfold tsearch in H. unfold deciding_tier.
  set (h := match hotread with [] => hot | _ => hotread end) in *.
  destruct (tsearch_stores p1 d 0 h) as [t t1|] eqn:E1; [|discriminate].
  destruct t as [p qs xs| | |].
  - inversion H as [H']. apply tfinish_complete in H'. destruct H' as (qs' & xs' & H'). inversion H'; subst.
    exists 0, h. split; [reflexivity|]. split.
    + apply forallb_delivered. exact (proj1 (tier_complete_all_delivered _ _ _ _ _ _ _ E1)).
    + exact (tier_complete_honest _ _ _ _ _ _ _ E1).
  - destruct cold as [|c cr] eqn:EC; [discriminate|]. rewrite <- EC in *.
    destruct (tsearch_stores p2 d t1 cold) as [t t2|] eqn:E2; [|discriminate].
    inversion H as [H']. apply tfinish_complete in H'. destruct H' as (qs' & xs' & ->).
    exists t1, cold. split; [rewrite EC; reflexivity|]. split.
    + apply forallb_delivered. exact (proj1 (tier_complete_all_delivered _ _ _ _ _ _ _ E2)).
    + exact (tier_complete_honest _ _ _ _ _ _ _ E2).
  - inversion H.
  - inversion H.
Qed.

Definition honest_outcome (r : tsres) : Prop :=
  match r with
  | TS (SOk false _ _) => False
  | _ => True                 (* an error, a response flagged partial (or no return at all) *)
  end.

Theorem deadline_honest : forall sort p1 p2 d hot hotread cold off size rev itv naggs fetch gap ffail,
  (* a complete-looking response is only given when every shard of the deciding tier delivered *)
  match tsearch sort p1 p2 d hot hotread cold off size rev itv naggs fetch gap ffail with
  | TS (SOk false l x) =>
      exists t0 tier, deciding_tier p1 d hot hotread cold = Some (t0, tier) /\ all_delivered d t0 tier
  | _ => True
  end
  (* the context expires before every shard of the deciding tier has delivered: error or partial *)
  /\ (forall t0 tier, deciding_tier p1 d hot hotread cold = Some (t0, tier) ->
      existsb (expires_before d t0) tier = true ->
      honest_outcome (tsearch sort p1 p2 d hot hotread cold off size rev itv naggs fetch gap ffail)).
Proof.
  intros. split.
  - destruct (tsearch _ _ _ _ _ _ _ _ _ _ _ _ _ _ _) as [[k|[|] l x]|] eqn:E; try exact I.
    apply search_complete_honest in E. destruct E as (t0 & tier & D & A & _). eauto.
  - intros t0 tier D X. unfold honest_outcome.
    destruct (tsearch _ _ _ _ _ _ _ _ _ _ _ _ _ _ _) as [[k|[|] l x]|] eqn:E; try exact I.
    apply search_complete_honest in E. destruct E as (t0' & tier' & D' & _ & N).
    rewrite D in D'. inversion D'; subst. congruence.
Qed.

(* the handlers: code NO / partial_response = false only when every shard of the deciding tier delivered *)
Lemma api_of_complete : forall r flag c l x, api_of r = AResp flag c l x ->
  (flag = false \/ c = CNo) -> exists l' x', r = SOk false l' x' /\ flag = false /\ c = CNo.
Proof.
  intros r flag c l x H W. destruct r as [[| | |]|[|] l' x']; simpl in H; try discriminate.
  - inversion H; subst. destruct W; discriminate.
  - destruct (Nat.eqb (x_errs x') 0); [|discriminate]. inversion H; subst. eauto.
Qed.

Theorem deadline_api_honest : forall sort h p1 p2 d hot hotread cold off size rev itv naggs gap ffail,
  match tapi_of sort h p1 p2 d hot hotread cold off size rev itv naggs gap ffail with
  | TA (AResp flag code l x) =>
      (flag = false \/ code = CNo) ->
      flag = false /\ code = CNo
      /\ exists t0 tier, deciding_tier p1 d hot hotread cold = Some (t0, tier) /\ all_delivered d t0 tier
                         /\ existsb (expires_before d t0) tier = false
  | _ => True
  end.
Proof.
  intros. unfold tapi_of. destruct (h_invalid h size itv naggs); [exact I|].
  destruct h;
    match goal with |- context [tsearch ?a ?b ?c ?dd ?e ?f ?g ?hh ?i ?j ?k ?l ?m ?n ?o] =>
      destruct (tsearch a b c dd e f g hh i j k l m n o) as [r|] eqn:E end; try exact I;
    (destruct (api_of r) as [c| |flag code l x] eqn:A; try exact I;
     intros W; destruct (api_of_complete _ _ _ _ _ A W) as (l' & x' & -> & -> & ->);
     split; [reflexivity|]; split; [reflexivity|];
     apply search_complete_honest in E; destruct E as (t0 & tier & D & AD & N); eauto).
Qed.

(* ------------------------------------------------------------------ content of a timed tier response *)
(* a response (complete or partial) is built from exactly the answers received, in arrival order; it is
   flagged partial iff some shard sent a failure; no special verdict was among the events *)
Lemma recv_loop_ok : forall evs qs xs nerr t p qs' xs' tend,
  recv_loop evs qs xs nerr t = TT (TOk p qs' xs') tend ->
  qs' = qs ++ answers (map snd evs) /\ xs' = xs ++ extras (map snd evs)
  /\ p = negb (Nat.eqb nerr 0) || existsb is_fail (map snd evs)
  /\ existsb is_wo (map snd evs) = false /\ existsb is_tmf (map snd evs) = false
  /\ Forall (fun e => fst e <> None) evs.
Proof.
  induction evs as [|[[t'|] r] rest IH]; intros qs xs nerr t p qs' xs' tend H; simpl in H.
  - destruct nerr; simpl in H.
    + inversion H; subst. simpl. rewrite !app_nil_r. repeat split; constructor.
    + destruct qs; inversion H; subst. simpl. rewrite !app_nil_r. repeat split; constructor.
  - destruct r as [s l x| | |]; try discriminate.
    + apply IH in H. destruct H as (Q & X & P & W & T & F). simpl. rewrite <- app_assoc in Q, X.
      repeat split; try assumption. constructor; [discriminate|exact F].
    + apply IH in H. destruct H as (Q & X & P & W & T & F). simpl.
      repeat split; try assumption.
      * rewrite P. simpl. rewrite orb_true_r. reflexivity.
      * constructor; [discriminate|exact F].
  - discriminate.
Qed.

Theorem tier_content : forall prio d t0 shards p qs xs tend,
  tsearch_stores prio d t0 shards = TT (TOk p qs xs) tend ->
  let evs := arrival prio (map (fun sh => ev_of (tsearch_shard d t0 sh)) shards) in
  Permutation evs (map (fun sh => ev_of (tsearch_shard d t0 sh)) shards)
  /\ qs = answers (map snd evs) /\ xs = extras (map snd evs)
  /\ p = existsb is_fail (map snd evs)
  /\ (p = true -> qs <> [] /\ existsb (fun sh => negb (delivered_answer d t0 sh)) shards = true)
  /\ (p = false -> forallb (delivered_answer d t0) shards = true).
Proof.
  intros prio d t0 shards p qs xs tend H evs.
  pose proof H as H0. unfold tsearch_stores in H. fold evs in H.
  pose proof (recv_loop_ok _ _ _ _ _ _ _ _ _ H) as (Q & X & P & _ & _ & _). simpl in Q, X, P.
  split; [apply arrival_perm|]. repeat split; try assumption.
  - destruct p; [|discriminate]. apply recv_loop_partial in H. tauto.
  - destruct p; [|discriminate].
    destruct (existsb (fun sh => negb (delivered_answer d t0 sh)) shards) eqn:E; [reflexivity|exfalso].
    assert (F : forallb is_answer_ev (map (fun sh => ev_of (tsearch_shard d t0 sh)) shards) = true).
    { clear -E. induction shards as [|sh r IH]; simpl in *; [reflexivity|].
      apply orb_false_iff in E. destruct E as (E1 & E2). rewrite (IH E2), andb_true_r.
      unfold delivered_answer in E1. destruct (tsearch_shard d t0 sh) as [[s l x| | |] t|]; simpl in *; try discriminate; reflexivity. }
    rewrite <- (forallb_perm _ is_answer_ev _ _ (arrival_perm prio _)) in F. fold evs in F.
    assert (G : existsb is_fail (map snd evs) = false).
    { clear -F. induction evs as [|[[t|] [s l x| | |]] r IH]; simpl in *; try discriminate; auto. }
    congruence.
  - intros ->. exact (proj1 (tier_complete_all_delivered _ _ _ _ _ _ _ H0)).
Qed.

(* collected statement about one shard (Props.C16_deadline_shard) *)
Lemma deadline_shard : forall d sh t,
  (cancelled d t = true -> tsearch_shard d t sh = TSR SFail t)
  /\ (forall r t', tsearch_shard d t sh = TSR r t' -> decisive r = true ->
        cancelled d t' = false /\ tsearch_shard None t sh = TSR r t')
  /\ (expires_before d t sh = false -> tsearch_shard d t sh = natural t sh)
  /\ (expires_before d t sh = true -> delivered_answer d t sh = false).
Proof.
  intros d sh t. split; [exact (shard_cancelled d sh t)|]. split; [exact (shard_decisive_natural d sh t)|].
  split; [exact (shard_not_expired d sh t) | exact (expired_not_delivered d t sh)].
Qed.
