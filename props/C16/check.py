"""C16 — proxy reads degrade honestly (DESIGN.md section 7, C16)."""
import vcheck

PROP = "C16"

TRUSTED = [
    "Coq 8.16.1 kernel (coqc), vm_compute for case evaluation; no native_compute",
    "hand-written model props/C16/coq/Model.v of searchShard/searchStores/Search/MergeQPRs(IDs)/paginateIDs and of "
    "lessFuncPosBased/mergedDocStream/newNMergedStreams/mergedStreamIterator (tied to /repo by the correspondence run)",
    "Go harness harness/cmd/hC16: scripted fake StoreApiClients (search answers, fetch streams), canonicalisation of "
    "source numbers to host indices through the add-only export VerifC16SourceByClient",
    "sort.Sort enters the theorems as an arbitrary function returning a sorted permutation",
]
ASSUME = [
    "ShuffleReplicas = false (replica order is the configured order)",
    "store answers carry no soft errors (qpr.Errors empty), no histogram/aggregation part is compared",
    "proxyapi Search/ComplexSearch flag mapping (error/partial_response) is not driven (cut, see report)",
    "context cancellation and timeouts are not modelled",
]
RULE = ("exhaustive: hot tier 2 shards x 2 replicas, all 5^4 behaviour assignments x cold tier {none, ok, error, "
        "wants-old}; random: topologies up to 3 shards x 3 replicas (+ hot-read tier, + cold tier up to 3 x 2) with "
        "behaviours {ok, error, wants-old, too-many-fractions, too-many-uniq}, overlapping or disjoint ID sets, "
        "offset/size/order, fetch streams edited by drop/blank/truncate(+error)/unrequested/swap/duplicate/reverse, "
        "failing fetch calls; direct FetchDocsStream on 1-4 stores with arbitrary request lists. non-trivial = a "
        "search script with at least one non-ok replica / a fetch of >= 2 IDs; distinct by script")


def harness_args(tier, seed, outdir):
    return ["-seed", str(seed), "-tier", tier, "-out", outdir]


def main(argv):
    return vcheck.standard_check(PROP, argv, harness_args, TRUSTED, ASSUME, RULE, coqchk=True)
