"""C16 — proxy reads degrade honestly (DESIGN.md section 7, C16)."""
import vcheck

PROP = "C16"

TRUSTED = [
    "Coq 8.16.1 kernel (coqc), vm_compute for case evaluation; no native_compute",
    "hand-written model props/C16/coq/Model.v of searchShard/searchStores/Search/MergeQPRs (IDs, Total with the "
    "duplicate repair, histogram, aggregations, soft errors)/paginateIDs, of doSearch/processSearchErrors/"
    "parseProxyError (API answer), of lessFuncPosBased/mergedDocStream/newNMergedStreams/mergedStreamIterator and of "
    "Documents/expandIDsBySources/uniqueIDIterator (tied to /repo by the correspondence run)",
    "hand-written model props/C16/coq/ModelExt.v of groupIDsBySource/FetchDocsStream (one call per source, the "
    "all-calls-failed decision; call order = map iteration = parameter), of the proxyapi response assembly (size/offset "
    "validation, doSearch error mapping, makeProtoDocs, int64 Total, flag/code, histogram) and of SamplesContainer.Merge/"
    "InsertSample with the reservoir (fastrand.RNG as a parameter)",
    "Go harness harness/cmd/hC16: scripted fake StoreApiClients (search answers with totals/histograms/aggregations/"
    "soft errors, fetch streams), real proxyapi Search/ComplexSearch handlers through the add-only export "
    "VerifC16NewGrpcV1, canonicalisation of source numbers through VerifC16SourceByClient",
    "sort.Sort enters the theorems as an arbitrary function returning a sorted permutation",
    "hand-written model props/C16/coq/ModelRetain.v of OldestCT after FracManager.shrinkSizes (GetOldestFrac over the remaining "
    "fractions); harness/cmd/hC16/retain.go drives a real FracManager through harness/internal/fracbuild and the add-only exports "
    "VerifC15SetTotalSize / VerifC15ShrinkSizes (creation times are wall-clock and are rank-compressed before they enter a case)",
    "hand-written model props/C16/coq/ModelDeadline.v of the request context in logical time: a client.Search call on a done "
    "context fails at once, a call still running at the expiry fails then (searchHost), searchShard treating that as a replica "
    "error, searchStores' receive loop over the ShardResponses in arrival order (which errors return at once, which are collected, "
    "errors + data => partial), Search's hot -> cold fallback on the same context, the re-check of the context before the fetch, "
    "and what Search / ComplexSearch / GetAggregation / GetHistogram hand to doSearch (ShouldFetch, size/offset, hist, aggs)",
    "deadline driver harness/cmd/hC16/deadline.go: fake stores whose Search blocks until released or until their context is done "
    "(then the gRPC status of ctx.Err()), released one logical time step after the other after a quiescence wait, the request "
    "context cancelled at the scripted step; its observation WHICH STORES REALLY ANSWERED is what the specification checker of "
    "the new classes is evaluated on (not the timed model)",
]
ASSUME = [
    "aggregation values are integers (exact in float64); for bins with >= 8096 samples only Total/Sum/Min/Max/NotExists are "
    "compared (C16_agg_scalar_exact_unbounded), the sample multiset after reservoir replacement is not",
    "stores answer with at most as many aggregations as requested (more makes MergeQPRs index out of range)",
    "replica errors are not gRPC InvalidArgument statuses (the bad-query path of doSearch is not driven)",
    "query/from/to presence checks, histogram interval parsing, rate limiting, mirroring, the explain tree, the API rendering of "
    "aggregations and the grpc-gateway HTTP re-encoding: not modelled (size/offset validation is)",
    "request context: a store client fails with the context error as soon as its context is done and not earlier (gRPC client "
    "behaviour, reproduced by the fakes); the driven scripts have pairwise distinct availability / expiry times (one shard moves at "
    "a time) - simultaneous events are covered by the theorems (every tie-break) but not driven; an expiry between searchStores' "
    "verdict and Search's re-check is a parameter of the model (gap), proved about, not driven; an expiry DURING the fetch stage "
    "(Fetch calls / document streams on a done context) is neither modelled nor driven; the handlers' SearchTimeout is the same "
    "context (the earlier of both expiries) and is driven by a cancel, not by a timer",
]
RULE = ("exhaustive: hot tier 2 shards x 2 replicas, all 5^4 behaviour assignments x cold tier {none, ok, error, "
        "wants-old}; random: topologies up to 3 shards x 3 replicas (+ hot-read tier, + cold tier up to 3 x 2) with "
        "behaviours {ok, error, wants-old, too-many-fractions, too-many-uniq}, ShuffleReplicas on a quarter (replicas "
        "listed in the observed call order), overlapping or disjoint ID sets, offset/size/order, totals / histograms "
        "(interval 0,1,2,5) / up to 2 aggregations with up to 3 bins / soft errors on half of the scripts, a quarter "
        "each through the real proxyapi Search and ComplexSearch handlers; fetch streams edited by drop/blank/"
        "truncate(+error)/unrequested/swap/duplicate/reverse, failing fetch calls; SEQUENCES of 2-5 searches on one "
        "Ingestor (and one proxyapi handler set) whose replica behaviours change between searches (rolling restart at every "
        "position, flips, random), each search checked against its own behaviours; direct FetchDocsStream on 1-4 "
        "stores with arbitrary request lists; Ingestor.Documents on 1-3 stores; EXTENSION: FetchDocsStream on 1-4 stores with all / "
        "some / the first / rare Fetch calls failing and streams breaking after k documents (CFds: every call with the IDs it was "
        "asked for), the decision alone for every Documents script (CFdsErr); seq.MergeQPRs called directly on 0-4 answers with IDs "
        "around bucket borders (interval 0,1,2,5,1000), histogram keys shared or disjoint, zero counts, nil histograms, totals above "
        "2^63, and bins receiving >= 8096 samples (CMerge); whole API responses of Search / ComplexSearch (CPage: documents with "
        "payloads, int64 total, flag, code, histogram) with size 0, negative size/offset, offset beyond the result, small pages, "
        "explain, with_total off, any pattern of failing fetch calls; histogram key-set scripts and >= 8096-sample bins through "
        "Ingestor.Search. REQUEST CONTEXT (CDl / CDlApi): stores that answer when released or fail with ctx.Err(), the request "
        "context cancelled after j of s shards answered - boundary family: s = 1..3 single-replica shards, every j = 0..s and no "
        "expiry, every shard the slow one in turn, x {Ingestor.Search with fetch, without fetch, proxyapi Search, ComplexSearch, "
        "GetAggregation, GetHistogram} x {size 0 (hist-only / aggs-only ComplexSearch), size 4}; random family: up to 3 shards x 3 "
        "replicas (+ hot-read tier, + cold tier whose stores become available after the hot ones) with behaviours {ok, error, "
        "wants-old, too-many-fractions, too-many-uniq}, a random order of availability, stores that never answer, expiry before "
        "everything / between any two availabilities / after everything / never, size 0 on a third, histograms and aggregation "
        "queries, invalid requests; impl output compared with the timed model and checked against the untimed specification over "
        "the stores that really answered: complete only if every shard had an answering replica. REPLICA REFUSAL KINDS: an error "
        "replica of every shard / tier / sequence / deadline class refuses with Unavailable, a plain error, gRPC status "
        "DeadlineExceeded or Canceled, or the plain values context.DeadlineExceeded / context.Canceled - a deadline of the STORE'S OWN "
        "while the request context is alive (exhaustive family: all five kinds at every position); the model treats them all as ordinary "
        "replica errors (the next replica is tried). RETENTION (CRetain): a real FracManager with 3-5 sealed fractions created >= 5 ms "
        "apart, one real shrinkSizes pass truncating k = 0..n of them: OldestCT must be the creation time of the oldest REMAINING "
        "fraction and the real earlierThanOldestFrac verdict for from = ct-1, ct, ct+1 of every fraction must be the model's (times "
        "replaced by their rank). non-trivial = a search script with at "
        "least one non-ok replica / a fetch of >= 2 IDs / Documents of >= 2 IDs on >= 2 stores / a CFds request of >= 2 IDs / a merge of >= 2 answers / a page script with a non-ok replica or a failing fetch call / a request-context script whose context expired while a hot shard had not answered or with a non-ok replica; "
        "distinct by script")


def harness_args(tier, seed, outdir):
    return ["-seed", str(seed), "-tier", tier, "-out", outdir]


def main(argv):
    return vcheck.standard_check(PROP, argv, harness_args, TRUSTED, ASSUME, RULE, coqchk=True)
