"""C16 — proxy reads degrade honestly (DESIGN.md section 7, C16)."""
import vcheck

PROP = "C16"

TRUSTED = [
    "Coq 8.16.1 kernel (coqc), vm_compute for case evaluation; no native_compute",
    "hand-written model props/C16/coq/Model.v of searchShard/searchStores/Search/MergeQPRs (IDs, Total with the "
    "duplicate repair, histogram, aggregations, soft errors)/paginateIDs, of doSearch/processSearchErrors/"
    "parseProxyError (API answer), of lessFuncPosBased/mergedDocStream/newNMergedStreams/mergedStreamIterator and of "
    "Documents/expandIDsBySources/uniqueIDIterator (tied to /repo by the correspondence run)",
    "Go harness harness/cmd/hC16: scripted fake StoreApiClients (search answers with totals/histograms/aggregations/"
    "soft errors, fetch streams), real proxyapi Search/ComplexSearch handlers through the add-only export "
    "VerifC16NewGrpcV1, canonicalisation of source numbers through VerifC16SourceByClient",
    "sort.Sort enters the theorems as an arbitrary function returning a sorted permutation",
]
ASSUME = [
    "aggregation values are integers (exact in float64); fewer than 8096 samples per bin (reservoir replacement not modelled)",
    "stores answer with at most as many aggregations as requested (more makes MergeQPRs index out of range)",
    "replica errors are not gRPC InvalidArgument statuses (the bad-query path of doSearch is not driven)",
    "request validation of the handlers (size > 0, query/from/to present), rate limiting, mirroring, explain: not modelled",
    "context cancellation and timeouts are not modelled",
]
RULE = ("exhaustive: hot tier 2 shards x 2 replicas, all 5^4 behaviour assignments x cold tier {none, ok, error, "
        "wants-old}; random: topologies up to 3 shards x 3 replicas (+ hot-read tier, + cold tier up to 3 x 2) with "
        "behaviours {ok, error, wants-old, too-many-fractions, too-many-uniq}, ShuffleReplicas on a quarter (replicas "
        "listed in the observed call order), overlapping or disjoint ID sets, offset/size/order, totals / histograms "
        "(interval 0,1,2,5) / up to 2 aggregations with up to 3 bins / soft errors on half of the scripts, a quarter "
        "each through the real proxyapi Search and ComplexSearch handlers; fetch streams edited by drop/blank/"
        "truncate(+error)/unrequested/swap/duplicate/reverse, failing fetch calls; SEQUENCES of 2-5 searches on one "
        "Ingestor (and one proxyapi handler set) whose replica behaviours change between searches (rolling restart at every "
        "position, flips, random), each search checked against its own behaviours; direct FetchDocsStream on 1-4 "
        "stores with arbitrary request lists; Ingestor.Documents on 1-3 stores. non-trivial = a search script with at "
        "least one non-ok replica / a fetch of >= 2 IDs / Documents of >= 2 IDs on >= 2 stores; distinct by script")


def harness_args(tier, seed, outdir):
    return ["-seed", str(seed), "-tier", tier, "-out", outdir]


def main(argv):
    return vcheck.standard_check(PROP, argv, harness_args, TRUSTED, ASSUME, RULE, coqchk=True)
