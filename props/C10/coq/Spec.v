(* C10 — the property's statement in executable form: line-level reading of a bulk body,
   independent of the buffered reader.  No proofs in this file. *)
From C10 Require Import Model.

(* physical lines: contents of the '\n'-terminated lines, and the unterminated rest *)
Fixpoint split_lines (s : list N) : list (list N) * list N :=
  match s with
  | [] => ([], [])
  | c :: r =>
      let '(ls, tl) := split_lines r in
      if N.eqb c LF then ([] :: ls, tl)
      else match ls with
           | [] => ([], c :: tl)
           | l :: ls' => ((c :: l) :: ls', tl)
           end
  end.

Fixpoint join_lines (ls : list (list N)) (tl : list N) : list N :=
  match ls with
  | [] => tl
  | l :: r => l ++ LF :: join_lines r tl
  end.

(* a line as the protocol sees it: within the size limit (the line with its terminator fits the
   reader's buffer; "\r\n" counts as terminator and is removed) or over-size *)
Inductive lline := Fit (c : list N) | Big.

Definition lline_of (B : nat) (l : list N) : lline :=
  if Nat.ltb (length l) B then Fit (strip_cr l) else Big.

(* the unterminated last line: no terminator to strip or to count; a line of exactly B bytes is
   within the limit iff the transport reports the end of the body together with it (eager) *)
Definition tail_fits (eager : bool) (B : nat) (tl : list N) : bool :=
  Nat.ltb (length tl) B || (eager && Nat.eqb (length tl) B).

Definition tail_lline (eager : bool) (B : nat) (tl : list N) : list lline :=
  match tl with
  | [] => []
  | _ => [if tail_fits eager B tl then Fit tl else Big]
  end.

Definition llines (eager : bool) (B : nat) (body : list N) : list lline :=
  let '(ls, tl) := split_lines body in map (lline_of B) ls ++ tail_lline eager B tl.

(* the lines in document position: blank lines may precede an action line; an action line is
   followed by exactly one document line; the first five action lines must name create/index;
   None = the request violates the protocol *)
Fixpoint doc_lines (k : nat) (ls : list lline) : option (list lline) :=
  match ls with
  | [] => Some []
  | Fit [] :: r => doc_lines k r
  | Big :: _ => None
  | Fit a :: r =>
      if action_ok k a then
        match r with
        | [] => None
        | Fit [] :: _ => None
        | d :: r' => match doc_lines (S k) r' with Some ds => Some (d :: ds) | None => None end
        end
      else None
  end.

Section Spec.
  Variable classify : list N -> cls.

  Definition is_invalid (l : lline) : bool :=
    match l with Fit d => match classify d with Invalid => true | _ => false end | Big => false end.

  Fixpoint objects (ds : list lline) : list (list N) :=
    match ds with
    | [] => []
    | Fit d :: r => match classify d with Object => d :: objects r | _ => objects r end
    | Big :: r => objects r
    end.

  (* every within-limit JSON object line, in order, once, unchanged; over-size and non-object
     lines skipped; one invalid document line or a protocol violation: nothing *)
  Definition spec_outcome (eager : bool) (B : nat) (body : list N) : outcome :=
    match doc_lines 0 (llines eager B body) with
    | None => Rejected
    | Some ds => if existsb is_invalid ds then Rejected else Accepted (objects ds)
    end.
End Spec.


(* time rule of the statement, on mathematical instants *)
Open Scope Z_scope.
Definition in_drift (now drift fdrift t : Z) : bool := (- fdrift <=? now - t) && (now - t <=? drift).
Definition spec_time (now drift fdrift : Z) (doc : option Z) : Z :=
  match doc with
  | Some t => if in_drift now drift fdrift t then t else now
  | None => now
  end.
Definition ms_of (t : Z) : Z := t / 1000000.
Close Scope Z_scope.

(* ---------------------------------------------------------------- the ES time format, declaratively
   YYYY-MM-DD hh:mm:ss[.f+] : decimal digits, month 1..12, day 1..31 (a day beyond the month's end
   is normalised by time.Date, as in the code), hour <= 23, minute, second <= 59; any number >= 1
   of fraction digits, those beyond the ninth are dropped. *)
Definition dig (d : N) : Prop := (d < 10)%N.
Definition ch (d : N) : N := (48 + d)%N.

Fixpoint dval_acc (ds : list N) (acc : N) : N :=
  match ds with [] => acc | d :: r => dval_acc r (acc * 10 + d)%N end.
Definition dval (ds : list N) : N := dval_acc ds 0%N.

Definition frac_ns (fr : list N) : N :=
  (dval (firstn 9 fr) * 10 ^ N.of_nat (9 - length (firstn 9 fr)))%N.

Definition frac_text (fr : list N) : list N :=
  match fr with [] => [] | _ => 46%N :: map ch fr end.

Definition es_text (y3 y2 y1 y0 m1 m0 d1 d0 h1 h0 i1 i0 s1 s0 : N) (fr : list N) : list N :=
  ch y3 :: ch y2 :: ch y1 :: ch y0 :: 45%N :: ch m1 :: ch m0 :: 45%N :: ch d1 :: ch d0 :: 32%N ::
  ch h1 :: ch h0 :: 58%N :: ch i1 :: ch i0 :: 58%N :: ch s1 :: ch s0 :: frac_text fr.

Definition es_form (t : list N) (inst : Z) : Prop :=
  exists y3 y2 y1 y0 m1 m0 d1 d0 h1 h0 i1 i0 s1 s0 fr,
    Forall dig [y3; y2; y1; y0; m1; m0; d1; d0; h1; h0; i1; i0; s1; s0] /\ Forall dig fr /\
    t = es_text y3 y2 y1 y0 m1 m0 d1 d0 h1 h0 i1 i0 s1 s0 fr /\
    (1 <= 10 * m1 + m0 <= 12 /\ 1 <= 10 * d1 + d0 <= 31 /\
     10 * h1 + h0 <= 23 /\ 10 * i1 + i0 <= 59 /\ 10 * s1 + s0 <= 59)%N /\
    inst = date_nanos (Z.of_N (1000 * y3 + 100 * y2 + 10 * y1 + y0)) (Z.of_N (10 * m1 + m0))
                      (Z.of_N (10 * d1 + d0)) (Z.of_N (10 * h1 + h0)) (Z.of_N (10 * i1 + i0))
                      (Z.of_N (10 * s1 + s0)) (Z.of_N (frac_ns fr)).
