(* C10 — the property's statement in executable form: line-level reading of a bulk body,
   independent of the buffered reader.  No proofs in this file. *)
From C10 Require Import Model.

(* physical lines: contents of the '\n'-terminated lines, and the unterminated rest *)
Fixpoint split_lines (s : list N) : list (list N) * list N :=
  match s with
  | [] => ([], [])
  | c :: r =>
      let '(ls, tl) := split_lines r in
      if N.eqb c LF then ([] :: ls, tl)
      else match ls with
           | [] => ([], c :: tl)
           | l :: ls' => ((c :: l) :: ls', tl)
           end
  end.

Fixpoint join_lines (ls : list (list N)) (tl : list N) : list N :=
  match ls with
  | [] => tl
  | l :: r => l ++ LF :: join_lines r tl
  end.

(* a line as the protocol sees it: within the size limit (the line with its terminator fits the
   reader's buffer; "\r\n" counts as terminator and is removed) or over-size *)
Inductive lline := Fit (c : list N) | Big.

Definition lline_of (B : nat) (l : list N) : lline :=
  if Nat.ltb (length l) B then Fit (strip_cr l) else Big.

(* the unterminated last line: no terminator to strip or to count; a line of exactly B bytes is
   within the limit iff the transport reports the end of the body together with it (eager) *)
Definition tail_fits (eager : bool) (B : nat) (tl : list N) : bool :=
  Nat.ltb (length tl) B || (eager && Nat.eqb (length tl) B).

Definition tail_lline (eager : bool) (B : nat) (tl : list N) : list lline :=
  match tl with
  | [] => []
  | _ => [if tail_fits eager B tl then Fit tl else Big]
  end.

Definition llines (eager : bool) (B : nat) (body : list N) : list lline :=
  let '(ls, tl) := split_lines body in map (lline_of B) ls ++ tail_lline eager B tl.

(* the lines in document position: blank lines may precede an action line; an action line is
   followed by exactly one document line; the first five action lines must name create/index;
   None = the request violates the protocol *)
Fixpoint doc_lines (k : nat) (ls : list lline) : option (list lline) :=
  match ls with
  | [] => Some []
  | Fit [] :: r => doc_lines k r
  | Big :: _ => None
  | Fit a :: r =>
      if action_ok k a then
        match r with
        | [] => None
        | Fit [] :: _ => None
        | d :: r' => match doc_lines (S k) r' with Some ds => Some (d :: ds) | None => None end
        end
      else None
  end.

Section Spec.
  Variable classify : list N -> cls.

  Definition is_invalid (l : lline) : bool :=
    match l with Fit d => match classify d with Invalid => true | _ => false end | Big => false end.

  Fixpoint objects (ds : list lline) : list (list N) :=
    match ds with
    | [] => []
    | Fit d :: r => match classify d with Object => d :: objects r | _ => objects r end
    | Big :: r => objects r
    end.

  (* every within-limit JSON object line, in order, once, unchanged; over-size and non-object
     lines skipped; one invalid document line or a protocol violation: nothing *)
  Definition spec_outcome (eager : bool) (B : nat) (body : list N) : outcome :=
    match doc_lines 0 (llines eager B body) with
    | None => Rejected
    | Some ds => if existsb is_invalid ds then Rejected else Accepted (objects ds)
    end.
End Spec.


(* time rule of the statement, on mathematical instants *)
Open Scope Z_scope.
Definition in_drift (now drift fdrift t : Z) : bool := (- fdrift <=? now - t) && (now - t <=? drift).
Definition spec_time (now drift fdrift : Z) (doc : option Z) : Z :=
  match doc with
  | Some t => if in_drift now drift fdrift t then t else now
  | None => now
  end.
Definition ms_of (t : Z) : Z := t / 1000000.
Close Scope Z_scope.
