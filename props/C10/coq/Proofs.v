(* C10 — proofs about the model (Model.v) against the statement (Spec.v): the buffered reader. *)
From Coq Require Import Lia.
From C10 Require Import Model Spec.

Definition nolf (l : list N) : Prop := ~ In LF l.

Lemma nolf_cons c l : nolf (c :: l) -> N.eqb c LF = false /\ nolf l.
Proof.
  unfold nolf; simpl; intros H; split.
  - apply N.eqb_neq; intro E; apply H; left; exact E.
  - intro I; apply H; right; exact I.
Qed.

Lemma nolf_nil : nolf []. Proof. unfold nolf; simpl; tauto. Qed.

Lemma nolf_skipn n : forall l, nolf l -> nolf (skipn n l).
Proof.
  induction n; intros l H; simpl; auto.
  destruct l; auto. apply IHn. apply (nolf_cons _ _ H).
Qed.

Lemma nolf_cr l : nolf l -> nolf (CR :: l).
Proof. unfold nolf; simpl; intros H [E | I]; [discriminate E | auto]. Qed.

(* ---------------------------------------------------------------- ReadSlice *)

Lemma rs_line eager : forall n l rest, nolf l -> length l < n ->
  read_slice eager n (l ++ LF :: rest) = SDelim l rest.
Proof.
  induction n; intros l rest H L; [lia|].
  destruct l as [|c l]; simpl.
  - reflexivity.
  - destruct (nolf_cons _ _ H) as [E H']. rewrite E. rewrite IHn; auto. simpl in L; lia.
Qed.

Lemma rs_full eager : forall n l rest, nolf l -> n <= length l ->
  read_slice eager n (l ++ LF :: rest) = SFull (firstn n l) (skipn n l ++ LF :: rest).
Proof.
  induction n; intros l rest H L.
  - simpl. destruct l; reflexivity.
  - destruct l as [|c l]; simpl in L; [lia|]. simpl.
    destruct (nolf_cons _ _ H) as [E H']. rewrite E. rewrite IHn; auto. lia.
Qed.

Lemma rs_tail_short eager : forall n tl, nolf tl -> length tl < n -> read_slice eager n tl = SEof tl.
Proof.
  induction n; intros tl H L; [lia|].
  destruct tl as [|c l]; simpl; auto.
  destruct (nolf_cons _ _ H) as [E H']. rewrite E. rewrite IHn; auto. simpl in L; lia.
Qed.

Lemma rs_tail_eq eager : forall n tl, nolf tl -> length tl = n ->
  read_slice eager n tl = if eager then SEof tl else SFull tl [].
Proof.
  induction n; intros tl H L.
  - destruct tl; [|discriminate]. simpl. destruct eager; reflexivity.
  - destruct tl as [|c l]; [discriminate|]. simpl.
    destruct (nolf_cons _ _ H) as [E H']. rewrite E. rewrite IHn; auto. destruct eager; reflexivity.
Qed.

Lemma rs_tail_long eager : forall n tl, nolf tl -> n < length tl ->
  read_slice eager n tl = SFull (firstn n tl) (skipn n tl).
Proof.
  induction n; intros tl H L.
  - destruct tl; simpl in *; [lia|reflexivity].
  - destruct tl as [|c l]; simpl in L; [lia|]. simpl.
    destruct (nolf_cons _ _ H) as [E H']. rewrite E. rewrite IHn; auto. lia.
Qed.

(* ---------------------------------------------------------------- ReadLine *)

Lemma drop_last_cr_length : forall l i, drop_last_cr l = Some i -> length l = S (length i).
Proof.
  induction l as [|c l IH]; intros i H; simpl in H; [discriminate|].
  destruct l as [|d l].
  - destruct (N.eqb c CR); inversion H; reflexivity.
  - destruct (drop_last_cr (d :: l)) eqn:E; [|discriminate]. inversion H; subst.
    specialize (IH _ eq_refl). simpl in *. lia.
Qed.

Section RL.
  Variable brk : bool.
  Variable eager : bool.
  Variable B : nat.
  Hypothesis HB : 2 <= B.

  Lemma rl_fit l rest : nolf l -> length l < B ->
    read_line_t brk eager B (l ++ LF :: rest) = RLine (strip_cr l) false rest.
  Proof. intros H L. unfold read_line_t. rewrite rs_line; auto. Qed.

  Lemma rl_big l rest : nolf l -> B <= length l ->
    exists c l', read_line_t brk eager B (l ++ LF :: rest) = RLine c true (l' ++ LF :: rest)
                 /\ nolf l' /\ length l' < length l.
  Proof.
    intros H L. unfold read_line_t. rewrite rs_full; auto.
    destruct (drop_last_cr (firstn B l)) as [i|] eqn:E.
    - exists i, (CR :: skipn B l). split; [reflexivity|]. split.
      + apply nolf_cr, nolf_skipn, H.
      + simpl. rewrite skipn_length. lia.
    - exists (firstn B l), (skipn B l). split; [reflexivity|]. split.
      + apply nolf_skipn, H.
      + rewrite skipn_length. lia.
  Qed.

  Lemma rl_nil : read_line_t brk eager B [] = if brk then RBroken else REof.
  Proof. unfold read_line_t. destruct B; [lia|]. reflexivity. Qed.

  Lemma rl_tail_fit tl : tl <> [] -> nolf tl -> tail_fits eager B tl = true ->
    read_line_t brk eager B tl = RLine tl false [].
  Proof.
    intros NE H F. unfold read_line_t, tail_fits in *.
    apply orb_true_iff in F. destruct F as [F|F].
    - apply Nat.ltb_lt in F. rewrite rs_tail_short; auto. destruct tl; [congruence|reflexivity].
    - apply andb_true_iff in F. destruct F as [F1 F2]. apply Nat.eqb_eq in F2. subst eager.
      rewrite rs_tail_eq; auto. destruct tl; [congruence|reflexivity].
  Qed.

  Lemma rl_tail_big tl : nolf tl -> tail_fits eager B tl = false ->
    exists c l', read_line_t brk eager B tl = RLine c true l' /\ nolf l' /\ length l' < length tl.
  Proof.
    intros H F. unfold read_line_t, tail_fits in *.
    apply orb_false_iff in F. destruct F as [F1 F2]. apply Nat.ltb_ge in F1.
    destruct (Nat.eq_dec (length tl) B) as [EQ|NEQ].
    - rewrite (proj2 (Nat.eqb_eq _ _) EQ) in F2. rewrite andb_true_r in F2. subst eager.
      rewrite rs_tail_eq; auto.
      destruct (drop_last_cr tl) as [i|] eqn:E.
      + exists i, [CR]. split; [reflexivity|]. split; [apply nolf_cr, nolf_nil|]. simpl; lia.
      + exists tl, []. split; [reflexivity|]. split; [apply nolf_nil|]. simpl; lia.
    - rewrite rs_tail_long; auto; [|lia].
      destruct (drop_last_cr (firstn B tl)) as [i|] eqn:E.
      + exists i, (CR :: skipn B tl). split; [reflexivity|]. split.
        * apply nolf_cr, nolf_skipn, H.
        * simpl. rewrite skipn_length. lia.
      + exists (firstn B tl), (skipn B tl). split; [reflexivity|]. split.
        * apply nolf_skipn, H.
        * rewrite skipn_length. lia.
  Qed.

  (* -------------------------------------------------------------- the skip loop *)

  (* an unterminated rest is skipped to the end of the stream; a broken stream may also end the
     loop by its error (when the chunks end exactly at the break) *)
  Lemma skip_big_tail : forall m tl f, length tl <= m -> nolf tl -> length tl < f ->
    skip_big_t brk eager B f tl = Ok [] \/ (brk = true /\ skip_big_t brk eager B f tl = Fail).
  Proof.
    induction m; intros tl f L H F.
    - destruct tl; [|simpl in L; lia]. destruct f; [lia|]. simpl. rewrite rl_nil.
      destruct brk; [right; split; reflexivity|left; reflexivity].
    - destruct f; [lia|]. simpl.
      destruct tl as [|c0 t0] eqn:ET.
      + rewrite rl_nil. destruct brk; [right; split; reflexivity|left; reflexivity].
      + rewrite <- ET in *. assert (NE : tl <> []) by (rewrite ET; discriminate).
        destruct (tail_fits eager B tl) eqn:TF.
        * rewrite rl_tail_fit; auto.
        * destruct (rl_tail_big tl H TF) as (c & l' & E & H' & L'). rewrite E.
          apply IHm; auto; lia.
  Qed.

  Lemma skip_big_line : forall m l rest f, length l <= m -> nolf l -> length l < f ->
    skip_big_t brk eager B f (l ++ LF :: rest) = Ok rest.
  Proof.
    induction m; intros l rest f L H F.
    - destruct l; [|simpl in L; lia]. destruct f; [lia|].
      assert (R : read_line_t brk eager B (LF :: rest) = RLine (strip_cr []) false rest)
        by (apply (rl_fit [] rest); [apply nolf_nil|simpl; lia]).
      simpl. rewrite R. reflexivity.
    - destruct f; [lia|]. simpl.
      destruct (Nat.lt_ge_cases (length l) B) as [LT|GE].
      + rewrite rl_fit; auto.
      + destruct (rl_big l rest H GE) as (c & l' & E & H' & L'). rewrite E.
        apply IHm; auto; lia.
  Qed.
End RL.
