(* C10 — executable model of the ES bulk ingestion path.  No proofs in this file.
   Mirrors (code as of the current tree):
     proxyapi/http_bulk.go   esBulkDocReader.ReadDoc / skipActionLine / readDoc over
                             bufio.Reader.ReadLine (buffer B = max(maxDocumentSize,16))
     proxy/bulk/ingestor.go  processDocsToCompressor loop, payload  len32(LE) ++ doc,
                             single StoreDocuments call iff total > 0
     proxy/bulk/processor.go Process (classification by the JSON decoder = oracle),
                             extractDocTime, parseESTime, documentDelayed, seq.NewID/TimeToMID
   Bytes are N, instants are Z nanoseconds since the Unix epoch (time.Time is wider than int64
   nanoseconds, so the model keeps the mathematical instant and applies the int64 effects
   exactly where the code does: Sub saturates, unary minus wraps, UnixNano wraps). *)
From Coq Require Export List Bool Arith NArith ZArith.
Export ListNotations.

Definition LF : N := 10%N.
Definition CR : N := 13%N.

Inductive res (A : Type) := Ok (a : A) | Fail | OutOfFuel.
Arguments Ok {A} a. Arguments Fail {A}. Arguments OutOfFuel {A}.

(* ------------------------------------------------------------------ bufio.Reader *)

(* ReadSlice('\n') seen on the remaining byte stream: the delimiter is looked for in a window of
   n = len(buf) bytes; a full window without delimiter is returned whole (ErrBufferFull); fewer
   bytes than a window without delimiter = the rest with the reader's error (EOF).
   One point depends on the transport: when exactly one window of bytes remains (no delimiter)
   and the underlying reader has already reported io.EOF together with those bytes (eager = true,
   e.g. the gzip reader), ReadSlice tests the pending error before "buffer full" and returns the
   window with EOF; a reader that reports EOF by a separate empty read (eager = false) gives
   ErrBufferFull first. *)
Inductive slice := SDelim (l r : list N) | SFull (l r : list N) | SEof (l : list N).

Definition cons_slice (c : N) (x : slice) : slice :=
  match x with
  | SDelim l r => SDelim (c :: l) r
  | SFull l r => SFull (c :: l) r
  | SEof l => SEof (c :: l)
  end.

Fixpoint read_slice (eager : bool) (n : nat) (s : list N) : slice :=
  match n with
  | 0 => match s with
         | [] => if eager then SEof [] else SFull [] []
         | _ => SFull [] s
         end
  | S n' =>
      match s with
      | [] => SEof []
      | c :: r => if N.eqb c LF then SDelim [] r else cons_slice c (read_slice eager n' r)
      end
  end.

(* Some init when l = init ++ [CR] *)
Fixpoint drop_last_cr (l : list N) : option (list N) :=
  match l with
  | [] => None
  | [c] => if N.eqb c CR then Some [] else None
  | c :: r => match drop_last_cr r with Some i => Some (c :: i) | None => None end
  end.

Definition strip_cr (l : list N) : list N :=
  match drop_last_cr l with Some i => i | None => l end.

(* ReadLine: (line, isPrefix, rest) or EOF.  A full window ending in '\r' gives the '\r' back. *)
(* The stream ends either by io.EOF or by another reader error (brk = true: io.ErrUnexpectedEOF of a
   cut gzip stream or of a body shorter than its Content-Length, a connection error, a timeout).
   bufio hands out the bytes it already has as a last line and reports the error on the next
   call, exactly as for EOF; only the terminal event differs. *)
Inductive rline := RLine (l : list N) (pre : bool) (r : list N) | REof | RBroken.

Definition read_line_t (brk eager : bool) (B : nat) (s : list N) : rline :=
  match read_slice eager B s with
  | SFull l r =>
      match drop_last_cr l with
      | Some i => RLine i true (CR :: r)
      | None => RLine l true r
      end
  | SDelim l r => RLine (strip_cr l) false r
  | SEof [] => if brk then RBroken else REof
  | SEof l => RLine l false []
  end.

(* ------------------------------------------------------------------ esBulkDocReader *)

Fixpoint prefixb (p s : list N) : bool :=
  match p, s with
  | [], _ => true
  | _ :: _, [] => false
  | a :: p', b :: s' => N.eqb a b && prefixb p' s'
  end.

Fixpoint contains (p s : list N) : bool :=
  prefixb p s || match s with [] => false | _ :: r => contains p r end.

(* "create" and "index" with their quotes *)
Definition pat_create : list N := [34; 99; 114; 101; 97; 116; 101; 34]%N.
Definition pat_index : list N := [34; 105; 110; 100; 101; 120; 34]%N.
Definition action_ok (k : nat) (a : list N) : bool :=
  negb (Nat.ltb k 5) || contains pat_create a || contains pat_index a.

Section Reader.
  Variable brk : bool.
  Variable eager : bool.
  Variable B : nat.

  (* readDoc's loop `for isPrefix { ReadLine }` : Ok rest.  io.EOF ends the skipped line (it is
     the last one, unterminated, and ended exactly at a buffer boundary); before the repair
     7e46066 this was an error, see ModelV0.v *)
  Fixpoint skip_big_t (f : nat) (s : list N) : res (list N) :=
    match f with
    | 0 => OutOfFuel
    | S f' =>
        match read_line_t brk eager B s with
        | REof => Ok []
        | RBroken => Fail                       (* any other error: errors.Is(err, io.EOF) is false *)
        | RLine _ true r => skip_big_t f' r
        | RLine _ false r => Ok r
        end
    end.

  (* skipActionLine: Ok None = io.EOF (end of the request), Fail = protocol error *)
  Fixpoint skip_action_t (f : nat) (s : list N) (k : nat) : res (option (list N * nat)) :=
    match f with
    | 0 => OutOfFuel
    | S f' =>
        match read_line_t brk eager B s with
        | REof => Ok None
        | RBroken => Fail                       (* "scanning action line: <err>" *)
        | RLine _ true _ => Fail
        | RLine [] false r => skip_action_t f' r k
        | RLine a false r => if action_ok k a then Ok (Some (r, S k)) else Fail
        end
    end.

  (* readDoc: Ok (Some doc, rest) | Ok (None, rest) = size exceeded, skipped | Fail *)
  Definition read_doc_t (f : nat) (s : list N) : res (option (list N) * list N) :=
    match read_line_t brk eager B s with
    | REof => Fail
    | RBroken => Fail
    | RLine d false r => Ok (Some d, r)
    | RLine _ true r =>
        match skip_big_t f r with
        | Ok r' => Ok (None, r')
        | Fail => Fail
        | OutOfFuel => OutOfFuel
        end
    end.
End Reader.

(* ------------------------------------------------------------------ processor: JSON oracle *)

Inductive cls := Object | NonObject | Invalid.

(* what the harness tells about one document line (all of it computed outside the code under
   test): its JSON class (decoder oracle), the values of the time fields in the order
   timestamp, time, ts (empty = absent) each with the result of time.Parse for
   RFC3339Nano/RFC3339 (standard library oracle), and the instant the generator meant *)
Record docinfo := { d_cls : cls; d_fields : list (list N * option Z); d_intended : option Z }.

Inductive outcome := Accepted (docs : list (list N)) | Rejected | Miss | Fuel.

(* the two nested loops (ReadDoc's `for` and processDocsToCompressor's `for`) as one loop;
   acc = documents appended to the payload so far, newest first *)
Section Run.
  Variable brk : bool.
  Variable eager : bool.
  Variable B : nat.
  Variable classify : list N -> option cls.     (* None: the oracle table has no entry *)

  Fixpoint run_t (f : nat) (s : list N) (k : nat) (acc : list (list N)) : outcome :=
    match f with
    | 0 => Fuel
    | S f' =>
        match skip_action_t brk eager B f s k with
        | OutOfFuel => Fuel
        | Fail => Rejected
        | Ok None => Accepted (rev acc)
        | Ok (Some (r, k')) =>
            match read_doc_t brk eager B f r with
            | OutOfFuel => Fuel
            | Fail => Rejected
            | Ok (None, r') => run_t f' r' k' acc
            | Ok (Some [], _) => Rejected                       (* empty document after action line *)
            | Ok (Some d, r') =>
                match classify d with
                | None => Miss
                | Some Invalid => Rejected
                | Some NonObject => run_t f' r' k' acc
                | Some Object => run_t f' r' k' (d :: acc)
                end
            end
        end
    end.

  Definition run_body_t (body : list N) : outcome := run_t (S (length body)) body 0 [].
End Run.

(* the stream that ends by io.EOF *)
Notation read_line := (read_line_t false).
Notation skip_big := (skip_big_t false).
Notation skip_action := (skip_action_t false).
Notation read_doc := (read_doc_t false).
Notation run := (run_t false).
Notation run_body := (run_body_t false).

(* ------------------------------------------------------------------ payload *)

Definition le_bytes (n : nat) (x : N) : list N :=
  (fix go (n : nat) (x : N) := match n with 0 => [] | S n' => N.modulo x 256 :: go n' (N.div x 256) end) n x.

Fixpoint le_value (l : list N) : N :=
  match l with [] => 0%N | b :: r => (b + 256 * le_value r)%N end.

Fixpoint encode_docs (ds : list (list N)) : list N :=
  match ds with
  | [] => []
  | d :: r => le_bytes 4 (N.of_nat (length d)) ++ d ++ encode_docs r
  end.

(* the store's reading of the payload: 4-byte length then that many bytes *)
Fixpoint decode_docs (f : nat) (p : list N) : res (list (list N)) :=
  match f with
  | 0 => OutOfFuel
  | S f' =>
      match p with
      | [] => Ok []
      | _ =>
          let n := N.to_nat (le_value (firstn 4 p)) in
          let body := skipn 4 p in
          if (Nat.ltb (length p) 4) || (Nat.ltb (length body) n) then Fail
          else match decode_docs f' (skipn n body) with
               | Ok r => Ok (firstn n body :: r)
               | e => e
               end
      end
  end.

(* ------------------------------------------------------------------ time *)
Open Scope Z_scope.

Definition min64 : Z := - 2 ^ 63.
Definition max64 : Z := 2 ^ 63 - 1.
Definition wrap64 (z : Z) : Z := (z + 2 ^ 63) mod 2 ^ 64 - 2 ^ 63.
Definition sat64 (z : Z) : Z := if z <? min64 then min64 else if max64 <? z then max64 else z.
Definition neg64 (z : Z) : Z := wrap64 (- z).

(* documentDelayed on int64 durations (`docDelay < 0 && docDelay < -futureDrift`; before the
   repair 50bd78c `-docDelay > futureDrift`, see ModelV0.v) *)
Definition delayed (delay drift fdrift : Z) : bool :=
  (drift <? delay) || ((delay <? 0) && (delay <? neg64 fdrift)).

(* Process: the instant that goes into seq.NewID *)
Definition id_time (now drift fdrift : Z) (doc : option Z) : Z :=
  match doc with
  | None => now
  | Some t => if delayed (sat64 (now - t)) drift fdrift then now else t
  end.

(* seq.TimeToMID: MID(t.UnixNano() / 1e6): int64 wrap, division truncating to zero, uint64 cast *)
Definition mid_of (t : Z) : Z := Z.quot (wrap64 t) 1000000 mod 2 ^ 64.

(* time.Date(y, m, d, ..., UTC): proleptic Gregorian, out-of-range days are normalised *)
Definition days_from_civil (y m d : Z) : Z :=
  let y' := if m <=? 2 then y - 1 else y in
  let era := y' / 400 in
  let yoe := y' - era * 400 in
  let mp := (m + 9) mod 12 in
  let doy := (153 * mp + 2) / 5 + d - 1 in
  let doe := yoe * 365 + yoe / 4 - yoe / 100 + doy in
  era * 146097 + doe - 719468.

Definition date_nanos (y mo d h mi s ns : Z) : Z :=
  ((days_from_civil y mo d * 86400 + h * 3600 + mi * 60 + s) * 1000000000 + ns).

Close Scope Z_scope.

(* parseESTime *)
Definition digit (c : N) : option N :=
  if (N.leb 48 c && N.leb c 57)%bool then Some (c - 48)%N else None.

(* the closure parseUint: uint accumulator (wraps at 2^64), then the range check *)
Fixpoint parse_uint_acc (s : list N) (acc : N) : option N :=
  match s with
  | [] => Some acc
  | c :: r => match digit c with
              | None => None
              | Some d => parse_uint_acc r (N.modulo (acc * 10 + d) (2 ^ 64))
              end
  end.

Definition parse_uint (s : list N) (lo hi : N) : option N :=
  match parse_uint_acc s 0 with
  | Some x => if (N.leb lo x && N.leb x hi)%bool then Some x else None
  | None => None
  end.

Definition sub (s : list N) (a b : nat) : list N := firstn (b - a) (skipn a s).
Definition at_is (s : list N) (i : nat) (c : N) : bool := N.eqb (nth i s 0%N) c.

(* uint(math.Pow10(9 - len)), 0 replaced by 1 *)
Definition frac_multi (len : nat) : N := if Nat.leb len 9 then (10 ^ N.of_nat (9 - len))%N else 1%N.

(* fraction after the '.': digits beyond the ninth are checked to be digits and dropped (repair
   480fedc; before it the whole string was read with multiplier 1, see ModelV0.v) *)
Definition parse_frac (fr : list N) : option N :=
  match parse_uint_acc (skipn 9 fr) 0 with
  | None => None
  | Some _ =>
      match parse_uint (firstn 9 fr) 0 999999999 with
      | Some x => Some (x * frac_multi (length (firstn 9 fr)))%N
      | None => None
      end
  end.

Definition parse_es (t : list N) : option Z :=
  if Nat.ltb (length t) 19 then None else
  match parse_uint (sub t 0 4) 0 9999, parse_uint (sub t 5 7) 1 12, parse_uint (sub t 8 10) 1 31,
        parse_uint (sub t 11 13) 0 23, parse_uint (sub t 14 16) 0 59, parse_uint (sub t 17 19) 0 59 with
  | Some y, Some mo, Some d, Some h, Some mi, Some s =>
      if negb (at_is t 4 45 && at_is t 7 45 && at_is t 10 32 && at_is t 13 58 && at_is t 16 58) then None else
      let rest := skipn 19 t in
      match rest with
      | [] => Some (date_nanos (Z.of_N y) (Z.of_N mo) (Z.of_N d) (Z.of_N h) (Z.of_N mi) (Z.of_N s) 0)
      | c :: fr =>
          if negb (N.eqb c 46) then None else
          match fr with
          | [] => None
          | _ => match parse_frac fr with
                 | Some ns => Some (date_nanos (Z.of_N y) (Z.of_N mo) (Z.of_N d) (Z.of_N h) (Z.of_N mi)
                                                (Z.of_N s) (Z.of_N ns))
                 | None => None
                 end
          end
      end
  | _, _, _, _, _, _ => None
  end.

(* extractDocTime: fields in the order timestamp, time, ts; formats ES, then RFC3339Nano/RFC3339
   (the latter two enter as the standard library's answer supplied with the case) *)
Definition parse_field (v : list N) (rfc : option Z) : option Z :=
  match parse_es v with Some t => Some t | None => rfc end.

Fixpoint extract_time (fs : list (list N * option Z)) : option Z :=
  match fs with
  | [] => None
  | (v, rfc) :: r =>
      match v with
      | [] => extract_time r
      | _ => match parse_field v rfc with Some t => Some t | None => extract_time r end
      end
  end.

Definition doc_mid (now drift fdrift : Z) (i : docinfo) : Z :=
  mid_of (id_time now drift fdrift (extract_time (d_fields i))).
