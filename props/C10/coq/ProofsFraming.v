(* C10 — the buffered reader and the processing loop against the line-level statement. *)
From Coq Require Import Lia.
From C10 Require Import Model Spec Proofs.

Definition wf (ls : list (list N)) (tl : list N) : Prop := Forall nolf ls /\ nolf tl.

Lemma join_length_cons l r tl : length (join_lines (l :: r) tl) = length l + 1 + length (join_lines r tl).
Proof. simpl. rewrite app_length. simpl. lia. Qed.

(* split_lines really splits *)
Lemma split_lines_ok : forall s, join_lines (fst (split_lines s)) (snd (split_lines s)) = s
                                 /\ wf (fst (split_lines s)) (snd (split_lines s)).
Proof.
  induction s as [|c s [IHj [IHf IHt]]]; simpl.
  - split; [reflexivity|]. split; [constructor|apply nolf_nil].
  - destruct (split_lines s) as [ls tl]. simpl in *.
    destruct (N.eqb c LF) eqn:E.
    + apply N.eqb_eq in E. subst c. simpl. split; [rewrite IHj; reflexivity|].
      split; [constructor; [apply nolf_nil|exact IHf]|exact IHt].
    + apply N.eqb_neq in E.
      assert (NC : forall l, nolf l -> nolf (c :: l)).
      { unfold nolf; simpl; intros l H [X|X]; [apply E; exact X|auto]. }
      destruct ls as [|l ls']; simpl in *.
      * split; [rewrite IHj; reflexivity|]. split; [constructor|apply NC, IHt].
      * split; [rewrite IHj; reflexivity|]. inversion IHf; subst.
        split; [constructor; [apply NC; assumption|assumption]|exact IHt].
Qed.

Lemma bcase (P : bool -> Prop) : P true -> P false -> forall b, P b.
Proof. intros T F b; destruct b; assumption. Qed.

Section Framing.
  Variable brk : bool.
  Variable eager : bool.
  Variable B : nat.
  Hypothesis HB : 2 <= B.
  Variable cls : list N -> cls.

  Let classify := fun d => Some (cls d).
  Let LL (ls : list (list N)) (tl : list N) : list lline := map (lline_of B) ls ++ tail_lline eager B tl.

  (* what skipActionLine / readDoc do, by lines, without fuel *)
  Fixpoint SA (k : nat) (ls : list (list N)) (tl : list N) : res (option (list N * nat)) :=
    match ls with
    | [] => match tl with
            | [] => if brk then Fail else Ok None
            | _ => if tail_fits eager B tl
                   then (if action_ok k tl then Ok (Some ([], S k)) else Fail)
                   else Fail
            end
    | l :: r =>
        if Nat.ltb (length l) B then
          match strip_cr l with
          | [] => SA k r tl
          | a => if action_ok k a then Ok (Some (join_lines r tl, S k)) else Fail
          end
        else Fail
    end.

  Definition RD (ls : list (list N)) (tl : list N) : res (option (list N) * list N) :=
    match ls with
    | [] => match tl with
            | [] => Fail
            | _ => if tail_fits eager B tl then Ok (Some tl, []) else Ok (None, [])
            end
    | l :: r => if Nat.ltb (length l) B then Ok (Some (strip_cr l), join_lines r tl)
                else Ok (None, join_lines r tl)
    end.

  Lemma skip_action_join : forall ls tl k f, wf ls tl -> length (join_lines ls tl) < f ->
    skip_action_t brk eager B f (join_lines ls tl) k = SA k ls tl.
  Proof.
    induction ls as [|l r IH]; intros tl k f [WF WT] F.
    - simpl in *. destruct f; [lia|]. simpl.
      destruct tl as [|c0 t0] eqn:ET.
      + rewrite rl_nil; auto. pattern brk; apply bcase; reflexivity.
      + rewrite <- ET in *. assert (NE : tl <> []) by (rewrite ET; discriminate).
        destruct (tail_fits eager B tl) eqn:TF.
        * rewrite rl_tail_fit; auto. rewrite ET. rewrite <- ET. reflexivity.
        * destruct (rl_tail_big brk eager B HB tl WT TF) as (c & l' & E & _ & _). rewrite E. destruct c; reflexivity.
    - inversion WF; subst. rewrite join_length_cons in F. destruct f; [lia|].
      simpl join_lines. simpl SA. simpl skip_action_t.
      destruct (Nat.ltb (length l) B) eqn:LT.
      + apply Nat.ltb_lt in LT. rewrite rl_fit; auto.
        destruct (strip_cr l) eqn:SC.
        * apply IH; [split; assumption|lia].
        * reflexivity.
      + apply Nat.ltb_ge in LT.
        destruct (rl_big brk eager B HB l (join_lines r tl) H1 LT) as (c & l' & E & _ & _). rewrite E. destruct c; reflexivity.
  Qed.

  Lemma read_doc_join : forall ls tl f, wf ls tl -> length (join_lines ls tl) < f ->
    read_doc_t brk eager B f (join_lines ls tl) = RD ls tl \/
    (brk = true /\ read_doc_t brk eager B f (join_lines ls tl) = Fail).
  Proof.
    intros ls tl f [WF WT] F. destruct ls as [|l r]; simpl in *.
    - unfold read_doc_t. destruct tl as [|c0 t0] eqn:ET.
      + left. rewrite rl_nil; auto. pattern brk; apply bcase; reflexivity.
      + rewrite <- ET in *. assert (NE : tl <> []) by (rewrite ET; discriminate).
        destruct (tail_fits eager B tl) eqn:TF.
        * left. rewrite rl_tail_fit; auto.
        * destruct (rl_tail_big brk eager B HB tl WT TF) as (c & l' & E & H' & L'). rewrite E.
          destruct (skip_big_tail brk eager B HB (length l') l' f) as [SK|[BT SK]]; auto; [lia| |];
            rewrite SK; [left; reflexivity|right; split; [exact BT|reflexivity]].
    - left. inversion WF; subst. rewrite app_length in F. simpl in F. unfold read_doc_t.
      destruct (Nat.ltb (length l) B) eqn:LT.
      + apply Nat.ltb_lt in LT. rewrite rl_fit; auto.
      + apply Nat.ltb_ge in LT.
        destruct (rl_big brk eager B HB l (join_lines r tl) H1 LT) as (c & l' & E & H' & L'). rewrite E.
        rewrite (skip_big_line brk eager B HB (length l') l' _ f); auto. lia.
  Qed.

  (* the loop at the level of lines *)
  Fixpoint mach (k : nat) (ll : list lline) (acc : list (list N)) : outcome :=
    match ll with
    | [] => if brk then Rejected else Accepted (rev acc)
    | Big :: _ => Rejected
    | Fit [] :: r => mach k r acc
    | Fit a :: r =>
        if action_ok k a then
          match r with
          | [] => Rejected
          | Big :: r' => mach (S k) r' acc
          | Fit [] :: _ => Rejected
          | Fit d :: r' =>
              match cls d with
              | Invalid => Rejected
              | NonObject => mach (S k) r' acc
              | Object => mach (S k) r' (d :: acc)
              end
          end
        else Rejected
    end.

  Lemma nil_dec (l : list N) : l = [] \/ l <> [].
  Proof. destruct l; [left; reflexivity|right; discriminate]. Qed.

  Lemma tail_lline_ne tl : tl <> [] -> tail_lline eager B tl = [if tail_fits eager B tl then Fit tl else Big].
  Proof. destruct tl; [congruence|reflexivity]. Qed.

  Lemma SA_nil_ne k tl : tl <> [] ->
    SA k [] tl = if tail_fits eager B tl then (if action_ok k tl then Ok (Some ([], S k)) else Fail) else Fail.
  Proof. destruct tl; [congruence|reflexivity]. Qed.

  Lemma RD_nil_ne tl : tl <> [] -> RD [] tl = if tail_fits eager B tl then Ok (Some tl, []) else Ok (None, []).
  Proof. destruct tl; [congruence|reflexivity]. Qed.

  Lemma mach_fit_ne k a r acc : a <> [] ->
    mach k (Fit a :: r) acc =
      if action_ok k a then
        match r with
        | [] => Rejected
        | Big :: r' => mach (S k) r' acc
        | Fit [] :: _ => Rejected
        | Fit d :: r' =>
            match cls d with
            | Invalid => Rejected
            | NonObject => mach (S k) r' acc
            | Object => mach (S k) r' (d :: acc)
            end
        end
      else Rejected.
  Proof. destruct a; [congruence|reflexivity]. Qed.

  Lemma run_nil f k acc : 0 < f ->
    run_t brk eager B classify f [] k acc = if brk then Rejected else Accepted (rev acc).
  Proof.
    intros F. destruct f; [lia|]. simpl. rewrite rl_nil; auto. pattern brk; apply bcase; reflexivity.
  Qed.

  (* on a broken stream the line-level loop never accepts *)
  Lemma mach_rej : brk = true -> forall n ll k acc, length ll <= n -> mach k ll acc = Rejected.
  Proof.
    intros BT. induction n; intros ll k acc L.
    - destruct ll; [|simpl in L; lia]. simpl. rewrite BT. reflexivity.
    - destruct ll as [|x r]; [simpl; rewrite BT; reflexivity|].
      destruct x as [a|]; [|reflexivity].
      destruct a as [|a0 a1]; [simpl; apply IHn; simpl in L; lia|].
      cbn [mach]. destruct (action_ok k (a0 :: a1)); [|reflexivity].
      destruct r as [|y r']; [reflexivity|].
      assert (L' : length r' <= n) by (simpl in L; lia).
      destruct y as [d|]; [|apply IHn; auto].
      destruct d as [|d0 d1]; [reflexivity|].
      destruct (cls (d0 :: d1)); [| |reflexivity]; apply IHn; auto.
  Qed.

  Lemma run_sim : forall n ls tl k acc f, length ls <= n -> wf ls tl -> length (join_lines ls tl) < f ->
    run_t brk eager B classify f (join_lines ls tl) k acc = mach k (LL ls tl) acc.
  Proof.
    induction n; intros ls tl k acc f LN WFF F.
    - destruct ls; [|simpl in LN; lia].
      destruct f; [lia|]. cbn [run_t]. rewrite skip_action_join; auto.
      unfold LL. cbn [map app].
      destruct (nil_dec tl) as [->|NE]; [cbn [SA tail_lline mach]; pattern brk; apply bcase; reflexivity|].
      rewrite SA_nil_ne, tail_lline_ne; auto.
      destruct (tail_fits eager B tl) eqn:TF; [|reflexivity].
      rewrite mach_fit_ne; auto.
      destruct (action_ok k tl); [|reflexivity].
      unfold read_doc_t. rewrite rl_nil; auto. pattern brk; apply bcase; reflexivity.
    - destruct ls as [|l r].
      { apply IHn; auto. simpl; lia. }
      destruct WFF as [WF WT]. inversion WF as [|? ? Hl Hr]; subst.
      destruct f; [lia|]. cbn [run_t]. rewrite skip_action_join; [|split; auto|auto].
      pose proof F as F0. rewrite join_length_cons in F.
      unfold LL. cbn [map app SA]. unfold lline_of at 1.
      destruct (Nat.ltb (length l) B) eqn:LT; [|reflexivity].
      destruct (strip_cr l) as [|a0 a1] eqn:SC.
      + (* blank line before the action line *)
        cbn [mach].
        assert (F1 : length (join_lines r tl) < S f) by lia.
        specialize (IHn r tl k acc (S f)). cbn [run_t] in IHn.
        rewrite skip_action_join in IHn; [|split; auto|auto].
        apply IHn; [simpl in LN; lia|split; auto|auto].
      + destruct (action_ok k (a0 :: a1)) eqn:AO; [|cbn [mach]; rewrite AO; reflexivity].
        destruct (read_doc_join r tl (S f)) as [RDE|[BT RDE]]; [split; auto|lia| |];
          rewrite RDE; [|symmetry; apply (mach_rej BT _ _ _ _ (Nat.le_refl _))].
        cbn [mach]. rewrite AO.
        destruct r as [|d r'].
        * (* the action line is the last terminated line *)
          cbn [map app].
          destruct (nil_dec tl) as [->|NE]; [reflexivity|].
          rewrite RD_nil_ne, tail_lline_ne; auto. cbn [mach].
          assert (F3 : 0 < f).
          { destruct tl; [congruence|]. simpl in F. lia. }
          destruct (tail_fits eager B tl) eqn:TF.
          -- destruct tl as [|c0 t0]; [congruence|]. unfold classify at 1.
             destruct (cls (c0 :: t0)); [| |reflexivity]; apply run_nil; auto.
          -- apply run_nil; auto.
        * inversion Hr as [|? ? Hd Hr']; subst.
          assert (F2 : length (join_lines r' tl) < f) by (rewrite join_length_cons in F; lia).
          assert (LN' : length r' <= n) by (simpl in LN; lia).
          cbn [RD map app]. unfold lline_of at 1.
          destruct (Nat.ltb (length d) B) eqn:LTd.
          -- destruct (strip_cr d) as [|d0 d1] eqn:SD; [reflexivity|].
             unfold classify at 1.
             destruct (cls (d0 :: d1)); [| |reflexivity]; apply IHn; auto; split; auto.
          -- apply IHn; auto; split; auto.
  Qed.

  (* the line-level loop against the declarative statement *)
  Lemma mach_decl : brk = false -> forall n ll k acc, length ll <= n ->
    mach k ll acc =
      match doc_lines k ll with
      | None => Rejected
      | Some ds => if existsb (is_invalid cls) ds then Rejected else Accepted (rev acc ++ objects cls ds)
      end.
  Proof.
    intros BF. induction n; intros ll k acc L.
    - destruct ll; [|simpl in L; lia]. simpl. rewrite BF, app_nil_r. reflexivity.
    - destruct ll as [|x r]; [simpl; rewrite BF, app_nil_r; reflexivity|].
      destruct x as [a|]; [|reflexivity].
      destruct a as [|a0 a1].
      + simpl. apply IHn. simpl in L; lia.
      + cbn [mach doc_lines]. destruct (action_ok k (a0 :: a1)); [|reflexivity].
        destruct r as [|y r']; [reflexivity|].
        assert (L' : length r' <= n) by (simpl in L; lia).
        destruct y as [d|].
        * destruct d as [|d0 d1]; [reflexivity|].
          destruct (cls (d0 :: d1)) eqn:C.
          -- rewrite IHn; auto. destruct (doc_lines (S k) r'); [|reflexivity].
             cbn [existsb is_invalid objects]. rewrite C. cbn [orb].
             destruct (existsb (is_invalid cls) l); [reflexivity|].
             simpl. rewrite <- app_assoc. reflexivity.
          -- rewrite IHn; auto. destruct (doc_lines (S k) r'); [|reflexivity].
             cbn [existsb is_invalid objects]. rewrite C. reflexivity.
          -- destruct (doc_lines (S k) r'); [|reflexivity].
             cbn [existsb is_invalid]. rewrite C. reflexivity.
        * rewrite IHn; auto. destruct (doc_lines (S k) r'); reflexivity.
  Qed.

  Lemma sim_lines : forall body,
    run_body_t brk eager B classify body = mach 0 (llines eager B body) [].
  Proof.
    intros body. unfold run_body_t, llines.
    destruct (split_lines_ok body) as [J W].
    destruct (split_lines body) as [ls tl]. simpl in J, W.
    rewrite <- J at 2.
    rewrite (run_sim (length ls) ls tl 0 [] (S (length body))); auto. rewrite J; lia.
  Qed.

  Lemma framing_exact_g : brk = false -> forall body,
    run_body_t brk eager B classify body = spec_outcome cls eager B body.
  Proof.
    intros BF body. rewrite sim_lines. unfold spec_outcome.
    rewrite (mach_decl BF (length (llines eager B body))); auto.
  Qed.

  Lemma broken_rejects_g : brk = true -> forall body,
    run_body_t brk eager B classify body = Rejected.
  Proof.
    intros BT body. rewrite sim_lines. apply (mach_rej BT (length (llines eager B body))); auto.
  Qed.
End Framing.

Theorem framing_exact : forall eager B, 2 <= B -> forall cls body,
  run_body eager B (fun d => Some (cls d)) body = spec_outcome cls eager B body.
Proof. intros eager B HB cls body. apply (framing_exact_g false eager B HB cls eq_refl). Qed.

Theorem run_total : forall eager B, 2 <= B -> forall cls body,
  run_body eager B (fun d => Some (cls d)) body <> Fuel /\
  run_body eager B (fun d => Some (cls d)) body <> Miss.
Proof.
  intros eager B HB cls body. rewrite framing_exact by assumption. unfold spec_outcome.
  destruct (doc_lines 0 (llines eager B body)); [|split; discriminate].
  destruct (existsb (is_invalid cls) l); split; discriminate.
Qed.

(* a body whose reader ends with an error other than io.EOF: whatever prefix arrived, the
   request is rejected and nothing is stored (the outcome is never Accepted, Fuel or Miss) *)
Theorem broken_rejects : forall eager B, 2 <= B -> forall cls prefix,
  run_body_t true eager B (fun d => Some (cls d)) prefix = Rejected.
Proof. intros eager B HB cls prefix. apply (broken_rejects_g true eager B HB cls eq_refl). Qed.
