(* C10 — the buffered reader and the processing loop against the line-level statement. *)
From Coq Require Import Lia.
From C10 Require Import Model Spec Proofs.

Definition wf (ls : list (list N)) (tl : list N) : Prop := Forall nolf ls /\ nolf tl.

Lemma join_length_cons l r tl : length (join_lines (l :: r) tl) = length l + 1 + length (join_lines r tl).
Proof. simpl. rewrite app_length. simpl. lia. Qed.

(* split_lines really splits *)
Lemma split_lines_ok : forall s, join_lines (fst (split_lines s)) (snd (split_lines s)) = s
                                 /\ wf (fst (split_lines s)) (snd (split_lines s)).
Proof.
  induction s as [|c s [IHj [IHf IHt]]]; simpl.
  - split; [reflexivity|]. split; [constructor|apply nolf_nil].
  - destruct (split_lines s) as [ls tl]. simpl in *.
    destruct (N.eqb c LF) eqn:E.
    + apply N.eqb_eq in E. subst c. simpl. split; [rewrite IHj; reflexivity|].
      split; [constructor; [apply nolf_nil|exact IHf]|exact IHt].
    + apply N.eqb_neq in E.
      assert (NC : forall l, nolf l -> nolf (c :: l)).
      { unfold nolf; simpl; intros l H [X|X]; [apply E; exact X|auto]. }
      destruct ls as [|l ls']; simpl in *.
      * split; [rewrite IHj; reflexivity|]. split; [constructor|apply NC, IHt].
      * split; [rewrite IHj; reflexivity|]. inversion IHf; subst.
        split; [constructor; [apply NC; assumption|assumption]|exact IHt].
Qed.

Section Framing.
  Variable eager : bool.
  Variable B : nat.
  Hypothesis HB : 2 <= B.
  Variable cls : list N -> cls.

  Let classify := fun d => Some (cls d).
  Let LL (ls : list (list N)) (tl : list N) : list lline := map (lline_of B) ls ++ tail_lline eager B tl.

  (* what skipActionLine / readDoc do, by lines, without fuel *)
  Fixpoint SA (k : nat) (ls : list (list N)) (tl : list N) : res (option (list N * nat)) :=
    match ls with
    | [] => match tl with
            | [] => Ok None
            | _ => if tail_fits eager B tl
                   then (if action_ok k tl then Ok (Some ([], S k)) else Fail)
                   else Fail
            end
    | l :: r =>
        if Nat.ltb (length l) B then
          match strip_cr l with
          | [] => SA k r tl
          | a => if action_ok k a then Ok (Some (join_lines r tl, S k)) else Fail
          end
        else Fail
    end.

  Definition RD (ls : list (list N)) (tl : list N) : res (option (list N) * list N) :=
    match ls with
    | [] => match tl with
            | [] => Fail
            | _ => if tail_fits eager B tl then Ok (Some tl, []) else Ok (None, [])
            end
    | l :: r => if Nat.ltb (length l) B then Ok (Some (strip_cr l), join_lines r tl)
                else Ok (None, join_lines r tl)
    end.

  Lemma skip_action_join : forall ls tl k f, wf ls tl -> length (join_lines ls tl) < f ->
    skip_action eager B f (join_lines ls tl) k = SA k ls tl.
  Proof.
    induction ls as [|l r IH]; intros tl k f [WF WT] F.
    - simpl in *. destruct f; [lia|]. simpl.
      destruct tl as [|c0 t0] eqn:ET.
      + rewrite rl_nil; auto.
      + rewrite <- ET in *. assert (NE : tl <> []) by (rewrite ET; discriminate).
        destruct (tail_fits eager B tl) eqn:TF.
        * rewrite rl_tail_fit; auto. rewrite ET. rewrite <- ET. reflexivity.
        * destruct (rl_tail_big eager B HB tl WT TF) as (c & l' & E & _ & _). rewrite E. destruct c; reflexivity.
    - inversion WF; subst. rewrite join_length_cons in F. destruct f; [lia|].
      simpl join_lines. simpl SA. simpl skip_action.
      destruct (Nat.ltb (length l) B) eqn:LT.
      + apply Nat.ltb_lt in LT. rewrite rl_fit; auto.
        destruct (strip_cr l) eqn:SC.
        * apply IH; [split; assumption|lia].
        * reflexivity.
      + apply Nat.ltb_ge in LT.
        destruct (rl_big eager B HB l (join_lines r tl) H1 LT) as (c & l' & E & _ & _). rewrite E. destruct c; reflexivity.
  Qed.

  Lemma read_doc_join : forall ls tl f, wf ls tl -> length (join_lines ls tl) < f ->
    read_doc eager B f (join_lines ls tl) = RD ls tl.
  Proof.
    intros ls tl f [WF WT] F. destruct ls as [|l r]; simpl in *.
    - unfold read_doc. destruct tl as [|c0 t0] eqn:ET.
      + rewrite rl_nil; auto.
      + rewrite <- ET in *. assert (NE : tl <> []) by (rewrite ET; discriminate).
        destruct (tail_fits eager B tl) eqn:TF.
        * rewrite rl_tail_fit; auto.
        * destruct (rl_tail_big eager B HB tl WT TF) as (c & l' & E & H' & L'). rewrite E.
          rewrite (skip_big_tail eager B HB (length l') l' f); auto. lia.
    - inversion WF; subst. rewrite app_length in F. simpl in F. unfold read_doc.
      destruct (Nat.ltb (length l) B) eqn:LT.
      + apply Nat.ltb_lt in LT. rewrite rl_fit; auto.
      + apply Nat.ltb_ge in LT.
        destruct (rl_big eager B HB l (join_lines r tl) H1 LT) as (c & l' & E & H' & L'). rewrite E.
        rewrite (skip_big_line eager B HB (length l') l' _ f); auto. lia.
  Qed.

  (* the loop at the level of lines *)
  Fixpoint mach (k : nat) (ll : list lline) (acc : list (list N)) : outcome :=
    match ll with
    | [] => Accepted (rev acc)
    | Big :: _ => Rejected
    | Fit [] :: r => mach k r acc
    | Fit a :: r =>
        if action_ok k a then
          match r with
          | [] => Rejected
          | Big :: r' => mach (S k) r' acc
          | Fit [] :: _ => Rejected
          | Fit d :: r' =>
              match cls d with
              | Invalid => Rejected
              | NonObject => mach (S k) r' acc
              | Object => mach (S k) r' (d :: acc)
              end
          end
        else Rejected
    end.

  Lemma nil_dec (l : list N) : l = [] \/ l <> [].
  Proof. destruct l; [left; reflexivity|right; discriminate]. Qed.

  Lemma tail_lline_ne tl : tl <> [] -> tail_lline eager B tl = [if tail_fits eager B tl then Fit tl else Big].
  Proof. destruct tl; [congruence|reflexivity]. Qed.

  Lemma SA_nil_ne k tl : tl <> [] ->
    SA k [] tl = if tail_fits eager B tl then (if action_ok k tl then Ok (Some ([], S k)) else Fail) else Fail.
  Proof. destruct tl; [congruence|reflexivity]. Qed.

  Lemma RD_nil_ne tl : tl <> [] -> RD [] tl = if tail_fits eager B tl then Ok (Some tl, []) else Ok (None, []).
  Proof. destruct tl; [congruence|reflexivity]. Qed.

  Lemma mach_fit_ne k a r acc : a <> [] ->
    mach k (Fit a :: r) acc =
      if action_ok k a then
        match r with
        | [] => Rejected
        | Big :: r' => mach (S k) r' acc
        | Fit [] :: _ => Rejected
        | Fit d :: r' =>
            match cls d with
            | Invalid => Rejected
            | NonObject => mach (S k) r' acc
            | Object => mach (S k) r' (d :: acc)
            end
        end
      else Rejected.
  Proof. destruct a; [congruence|reflexivity]. Qed.

  Lemma run_nil f k acc : 0 < f -> run eager B classify f [] k acc = Accepted (rev acc).
  Proof.
    intros F. destruct f; [lia|]. simpl. rewrite rl_nil; auto.
  Qed.

  Lemma run_sim : forall n ls tl k acc f, length ls <= n -> wf ls tl -> length (join_lines ls tl) < f ->
    run eager B classify f (join_lines ls tl) k acc = mach k (LL ls tl) acc.
  Proof.
    induction n; intros ls tl k acc f LN WFF F.
    - destruct ls; [|simpl in LN; lia].
      destruct f; [lia|]. cbn [run]. rewrite skip_action_join; auto.
      unfold LL. cbn [map app].
      destruct (nil_dec tl) as [->|NE]; [reflexivity|].
      rewrite SA_nil_ne, tail_lline_ne; auto.
      destruct (tail_fits eager B tl) eqn:TF; [|reflexivity].
      rewrite mach_fit_ne; auto.
      destruct (action_ok k tl); [|reflexivity].
      unfold read_doc. rewrite rl_nil; auto.
    - destruct ls as [|l r].
      { apply IHn; auto. simpl; lia. }
      destruct WFF as [WF WT]. inversion WF as [|? ? Hl Hr]; subst.
      destruct f; [lia|]. cbn [run]. rewrite skip_action_join; [|split; auto|auto].
      pose proof F as F0. rewrite join_length_cons in F.
      unfold LL. cbn [map app SA]. unfold lline_of at 1.
      destruct (Nat.ltb (length l) B) eqn:LT; [|reflexivity].
      destruct (strip_cr l) as [|a0 a1] eqn:SC.
      + (* blank line before the action line *)
        cbn [mach].
        assert (F1 : length (join_lines r tl) < S f) by lia.
        specialize (IHn r tl k acc (S f)). cbn [run] in IHn.
        rewrite skip_action_join in IHn; [|split; auto|auto].
        apply IHn; [simpl in LN; lia|split; auto|auto].
      + cbn [mach]. destruct (action_ok k (a0 :: a1)); [|reflexivity].
        rewrite read_doc_join; [|split; auto|lia].
        destruct r as [|d r'].
        * (* the action line is the last terminated line *)
          cbn [map app].
          destruct (nil_dec tl) as [->|NE]; [reflexivity|].
          rewrite RD_nil_ne, tail_lline_ne; auto.
          assert (F3 : 0 < f).
          { destruct tl; [congruence|]. simpl in F. lia. }
          destruct (tail_fits eager B tl) eqn:TF.
          -- destruct tl as [|c0 t0]; [congruence|]. unfold classify at 1.
             destruct (cls (c0 :: t0)); [| |reflexivity]; apply run_nil; auto.
          -- apply run_nil; auto.
        * inversion Hr as [|? ? Hd Hr']; subst.
          assert (F2 : length (join_lines r' tl) < f) by (rewrite join_length_cons in F; lia).
          assert (LN' : length r' <= n) by (simpl in LN; lia).
          cbn [RD map app]. unfold lline_of at 1.
          destruct (Nat.ltb (length d) B) eqn:LTd.
          -- destruct (strip_cr d) as [|d0 d1] eqn:SD; [reflexivity|].
             unfold classify at 1.
             destruct (cls (d0 :: d1)); [| |reflexivity]; apply IHn; auto; split; auto.
          -- apply IHn; auto; split; auto.
  Qed.

  (* the line-level loop against the declarative statement *)
  Lemma mach_decl : forall n ll k acc, length ll <= n ->
    mach k ll acc =
      match doc_lines k ll with
      | None => Rejected
      | Some ds => if existsb (is_invalid cls) ds then Rejected else Accepted (rev acc ++ objects cls ds)
      end.
  Proof.
    induction n; intros ll k acc L.
    - destruct ll; [|simpl in L; lia]. simpl. rewrite app_nil_r. reflexivity.
    - destruct ll as [|x r]; [simpl; rewrite app_nil_r; reflexivity|].
      destruct x as [a|]; [|reflexivity].
      destruct a as [|a0 a1].
      + simpl. apply IHn. simpl in L; lia.
      + cbn [mach doc_lines]. destruct (action_ok k (a0 :: a1)); [|reflexivity].
        destruct r as [|y r']; [reflexivity|].
        assert (L' : length r' <= n) by (simpl in L; lia).
        destruct y as [d|].
        * destruct d as [|d0 d1]; [reflexivity|].
          destruct (cls (d0 :: d1)) eqn:C.
          -- rewrite IHn; auto. destruct (doc_lines (S k) r'); [|reflexivity].
             cbn [existsb is_invalid objects]. rewrite C. cbn [orb].
             destruct (existsb (is_invalid cls) l); [reflexivity|].
             simpl. rewrite <- app_assoc. reflexivity.
          -- rewrite IHn; auto. destruct (doc_lines (S k) r'); [|reflexivity].
             cbn [existsb is_invalid objects]. rewrite C. reflexivity.
          -- destruct (doc_lines (S k) r'); [|reflexivity].
             cbn [existsb is_invalid]. rewrite C. reflexivity.
        * rewrite IHn; auto. destruct (doc_lines (S k) r'); reflexivity.
  Qed.

  Theorem framing_exact : forall body,
    run_body eager B classify body = spec_outcome cls eager B body.
  Proof.
    intros body. unfold run_body, spec_outcome, llines.
    destruct (split_lines_ok body) as [J W].
    destruct (split_lines body) as [ls tl]. simpl in J, W.
    rewrite <- J at 2.
    rewrite (run_sim (length ls) ls tl 0 [] (S (length body))); auto; [|rewrite J; lia].
    rewrite (mach_decl (length (LL ls tl))); auto.
  Qed.

  Theorem run_total : forall body,
    run_body eager B classify body <> Fuel /\ run_body eager B classify body <> Miss.
  Proof.
    intros body. rewrite framing_exact. unfold spec_outcome.
    destruct (doc_lines 0 (llines eager B body)); [|split; discriminate].
    destruct (existsb (is_invalid cls) l); split; discriminate.
  Qed.
End Framing.
