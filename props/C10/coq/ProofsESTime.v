(* C10 — parseESTime (as modelled) accepts exactly the declarative ES time format. *)
From Coq Require Import Lia.
From C10 Require Import Model Spec.

Open Scope N_scope.

Lemma digit_ch d : dig d -> digit (ch d) = Some d.
Proof.
  unfold dig, digit, ch. intros H.
  replace (N.leb 48 (48 + d)) with true by (symmetry; apply N.leb_le; lia).
  replace (N.leb (48 + d) 57) with true by (symmetry; apply N.leb_le; lia).
  cbn [andb]. f_equal. lia.
Qed.

Lemma digit_inv c d : digit c = Some d -> c = ch d /\ dig d.
Proof.
  unfold digit, ch, dig. destruct (N.leb 48 c) eqn:A; [|discriminate].
  destruct (N.leb c 57) eqn:C; [|discriminate]. cbn [andb]. intros H. inversion H; subst.
  apply N.leb_le in A. apply N.leb_le in C. lia.
Qed.

Lemma p64N : 2 ^ 64 = 18446744073709551616. Proof. reflexivity. Qed.

(* digit strings: no overflow below 2^64 *)
Lemma pua_fwd : forall ds acc, Forall dig ds ->
  (acc + 1) * 10 ^ N.of_nat (length ds) <= 2 ^ 64 ->
  parse_uint_acc (map ch ds) acc = Some (dval_acc ds acc) /\
  dval_acc ds acc + 1 <= (acc + 1) * 10 ^ N.of_nat (length ds).
Proof.
  induction ds as [|d r IH]; intros acc HF HB.
  - simpl in *. split; [reflexivity|lia].
  - inversion HF as [|? ? Hd Hr]; subst. cbn [map parse_uint_acc dval_acc length].
    rewrite digit_ch by assumption.
    simpl length in HB. rewrite Nnat.Nat2N.inj_succ, N.pow_succ_r' in HB.
    rewrite Nnat.Nat2N.inj_succ, N.pow_succ_r'.
    set (P := 10 ^ N.of_nat (length r)) in *.
    assert (P1 : 1 <= P) by (pose proof (N.pow_nonzero 10 (N.of_nat (length r))); subst P; lia).
    unfold dig in Hd.
    assert (B1 : (acc * 10 + d + 1) * P <= (acc + 1) * (10 * P)) by nia.
    rewrite N.mod_small by nia.
    destruct (IH (acc * 10 + d) Hr) as [E L]; [lia|].
    split; [exact E|lia].
Qed.

Lemma pua_some : forall ds acc, Forall dig ds -> exists x, parse_uint_acc (map ch ds) acc = Some x.
Proof.
  induction ds as [|d r IH]; intros acc HF; simpl.
  - eexists; reflexivity.
  - inversion HF; subst. rewrite digit_ch by assumption. apply IH; assumption.
Qed.

Lemma pua_inv : forall s acc x, parse_uint_acc s acc = Some x ->
  exists ds, s = map ch ds /\ Forall dig ds.
Proof.
  induction s as [|c r IH]; intros acc x H; simpl in H.
  - exists []. split; [reflexivity|constructor].
  - destruct (digit c) as [d|] eqn:D; [|discriminate].
    destruct (digit_inv _ _ D) as [-> Hd].
    destruct (IH _ _ H) as (ds & -> & HF). exists (d :: ds). split; [reflexivity|constructor; assumption].
Qed.

Lemma pow10_le n : (n <= 19)%nat -> 10 ^ N.of_nat n <= 2 ^ 64.
Proof.
  intros H. apply N.le_trans with (10 ^ 19); [|rewrite p64N; vm_compute; discriminate].
  apply N.pow_le_mono_r; lia.
Qed.

(* the closure parseUint on a short digit string *)
Lemma pu_fwd ds lo hi : Forall dig ds -> (length ds <= 19)%nat -> lo <= dval ds <= hi ->
  parse_uint (map ch ds) lo hi = Some (dval ds).
Proof.
  intros HF HL HR. unfold parse_uint.
  destruct (pua_fwd ds 0 HF) as [E _]; [rewrite N.mul_1_l; apply pow10_le; exact HL|].
  rewrite E. fold (dval ds).
  replace (N.leb lo (dval ds)) with true by (symmetry; apply N.leb_le; lia).
  replace (N.leb (dval ds) hi) with true by (symmetry; apply N.leb_le; lia).
  reflexivity.
Qed.

Lemma pu_inv s lo hi x : (length s <= 19)%nat -> parse_uint s lo hi = Some x ->
  exists ds, s = map ch ds /\ Forall dig ds /\ x = dval ds /\ lo <= x <= hi.
Proof.
  intros HL H. unfold parse_uint in H.
  destruct (parse_uint_acc s 0) as [y|] eqn:E; [|discriminate].
  destruct (pua_inv _ _ _ E) as (ds & -> & HF).
  rewrite map_length in HL.
  destruct (pua_fwd ds 0 HF) as [E' _]; [rewrite N.mul_1_l; apply pow10_le; exact HL|].
  rewrite E' in E. inversion E; subst y.
  destruct (N.leb lo (dval_acc ds 0)) eqn:A; [|discriminate].
  destruct (N.leb (dval_acc ds 0) hi) eqn:C; [|discriminate].
  simpl in H. inversion H; subst x.
  apply N.leb_le in A. apply N.leb_le in C.
  exists ds. repeat split; auto.
Qed.

Lemma map_ch_2 a b ds : [a; b] = map ch ds -> exists x y, ds = [x; y] /\ a = ch x /\ b = ch y.
Proof.
  destruct ds as [|x [|y [|z r]]]; simpl; intros H; try discriminate.
  inversion H. eauto.
Qed.

Lemma map_ch_4 a b c d ds : [a; b; c; d] = map ch ds ->
  exists x y z w, ds = [x; y; z; w] /\ a = ch x /\ b = ch y /\ c = ch z /\ d = ch w.
Proof.
  destruct ds as [|x [|y [|z [|w [|v r]]]]]; simpl; intros H; try discriminate.
  inversion H. eauto 10.
Qed.

(* ---- the fraction *)
Lemma frac_fwd fr : Forall dig fr -> parse_frac (map ch fr) = Some (frac_ns fr).
Proof.
  intros HF. unfold parse_frac, frac_ns.
  rewrite skipn_map, firstn_map.
  assert (HS : Forall dig (skipn 9 fr)).
  { apply Forall_forall. intros x I. eapply Forall_forall; [exact HF|].
    rewrite <- (firstn_skipn 9 fr). apply in_or_app; right; exact I. }
  assert (HFi : Forall dig (firstn 9 fr)).
  { apply Forall_forall. intros x I. eapply Forall_forall; [exact HF|].
    rewrite <- (firstn_skipn 9 fr). apply in_or_app; left; exact I. }
  destruct (pua_some _ 0 HS) as [x E]. rewrite E.
  pose proof (firstn_le_length 9 fr) as L9.
  destruct (pua_fwd (firstn 9 fr) 0 HFi) as [_ LB]; [rewrite N.mul_1_l; apply pow10_le; lia|].
  rewrite N.mul_1_l in LB. fold (dval (firstn 9 fr)) in LB.
  assert (P9 : 10 ^ N.of_nat (length (firstn 9 fr)) <= 10 ^ 9) by (apply N.pow_le_mono_r; lia).
  change (10 ^ 9) with 1000000000 in P9.
  rewrite pu_fwd; auto; [|lia|lia].
  rewrite map_length. unfold frac_multi.
  replace (Nat.leb (length (firstn 9 fr)) 9) with true by (symmetry; apply Nat.leb_le; lia).
  reflexivity.
Qed.

Lemma frac_inv s ns : parse_frac s = Some ns -> exists fr, s = map ch fr /\ Forall dig fr /\ ns = frac_ns fr.
Proof.
  unfold parse_frac. intros H.
  destruct (parse_uint_acc (skipn 9 s) 0) as [y|] eqn:E; [|discriminate].
  destruct (parse_uint (firstn 9 s) 0 999999999) as [x|] eqn:E2; [|discriminate].
  destruct (pua_inv _ _ _ E) as (d2 & S2 & F2).
  assert (L9 : (length (firstn 9 s) <= 19)%nat) by (pose proof (firstn_le_length 9 s); lia).
  destruct (pu_inv _ _ _ _ L9 E2) as (d1 & S1 & F1 & _ & _).
  assert (ES : s = map ch (d1 ++ d2)) by (rewrite map_app, <- S1, <- S2, firstn_skipn; reflexivity).
  exists (d1 ++ d2). split; [exact ES|]. split; [apply Forall_app; split; assumption|].
  assert (HF : Forall dig (d1 ++ d2)) by (apply Forall_app; split; assumption).
  pose proof (frac_fwd (d1 ++ d2) HF) as FW. rewrite <- ES in FW.
  unfold parse_frac in FW. rewrite E, E2 in FW. rewrite FW in H. inversion H. reflexivity.
Qed.

Close Scope N_scope.

(* ---- parse_es with its nineteen fixed positions made explicit *)
Definition es_core (c0 c1 c2 c3 c4 c5 c6 c7 c8 c9 c10 c11 c12 c13 c14 c15 c16 c17 c18 : N) (rest : list N) : option Z :=
  match parse_uint [c0; c1; c2; c3] 0 9999, parse_uint [c5; c6] 1 12, parse_uint [c8; c9] 1 31,
        parse_uint [c11; c12] 0 23, parse_uint [c14; c15] 0 59, parse_uint [c17; c18] 0 59 with
  | Some y, Some mo, Some d, Some h, Some mi, Some s =>
      if negb (N.eqb c4 45 && N.eqb c7 45 && N.eqb c10 32 && N.eqb c13 58 && N.eqb c16 58) then None else
      match rest with
      | [] => Some (date_nanos (Z.of_N y) (Z.of_N mo) (Z.of_N d) (Z.of_N h) (Z.of_N mi) (Z.of_N s) 0)
      | c :: fr =>
          if negb (N.eqb c 46) then None else
          match fr with
          | [] => None
          | _ => match parse_frac fr with
                 | Some ns => Some (date_nanos (Z.of_N y) (Z.of_N mo) (Z.of_N d) (Z.of_N h) (Z.of_N mi)
                                                (Z.of_N s) (Z.of_N ns))
                 | None => None
                 end
          end
      end
  | _, _, _, _, _, _ => None
  end.

Definition parse_es_alt (t : list N) : option Z :=
  match t with
  | c0::c1::c2::c3::c4::c5::c6::c7::c8::c9::c10::c11::c12::c13::c14::c15::c16::c17::c18::rest => es_core c0 c1 c2 c3 c4 c5 c6 c7 c8 c9 c10 c11 c12 c13 c14 c15 c16 c17 c18 rest
  | _ => None
  end.

Lemma parse_es_alt_eq t : parse_es t = parse_es_alt t.
Proof.
  do 19 (destruct t as [|? t]; [reflexivity|]). reflexivity.
Qed.

Open Scope N_scope.
Lemma pu4 a b c d lo hi : dig a -> dig b -> dig c -> dig d ->
  lo <= 1000 * a + 100 * b + 10 * c + d <= hi ->
  parse_uint [ch a; ch b; ch c; ch d] lo hi = Some (1000 * a + 100 * b + 10 * c + d).
Proof.
  intros. change [ch a; ch b; ch c; ch d] with (map ch [a; b; c; d]).
  assert (E : dval [a; b; c; d] = 1000 * a + 100 * b + 10 * c + d) by (unfold dval; cbn [dval_acc]; lia).
  rewrite <- E. apply pu_fwd; [repeat constructor; assumption|simpl; lia|rewrite E; assumption].
Qed.

Lemma pu2 a b lo hi : dig a -> dig b -> lo <= 10 * a + b <= hi ->
  parse_uint [ch a; ch b] lo hi = Some (10 * a + b).
Proof.
  intros. change [ch a; ch b] with (map ch [a; b]).
  assert (E : dval [a; b] = 10 * a + b) by (unfold dval; cbn [dval_acc]; lia).
  rewrite <- E. apply pu_fwd; [repeat constructor; assumption|simpl; lia|rewrite E; assumption].
Qed.

Lemma pu4_inv p q r s lo hi x : parse_uint [p; q; r; s] lo hi = Some x ->
  exists a b c d, p = ch a /\ q = ch b /\ r = ch c /\ s = ch d /\ dig a /\ dig b /\ dig c /\ dig d /\
                  x = 1000 * a + 100 * b + 10 * c + d /\ lo <= x <= hi.
Proof.
  intros H. assert (L : (length [p; q; r; s] <= 19)%nat) by (simpl; lia).
  destruct (pu_inv _ _ _ _ L H) as (ds & M & HF & -> & R).
  destruct (map_ch_4 _ _ _ _ _ M) as (a & b & c & d & -> & -> & -> & -> & ->).
  inversion HF as [|? ? Ha G1]; inversion G1 as [|? ? Hb G2]; inversion G2 as [|? ? Hc G3];
    inversion G3 as [|? ? Hd G4]; subst.
  exists a, b, c, d. repeat split; auto; unfold dval in *; cbn [dval_acc] in *; lia.
Qed.

Lemma pu2_inv p q lo hi x : parse_uint [p; q] lo hi = Some x ->
  exists a b, p = ch a /\ q = ch b /\ dig a /\ dig b /\ x = 10 * a + b /\ lo <= x <= hi.
Proof.
  intros H. assert (L : (length [p; q] <= 19)%nat) by (simpl; lia).
  destruct (pu_inv _ _ _ _ L H) as (ds & M & HF & -> & R).
  destruct (map_ch_2 _ _ _ M) as (a & b & -> & -> & ->).
  inversion HF as [|? ? Ha G1]; inversion G1 as [|? ? Hb G2]; subst.
  exists a, b. repeat split; auto; unfold dval in *; cbn [dval_acc] in *; lia.
Qed.
Close Scope N_scope.

Lemma es_fwd : forall t inst, es_form t inst -> parse_es t = Some inst.
Proof.
  intros t inst (y3 & y2 & y1 & y0 & m1 & m0 & d1 & d0 & h1 & h0 & i1 & i0 & s1 & s0 & fr &
                 HD & HFr & -> & (Rm & Rd & Rh & Ri & Rs) & ->).
  repeat match goal with H : Forall dig (_ :: _) |- _ => inversion H; clear H; subst end.
  rewrite parse_es_alt_eq. unfold es_text, parse_es_alt, es_core.
  assert (DY : (1000 * y3 + 100 * y2 + 10 * y1 + y0 <= 9999)%N) by (unfold dig in *; lia).
  rewrite pu4 by (auto; lia). rewrite !pu2 by (auto; lia).
  rewrite !N.eqb_refl. cbn [andb negb].
  destruct fr as [|f fr'].
  - reflexivity.
  - cbn [frac_text]. rewrite N.eqb_refl. cbn [negb].
    pose proof (frac_fwd (f :: fr') HFr) as FF. cbn [map] in *. rewrite FF. reflexivity.
Qed.

Lemma es_inv : forall t inst, parse_es t = Some inst -> es_form t inst.
Proof.
  intros t inst H. rewrite parse_es_alt_eq in H.
  destruct t as [|c0 [|c1 [|c2 [|c3 [|c4 [|c5 [|c6 [|c7 [|c8 [|c9 [|c10 [|c11 [|c12 [|c13 [|c14 [|c15 [|c16 [|c17 [|c18 rest]]]]]]]]]]]]]]]]]]]; try discriminate H.
  unfold parse_es_alt, es_core in H.
  destruct (parse_uint [c0; c1; c2; c3] 0 9999) as [y|] eqn:EY; [|discriminate].
  destruct (parse_uint [c5; c6] 1 12) as [mo|] eqn:EM; [|discriminate].
  destruct (parse_uint [c8; c9] 1 31) as [d|] eqn:ED; [|discriminate].
  destruct (parse_uint [c11; c12] 0 23) as [h|] eqn:EH; [|discriminate].
  destruct (parse_uint [c14; c15] 0 59) as [mi|] eqn:EI; [|discriminate].
  destruct (parse_uint [c17; c18] 0 59) as [s|] eqn:ES; [|discriminate].
  destruct (N.eqb c4 45 && N.eqb c7 45 && N.eqb c10 32 && N.eqb c13 58 && N.eqb c16 58)%bool eqn:SEP;
    [|discriminate].
  cbn [negb] in H.
  repeat (apply andb_true_iff in SEP; destruct SEP as [SEP ?]).
  repeat match goal with X : N.eqb _ _ = true |- _ => apply N.eqb_eq in X end. subst.
  destruct (pu4_inv _ _ _ _ _ _ _ EY) as (y3 & y2 & y1 & y0 & -> & -> & -> & -> & ? & ? & ? & ? & -> & ?).
  destruct (pu2_inv _ _ _ _ _ EM) as (m1 & m0 & -> & -> & ? & ? & -> & ?).
  destruct (pu2_inv _ _ _ _ _ ED) as (d1 & d0 & -> & -> & ? & ? & -> & ?).
  destruct (pu2_inv _ _ _ _ _ EH) as (h1 & h0 & -> & -> & ? & ? & -> & ?).
  destruct (pu2_inv _ _ _ _ _ EI) as (i1 & i0 & -> & -> & ? & ? & -> & ?).
  destruct (pu2_inv _ _ _ _ _ ES) as (s1 & s0 & -> & -> & ? & ? & -> & ?).
  destruct rest as [|c fr].
  - inversion H; subst inst.
    exists y3, y2, y1, y0, m1, m0, d1, d0, h1, h0, i1, i0, s1, s0, (@nil N).
    split; [repeat constructor; assumption|]. split; [constructor|]. split; [reflexivity|].
    split; [lia|]. reflexivity.
  - destruct (N.eqb c 46) eqn:DOT; [|discriminate]. apply N.eqb_eq in DOT. subst c. cbn [negb] in H.
    destruct fr as [|f0 fr']; [discriminate|].
    destruct (parse_frac (f0 :: fr')) as [ns|] eqn:PF; [|discriminate].
    destruct (frac_inv _ _ PF) as (ds & EQ & HF & ->).
    inversion H; subst inst.
    exists y3, y2, y1, y0, m1, m0, d1, d0, h1, h0, i1, i0, s1, s0, ds.
    split; [repeat constructor; assumption|]. split; [assumption|].
    split; [|split; [lia|reflexivity]].
    unfold es_text. rewrite EQ. destruct ds; [discriminate EQ|reflexivity].
Qed.

Theorem estime_parse : forall t inst, parse_es t = Some inst <-> es_form t inst.
Proof. intros; split; [apply es_inv|apply es_fwd]. Qed.
