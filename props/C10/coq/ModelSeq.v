(* C10 — requests in sequence and in flight together: what is shared between requests.  No proofs.
   Shared, pooled objects on the bulk path:
     esBulkDocReaderPool (proxyapi/http_bulk.go)  counter actionLinesRead + bufio.Reader
     binaryDocsPool / binaryMetasPool (ingestor.go) the uncompressed payload buffers
     frac compressorPool (frac/compress.go)         docsBuf / metaBuf = the slices handed to
                                                    StorageClient.StoreDocuments
   (the per-ingestor processor pool holds decoder and token buffers only; they do not reach the
   payload: Process returns the reader's slice, see Model.v) *)
From C10 Require Import Model.

(* ------------------------------------------------------------------ one request after another *)

(* what an earlier request may have left in the pooled objects *)
Record pooled := { p_counter : nat; p_reader_left : list N; p_docs_buf : list N }.

(* which of the re-initialisations the code performs when it takes an object from a pool *)
Record resets := { r_counter : bool; r_reader : bool; r_docs : bool }.

(* the code: acquireESBulkDocReader sets actionLinesRead = 0 and calls bufio.Reader.Reset (drops
   buffered bytes); processDocsToCompressor calls binaryDocs.Reset() *)
Definition code_resets : resets := {| r_counter := true; r_reader := true; r_docs := true |}.

Section Serve.
  Variable rs : resets.
  Variable eager : bool.
  Variable B : nat.
  Variable classify : list N -> option cls.

  (* outcome and uncompressed docs payload of a request served with pooled objects in state p *)
  Definition serve (p : pooled) (body : list N) : outcome * list N :=
    let k0 := if r_counter rs then 0 else p_counter p in
    let stream := (if r_reader rs then [] else p_reader_left p) ++ body in
    let buf0 := if r_docs rs then [] else p_docs_buf p in
    let o := run eager B classify (S (length stream)) stream k0 [] in
    (o, match o with Accepted ds => buf0 ++ encode_docs ds | _ => [] end).

  (* a sequence of requests; `leave` = whatever a finished request leaves in the pooled objects
     (arbitrary: the theorem must not depend on it) *)
  Fixpoint serve_all (leave : pooled -> list N -> outcome * list N -> pooled)
                     (p : pooled) (bodies : list (list N)) : list (outcome * list N) :=
    match bodies with
    | [] => []
    | b :: r => let res := serve p b in res :: serve_all leave (leave p b res) r
    end.
End Serve.

Definition fresh : pooled := {| p_counter := 0; p_reader_left := []; p_docs_buf := [] |}.

(* ------------------------------------------------------------------ requests in flight together *)

(* how ProcessDocuments ends; on every path the compressor goes back by the single
   `defer frac.PutDocMetasCompressor(compressor)` *)
Inductive kind := KEmpty | KRejected | KStored.
Definition kind_of (o : outcome) : kind :=
  match o with Accepted [] => KEmpty | Accepted _ => KStored | _ => KRejected end.
Definition puts (k : kind) : nat := 1.

(* objects are numbers; held = (request, compressor it took and has not yet given back) *)
Record pstate := { held : list (nat * nat); pool : list nat; next : nat }.
Definition pinit : pstate := {| held := []; pool := []; next := 0 |}.

(* Start r pick: request r calls Get — any pooled object (position pick) or a new one;
   Finish r k: request r returns along path k *)
Inductive ev := Start (r pick : nat) | Finish (r : nat) (k : kind).

Fixpoint remove_nth {A} (i : nat) (l : list A) : list A :=
  match l, i with
  | [], _ => []
  | _ :: r, 0 => r
  | x :: r, S i' => x :: remove_nth i' r
  end.

Fixpoint take_req (r : nat) (h : list (nat * nat)) : option (nat * list (nat * nat)) :=
  match h with
  | [] => None
  | (r', o) :: t =>
      if Nat.eqb r r' then Some (o, t)
      else match take_req r t with Some (o', t') => Some (o', (r', o) :: t') | None => None end
  end.

Section Pool.
  Variable nputs : kind -> nat.
  Definition pstep (st : pstate) (e : ev) : pstate :=
    match e with
    | Start r pick =>
        match nth_error (pool st) pick with
        | Some o => {| held := (r, o) :: held st; pool := remove_nth pick (pool st); next := next st |}
        | None => {| held := (r, next st) :: held st; pool := pool st; next := S (next st) |}
        end
    | Finish r k =>
        match take_req r (held st) with
        | Some (o, h') => {| held := h'; pool := repeat o (nputs k) ++ pool st; next := next st |}
        | None => st
        end
    end.
  Definition prun (evs : list ev) : pstate := fold_left pstep evs pinit.
End Pool.

(* The same discipline holds for the second pooled resource that carries request data, the
   gzip.Reader of gzipReaderPool (proxyapi/http_bulk.go): ServeHTTP takes it before reading the
   body (acquireGzipReader) and gives it back once, by `defer putGzipReader(gz)`, when the request
   is finished.  Both pools side by side: an event concerns the compressor pool or the gzip pool. *)
Inductive ev2 := OnCompressor (e : ev) | OnGzip (e : ev).
Definition gputs (k : kind) : nat := 1.
Definition pstep2 (st : pstate * pstate) (e : ev2) : pstate * pstate :=
  match e with
  | OnCompressor e' => (pstep puts (fst st) e', snd st)
  | OnGzip e' => (fst st, pstep gputs (snd st) e')
  end.
Definition prun2 (evs : list ev2) : pstate * pstate := fold_left pstep2 evs (pinit, pinit).

(* the refuted variant for the gzip pool: the reader is put back when it is taken (the helper's
   defer runs at once) while the request goes on reading through it *)
Definition pstep_early (st : pstate) (e : ev) : pstate :=
  match e with
  | Start r pick =>
      match nth_error (pool st) pick with
      | Some o => {| held := (r, o) :: held st; pool := o :: remove_nth pick (pool st); next := next st |}
      | None => {| held := (r, next st) :: held st; pool := next st :: pool st; next := S (next st) |}
      end
  | Finish r k =>
      match take_req r (held st) with
      | Some (o, h') => {| held := h'; pool := pool st; next := next st |}
      | None => st
      end
  end.
Definition prun_early (evs : list ev) : pstate := fold_left pstep_early evs pinit.

(* before the seeded change was detected: an extra Put on the `total == 0` path *)
Definition puts_v0 (k : kind) : nat := match k with KEmpty => 2 | _ => 1 end.
