(* C10 — the time rule, the millisecond ID and the docs payload. *)
From Coq Require Import Lia Zify.
From C10 Require Import Model Spec.
Ltac Zify.zify_post_hook ::= Z.to_euclidean_division_equations.

Open Scope Z_scope.

Lemma p63 : 2 ^ 63 = 9223372036854775808. Proof. reflexivity. Qed.
Lemma p64 : 2 ^ 64 = 18446744073709551616. Proof. reflexivity. Qed.

Lemma wrap64_small z : min64 <= z <= max64 -> wrap64 z = z.
Proof.
  unfold min64, max64, wrap64. rewrite p63, p64. intros H.
  rewrite Z.mod_small; lia.
Qed.

Lemma sat64_cases z :
  (z < min64 /\ sat64 z = min64) \/ (max64 < z /\ sat64 z = max64) \/ (min64 <= z <= max64 /\ sat64 z = z).
Proof.
  unfold sat64. destruct (z <? min64) eqn:A.
  - left. apply Z.ltb_lt in A. auto.
  - apply Z.ltb_ge in A. destruct (max64 <? z) eqn:C.
    + right; left. apply Z.ltb_lt in C. auto.
    + right; right. apply Z.ltb_ge in C. auto.
Qed.

(* the instant that goes into the ID is the document's own time iff it lies within the drifts,
   for EVERY pair of instants (including differences beyond the range of time.Duration) *)
Theorem time_rule : forall now drift fdrift doc,
  0 <= drift < max64 -> 0 <= fdrift <= max64 ->
  id_time now drift fdrift doc = spec_time now drift fdrift doc.
Proof.
  intros now drift fd [t|] Hd Hf; [|reflexivity].
  unfold id_time, spec_time, delayed, in_drift, neg64.
  rewrite wrap64_small by (unfold min64, max64 in *; rewrite p63 in *; lia).
  destruct (sat64_cases (now - t)) as [[A ->]|[[A ->]|[A ->]]];
    unfold min64, max64 in *; rewrite p63 in *;
    repeat match goal with
           | |- context [?a <? ?b] => destruct (Z.ltb_spec a b)
           | |- context [?a <=? ?b] => destruct (Z.leb_spec a b)
           end; simpl; try reflexivity; try lia.
Qed.

(* boundary instances, so that "= drift" and "= -futureDrift" are visibly inside *)
Lemma time_rule_boundaries : forall now drift fdrift,
  0 <= drift < max64 -> 0 <= fdrift <= max64 ->
  id_time now drift fdrift (Some (now - drift)) = now - drift /\
  id_time now drift fdrift (Some (now + fdrift)) = now + fdrift /\
  id_time now drift fdrift (Some (now - drift - 1)) = now /\
  id_time now drift fdrift (Some (now + fdrift + 1)) = now.
Proof.
  intros now drift fd Hd Hf. rewrite !time_rule by assumption.
  unfold spec_time, in_drift.
  repeat split;
    repeat match goal with
           | |- context [?a <=? ?b] => destruct (Z.leb_spec a b)
           end; simpl; try reflexivity; lia.
Qed.

(* seq.TimeToMID gives the millisecond of the instant for every instant UnixNano can hold *)
Theorem mid_ms : forall t, 0 <= t <= max64 -> mid_of t = ms_of t.
Proof.
  intros t H. unfold mid_of, ms_of. rewrite wrap64_small by (unfold min64, max64 in *; rewrite p63 in *; lia).
  rewrite Z.quot_div_nonneg by lia. unfold max64 in H. rewrite p63 in H. rewrite p64.
  apply Z.mod_small. lia.
Qed.

Close Scope Z_scope.

(* ---------------------------------------------------------------- docs payload *)
Open Scope N_scope.

Lemma le4_roundtrip x : x < 2 ^ 32 -> le_value (le_bytes 4 x) = x.
Proof.
  intros H. change (2 ^ 32) with 4294967296 in H. cbn [le_bytes le_value]. lia.
Qed.
Close Scope N_scope.

Lemma le4_length x : length (le_bytes 4 x) = 4.
Proof. reflexivity. Qed.

Theorem payload_codec : forall ds f,
  Forall (fun d => (N.of_nat (length d) < 2 ^ 32)%N) ds -> length ds < f ->
  decode_docs f (encode_docs ds) = Ok ds.
Proof.
  induction ds as [|d r IH]; intros f HF L.
  - destruct f; [lia|]. reflexivity.
  - destruct f; [simpl in L; lia|]. inversion HF as [|? ? Hd Hr]; subst.
    cbn [encode_docs decode_docs].
    remember (le_bytes 4 (N.of_nat (length d))) as hd.
    assert (L4 : length hd = 4) by (subst hd; apply le4_length).
    destruct (hd ++ d ++ encode_docs r) eqn:EP.
    { destruct hd; simpl in L4; [discriminate|]. discriminate. }
    rewrite <- EP. clear EP.
    assert (F4 : firstn 4 (hd ++ d ++ encode_docs r) = hd).
    { rewrite <- L4. rewrite firstn_app, firstn_all, Nat.sub_diag. simpl. apply app_nil_r. }
    assert (S4 : skipn 4 (hd ++ d ++ encode_docs r) = d ++ encode_docs r).
    { rewrite <- L4. rewrite skipn_app, skipn_all, Nat.sub_diag. reflexivity. }
    rewrite F4, S4. subst hd. rewrite le4_roundtrip by assumption. rewrite Nnat.Nat2N.id.
    rewrite !app_length. rewrite le4_length.
    replace (Nat.ltb (4 + (length d + length (encode_docs r))) 4) with false
      by (symmetry; apply Nat.ltb_ge; lia).
    replace (Nat.ltb (length d + length (encode_docs r)) (length d)) with false
      by (symmetry; apply Nat.ltb_ge; lia).
    cbn [orb].
    rewrite skipn_app, skipn_all, Nat.sub_diag. cbn [skipn app].
    rewrite IH; auto; [|simpl in L; lia].
    rewrite firstn_app, firstn_all, Nat.sub_diag. cbn [firstn]. rewrite app_nil_r. reflexivity.
Qed.
