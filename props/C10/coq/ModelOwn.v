(* C10 — ownership of pooled objects on EVERY exit path of Ingestor.ProcessDocuments, and the hand-over
   of the payload slices to an embedded store (single-binary mode).  No proofs.

   Part 1 transcribes proxy/bulk/ingestor.go ProcessDocuments / processDocsToCompressor as the sequence
   of actions a request performs on the pooled objects, with the `defer`s where the code has them.
   Part 2 runs such sequences of several requests against one pool (any interleaving, any choice of
   sync.Pool).  Part 3 models memory: the compressor's two buffers, the slices handed to
   StoreDocuments, storeapi/client.go inMemoryAPIClient.Bulk (clone of Metas), frac.Active.Append
   (docs and metas written to the files before the call returns; the metas block queued for the
   index workers) and frac.ActiveIndexer.appendWorker (reads the queued block later). *)
From Coq Require Import List NArith Arith Bool.
Import ListNotations.

(* ------------------------------------------------------------------ 1. exit paths *)

(* pooled / counted objects a request takes:
   OComp     frac.compressorPool          *DocsMetasCompressor (docsBuf, metaBuf = slices given to the store)
   OBinDocs  bulk.binaryDocsPool          uncompressed docs payload
   OBinMetas bulk.binaryMetasPool         uncompressed metas payload
   OProc     Ingestor.procPool            decoder + token buffers
   OTicket   Ingestor.rateLimit           one of MaxInflightBulks tickets *)
Inductive obj := OComp | OBinDocs | OBinMetas | OProc | OTicket.
Definition obj_eqb (a b : obj) : bool :=
  match a, b with
  | OComp, OComp | OBinDocs, OBinDocs | OBinMetas, OBinMetas | OProc, OProc | OTicket, OTicket => true
  | _, _ => false
  end.

(* AGet: taken from its pool; APut: given back; AWrite: memory owned by the object is written;
   ARead: memory owned by the object (or a slice that aliases it) is read *)
Inductive act := AGet (o : obj) | APut (o : obj) | AWrite (o : obj) | ARead (o : obj).

(* how the document loop ends: readNext returns nil / readNext returns an error / proc.Process returns
   an error other than errNotAnObject (unparsable document) *)
Inductive fin := FEnd | FReadErr | FDocErr.

(* everything that decides the path of one call *)
Record req := {
  q_limit : bool;       (* i.inflight > MaxInflightBulks: ErrTooManyInflightBulks, before anything is taken *)
  q_ctx : bool;         (* select took <-ctx.Done() instead of a ticket *)
  q_its : list bool;    (* loop iterations that reached proc.Process: true = object (appended), false = errNotAnObject (skipped) *)
  q_fin : fin;
  q_store_ok : bool     (* StoreDocuments returned nil *)
}.

(* one loop iteration: Process decodes into the processor's buffers; an accepted document and its
   metas are appended to the two uncompressed payload buffers *)
Definition iter (b : bool) : list act :=
  AWrite OProc :: (if b then [AWrite OBinDocs; AWrite OBinMetas] else []).

Definition total_of (its : list bool) : nat := length (filter (fun b => b) its).

(* deferred calls run in reverse order of their registration *)
Definition run_defers (registered : list act) : list act := rev registered.

(* processDocsToCompressor: actions, error?, total *)
Definition pdc (q : req) : list act * bool * nat :=
  if q_ctx q then ([], true, 0)          (* case <-ctx.Done(): return 0, ctx.Err() — nothing taken yet *)
  else
    let defers := [APut OTicket; APut OProc; APut OBinDocs; APut OBinMetas] in
    let head := [AGet OTicket; AGet OProc; AGet OBinDocs; AWrite OBinDocs (* Reset *);
                 AGet OBinMetas; AWrite OBinMetas (* Reset *)] in
    let loop := flat_map iter (q_its q) in
    match q_fin q with
    | FEnd => (head ++ loop ++ [ARead OBinDocs; ARead OBinMetas; AWrite OComp (* CompressDocsAndMetas *)]
                 ++ run_defers defers, false, total_of (q_its q))
    | _ => (head ++ loop ++ run_defers defers, true, total_of (q_its q))
    end.

(* ProcessDocuments.  extra_put = the seeded variant C09-m9: an explicit PutDocMetasCompressor on the
   error return of processDocsToCompressor in addition to the deferred one *)
Definition pd (extra_put : bool) (q : req) : list act :=
  if q_limit q then []
  else
    let '(inner, err, total) := pdc q in
    [AGet OComp] ++ inner ++
    (if err then (if extra_put then [APut OComp] else [])
     else if Nat.eqb total 0 then []
     else [ARead OComp (* docs, metas := compressor.DocsMetas(); StoreDocuments reads them until it returns *)])
    ++ run_defers [APut OComp].

Definition code_pd : req -> list act := pd false.
Definition pd_m9 : req -> list act := pd true.

(* (error?, total) returned by ProcessDocuments *)
Definition pd_result (q : req) : bool * nat :=
  if q_limit q then (true, 0)
  else let '(_, err, total) := pdc q in
       if err then (true, 0)
       else if Nat.eqb total 0 then (false, 0)
       else if q_store_ok q then (false, total) else (true, 0).

(* the life of one object inside one call: 0 = not taken, 1 = taken and owned, 2 = given back.
   None = an action outside that life: second Get, Put of something not owned (double Put), a read or
   write before the Get or after the Put *)
Definition bstep (o : obj) (s : nat) (a : act) : option nat :=
  match a with
  | AGet o' => if obj_eqb o o' then (match s with 0 => Some 1 | _ => None end) else Some s
  | APut o' => if obj_eqb o o' then (match s with 1 => Some 2 | _ => None end) else Some s
  | AWrite o' | ARead o' => if obj_eqb o o' then (match s with 1 => Some 1 | _ => None end) else Some s
  end.
Fixpoint brun (o : obj) (s : nat) (tr : list act) : option nat :=
  match tr with
  | [] => Some s
  | a :: r => match bstep o s a with Some s' => brun o s' r | None => None end
  end.

Definition is_put (o : obj) (a : act) : bool := match a with APut o' => obj_eqb o o' | _ => false end.
Definition is_get (o : obj) (a : act) : bool := match a with AGet o' => obj_eqb o o' | _ => false end.
Definition count_put (o : obj) (tr : list act) : nat := length (filter (is_put o) tr).
Definition count_get (o : obj) (tr : list act) : nat := length (filter (is_get o) tr).

(* does this call take object o at all *)
Definition takes (o : obj) (q : req) : bool :=
  if q_limit q then false
  else match o with OComp => true | _ => negb (q_ctx q) end.

(* ------------------------------------------------------------------ 2. several requests, one pool *)

(* a request in flight: what it still has to do, the object its variable refers to, the life state *)
Record rq := { r_todo : list act; r_var : option nat; r_st : nat }.
Record tstate := { t_reqs : list rq; t_pool : list nat; t_next : nat }.
Definition tinit : tstate := {| t_reqs := []; t_pool := []; t_next := 0 |}.

(* TStart q: a request arrives (its number = how many arrived before); TStep r pick: request r performs
   its next action; if that is a Get, sync.Pool hands out the pooled object at position pick, or a
   new one when there is none at that position *)
Inductive tev := TStart (q : req) | TStep (r pick : nat).

Fixpoint drop_nth {A} (i : nat) (l : list A) : list A :=
  match l, i with
  | [], _ => []
  | _ :: r, 0 => r
  | x :: r, S i' => x :: drop_nth i' r
  end.

Section Machine.
  Variable o : obj.                  (* the pool that is watched *)
  Variable code : req -> list act.   (* the code of ProcessDocuments *)

  Definition set_req (r : nat) (x : rq) (l : list rq) : list rq := firstn r l ++ x :: skipn (S r) l.

  Definition tstep (st : tstate) (e : tev) : tstate :=
    match e with
    | TStart q => {| t_reqs := t_reqs st ++ [{| r_todo := code q; r_var := None; r_st := 0 |}];
                     t_pool := t_pool st; t_next := t_next st |}
    | TStep r pick =>
        match nth_error (t_reqs st) r with
        | Some x =>
            match r_todo x with
            | [] => st
            | a :: rest =>
                if is_get o a then
                  match nth_error (t_pool st) pick with
                  | Some v => {| t_reqs := set_req r {| r_todo := rest; r_var := Some v; r_st := 1 |} (t_reqs st);
                                 t_pool := drop_nth pick (t_pool st); t_next := t_next st |}
                  | None => {| t_reqs := set_req r {| r_todo := rest; r_var := Some (t_next st); r_st := 1 |} (t_reqs st);
                               t_pool := t_pool st; t_next := S (t_next st) |}
                  end
                else if is_put o a then
                  (* Put(compressor): whatever the variable refers to goes into the pool — again, if called again *)
                  {| t_reqs := set_req r {| r_todo := rest; r_var := r_var x; r_st := 2 |} (t_reqs st);
                     t_pool := match r_var x with Some v => v :: t_pool st | None => t_pool st end;
                     t_next := t_next st |}
                else {| t_reqs := set_req r {| r_todo := rest; r_var := r_var x; r_st := r_st x |} (t_reqs st);
                        t_pool := t_pool st; t_next := t_next st |}
            end
        | None => st
        end
    end.
  Definition trun (evs : list tev) : tstate := fold_left tstep evs tinit.
End Machine.

(* objects owned right now (taken, not yet given back) *)
Definition owned (l : list rq) : list nat :=
  flat_map (fun x => match r_st x, r_var x with 1, Some v => [v] | _, _ => [] end) l.

(* is the request's NEXT action a read or write of memory of an object of pool o *)
Definition uses (o : obj) (a : act) : bool :=
  match a with AWrite o' | ARead o' => obj_eqb o o' | _ => false end.
Definition now_uses (o : obj) (x : rq) : bool :=
  match r_todo x with a :: _ => uses o a | [] => false end.

(* ------------------------------------------------------------------ 3. memory: hand-over to the embedded store *)

(* a buffer holds a list of items: the documents of a docs block, or the IDs of a metas block
   (compression is the identity here; what matters is WHICH buffer a slice refers to) *)
Definition cell := list (list N).

Record sstate := {
  s_heap : list (nat * cell);               (* newest binding of a buffer first *)
  s_next : nat;                             (* next fresh buffer *)
  s_pool : list (nat * nat);                (* pooled compressors: (docsBuf, metaBuf) *)
  s_held : list (nat * (nat * nat));        (* request -> the compressor it took *)
  s_file : list cell;                       (* docs blocks in the docs file *)
  s_queue : list (nat * nat * cell);        (* index queue, oldest first: docs block number, metas buffer,
                                               and (ghost) the buffer's content when Bulk returned *)
  s_index : list (nat * cell * cell)        (* what the index worker registered: block number, content READ
                                               from the queued buffer, ghost content at hand-over *)
}.
Definition sinit : sstate :=
  {| s_heap := []; s_next := 0; s_pool := []; s_held := []; s_file := []; s_queue := []; s_index := [] |}.

Fixpoint hget (h : list (nat * cell)) (b : nat) : cell :=
  match h with
  | [] => []
  | (k, c) :: r => if Nat.eqb k b then c else hget r b
  end.

Fixpoint take_held {A} (r : nat) (h : list (nat * A)) : option (A * list (nat * A)) :=
  match h with
  | [] => None
  | (r', x) :: t =>
      if Nat.eqb r r' then Some (x, t)
      else match take_held r t with Some (y, t') => Some (y, (r', x) :: t') | None => None end
  end.
Fixpoint find_held {A} (r : nat) (h : list (nat * A)) : option A :=
  match h with
  | [] => None
  | (r', x) :: t => if Nat.eqb r r' then Some x else find_held r t
  end.

(* SStart r pick     GetDocsMetasCompressor (pooled compressor at position pick, or a new one with two new buffers)
   SCompress r d m   CompressDocsAndMetas: r's compressor buffers are overwritten
   SStore r          StoreDocuments(docsBuf, metaBuf) -> SeqDBClient -> inMemoryAPIClient.Bulk -> GrpcV1.Bulk ->
                     FracManager.Append -> Active.Append: returns after the docs block is in the docs file and the metas
                     block (the slice the store was GIVEN) is queued for the index workers
   SFinish r         the deferred PutDocMetasCompressor
   SWork             appendWorker takes the oldest queued block and reads it *)
Inductive sev :=
| SStart (r pick : nat) | SCompress (r : nat) (docs ids : cell) | SStore (r : nat) | SFinish (r : nat) | SWork.

Section Single.
  (* clone = true: the code, `in.Metas = slices.Clone(in.Metas)`; false: the request is copied shallowly (seeded C10-m9) *)
  Variable clone : bool.

  Definition sstep (st : sstate) (e : sev) : sstate :=
    match e with
    | SStart r pick =>
        match nth_error (s_pool st) pick with
        | Some c => {| s_heap := s_heap st; s_next := s_next st; s_pool := drop_nth pick (s_pool st);
                       s_held := (r, c) :: s_held st; s_file := s_file st; s_queue := s_queue st; s_index := s_index st |}
        | None => {| s_heap := s_heap st; s_next := S (S (s_next st)); s_pool := s_pool st;
                     s_held := (r, (s_next st, S (s_next st))) :: s_held st;
                     s_file := s_file st; s_queue := s_queue st; s_index := s_index st |}
        end
    | SCompress r d m =>
        match find_held r (s_held st) with
        | Some (db, mb) => {| s_heap := (db, d) :: (mb, m) :: s_heap st; s_next := s_next st; s_pool := s_pool st;
                              s_held := s_held st; s_file := s_file st; s_queue := s_queue st; s_index := s_index st |}
        | None => st
        end
    | SStore r =>
        match find_held r (s_held st) with
        | Some (db, mb) =>
            let blk := length (s_file st) in
            let file' := s_file st ++ [hget (s_heap st) db] in      (* FileWriter.Write: WriteAt copies into the file *)
            if clone then
              {| s_heap := (s_next st, hget (s_heap st) mb) :: s_heap st; s_next := S (s_next st); s_pool := s_pool st;
                 s_held := s_held st; s_file := file';
                 s_queue := s_queue st ++ [(blk, s_next st, hget (s_heap st) mb)]; s_index := s_index st |}
            else
              {| s_heap := s_heap st; s_next := s_next st; s_pool := s_pool st; s_held := s_held st; s_file := file';
                 s_queue := s_queue st ++ [(blk, mb, hget (s_heap st) mb)]; s_index := s_index st |}
        | None => st
        end
    | SFinish r =>
        match take_held r (s_held st) with
        | Some (c, h') => {| s_heap := s_heap st; s_next := s_next st; s_pool := c :: s_pool st; s_held := h';
                             s_file := s_file st; s_queue := s_queue st; s_index := s_index st |}
        | None => st
        end
    | SWork =>
        match s_queue st with
        | (blk, b, snap) :: q' =>
            {| s_heap := s_heap st; s_next := s_next st; s_pool := s_pool st; s_held := s_held st; s_file := s_file st;
               s_queue := q'; s_index := s_index st ++ [(blk, hget (s_heap st) b, snap)] |}
        | [] => st
        end
    end.
  Definition srun_from (st : sstate) (evs : list sev) : sstate := fold_left sstep evs st.
  Definition srun (evs : list sev) : sstate := srun_from sinit evs.
End Single.

(* the store answering a fetch by ID: the first registered block that lists the ID, the document at the
   same position of that docs block *)
Definition item_eqb (a b : list N) : bool :=
  (fix eq (a b : list N) : bool :=
     match a, b with
     | [], [] => true
     | x :: a', y :: b' => N.eqb x y && eq a' b'
     | _, _ => false
     end) a b.
Fixpoint pos_of (id : list N) (ids : cell) : option nat :=
  match ids with
  | [] => None
  | x :: r => if item_eqb id x then Some 0 else option_map S (pos_of id r)
  end.
Fixpoint sfetch_in (file : list cell) (ix : list (nat * cell * cell)) (id : list N) : option (list N) :=
  match ix with
  | [] => None
  | (blk, ids, _) :: r =>
      match pos_of id ids with
      | Some j => nth_error (nth blk file []) j
      | None => sfetch_in file r id
      end
  end.
Definition sfetch (st : sstate) (id : list N) : option (list N) := sfetch_in (s_file st) (s_index st) id.

(* the schedules the correspondence run executes on the real ingestor + in-memory client + store: every bulk is a complete
   ProcessDocuments call (true), between them the single index worker is let through one queued block (false); sync.Pool
   hands the compressor that was just put back to the next bulk (pick 0: the choice that makes sharing most likely);
   at the end the store is waited idle (the queue drains) *)
Definition bulk := list (list N * list N).     (* (id, document) *)
Fixpoint expand (r : nat) (bs : list bulk) (sched : list bool) : list sev :=
  match sched with
  | [] => []
  | false :: s => SWork :: expand r bs s
  | true :: s =>
      match bs with
      | b :: bs' => SStart r 0 :: SCompress r (map snd b) (map fst b) :: SStore r :: SFinish r :: expand (S r) bs' s
      | [] => expand r [] s
      end
  end.
Definition single_events (bs : list bulk) (sched : list bool) : list sev :=
  expand 0 bs sched ++ repeat SWork (length bs).
Definition single_fetch (clone : bool) (bs : list bulk) (sched : list bool) : list (list (option (list N))) :=
  let st := srun clone (single_events bs sched) in
  map (fun b => map (fun p => sfetch st (fst p)) b) bs.
