(* C10 — the definitions GENERATED from the Go sources by harness/cmd/go2coq (Gen.v, regenerated on every
   run) refine the hand-written model functions of Model.v that the property theorems are about. *)
From Coq Require Import ZArith List Bool Lia ZifyBool.
From VLib Require Import GoSem GoSemFacts.
From C10 Require Import Model Spec ProofsTime GenPrelude Gen.
Open Scope Z_scope.
Ltac Zify.zify_post_hook ::= Z.to_euclidean_division_equations.

Lemma i64_wrap64 : forall z, i64 z = wrap64 z.
Proof. intros. unfold i64, wrap64. reflexivity. Qed.

Lemma wrap64_range : forall z, - 9223372036854775808 <= wrap64 z < 9223372036854775808.
Proof. intros. rewrite <- i64_wrap64. apply i64_range. Qed.

(* proxy/bulk documentDelayed as generated = delayed, on ALL integers (no range hypothesis) *)
Lemma gen_documentDelayed_refines : forall delay drift fdrift,
  go_bulk_documentDelayed delay drift fdrift = delayed delay drift fdrift.
Proof.
  intros. unfold go_bulk_documentDelayed, delayed, neg64. cbv zeta. rewrite i64_wrap64.
  destruct (drift <? delay); destruct (delay <? 0); destruct (delay <? wrap64 (- fdrift)); reflexivity.
Qed.

(* seq.TimeToMID as generated (over the extern time.Time.UnixNano) = mid_of, for every instant *)
Lemma gen_TimeToMID_refines : forall t, go_seq_TimeToMID t = mid_of t.
Proof.
  intros. unfold go_seq_TimeToMID, mid_of.
  replace (time_UnixNano t) with (wrap64 t) by (unfold time_UnixNano, wrap64; reflexivity).
  pose proof (wrap64_range t) as Hr.
  rewrite i64_small by lia.
  unfold u64. reflexivity.
Qed.

(* C10_time_rule / C10_mid_ms restated over the GENERATED functions *)
Lemma time_rule_gen : forall now drift fdrift t, 0 <= drift < max64 -> 0 <= fdrift <= max64 ->
  (if go_bulk_documentDelayed (sat64 (now - t)) drift fdrift then now else t) = spec_time now drift fdrift (Some t).
Proof.
  intros. rewrite gen_documentDelayed_refines.
  exact (time_rule now drift fdrift (Some t) ltac:(assumption) ltac:(assumption)).
Qed.

Lemma mid_ms_gen : forall t, 0 <= t <= max64 -> go_seq_TimeToMID t = ms_of t.
Proof. intros. rewrite gen_TimeToMID_refines. apply mid_ms. assumption. Qed.

(* seq.DurationToMID, seq.MIDToDuration (no model counterpart: characterised directly) *)
Lemma gen_DurationToMID_spec : forall d, 0 <= d < 9223372036854775808 -> go_seq_DurationToMID d = d / 1000000.
Proof.
  intros d Hd. unfold go_seq_DurationToMID. rewrite Z.quot_div_nonneg by lia.
  rewrite i64_small by lia. rewrite u64_small by lia. reflexivity.
Qed.

Lemma gen_MIDToDuration_spec : forall m, 0 <= m -> m * 1000000 < 9223372036854775808 ->
  go_seq_MIDToDuration m = m * 1000000.
Proof. intros m H1 H2. unfold go_seq_MIDToDuration. rewrite (i64_small m) by lia. rewrite i64_small by lia. reflexivity. Qed.
