(* C10 — on the schedules the single-mode correspondence run executes, every bulk fetches its own documents. *)
From Coq Require Import List NArith Arith Bool Lia.
Import ListNotations.
From C10 Require Import ModelOwn ProofsOwn.

Definition g1 (e : nat * cell * cell) : nat * cell := (fst (fst e), snd e).
Definition g2 (e : nat * nat * cell) : nat * cell := (fst (fst e), snd e).
Definition ghost (st : sstate) : list (nat * cell) := map g1 (s_index st) ++ map g2 (s_queue st).

Definition bulk_evs (r : nat) (b : bulk) : list sev :=
  [SStart r 0; SCompress r (map snd b) (map fst b); SStore r; SFinish r].

Definition quiet (st : sstate) : Prop :=
  s_held st = [] /\ Forall (fun c => fst c <> snd c) (s_pool st).

Lemma bulk_step : forall st r b, quiet st ->
  let st' := srun_from true st (bulk_evs r b) in
  quiet st' /\ s_file st' = s_file st ++ [map snd b] /\
  ghost st' = ghost st ++ [(length (s_file st), map fst b)].
Proof.
  intros [heap next pool held file queue index] r b (H & P). simpl in H, P. subst held.
  unfold bulk_evs, srun_from, ghost, quiet. cbn [fold_left].
  destruct pool as [|[d m] pool'].
  - cbn [sstep nth_error s_pool s_held s_heap s_next s_file s_queue s_index find_held]. rewrite Nat.eqb_refl.
    cbn [sstep nth_error s_pool s_held s_heap s_next s_file s_queue s_index find_held]. rewrite Nat.eqb_refl.
    cbn [sstep nth_error s_pool s_held s_heap s_next s_file s_queue s_index find_held take_held hget].
    rewrite !Nat.eqb_refl.
    cbn [sstep nth_error s_pool s_held s_heap s_next s_file s_queue s_index find_held take_held hget].
    replace (Nat.eqb next (S next)) with false by (symmetry; apply Nat.eqb_neq; lia).
    repeat split.
    + constructor; [simpl; lia|constructor].
    + rewrite map_app. cbn [map g2 fst snd]. rewrite app_assoc. reflexivity.
  - inversion P as [|? ? ND P']; subst. cbn [fst snd] in ND.
    cbn [sstep nth_error s_pool s_held s_heap s_next s_file s_queue s_index find_held drop_nth]. rewrite Nat.eqb_refl.
    cbn [sstep nth_error s_pool s_held s_heap s_next s_file s_queue s_index find_held]. rewrite Nat.eqb_refl.
    cbn [sstep nth_error s_pool s_held s_heap s_next s_file s_queue s_index find_held take_held hget].
    rewrite !Nat.eqb_refl.
    cbn [sstep nth_error s_pool s_held s_heap s_next s_file s_queue s_index find_held take_held hget].
    replace (Nat.eqb d m) with false by (symmetry; apply Nat.eqb_neq; exact ND).
    repeat split.
    + constructor; [exact ND|exact P'].
    + rewrite map_app. cbn [map g2 fst snd]. rewrite app_assoc. reflexivity.
Qed.

Lemma work_step : forall st, quiet st ->
  let st' := sstep true st SWork in
  quiet st' /\ s_file st' = s_file st /\ ghost st' = ghost st.
Proof.
  intros [heap next pool held file queue index] Q. unfold ghost, quiet in *. cbn [sstep s_queue].
  destruct queue as [|[[blk b] snap] q']; [repeat split; apply Q|].
  cbn [s_held s_pool s_file s_index s_queue] in *. repeat split; try apply Q.
  rewrite map_app. cbn [map g1 g2 fst snd]. rewrite <- app_assoc. reflexivity.
Qed.

Lemma srun_from_app : forall c st a b, srun_from c st (a ++ b) = srun_from c (srun_from c st a) b.
Proof. intros. unfold srun_from. apply fold_left_app. Qed.

(* the registered (block, IDs) pairs of bulks bs stored from block number base on *)
Fixpoint gh (base : nat) (bs : list bulk) : list (nat * cell) :=
  match bs with [] => [] | b :: r => (base, map fst b) :: gh (S base) r end.

Definition ntrue (s : list bool) : nat := length (filter (fun b => b) s).

Lemma expand_run : forall sched r bs st, quiet st -> ntrue sched = length bs ->
  let st' := srun_from true st (expand r bs sched) in
  quiet st' /\ s_file st' = s_file st ++ map (map snd) bs /\
  ghost st' = ghost st ++ gh (length (s_file st)) bs.
Proof.
  induction sched as [|s sched IH]; intros r bs st Q N.
  - destruct bs; [|discriminate]. simpl. rewrite !app_nil_r. repeat split; apply Q.
  - destruct s; cbn [expand].
    + destruct bs as [|b bs']; [discriminate|]. unfold ntrue in N. simpl in N. injection N as N.
      change (SStart r 0 :: SCompress r (map snd b) (map fst b) :: SStore r :: SFinish r :: expand (S r) bs' sched)
        with (bulk_evs r b ++ expand (S r) bs' sched).
      rewrite srun_from_app.
      destruct (bulk_step st r b Q) as (Q1 & F1 & G1).
      destruct (IH (S r) bs' _ Q1 N) as (Q2 & F2 & G2). cbv zeta.
      repeat split; [apply Q2|apply Q2| |].
      * rewrite F2, F1. cbn [map]. rewrite <- app_assoc. reflexivity.
      * rewrite G2, G1, F1. cbn [gh]. rewrite app_length. cbn [length]. rewrite Nat.add_1_r, <- app_assoc. reflexivity.
    + unfold ntrue in N. simpl in N.
      change (SWork :: expand r bs sched) with ([SWork] ++ expand r bs sched). rewrite srun_from_app.
      destruct (work_step st Q) as (Q1 & F1 & G1).
      destruct (IH r bs _ Q1 N) as (Q2 & F2 & G2). cbv zeta.
      change (srun_from true st [SWork]) with (sstep true st SWork).
      repeat split; [apply Q2|apply Q2| |].
      * rewrite F2, F1. reflexivity.
      * rewrite G2, G1, F1. reflexivity.
Qed.

Lemma drain : forall n st, quiet st -> length (s_queue st) <= n ->
  let st' := srun_from true st (repeat SWork n) in
  s_queue st' = [] /\ s_file st' = s_file st /\ ghost st' = ghost st.
Proof.
  induction n as [|n IH]; intros st Q L.
  - simpl. destruct (s_queue st); [auto|simpl in L; lia].
  - cbn [repeat]. change (SWork :: repeat SWork n) with ([SWork] ++ repeat SWork n). rewrite srun_from_app.
    change (srun_from true st [SWork]) with (sstep true st SWork).
    destruct (work_step st Q) as (Q1 & F1 & G1).
    assert (L1 : length (s_queue (sstep true st SWork)) <= n).
    { destruct st as [heap next pool held file queue index]. cbn [sstep s_queue] in *.
      destruct queue as [|[[blk b] snap] q']; cbn [s_queue length] in *; lia. }
    destruct (IH _ Q1 L1) as (A & B & C). cbv zeta. repeat split; [exact A|congruence|congruence].
Qed.

Lemma item_eqb_eq : forall a b, item_eqb a b = true <-> a = b.
Proof.
  unfold item_eqb. induction a as [|x a IH]; intros [|y b]; split; intros H; try discriminate; try reflexivity.
  - apply andb_prop in H. destruct H as [H1 H2]. apply N.eqb_eq in H1. apply IH in H2. subst; reflexivity.
  - inversion H; subst. apply andb_true_intro. split; [apply N.eqb_refl|apply IH; reflexivity].
Qed.

Lemma pos_of_none : forall id ids, ~ In id ids -> pos_of id ids = None.
Proof.
  induction ids as [|x r IH]; intros NI; [reflexivity|]. simpl.
  destruct (item_eqb id x) eqn:E; [apply item_eqb_eq in E; subst; exfalso; apply NI; left; reflexivity|].
  rewrite IH; [reflexivity|]. intro I. apply NI. right; exact I.
Qed.

Lemma pos_of_some : forall ids j id, NoDup ids -> nth_error ids j = Some id -> pos_of id ids = Some j.
Proof.
  induction ids as [|x r IH]; intros j id ND H; destruct j; simpl in H; try discriminate.
  - inversion H; subst. simpl. destruct (item_eqb id id) eqn:E; [reflexivity|].
    assert (T : item_eqb id id = true) by (apply item_eqb_eq; reflexivity). congruence.
  - inversion ND as [|? ? NI ND']; subst. simpl.
    destruct (item_eqb id x) eqn:E.
    + apply item_eqb_eq in E; subst. exfalso. apply NI. eapply nth_error_In; eauto.
    + rewrite (IH j id ND' H). reflexivity.
Qed.

Lemma nodup_app_disj {A} : forall (a b : list A) x, NoDup (a ++ b) -> In x a -> In x b -> False.
Proof.
  induction a as [|y a IH]; intros b x ND Ia Ib; [contradiction|].
  simpl in ND. inversion ND as [|? ? NI ND']; subst. destruct Ia as [->|Ia].
  - apply NI. apply in_or_app; right; exact Ib.
  - eapply IH; eauto.
Qed.

Lemma fetch_gh : forall bs base file ix,
  map g1 ix = gh base bs ->
  Forall (fun e => snd (fst e) = snd e) ix ->
  (forall i b, nth_error bs i = Some b -> nth (base + i) file [] = map snd b) ->
  NoDup (flat_map (fun b => map fst b) bs) ->
  forall i b j p, nth_error bs i = Some b -> nth_error b j = Some p ->
    sfetch_in file ix (fst p) = Some (snd p).
Proof.
  induction bs as [|b0 bs IH]; intros base file ix G P F ND i b j p Hi Hj; [destruct i; discriminate|].
  destruct ix as [|[[blk rd] snap] ix']; [discriminate|].
  cbn [map gh g1 fst snd] in G. injection G as E1 E2 E3. subst blk.
  inversion P as [|? ? Pe P']; subst. cbn [fst snd] in Pe. subst rd.
  cbn [flat_map] in ND. cbn [sfetch_in].
  destruct i as [|i'].
  - simpl in Hi. inversion Hi; subst b0.
    assert (Hid : nth_error (map fst b) j = Some (fst p)) by (apply map_nth_error; exact Hj).
    rewrite (pos_of_some _ _ _ (nodup_app_l' _ _ ND) Hid).
    specialize (F 0 b eq_refl). rewrite Nat.add_0_r in F. transitivity (nth_error (map snd b) j); [f_equal; exact F|apply map_nth_error; exact Hj].
  - simpl in Hi.
    assert (NI : ~ In (fst p) (map fst b0)).
    { intro I. eapply nodup_app_disj; [exact ND|exact I|].
      apply in_flat_map. exists b. split; [eapply nth_error_In; eauto|].
      apply in_map. eapply nth_error_In; eauto. }
    rewrite (pos_of_none _ _ NI).
    eapply (IH (S base) file ix' E3 P'); [|eapply nodup_app_r'; exact ND|exact Hi|exact Hj].
    intros k b' Hk. specialize (F (S k) b' Hk). rewrite <- F. f_equal. lia.
Qed.

Lemma srun_srun_from : forall c evs, srun c evs = srun_from c sinit evs.
Proof. reflexivity. Qed.

(* On every schedule of complete bulks and index-worker steps (the ones the single-mode class executes on the real
   code, any number of bulks, the worker as late as one likes), with pairwise different IDs: after the store has been
   waited idle every ID of every bulk is registered and fetches that bulk's own document. *)
Theorem single_fetch_own : forall bs sched,
  ntrue sched = length bs -> NoDup (flat_map (fun b => map fst b) bs) ->
  single_fetch true bs sched = map (fun b => map (fun p => Some (snd p)) b) bs.
Proof.
  intros bs sched N ND. unfold single_fetch.
  pose proof (single_mode_private (single_events bs sched)) as PRIV.
  unfold single_events in *. rewrite srun_srun_from in *. rewrite srun_from_app in *.
  assert (Q0 : quiet sinit) by (split; [reflexivity|constructor]).
  destruct (expand_run sched 0 bs sinit Q0 N) as (Q1 & F1 & G1).
  set (st1 := srun_from true sinit (expand 0 bs sched)) in *.
  cbn [sinit s_file app length] in F1. unfold ghost at 2 in G1. cbn [sinit s_index s_queue map app] in G1. change (length (s_file sinit)) with 0 in G1.
  assert (L : length (s_queue st1) <= length bs).
  { assert (E : length (ghost st1) = length bs).
    { rewrite G1. clear. generalize 0. induction bs as [|b bs' IHb]; intros n; simpl; [reflexivity|rewrite IHb; reflexivity]. }
    unfold ghost in E. rewrite app_length, !map_length in E. lia. }
  destruct (drain (length bs) st1 Q1 L) as (D1 & D2 & D3).
  set (st2 := srun_from true st1 (repeat SWork (length bs))) in *.
  assert (GI : map g1 (s_index st2) = gh 0 bs).
  { rewrite <- G1, <- D3. unfold ghost. rewrite D1. cbn [map]. rewrite app_nil_r. reflexivity. }
  apply map_ext_in. intros b Ib. apply map_ext_in. intros p Ip.
  destruct (In_nth_error _ _ Ib) as (i & Hi). destruct (In_nth_error _ _ Ip) as (j & Hj).
  unfold sfetch. eapply (fetch_gh bs 0 (s_file st2) (s_index st2) GI PRIV); eauto.
  intros k b' Hk. rewrite D2, F1. cbn [Nat.add].
  rewrite (nth_error_nth (map (map snd) bs) k [] (map_nth_error (map snd) k bs Hk)). reflexivity.
Qed.
