(* C10 — dispatch of the gen-* correspondence cases (validation of the translator go2coq): evaluates the
   GENERATED definitions of Gen.v on the arguments the harness passed to the real Go functions. NO proofs.
   An instant is passed as its (unbounded) count of nanoseconds since the Unix epoch. *)
From Coq Require Import ZArith List.
From VLib Require Import GoSem.
From C10 Require Import GenPrelude Gen.
Import ListNotations.
Open Scope Z_scope.

Definition gen_eval (fn : N) (a : list (list Z)) : gres :=
  match fn with
  | 1%N => gres_of enc_b (go_bulk_documentDelayed_run (arg a 0) (arg a 1) (arg a 2))
  | 2%N => gres_of enc_z (go_seq_TimeToMID_run (arg a 0))
  | 3%N => gres_of enc_z (go_seq_DurationToMID_run (arg a 0))
  | 4%N => gres_of enc_z (go_seq_MIDToDuration_run (arg a 0))
  | _ => GFuel
  end.
