(* C10 — the three behaviours that were repaired in /repo (commits 50bd78c, 7e46066, 480fedc), kept
   as _v0 definitions with their refutations (witnesses replayed on the real code by hC10 in the
   regression classes time-far-future, oversize-tail-exact, estime-long-fraction). *)
From C10 Require Import Model ModelSeq Spec.

(* ---- documentDelayed with `-docDelay > futureDrift` *)
Open Scope Z_scope.
Definition delayed_v0 (delay drift fdrift : Z) : bool :=
  (drift <? delay) || ((delay <? 0) && (fdrift <? neg64 delay)).
Definition id_time_v0 (now drift fdrift : Z) (doc : option Z) : Z :=
  match doc with
  | None => now
  | Some t => if delayed_v0 (sat64 (now - t)) drift fdrift then now else t
  end.

(* now = 2026-09-25T12:00Z, drift 1 h, futureDrift 1 min, document time 2400-01-01: the difference
   saturates time.Duration, its negation is negative again, the document time is kept and
   UnixNano wraps: the ID carries neither the document's time nor the receive time *)
Example time_rule_v0_refuted :
  exists now drift fdrift t,
    0 <= drift < max64 /\ 0 <= fdrift <= max64 /\ in_drift now drift fdrift t = false /\
    id_time_v0 now drift fdrift (Some t) = t /\
    mid_of (id_time_v0 now drift fdrift (Some t)) <> ms_of now /\
    mid_of (id_time_v0 now drift fdrift (Some t)) <> ms_of t.
Proof.
  exists 1790337600000000000, 3600000000000, 60000000000, 13569465600000000000.
  repeat split; try (vm_compute; congruence); vm_compute; reflexivity.
Qed.
Close Scope Z_scope.

(* ---- readDoc's skip loop treating io.EOF as an error *)
Section ReaderV0.
  Variable eager : bool.
  Variable B : nat.
  Fixpoint skip_big_v0 (f : nat) (s : list N) : res (list N) :=
    match f with
    | 0 => OutOfFuel
    | S f' =>
        match read_line eager B s with
        | REof => Fail
        | RBroken => Fail
        | RLine _ true r => skip_big_v0 f' r
        | RLine _ false r => Ok r
        end
    end.
  Definition read_doc_v0 (f : nat) (s : list N) : res (option (list N) * list N) :=
    match read_line eager B s with
    | REof => Fail
    | RBroken => Fail
    | RLine d false r => Ok (Some d, r)
    | RLine _ true r =>
        match skip_big_v0 f r with
        | Ok r' => Ok (None, r')
        | Fail => Fail
        | OutOfFuel => OutOfFuel
        end
    end.
  Variable classify : list N -> option cls.
  Fixpoint run_v0 (f : nat) (s : list N) (k : nat) (acc : list (list N)) : outcome :=
    match f with
    | 0 => Fuel
    | S f' =>
        match skip_action eager B f s k with
        | OutOfFuel => Fuel
        | Fail => Rejected
        | Ok None => Accepted (rev acc)
        | Ok (Some (r, k')) =>
            match read_doc_v0 f r with
            | OutOfFuel => Fuel
            | Fail => Rejected
            | Ok (None, r') => run_v0 f' r' k' acc
            | Ok (Some [], _) => Rejected
            | Ok (Some d, r') =>
                match classify d with
                | None => Miss
                | Some Invalid => Rejected
                | Some NonObject => run_v0 f' r' k' acc
                | Some Object => run_v0 f' r' k' (d :: acc)
                end
            end
        end
    end.
  Definition run_body_v0 (body : list N) : outcome := run_v0 (S (length body)) body 0 [].
End ReaderV0.

(* maxDocumentSize 32: {"index":{}}\n{"a":1}\n{"index":{}}\n + a 32-byte line without line break.
   The statement (and the repaired reader) store {"a":1}; the old loop rejected the request. *)
Definition v0_body : list N := [123; 34; 105; 110; 100; 101; 120; 34; 58; 123; 125; 125; 10; 123; 34; 97; 34; 58; 49; 125; 10; 123; 34; 105; 110; 100; 101; 120; 34; 58; 123; 125; 125; 10; 123; 34; 97; 34; 58; 34; 120; 120; 120; 120; 120; 120; 120; 120; 120; 120; 120; 120; 120; 120; 120; 120; 120; 120; 120; 120; 120; 120; 120; 120; 34; 125]%N.
Definition v0_doc : list N := [123; 34; 97; 34; 58; 49; 125]%N.
Example framing_v0_refuted :
  exists B body, 2 <= B /\
    spec_outcome (fun _ => Object) false B body = Accepted [v0_doc] /\
    run_body false B (fun _ => Some Object) body = Accepted [v0_doc] /\
    run_body_v0 false B (fun _ => Some Object) body = Rejected.
Proof.
  exists 32, v0_body. split; [repeat constructor|]. repeat split; vm_compute; reflexivity.
Qed.

(* ---- parseESTime reading more than nine fraction digits with multiplier 1 *)
Definition parse_es_v0 (t : list N) : option Z :=
  if Nat.ltb (length t) 19 then None else
  match parse_uint (sub t 0 4) 0 9999, parse_uint (sub t 5 7) 1 12, parse_uint (sub t 8 10) 1 31,
        parse_uint (sub t 11 13) 0 23, parse_uint (sub t 14 16) 0 59, parse_uint (sub t 17 19) 0 59 with
  | Some y, Some mo, Some d, Some h, Some mi, Some s =>
      if negb (at_is t 4 45 && at_is t 7 45 && at_is t 10 32 && at_is t 13 58 && at_is t 16 58) then None else
      let rest := skipn 19 t in
      match rest with
      | [] => Some (date_nanos (Z.of_N y) (Z.of_N mo) (Z.of_N d) (Z.of_N h) (Z.of_N mi) (Z.of_N s) 0)
      | c :: fr =>
          if negb (N.eqb c 46) then None else
          match fr with
          | [] => None
          | _ => match parse_uint fr 0 999999999 with
                 | Some x => Some (date_nanos (Z.of_N y) (Z.of_N mo) (Z.of_N d) (Z.of_N h) (Z.of_N mi)
                                               (Z.of_N s) (Z.of_N (x * frac_multi (length fr))))
                 | None => None
                 end
          end
      end
  | _, _, _, _, _, _ => None
  end.

(* "2026-09-25 12:00:30.0999999999": 30.999999999 s before the repair, 30.099999999 s now *)
Definition v0_es : list N := [50; 48; 50; 54; 45; 48; 57; 45; 50; 53; 32; 49; 50; 58; 48; 48; 58; 51; 48; 46; 48; 57; 57; 57; 57; 57; 57; 57; 57; 57]%N.
Example estime_v0_refuted :
  parse_es_v0 v0_es = Some 1790337630999999999%Z /\ parse_es v0_es = Some 1790337630099999999%Z.
Proof. split; vm_compute; reflexivity. Qed.

(* ---- an extra Put of the compressor on the `total == 0` path (seeded change, phase 3): after one
   accepted request without surviving documents two requests in flight hold the same compressor *)
Example pool_v0_refuted :
  map snd (held (prun puts_v0 [Start 0 0; Finish 0 KEmpty; Start 1 0; Start 2 0])) = [0; 0].
Proof. vm_compute. reflexivity. Qed.

(* ---- a pooled object that is not re-initialised leaks one request into the next.
   body = {"index":{}}\n{"a":1}\n ; previous request left 9 bytes in the docs buffer / had read 5 action lines *)
Definition seq_body : list N := [123;34;105;110;100;101;120;34;58;123;125;125;10;123;34;97;34;58;49;125;10]%N.
Example leak_docs_reset_refuted :
  let p := {| p_counter := 0; p_reader_left := []; p_docs_buf := [1;0;0;0;120]%N |} in
  let rs := {| r_counter := true; r_reader := true; r_docs := false |} in
  snd (serve rs false 32 (fun _ => Some Object) p seq_body)
    <> snd (serve rs false 32 (fun _ => Some Object) fresh seq_body).
Proof. vm_compute. congruence. Qed.

Example leak_counter_reset_refuted :
  let p := {| p_counter := 5; p_reader_left := []; p_docs_buf := [] |} in
  let rs := {| r_counter := false; r_reader := true; r_docs := true |} in
  (* junk\n{"a":1}\n : the protocol check of the first five action lines is skipped *)
  let body := [106;117;110;107;10;123;34;97;34;58;49;125;10]%N in
  fst (serve rs false 32 (fun _ => Some Object) p body) = Accepted [[123;34;97;34;58;49;125]%N] /\
  fst (serve rs false 32 (fun _ => Some Object) fresh body) = Rejected.
Proof. split; vm_compute; reflexivity. Qed.

(* ---- the pooled gzip reader given back before the body is read (seeded change, phase 4:
   `defer putGzipReader(gz); return gz` in a helper): two gzip requests in flight read through
   the same reader *)
Example gzip_early_put_refuted :
  map snd (held (prun_early [Start 1 0; Start 2 0])) = [0; 0].
Proof. vm_compute. reflexivity. Qed.
