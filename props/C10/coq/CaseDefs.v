(* C10 — shape of the generated cases and the two executable verdicts. No proofs. *)
From Coq Require Import Uint63.
From VLib Require Import CaseLib.
From C10 Require Import Model ModelMeta Spec ModelOwn.
(* gen-* cases (validation of the translator go2coq) *)
From VLib Require GoSem.
From C10 Require GenCase.
Notation GVal := GoSem.GVal.
Notation GPanic := GoSem.GPanic.
Notation GFuel := GoSem.GFuel.

(* bytes are written in the case files as primitive 63-bit integers 0x01 b1 .. bk (k <= 7): lists of
   N numerals, string literals and big numerals all elaborate too slowly for thousands of bodies.
   Only the decoding of the case files uses primitive integers; model, spec and theorems do not. *)
Definition bitN (x i : int) (w : N) : N := if is_zero (x land (1 << i))%uint63 then 0%N else w.
Definition byte_of (x : int) : N :=
  (bitN x 0 1 + bitN x 1 2 + bitN x 2 4 + bitN x 3 8 + bitN x 4 16 + bitN x 5 32 + bitN x 6 64 + bitN x 7 128)%N.
Fixpoint chunk_bytes (fuel : nat) (x : int) (acc : list N) : list N :=
  match fuel with
  | O => acc
  | S f => if (x =? 1)%uint63 then acc else chunk_bytes f (x >> 8)%uint63 (byte_of x :: acc)
  end.
Definition hx (l : list int) : list N := flat_map (fun x => chunk_bytes 8 x []) l.

(* table entry of a line without time fields *)
Definition nof (c : cls) : docinfo := {| d_cls := c; d_fields := []; d_intended := None |}.

Definition bytes_eqb : list N -> list N -> bool := list_eqb N.eqb.

Fixpoint lookup (tbl : list (list N * docinfo)) (d : list N) : option docinfo :=
  match tbl with
  | [] => None
  | (k, i) :: r => if bytes_eqb k d then Some i else lookup r d
  end.

(* metas payload *)
Definition tok_eqb (a b : list N * list N) : bool := bytes_eqb (fst a) (fst b) && bytes_eqb (snd a) (snd b).
Definition meta_eqb (a b : meta) : bool :=
  N.eqb (m_mid a) (m_mid b) && N.eqb (m_rid a) (m_rid b) && N.eqb (m_size a) (m_size b)
  && list_eqb tok_eqb (m_tokens a) (m_tokens b).
Inductive uclass := KOk (m : meta) | KErr | KPanic.
Definition uclass_eqb (a : ures meta) (b : uclass) : bool :=
  match a, b with
  | UOk x, KOk y => meta_eqb x y
  | UErr, KErr => true
  | UPanic, KPanic => true
  | _, _ => false
  end.

(* what was observed on the real handler *)
Record impl := {
  i_ok : bool;                                  (* HTTP status 2xx *)
  i_created : nat;                              (* items in the response *)
  i_calls : nat;                                (* StoreDocuments calls *)
  i_total : nat;                                (* count argument of the call *)
  i_stored : list (list N * (Z * nat));         (* decoded payload: doc bytes, MID and Size of its meta *)
  i_payload : list N                            (* decompressed docs payload as handed to the store *)
}.

Inductive case :=
(* one request: buffer size, request time / drifts (ns), decompressed body, oracle table *)
(* real MetaData.MarshalBinaryTo of m, and real UnmarshalBinary of those bytes *)
| CMeta (m : meta) (bytes : list N) (un : uclass)
(* real UnmarshalBinary on truncated / corrupted-header / extended bytes *)
| CMetaBytes (b : list N) (un : uclass)
(* the metas payload handed to StoreDocuments by the real ingest path (marshalAppendMeta per meta),
   and the metas the real UnmarshalBinary reads from it *)
| CMetaPayload (payload : list N) (ms : list meta)
(* a history of requests on one ingestor: some of them overlap (one is held inside StoreDocuments
   while others are processed completely); every component is the observation of one request, its
   payload read when ITS StoreDocuments call returns *)
| CHist (l : list case)
| CBulk (brk eager : bool) (B : nat) (now drift fdrift : Z) (body : list N) (tbl : list (list N * docinfo)) (r : impl)
(* gen-<func>: the REAL Go function number fn (GenCase.gen_eval) was called on args and returned impl (or
   panicked); the model side is the definition GENERATED from the Go source by go2coq (Gen.v) *)
| CGen (fn : N) (args : list (list Z)) (impl : GoSem.gres)
(* exit-path: one call of the REAL Ingestor.ProcessDocuments along the path q (limit: MaxInflightBulks exceeded; ctx: the
   select took <-ctx.Done(), as observed; its / fin: what readNext delivered; store_ok: what the StorageClient answered).
   err / total = what the call returned; obs = after the call, how many times the objects this call took lie in
   [compressorPool; binaryDocsPool; binaryMetasPool; procPool] (all four drained empty before the call, one P, no GC in
   between), then how many rate-limit tickets are missing *)
| CPath (q : req) (err : bool) (total : nat) (obs : list nat)
(* single-mode: REAL bulk.Ingestor -> SeqDBClient -> storeapi in-memory client -> store with ONE index worker that is let
   through one queued block per `false` of the schedule; `true` = the next bulk (a complete ProcessDocuments call);
   afterwards the store is waited idle and every ID of every bulk is fetched *)
| CSingle (bs : list bulk) (sched : list bool) (fetched : list (list (option (list N)))).

Definition pool_objs : list obj := [OComp; OBinDocs; OBinMetas; OProc].
Definition opt_bytes_eqb (a b : option (list N)) : bool :=
  match a, b with Some x, Some y => bytes_eqb x y | None, None => true | _, _ => false end.

Definition stored_eqb (a b : list N * (Z * nat)) : bool :=
  bytes_eqb (fst a) (fst b) && Z.eqb (fst (snd a)) (fst (snd b)) && Nat.eqb (snd (snd a)) (snd (snd b)).

Definition info_of (tbl : list (list N * docinfo)) (d : list N) : docinfo :=
  match lookup tbl d with Some i => i | None => {| d_cls := Invalid; d_fields := []; d_intended := None |} end.

(* model output = implementation output *)
Definition case_agrees1 (c : case) : bool :=
  match c with
  | CHist _ => true
  | CGen fn args impl => GoSem.gres_eqb (GenCase.gen_eval fn args) impl
  | CPath q err total obs =>
      Bool.eqb (fst (pd_result q)) err && Nat.eqb (snd (pd_result q)) total
      && list_eqb Nat.eqb obs (map (fun o => count_put o (code_pd q)) pool_objs
                                 ++ [count_get OTicket (code_pd q) - count_put OTicket (code_pd q)])
  | CSingle bs sched fetched => list_eqb (list_eqb opt_bytes_eqb) (single_fetch true bs sched) fetched
  | CMeta m bytes un => bytes_eqb (marshal_meta m) bytes && uclass_eqb (unmarshal_meta bytes) un
  | CMetaBytes b un => uclass_eqb (unmarshal_meta b) un
  | CMetaPayload payload ms =>
      match decode_metas (S (length payload)) payload with
      | UOk ms' => list_eqb meta_eqb ms' ms
      | _ => false
      end && bytes_eqb (encode_metas ms) payload
  | CBulk brk eager B now drift fdrift body tbl r =>
      match run_body_t brk eager B (fun d => option_map d_cls (lookup tbl d)) body with
      | Accepted ds =>
          i_ok r && Nat.eqb (i_created r) (length ds)
          && Nat.eqb (i_calls r) (match ds with [] => 0 | _ => 1 end)
          && Nat.eqb (i_total r) (length ds)
          && list_eqb stored_eqb (i_stored r)
               (map (fun d => (d, (doc_mid now drift fdrift (info_of tbl d), length d))) ds)
          && bytes_eqb (i_payload r) (encode_docs ds)
      | Rejected => negb (i_ok r) && Nat.eqb (i_calls r) 0
      | Miss | Fuel => false
      end
  end.

(* implementation output satisfies the property (independent of the model's reader and of its
   time parsing: the expected instant is the one the generator rendered into the document) *)
(* a request's outcome and payload are a function of its own body only: in a history every
   request is judged exactly like a lone request *)
Definition case_agrees (c : case) : bool :=
  match c with CHist l => forallb case_agrees1 l | _ => case_agrees1 c end.

Definition case_spec_ok1 (c : case) : bool :=
  match c with
  | CHist _ => true
  | CGen _ _ _ => true   (* translator validation: correspondence only *)
  (* no pooled object lies in its pool twice (it would be handed to two requests), no ticket is lost *)
  | CPath q err total obs =>
      match obs with
      | [c; d; m; p; t] => Nat.leb c 1 && Nat.leb d 1 && Nat.leb m 1 && Nat.leb p 1 && Nat.eqb t 0
      | _ => false
      end
  (* every accepted document is fetched by its ID with its own bytes *)
  | CSingle bs sched fetched =>
      list_eqb (list_eqb opt_bytes_eqb) fetched (map (fun b => map (fun p => Some (snd p)) b) bs)
  | CMeta m _ un => match un with KOk m' => meta_eqb m m' | _ => false end    (* what was written is read back *)
  | CMetaBytes _ _ => true
  | CMetaPayload _ _ => true
  | CBulk brk eager B now drift fdrift body tbl r =>
      match (if brk then Rejected else spec_outcome (fun d => d_cls (info_of tbl d)) eager B body) with
      | Accepted ds =>
          i_ok r && Nat.eqb (i_created r) (length ds)
          && Nat.leb (i_calls r) 1
          && list_eqb stored_eqb (i_stored r)
               (map (fun d => (d, (ms_of (spec_time now drift fdrift (d_intended (info_of tbl d))), length d))) ds)
      | _ => negb (i_ok r) && Nat.eqb (i_calls r) 0 && match i_stored r with [] => true | _ => false end
      end
  end.

Definition case_spec_ok (c : case) : bool :=
  match c with CHist l => forallb case_spec_ok1 l | _ => case_spec_ok1 c end.

Definition diff_indices (l : list case) : list nat := bad_indices (fun c => negb (case_agrees c)) l.
Definition specfail_indices (l : list case) : list nat := bad_indices (fun c => negb (case_spec_ok c)) l.
