(* C10 — property theorems. Nothing but statements, each closed by `exact <lemma>`, with
   Print Assumptions beneath, and non-vacuity examples.

   Names: eager = how the transport reports the end of the body (see Model.v read_slice); it only
   matters for an unterminated last line of exactly B bytes.  B = len of the bufio buffer =
   max(maxDocumentSize, 16).  classify = the JSON decoder as oracle. *)
From C10 Require Import Model ModelMeta ModelSeq Spec Proofs ProofsFraming ProofsTime ProofsESTime ProofsMeta ProofsSeq ModelV0.

(* For EVERY body, buffer size and transport: the request handled by the buffered reader and the
   processing loop (the model the correspondence run executes) gives exactly the line-level
   statement: blank lines may precede action lines, every action line is followed by one document
   line; the stored documents are the within-limit JSON-object document lines, in order, each once,
   bytes unchanged (CR LF / LF removed); over-size and non-object lines are skipped without
   disturbing neighbours (also an over-size unterminated last line of any length); one invalid
   document line or a protocol violation: nothing is stored and the request fails. *)
Theorem C10_framing_exact :
  forall (eager : bool) (B : nat), 2 <= B ->
  forall (classify : list N -> cls) (body : list N),
    run_body eager B (fun d => Some (classify d)) body = spec_outcome classify eager B body.
Proof. exact framing_exact. Qed.
Print Assumptions C10_framing_exact.

(* the model's fuel is never exhausted and the loop never asks the oracle outside lines of the body *)
Theorem C10_framing_total :
  forall (eager : bool) (B : nat), 2 <= B ->
  forall (classify : list N -> cls) (body : list N),
    run_body eager B (fun d => Some (classify d)) body <> Fuel /\
    run_body eager B (fun d => Some (classify d)) body <> Miss.
Proof. exact run_total. Qed.
Print Assumptions C10_framing_total.

(* The instant put into the ID is the document's own time iff -futureDrift <= now - t <= drift, and
   the receive time otherwise — for every pair of instants, including differences that saturate
   time.Duration (boundaries = drift and = -futureDrift are inside). *)
Theorem C10_time_rule :
  forall now drift fdrift doc, (0 <= drift < max64)%Z -> (0 <= fdrift <= max64)%Z ->
    id_time now drift fdrift doc = spec_time now drift fdrift doc.
Proof. exact time_rule. Qed.
Print Assumptions C10_time_rule.

Theorem C10_time_rule_boundaries :
  forall now drift fdrift, (0 <= drift < max64)%Z -> (0 <= fdrift <= max64)%Z ->
    (id_time now drift fdrift (Some (now - drift)) = now - drift /\
     id_time now drift fdrift (Some (now + fdrift)) = now + fdrift /\
     id_time now drift fdrift (Some (now - drift - 1)) = now /\
     id_time now drift fdrift (Some (now + fdrift + 1)) = now)%Z.
Proof. exact time_rule_boundaries. Qed.
Print Assumptions C10_time_rule_boundaries.

(* seq.TimeToMID of an instant representable by UnixNano (1970 .. 2262) is its millisecond *)
Theorem C10_mid_ms : forall t, (0 <= t <= max64)%Z -> mid_of t = ms_of t.
Proof. exact mid_ms. Qed.
Print Assumptions C10_mid_ms.

(* the docs payload (4-byte little-endian length, then the bytes) decodes to the documents *)
Theorem C10_payload_codec :
  forall ds f, Forall (fun d => (N.of_nat (length d) < 2 ^ 32)%N) ds -> length ds < f ->
    decode_docs f (encode_docs ds) = Ok ds.
Proof. exact payload_codec. Qed.
Print Assumptions C10_payload_codec.

(* parseESTime (as modelled, after repair 480fedc) accepts EXACTLY the strings
   YYYY-MM-DD hh:mm:ss[.f+] (es_form, Spec.v: decimal digits, month 1..12, day 1..31, hour <= 23,
   minute/second <= 59, any number >= 1 of fraction digits of which those beyond the ninth are
   dropped) and returns the instant time.Date gives for these fields. *)
Theorem C10_estime_parse : forall t inst, parse_es t = Some inst <-> es_form t inst.
Proof. exact estime_parse. Qed.
Print Assumptions C10_estime_parse.

(* MetaData.UnmarshalBinary (MarshalBinaryTo m) = m for every meta within the field widths
   (64-bit ID halves, 32-bit size, token count and key/value lengths); bytes after it are ignored *)
Theorem C10_meta_codec : forall m rest, meta_ok m -> unmarshal_meta (marshal_meta m ++ rest) = UOk m.
Proof. exact meta_codec. Qed.
Print Assumptions C10_meta_codec.

(* the model's token loop never runs out of fuel, whatever the bytes (its other outcomes are the
   Go outcomes: value, error, index-out-of-range panic) *)
Theorem C10_meta_unmarshal_total : forall b, unmarshal_meta b <> UFuel.
Proof. exact unmarshal_total. Qed.
Print Assumptions C10_meta_unmarshal_total.

(* the metas payload built by marshalAppendMeta per meta decodes to the metas *)
Theorem C10_metas_payload_codec : forall ms f,
  Forall meta_ok ms -> Forall (fun m => (N.of_nat (length (marshal_meta m)) < 2 ^ 32)%N) ms ->
  length ms < f -> decode_metas f (encode_metas ms) = UOk ms.
Proof. exact metas_payload_codec. Qed.
Print Assumptions C10_metas_payload_codec.

(* No state leaks between requests (ownership rule, sequential part): with the re-initialisations
   the code performs on the pooled reader and payload buffer, the outcome and the docs payload of
   every request of a sequence are those of the request served alone on fresh objects - a function
   of its own body only - whatever earlier requests left behind (`leave` arbitrary). *)
Theorem C10_no_state_leak :
  forall eager B classify leave bodies p,
    serve_all code_resets eager B classify leave p bodies
      = map (fun body => (run_body eager B classify body,
                          match run_body eager B classify body with
                          | Accepted ds => encode_docs ds
                          | _ => []
                          end)) bodies.
Proof. exact serve_all_independent. Qed.
Print Assumptions C10_no_state_leak.

(* Ownership rule, concurrent part: ProcessDocuments takes its compressor (whose buffers are the
   slices handed to StoreDocuments) with one Get and gives it back with exactly one Put on every
   path. Then, for EVERY interleaving of request starts and finishes and every choice sync.Pool
   makes, no compressor is held by two requests in flight and no held one is in the pool: the
   payload a request hands to the store can only be written by that request. *)
Theorem C10_pool_exclusive :
  forall evs, NoDup (map snd (held (prun puts evs)) ++ pool (prun puts evs)).
Proof. exact pool_exclusive. Qed.
Print Assumptions C10_pool_exclusive.

Theorem C10_held_distinct :
  forall evs r1 o1 r2 o2 h1 h2 h3,
    held (prun puts evs) = h1 ++ (r1, o1) :: h2 ++ (r2, o2) :: h3 -> o1 <> o2.
Proof. exact held_distinct. Qed.
Print Assumptions C10_held_distinct.

(* A body whose reader ends with an error other than io.EOF (io.ErrUnexpectedEOF of a cut gzip
   stream or of a body shorter than its Content-Length, a connection error, a timeout): whatever
   prefix of the body arrived, for every buffer size and transport, the request is rejected and
   nothing is stored. *)
Theorem C10_broken_rejects :
  forall (eager : bool) (B : nat), 2 <= B ->
  forall (classify : list N -> cls) (prefix : list N),
    run_body_t true eager B (fun d => Some (classify d)) prefix = Rejected.
Proof. exact broken_rejects. Qed.
Print Assumptions C10_broken_rejects.

(* Both pooled resources that carry request data - the compressor (payload slices) and the
   gzip.Reader (body) - are taken once and given back once when the request is over: for every
   interleaving of the events on the two pools, neither kind of object is held by two requests
   in flight or lies in its pool while held. *)
Theorem C10_pools_exclusive :
  forall evs,
    NoDup (map snd (held (fst (prun2 evs))) ++ pool (fst (prun2 evs))) /\
    NoDup (map snd (held (snd (prun2 evs))) ++ pool (snd (prun2 evs))).
Proof. exact pools_exclusive. Qed.
Print Assumptions C10_pools_exclusive.

(* ---- non-vacuity / documentation of the repaired defects ---- *)

Example C10_broken_nonvacuous :
  (* {"index":{}}\n{"a":1}\n then the stream breaks: rejected; the same bytes ended by EOF: one document *)
  let body := [123;34;105;110;100;101;120;34;58;123;125;125;10;123;34;97;34;58;49;125;10]%N in
  run_body_t true false 32 (fun _ => Some Object) body = Rejected /\
  run_body false 32 (fun _ => Some Object) body = Accepted [[123;34;97;34;58;49;125]%N].
Proof. split; vm_compute; reflexivity. Qed.

Example C10_gzip_early_put_refuted :
  map snd (held (prun_early [Start 1 0; Start 2 0])) = [0; 0].
Proof. exact gzip_early_put_refuted. Qed.


Example C10_pool_nonvacuous :
  (* E finishes empty; A and B overlap (B takes the pooled object or a new one), then finish *)
  held (prun puts [Start 0 0; Finish 0 KEmpty; Start 1 0; Start 2 0]) = [(2, 1); (1, 0)] /\
  pool (prun puts [Start 0 0; Finish 0 KEmpty; Start 1 0; Start 2 0; Finish 1 KStored; Finish 2 KStored]) = [1; 0].
Proof. split; vm_compute; reflexivity. Qed.

Example C10_pool_v0_refuted :
  map snd (held (prun puts_v0 [Start 0 0; Finish 0 KEmpty; Start 1 0; Start 2 0])) = [0; 0].
Proof. exact pool_v0_refuted. Qed.


Example C10_estime_form_nonvacuous :
  es_form [50;48;50;54;45;48;57;45;50;53;32;49;50;58;48;48;58;51;48;46;49;50;51;52;53;54;55;56;57;57]%N
          1790337630123456789%Z.
Proof.
  exists 2%N, 0%N, 2%N, 6%N, 0%N, 9%N, 2%N, 5%N, 1%N, 2%N, 0%N, 0%N, 3%N, 0%N, [1;2;3;4;5;6;7;8;9;9]%N.
  repeat split; try (repeat constructor; fail); vm_compute; congruence.
Qed.

Example C10_meta_nonvacuous :
  let m := {| m_mid := 1790337600000; m_rid := 18446744073709551615; m_size := 7;
              m_tokens := [([95;97;108;108;95]%N, []); ([107]%N, [118;49]%N)] |} in
  meta_ok m /\ unmarshal_meta (marshal_meta m) = UOk m /\ firstn 4 (marshal_meta m) = [124; 63; 1; 0]%N.
Proof.
  assert (L : forall a b : N, N.ltb a b = true -> (a < b)%N) by (intros a b; apply N.ltb_lt).
  split; [|split; vm_compute; reflexivity].
  unfold meta_ok; cbn [m_mid m_rid m_size m_tokens].
  repeat split; try (apply L; vm_compute; reflexivity).
  repeat constructor; apply L; vm_compute; reflexivity.
Qed.


(* a body with CR LF, a blank line, an over-size line, a non-object line: two documents stored *)
Example C10_nonvacuous :
  let cl := fun d => match d with 123%N :: _ => Object | _ => NonObject end in
  (* {"index":{}}\r\n{"a":1}\r\n\n{"index":{}}\n{"b":"0123456789abcdef"}\n{"index":{}}\n7\n{"index":{}}\n{"c":2} *)
  let body := [123;34;105;110;100;101;120;34;58;123;125;125;13;10;123;34;97;34;58;49;125;13;10;10;
               123;34;105;110;100;101;120;34;58;123;125;125;10;
               123;34;98;34;58;34;48;49;50;51;52;53;54;55;56;57;97;98;99;100;101;102;34;125;10;
               123;34;105;110;100;101;120;34;58;123;125;125;10;55;10;
               123;34;105;110;100;101;120;34;58;123;125;125;10;123;34;99;34;58;50;125]%N in
  run_body false 16 (fun d => Some (cl d)) body
    = Accepted [[123;34;97;34;58;49;125]%N; [123;34;99;34;58;50;125]%N].
Proof. vm_compute. reflexivity. Qed.

Example C10_time_nonvacuous :
  (id_time 1790337600000000000 3600000000000 60000000000 (Some 1790334000000000000) = 1790334000000000000 /\
   id_time 1790337600000000000 3600000000000 60000000000 (Some 1790333999999999999) = 1790337600000000000 /\
   id_time 1790337600000000000 3600000000000 60000000000 (Some 13569465600000000000) = 1790337600000000000)%Z.
Proof. repeat split; vm_compute; reflexivity. Qed.

Example C10_time_rule_v0_refuted :
  exists now drift fdrift t,
    (0 <= drift < max64 /\ 0 <= fdrift <= max64 /\ in_drift now drift fdrift t = false /\
     id_time_v0 now drift fdrift (Some t) = t /\
     mid_of (id_time_v0 now drift fdrift (Some t)) <> ms_of now /\
     mid_of (id_time_v0 now drift fdrift (Some t)) <> ms_of t)%Z.
Proof. exact time_rule_v0_refuted. Qed.

Example C10_framing_v0_refuted :
  exists B body, 2 <= B /\
    spec_outcome (fun _ => Object) false B body = Accepted [v0_doc] /\
    run_body false B (fun _ => Some Object) body = Accepted [v0_doc] /\
    run_body_v0 false B (fun _ => Some Object) body = Rejected.
Proof. exact framing_v0_refuted. Qed.

Example C10_estime_v0_refuted :
  parse_es_v0 v0_es = Some 1790337630999999999%Z /\ parse_es v0_es = Some 1790337630099999999%Z.
Proof. exact estime_v0_refuted. Qed.

Example C10_mid_nonvacuous : mid_of 1790337600123456789 = 1790337600123%Z.
Proof. vm_compute. reflexivity. Qed.

Example C10_payload_nonvacuous :
  encode_docs [[123; 125]%N; [123; 34; 97; 34; 58; 49; 125]%N]
    = [2; 0; 0; 0; 123; 125; 7; 0; 0; 0; 123; 34; 97; 34; 58; 49; 125]%N /\
  decode_docs 3 [2; 0; 0; 0; 123; 125; 7; 0; 0; 0; 123; 34; 97; 34; 58; 49; 125]%N
    = Ok [[123; 125]%N; [123; 34; 97; 34; 58; 49; 125]%N].
Proof. split; vm_compute; reflexivity. Qed.

(* parseESTime as modelled: nine and more fraction digits, day overflow normalised by time.Date *)
Example C10_estime_nonvacuous :
  (* "2026-09-25 12:00:30.123456789" and "2026-02-30 00:00:00" (= 2026-03-02) *)
  parse_es [50;48;50;54;45;48;57;45;50;53;32;49;50;58;48;48;58;51;48;46;49;50;51;52;53;54;55;56;57]%N
    = Some 1790337630123456789%Z /\
  parse_es [50;48;50;54;45;48;50;45;51;48;32;48;48;58;48;48;58;48;48]%N = Some 1772409600000000000%Z /\
  parse_es [50;48;50;54;45;49;51;45;48;49;32;48;48;58;48;48;58;48;48]%N = None.
Proof. repeat split; vm_compute; reflexivity. Qed.

(* ------------------------------------------------------------------ generated definitions (Gen.v)
   Gen.v is regenerated from the Go sources on every run by harness/cmd/go2coq (spec: props/C10/gen.json,
   trusted extern: GenPrelude.v). The theorems below tie the GENERATED definitions to the hand-written model
   functions the theorems above are about: a change of one of these Go functions changes Gen.v and the
   corresponding theorem stops compiling. *)
From Coq Require Import ZArith.
From C10 Require Import GenPrelude Gen ProofsGen.

(* documentDelayed as generated = delayed (C10_time_rule, C10_time_rule_boundaries are about it), on all integers *)
Theorem C10_gen_documentDelayed_refines : forall delay drift fdrift,
  go_bulk_documentDelayed delay drift fdrift = delayed delay drift fdrift.
Proof. exact gen_documentDelayed_refines. Qed.
Print Assumptions C10_gen_documentDelayed_refines.

(* seq.TimeToMID as generated = mid_of (C10_mid_ms is about it), for every instant *)
Theorem C10_gen_TimeToMID_refines : forall t, go_seq_TimeToMID t = mid_of t.
Proof. exact gen_TimeToMID_refines. Qed.
Print Assumptions C10_gen_TimeToMID_refines.

(* C10_time_rule directly over the GENERATED documentDelayed: the instant put into the ID is the document's
   own time iff -futureDrift <= now - t <= drift *)
Theorem C10_time_rule_gen : forall now drift fdrift t, (0 <= drift < max64)%Z -> (0 <= fdrift <= max64)%Z ->
  (if go_bulk_documentDelayed (sat64 (now - t)) drift fdrift then now else t) = spec_time now drift fdrift (Some t).
Proof. exact time_rule_gen. Qed.
Print Assumptions C10_time_rule_gen.

(* C10_mid_ms directly over the GENERATED TimeToMID *)
Theorem C10_mid_ms_gen : forall t, (0 <= t <= max64)%Z -> go_seq_TimeToMID t = ms_of t.
Proof. exact mid_ms_gen. Qed.
Print Assumptions C10_mid_ms_gen.

Theorem C10_gen_DurationToMID_spec : forall d, (0 <= d < 9223372036854775808)%Z -> go_seq_DurationToMID d = (d / 1000000)%Z.
Proof. exact gen_DurationToMID_spec. Qed.
Print Assumptions C10_gen_DurationToMID_spec.

Theorem C10_gen_MIDToDuration_spec : forall m, (0 <= m)%Z -> (m * 1000000 < 9223372036854775808)%Z ->
  go_seq_MIDToDuration m = (m * 1000000)%Z.
Proof. exact gen_MIDToDuration_spec. Qed.
Print Assumptions C10_gen_MIDToDuration_spec.

(* non-vacuity *)
Example C10_gen_witness :
  go_bulk_documentDelayed 5 4 0 = true /\ go_bulk_documentDelayed 4 4 0 = false /\
  go_bulk_documentDelayed (-9223372036854775808) 4 9223372036854775807 = true /\
  go_bulk_documentDelayed (-7) 4 7 = false /\
  go_seq_TimeToMID 1700000000123456789 = 1700000000123%Z /\
  go_seq_TimeToMID (-1) = 0%Z /\ go_seq_TimeToMID (-1000000) = 18446744073709551615%Z.
Proof. vm_compute. repeat split; reflexivity. Qed.

(* ------------------------------------------------------------------ ownership on every exit path; hand-over to the embedded store
   (ModelOwn.v: transcription of Ingestor.ProcessDocuments / processDocsToCompressor with their defers) *)
From C10 Require Import ModelOwn ProofsOwn ProofsOwnFetch.
Close Scope Z_scope.
Open Scope nat_scope.

(* On EVERY path through ProcessDocuments (too many bulks in flight; ctx done while waiting for the rate-limit ticket;
   body read error / unparsable document after any number of documents; no surviving document; StoreDocuments error;
   success) and for every pooled object o (compressor, the two uncompressed payload buffers, processor, ticket): the
   actions of the call on o are exactly  -nothing-  (o not taken on this path: final state 0) or
   Get (Write|Read)* Put  (final state 2): exactly one Put, after the last read or write of memory that belongs to o —
   in particular after StoreDocuments, which reads the slices aliasing the compressor, has returned. *)
Theorem C10_one_put_per_path : forall q o,
  brun o 0 (code_pd q) = Some (if takes o q then 2 else 0).
Proof. exact one_put_per_path. Qed.
Print Assumptions C10_one_put_per_path.

Theorem C10_one_put_counts : forall q o,
  count_get o (code_pd q) = (if takes o q then 1 else 0) /\
  count_put o (code_pd q) = (if takes o q then 1 else 0).
Proof. exact one_put_counts. Qed.
Print Assumptions C10_one_put_counts.

(* C10_pool_exclusive re-stated WITHOUT the hypothesis "exactly one Put per path": the requests execute the transcribed
   code itself. For every pool o, every sequence of arrivals (each with its own exit path), every interleaving of their
   single actions and every choice sync.Pool makes: no object is owned by two requests or lies in the pool while owned,
   and a request whose next action reads or writes memory of an object of that pool owns one. *)
Theorem C10_pool_exclusive_paths : forall o evs,
  let st := trun o code_pd evs in
  NoDup (owned (t_reqs st) ++ t_pool st) /\
  Forall (fun x => now_uses o x = true -> r_st x = 1 /\ exists v, r_var x = Some v /\ In v (owned (t_reqs st)))
         (t_reqs st).
Proof. exact pool_exclusive_paths. Qed.
Print Assumptions C10_pool_exclusive_paths.

Theorem C10_owners_distinct : forall o evs a x1 b x2 c v1 v2,
  t_reqs (trun o code_pd evs) = a ++ x1 :: b ++ x2 :: c ->
  r_st x1 = 1 -> r_var x1 = Some v1 -> r_st x2 = 1 -> r_var x2 = Some v2 -> v1 <> v2.
Proof. exact owners_distinct. Qed.
Print Assumptions C10_owners_distinct.

(* Single-binary mode (the store is embedded, StoreDocuments ends in inMemoryAPIClient.Bulk -> Active.Append): the docs
   block is copied into the docs file before the call returns; the metas block the store keeps queued for its index
   worker is a COPY (slices.Clone). For every interleaving of requests (Get / CompressDocsAndMetas / StoreDocuments / Put,
   any pool choice) and index-worker steps: what the worker reads from a queued block is what the block contained when
   StoreDocuments returned — no later compression of any request can change bytes the store still reads. *)
Theorem C10_single_mode_payload_private : forall evs,
  Forall (fun e => snd (fst e) = snd e) (s_index (srun true evs)).
Proof. exact single_mode_private. Qed.
Print Assumptions C10_single_mode_payload_private.

(* the seeded double Put (explicit Put on the error return + the deferred one): after one request that failed while its
   body was read, two requests in flight own the same compressor; the life automaton rejects the path *)
Example C10_double_put_refuted :
  owned (t_reqs (trun OComp pd_m9 (TStart q_fail :: repeat (TStep 0 0) (length (pd_m9 q_fail)) ++
                                   [TStart q_good; TStart q_good; TStep 1 0; TStep 2 0]))) = [0; 0] /\
  brun OComp 0 (pd_m9 q_fail) = None.
Proof. exact double_put_refuted. Qed.

(* the same events on the code as it is: two different compressors *)
Example C10_paths_nonvacuous :
  owned (t_reqs (trun OComp code_pd (TStart q_fail :: repeat (TStep 0 0) (length (code_pd q_fail)) ++
                                     [TStart q_good; TStart q_good; TStep 1 0; TStep 2 0]))) = [0; 1] /\
  code_pd q_fail = [AGet OComp; AGet OTicket; AGet OProc; AGet OBinDocs; AWrite OBinDocs; AGet OBinMetas; AWrite OBinMetas;
                    APut OBinMetas; APut OBinDocs; APut OProc; APut OTicket; APut OComp] /\
  code_pd q_good = [AGet OComp; AGet OTicket; AGet OProc; AGet OBinDocs; AWrite OBinDocs; AGet OBinMetas; AWrite OBinMetas;
                    AWrite OProc; AWrite OBinDocs; AWrite OBinMetas; ARead OBinDocs; ARead OBinMetas; AWrite OComp;
                    APut OBinMetas; APut OBinDocs; APut OProc; APut OTicket; ARead OComp; APut OComp] /\
  (* hypotheses of C10_owners_distinct *)
  (exists a x1 b x2 c,
     t_reqs (trun OComp code_pd (TStart q_fail :: repeat (TStep 0 0) (length (code_pd q_fail)) ++
                                 [TStart q_good; TStart q_good; TStep 1 0; TStep 2 0])) = a ++ x1 :: b ++ x2 :: c /\
     r_st x1 = 1 /\ r_var x1 = Some 0 /\ r_st x2 = 1 /\ r_var x2 = Some 1).
Proof.
  repeat split; try (vm_compute; reflexivity).
  eexists [_], _, [], _, []. vm_compute. repeat split; reflexivity.
Qed.

(* the shallow request copy (seeded): bulk 0 is registered with bulk 1's IDs: its own ID is not found, bulk 1's ID
   fetches bulk 0's document; with the clone both fetch their own *)
Example C10_shallow_copy_refuted :
  s_index (srun false (single_events [b0; b1] [true; true])) = [(0, [[2%N]], [[1%N]]); (1, [[2%N]], [[2%N]])] /\
  single_fetch false [b0; b1] [true; true] = [[None]; [Some [100%N]]] /\
  single_fetch true [b0; b1] [true; true] = [[Some [100%N]]; [Some [200%N]]].
Proof. exact shallow_refuted. Qed.

(* The schedules the single-mode correspondence class executes on the real code — complete bulks (true) and steps of the
   only index worker (false) in any order, any number of bulks, the compressor just put back handed to the next bulk,
   finally the store waited idle — with pairwise different IDs: every ID of every bulk is registered and fetches that
   bulk's own document (this is exactly the executable statement case_spec_ok evaluates on the implementation). *)
Theorem C10_single_mode_fetch_own : forall bs sched,
  ntrue sched = length bs -> NoDup (flat_map (fun b => map fst b) bs) ->
  single_fetch true bs sched = map (fun b => map (fun p => Some (snd p)) b) bs.
Proof. exact single_fetch_own. Qed.
Print Assumptions C10_single_mode_fetch_own.

Example C10_single_mode_nonvacuous :
  ntrue [true; true] = length [b0; b1] /\ NoDup (flat_map (fun b => map fst b) [b0; b1]) /\
  single_fetch true [b0; b1] [true; false; true] = [[Some [100%N]]; [Some [200%N]]].
Proof.
  repeat split; try (vm_compute; reflexivity).
  vm_compute. constructor; [intros [E|[]]; discriminate|constructor; [intros []|constructor]].
Qed.
