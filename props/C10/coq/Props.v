From C10 Require Import Model Spec Proofs.
Theorem C10_placeholder : True. Proof. exact placeholder. Qed.
Print Assumptions C10_placeholder.
