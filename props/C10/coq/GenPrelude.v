(* C10 — HAND-WRITTEN, TRUSTED prelude of the generated definitions (Gen.v): the externs of
   props/C10/gen.json. NO proofs.

   instant: a time.Time is represented by its (unbounded) count of nanoseconds since the Unix epoch,
   as in Model.v (id_time, mid_of). *)
From Coq Require Import ZArith.
Open Scope Z_scope.

Definition instant : Type := Z.
(* t.UnixNano(): int64(sec)*1e9 + int64(nsec) in int64 arithmetic, i.e. the count wrapped to int64 *)
Definition time_UnixNano (t : instant) : Z :=
  (t + 9223372036854775808) mod 18446744073709551616 - 9223372036854775808.
