(* C10 — every exit path of ProcessDocuments gives each pooled object back exactly once, after its last
   use; consequence: pooled objects are owned exclusively, for every interleaving; the metas block the
   embedded store keeps after Bulk returned is private to the store. *)
From Coq Require Import List NArith Arith Bool Lia Permutation.
Import ListNotations.
From C10 Require Import ModelOwn.

(* ------------------------------------------------------------------ 1. exit paths *)

Lemma brun_app : forall o a b s,
  brun o s (a ++ b) = match brun o s a with Some s' => brun o s' b | None => None end.
Proof.
  induction a as [|x a IH]; intros b s; simpl; [reflexivity|].
  destruct (bstep o s x); [apply IH|reflexivity].
Qed.

Lemma loop_keeps : forall o its s,
  (s = 1 \/ o = OComp \/ o = OTicket) -> brun o s (flat_map iter its) = Some s.
Proof.
  induction its as [|b its IH]; intros s H; [reflexivity|].
  cbn [flat_map]. rewrite brun_app.
  assert (E : brun o s (iter b) = Some s).
  { destruct H as [->|[->| ->]]; destruct b; try destruct o; try reflexivity; destruct s as [|[|[|]]]; reflexivity. }
  rewrite E. apply IH, H.
Qed.

Theorem one_put_per_path : forall q o,
  brun o 0 (code_pd q) = Some (if takes o q then 2 else 0).
Proof.
  intros [lim ctx its fn ok] o. unfold code_pd, pd, pdc, takes, run_defers; cbn [q_limit q_ctx q_its q_fin].
  destruct lim; [destruct o; reflexivity|].
  destruct ctx; [destruct o; reflexivity|].
  destruct fn; cbn [rev app negb];
    try destruct (Nat.eqb (total_of its) 0);
    destruct o; rewrite <- ?app_assoc; cbn [brun bstep obj_eqb app];
    repeat (rewrite brun_app; rewrite loop_keeps by (auto; fail); cbn [brun bstep obj_eqb app]);
    reflexivity.
Qed.

(* what the life automaton accepts has at most one Put, and exactly one iff the object was taken *)
Definition nput (s : nat) : nat := if Nat.eqb s 2 then 1 else 0.
Definition nget (s : nat) : nat := if Nat.eqb s 0 then 0 else 1.

Lemma bstep_counts : forall o s a s1, s <= 2 -> bstep o s a = Some s1 ->
  s1 <= 2 /\ (if is_put o a then 1 else 0) + nput s = nput s1 /\ (if is_get o a then 1 else 0) + nget s = nget s1.
Proof.
  intros o s a s1 L B.
  destruct a as [o'|o'|o'|o']; simpl in *; destruct (obj_eqb o o');
    destruct s as [|[|[|s]]]; try lia; try discriminate; inversion B; subst; cbv; repeat split; lia.
Qed.

Lemma brun_counts : forall o tr s s', s <= 2 -> brun o s tr = Some s' ->
  s' <= 2 /\ count_put o tr + nput s = nput s' /\ count_get o tr + nget s = nget s'.
Proof.
  intros o. induction tr as [|a tr IH]; intros s s' L H.
  - simpl in H. inversion H; subst. repeat split; auto.
  - simpl in H. destruct (bstep o s a) as [s1|] eqn:B; [|discriminate].
    destruct (bstep_counts _ _ _ _ L B) as (L1 & P1 & G1).
    destruct (IH _ _ L1 H) as (L2 & P2 & G2).
    unfold count_put, count_get in *. cbn [filter].
    destruct (is_put o a); destruct (is_get o a); cbn [length]; repeat split; lia.
Qed.

Theorem one_put_counts : forall q o,
  count_get o (code_pd q) = (if takes o q then 1 else 0) /\
  count_put o (code_pd q) = (if takes o q then 1 else 0).
Proof.
  intros q o. destruct (brun_counts o _ 0 _ (Nat.le_0_l 2) (one_put_per_path q o)) as (_ & P & G).
  destruct (takes o q); unfold nput, nget in P, G; simpl in P, G; lia.
Qed.

(* ------------------------------------------------------------------ 2. several requests, one pool *)

Lemma nth_split_eq {A} : forall (l : list A) r x, nth_error l r = Some x ->
  l = firstn r l ++ x :: skipn (S r) l.
Proof.
  induction l as [|y l IH]; intros r x H; destruct r; simpl in *; try discriminate.
  - inversion H; reflexivity.
  - f_equal. apply IH, H.
Qed.

Definition own1 (x : rq) : list nat := match r_st x, r_var x with 1, Some v => [v] | _, _ => [] end.

Lemma owned_app : forall a b, owned (a ++ b) = owned a ++ owned b.
Proof. intros; unfold owned; apply flat_map_app. Qed.

Lemma owned_cons : forall x l, owned (x :: l) = own1 x ++ owned l.
Proof. reflexivity. Qed.

Lemma drop_nth_perm {A} : forall (l : list A) i v, nth_error l i = Some v ->
  Permutation l (v :: drop_nth i l).
Proof.
  induction l as [|x r IH]; intros i v H; destruct i; simpl in *; try discriminate.
  - inversion H; subst. apply Permutation_refl.
  - apply perm_trans with (x :: v :: drop_nth i r); [apply perm_skip, IH, H|apply perm_swap].
Qed.

Section MachineProofs.
  Variable o : obj.
  Variable code : req -> list act.
  Hypothesis code_ok : forall q, exists s', brun o 0 (code q) = Some s'.

  Definition req_ok (x : rq) : Prop :=
    (exists s', brun o (r_st x) (r_todo x) = Some s') /\ (r_st x = 1 -> exists v, r_var x = Some v).

  Definition tinv (st : tstate) : Prop :=
    NoDup (owned (t_reqs st) ++ t_pool st) /\
    Forall (fun v => v < t_next st) (owned (t_reqs st) ++ t_pool st) /\
    Forall req_ok (t_reqs st).

  Lemma forall_set : forall (P : rq -> Prop) l r x x', nth_error l r = Some x ->
    Forall P l -> P x' -> Forall P (set_req r x' l).
  Proof.
    intros P l r x x' N F Px. unfold set_req.
    rewrite (nth_split_eq _ _ _ N) in F at 1.
    apply Forall_app in F. destruct F as [FA FB]. inversion FB as [|? ? Hx HB].
    apply Forall_app; split; [assumption|constructor; assumption].
  Qed.

  Lemma tstep_inv : forall st e, tinv st -> tinv (tstep o code st e).
  Proof.
    intros st e (ND & LT & OK). destruct e as [q|r pick]; cbn [tstep].
    - (* a request arrives *)
      unfold tinv; cbn [t_reqs t_pool t_next]. rewrite owned_app. cbn [owned flat_map r_st app]. rewrite app_nil_r.
      repeat split; try assumption.
      apply Forall_app; split; [assumption|]. constructor; [|constructor].
      split; cbn [r_st r_todo r_var]; [apply code_ok|discriminate].
    - destruct (nth_error (t_reqs st) r) as [x|] eqn:N; [|repeat split; assumption].
      destruct (r_todo x) as [|a rest] eqn:T; [repeat split; assumption|].
      pose proof (nth_split_eq _ _ _ N) as E.
      assert (OKx : req_ok x).
      { rewrite Forall_forall in OK. apply OK. eapply nth_error_In; eauto. }
      destruct OKx as ((s' & BR) & VAR). rewrite T in BR. simpl in BR.
      destruct (bstep o (r_st x) a) as [s1|] eqn:B; [|discriminate].
      assert (OWN : owned (t_reqs st) = owned (firstn r (t_reqs st)) ++ own1 x ++ owned (skipn (S r) (t_reqs st))).
      { rewrite E at 1. rewrite owned_app, owned_cons. reflexivity. }
      assert (OWN' : forall x', owned (set_req r x' (t_reqs st)) =
                                owned (firstn r (t_reqs st)) ++ own1 x' ++ owned (skipn (S r) (t_reqs st))).
      { intros x'. unfold set_req. rewrite owned_app, owned_cons. reflexivity. }
      set (A := owned (firstn r (t_reqs st))) in *. set (C := owned (skipn (S r) (t_reqs st))) in *.
      destruct (is_get o a) eqn:IG.
      + (* Get *)
        destruct a as [o'|o'|o'|o']; try discriminate. simpl in IG. simpl in B. rewrite IG in B.
        destruct (r_st x) as [|k] eqn:S0; [|discriminate]. inversion B; subst s1; clear B.
        assert (O1 : own1 x = []) by (unfold own1; rewrite S0; reflexivity).
        rewrite O1 in OWN. cbn [app] in OWN.
        destruct (nth_error (t_pool st) pick) as [v|] eqn:PK; unfold tinv; cbn [t_reqs t_pool t_next];
          rewrite OWN'; unfold own1 at 1; cbn [r_st r_var app].
        * assert (P : Permutation (owned (t_reqs st) ++ t_pool st) ((A ++ v :: C) ++ drop_nth pick (t_pool st))).
          { rewrite OWN. apply perm_trans with ((A ++ C) ++ v :: drop_nth pick (t_pool st)).
            - apply Permutation_app_head, drop_nth_perm, PK.
            - apply perm_trans with (v :: (A ++ C) ++ drop_nth pick (t_pool st)).
              + apply Permutation_sym, Permutation_middle.
              + rewrite <- !app_assoc. apply perm_trans with (v :: A ++ C ++ drop_nth pick (t_pool st)).
                * apply Permutation_refl.
                * cbn [app]. apply Permutation_middle. }
          repeat split.
          -- eapply Permutation_NoDup; eauto.
          -- eapply Permutation_Forall; eauto.
          -- eapply forall_set; eauto. split; cbn [r_st r_todo r_var]; eauto.
        * assert (P : Permutation (t_next st :: owned (t_reqs st) ++ t_pool st) ((A ++ t_next st :: C) ++ t_pool st)).
          { rewrite OWN. rewrite <- !app_assoc. cbn [app]. apply Permutation_middle. }
          repeat split.
          -- eapply Permutation_NoDup; [exact P|]. constructor; [|exact ND].
             intro I. rewrite Forall_forall in LT. specialize (LT _ I). lia.
          -- eapply Permutation_Forall; [exact P|]. constructor; [lia|].
             eapply Forall_impl; [|exact LT]. simpl; intros; lia.
          -- eapply forall_set; eauto. split; cbn [r_st r_todo r_var]; eauto.
      + destruct (is_put o a) eqn:IP.
        * (* Put *)
          destruct a as [o'|o'|o'|o']; try discriminate. simpl in IP. simpl in B. rewrite IP in B.
          destruct (r_st x) as [|[|k]] eqn:S0; try discriminate. inversion B; subst s1; clear B.
          destruct (VAR eq_refl) as (v & Hv). rewrite Hv.
          assert (O1 : own1 x = [v]) by (unfold own1; rewrite S0, Hv; reflexivity).
          rewrite O1 in OWN.
          unfold tinv; cbn [t_reqs t_pool t_next]. rewrite OWN'. unfold own1 at 1; cbn [r_st r_var app].
          assert (P : Permutation (owned (t_reqs st) ++ t_pool st) ((A ++ C) ++ v :: t_pool st)).
          { rewrite OWN. rewrite <- !app_assoc. cbn [app].
            apply perm_trans with (v :: A ++ C ++ t_pool st); [apply Permutation_sym, Permutation_middle|].
            apply perm_trans with (A ++ v :: C ++ t_pool st); [apply Permutation_middle|].
            apply Permutation_app_head. apply Permutation_middle. }
          repeat split.
          -- eapply Permutation_NoDup; eauto.
          -- eapply Permutation_Forall; eauto.
          -- eapply forall_set; eauto. split; cbn [r_st r_todo r_var]; [eauto|discriminate].
        * (* any other action: the life state does not change *)
          assert (S1 : s1 = r_st x).
          { destruct a as [o'|o'|o'|o']; simpl in *; try rewrite IG in B; try rewrite IP in B;
              try (inversion B; reflexivity);
              destruct (obj_eqb o o'); try (inversion B; reflexivity);
              destruct (r_st x) as [|[|k]]; try discriminate; inversion B; reflexivity. }
          subst s1.
          unfold tinv; cbn [t_reqs t_pool t_next]. rewrite OWN'.
          assert (O1 : own1 {| r_todo := rest; r_var := r_var x; r_st := r_st x |} = own1 x) by reflexivity.
          rewrite O1, <- OWN.
          repeat split; try assumption.
          eapply forall_set; eauto. split; cbn [r_st r_todo r_var]; eauto.
  Qed.

  Lemma trun_inv : forall evs st, tinv st -> tinv (fold_left (tstep o code) evs st).
  Proof. induction evs as [|e r IH]; intros st H; simpl; [exact H|apply IH, tstep_inv, H]. Qed.

  Lemma tinit_inv : tinv tinit.
  Proof. repeat split; simpl; constructor. Qed.

  (* a request whose next action reads or writes memory of a pooled object owns that object *)
  Lemma uses_owned : forall x, req_ok x -> now_uses o x = true -> r_st x = 1 /\ exists v, r_var x = Some v.
  Proof.
    intros x ((s' & BR) & VAR) U. unfold now_uses in U. destruct (r_todo x) as [|a rest]; [discriminate|].
    simpl in BR. destruct (bstep o (r_st x) a) as [s1|] eqn:B; [|discriminate].
    assert (S1 : r_st x = 1).
    { destruct a as [o'|o'|o'|o']; simpl in U; try discriminate; simpl in B; rewrite U in B;
        destruct (r_st x) as [|[|k]]; try discriminate; reflexivity. }
    split; [exact S1|apply VAR, S1].
  Qed.
End MachineProofs.

Lemma code_pd_ok : forall o q, exists s', brun o 0 (code_pd q) = Some s'.
Proof. intros o q. eexists. apply one_put_per_path. Qed.

Theorem pool_exclusive_paths : forall o evs,
  let st := trun o code_pd evs in
  NoDup (owned (t_reqs st) ++ t_pool st) /\
  Forall (fun x => now_uses o x = true -> r_st x = 1 /\ exists v, r_var x = Some v /\ In v (owned (t_reqs st)))
         (t_reqs st).
Proof.
  intros o evs st.
  destruct (trun_inv o code_pd (code_pd_ok o) evs tinit (tinit_inv o)) as (ND & _ & OK). fold (trun o code_pd evs) in *.
  fold st in ND, OK. split; [exact ND|].
  rewrite Forall_forall in *. intros x I U.
  destruct (uses_owned o x (OK x I) U) as (S1 & v & Hv).
  split; [exact S1|]. exists v. split; [exact Hv|].
  unfold owned. apply in_flat_map. exists x. split; [exact I|]. rewrite S1, Hv. left; reflexivity.
Qed.

Lemma nodup_app_l' {A} : forall a b : list A, NoDup (a ++ b) -> NoDup a.
Proof.
  induction a as [|x a IH]; intros b H; [constructor|]. simpl in H. inversion H as [|? ? NI ND]; subst.
  constructor; [intro I; apply NI, in_or_app; left; exact I|eapply IH; exact ND].
Qed.
Lemma nodup_app_r' {A} : forall a b : list A, NoDup (a ++ b) -> NoDup b.
Proof.
  induction a as [|x a IH]; intros b H; [exact H|]. simpl in H. inversion H; subst. apply IH; assumption.
Qed.

(* two requests that own an object at the same time own different ones *)
Theorem owners_distinct : forall o evs a x1 b x2 c v1 v2,
  t_reqs (trun o code_pd evs) = a ++ x1 :: b ++ x2 :: c ->
  r_st x1 = 1 -> r_var x1 = Some v1 -> r_st x2 = 1 -> r_var x2 = Some v2 -> v1 <> v2.
Proof.
  intros o evs a x1 b x2 c v1 v2 E S1 V1 S2 V2 EQ. subst v2.
  destruct (pool_exclusive_paths o evs) as (ND & _). cbv zeta in ND. rewrite E in ND.
  apply nodup_app_l' in ND. rewrite owned_app in ND. apply nodup_app_r' in ND.
  rewrite owned_cons, owned_app, owned_cons in ND.
  assert (O1 : own1 x1 = [v1]) by (unfold own1; rewrite S1, V1; reflexivity).
  assert (O2 : own1 x2 = [v1]) by (unfold own1; rewrite S2, V2; reflexivity).
  rewrite O1, O2 in ND. simpl in ND. inversion ND as [|? ? NI _]; subst. apply NI.
  apply in_or_app; right; left; reflexivity.
Qed.

(* the seeded variant: a request that fails while reading its body puts its compressor back twice;
   two later requests in flight own the same compressor *)
Definition q_fail : req := {| q_limit := false; q_ctx := false; q_its := []; q_fin := FReadErr; q_store_ok := true |}.
Definition q_good : req := {| q_limit := false; q_ctx := false; q_its := [true]; q_fin := FEnd; q_store_ok := true |}.
Lemma double_put_refuted :
  owned (t_reqs (trun OComp pd_m9 (TStart q_fail :: repeat (TStep 0 0) (length (pd_m9 q_fail)) ++
                                   [TStart q_good; TStart q_good; TStep 1 0; TStep 2 0]))) = [0; 0] /\
  brun OComp 0 (pd_m9 q_fail) = None.
Proof. split; vm_compute; reflexivity. Qed.

(* ------------------------------------------------------------------ 3. hand-over to the embedded store *)

Definition comps (st : sstate) : list (nat * nat) := map snd (s_held st) ++ s_pool st.
Definition cbufs (l : list (nat * nat)) : list nat := flat_map (fun c => [fst c; snd c]) l.

Definition sinv (st : sstate) : Prop :=
  Forall (fun c => fst c < s_next st /\ snd c < s_next st) (comps st) /\
  Forall (fun e => snd (fst e) < s_next st /\ hget (s_heap st) (snd (fst e)) = snd e /\
                   ~ In (snd (fst e)) (cbufs (comps st))) (s_queue st) /\
  Forall (fun e => snd (fst e) = snd e) (s_index st).

Lemma find_held_in {A} : forall r (h : list (nat * A)) c, find_held r h = Some c -> In c (map snd h).
Proof.
  induction h as [|[r' x] t IH]; intros c H; simpl in H; [discriminate|].
  destruct (Nat.eqb r r'); [inversion H; left; reflexivity|right; apply IH, H].
Qed.

Lemma take_held_in {A} : forall r (h : list (nat * A)) c h', take_held r h = Some (c, h') ->
  In c (map snd h) /\ incl (map snd h') (map snd h).
Proof.
  induction h as [|[r' x] t IH]; intros c h' H; simpl in H; [discriminate|].
  destruct (Nat.eqb r r').
  - inversion H; subst. split; [left; reflexivity|apply incl_tl, incl_refl].
  - destruct (take_held r t) as [[y t']|] eqn:E; [|discriminate]. inversion H; subst.
    destruct (IH _ _ eq_refl) as (I & IN). split; [right; exact I|].
    simpl. intros z [->|Hz]; [left; reflexivity|right; apply IN, Hz].
Qed.

Lemma drop_nth_incl {A} : forall (l : list A) i, incl (drop_nth i l) l.
Proof.
  induction l as [|x r IH]; intros i; destruct i; simpl; try apply incl_refl.
  - apply incl_tl, incl_refl.
  - intros z [->|Hz]; [left; reflexivity|right; apply (IH i), Hz].
Qed.

Lemma cbufs_incl : forall a b, incl a b -> incl (cbufs a) (cbufs b).
Proof.
  intros a b H z I. unfold cbufs in *. apply in_flat_map in I. destruct I as (c & Ic & Iz).
  apply in_flat_map. exists c. split; [apply H, Ic|exact Iz].
Qed.

Lemma cbufs_in : forall l c, In c l -> In (fst c) (cbufs l) /\ In (snd c) (cbufs l).
Proof.
  intros l c I. unfold cbufs. split; apply in_flat_map; exists c; (split; [exact I|simpl; auto]).
Qed.

Lemma forall_incl {A} (P : A -> Prop) : forall a b, incl a b -> Forall P b -> Forall P a.
Proof. intros a b H F. rewrite Forall_forall in *. intros x I. apply F, H, I. Qed.

(* the compressors of the new state are among those of the old one: ownership moved, memory did not *)
Lemma sinv_moved : forall st st',
  incl (comps st') (comps st) -> s_next st' = s_next st -> s_heap st' = s_heap st ->
  s_queue st' = s_queue st -> s_index st' = s_index st -> sinv st -> sinv st'.
Proof.
  intros st st' IN EN EH EQ EI (A & B & C). unfold sinv. rewrite EN, EH, EQ, EI.
  repeat split; [eapply forall_incl; eauto| |exact C].
  eapply Forall_impl; [|exact B]. intros e (L & H & NI). repeat split; auto.
  intro I. apply NI. eapply cbufs_incl; eauto.
Qed.

Lemma sstep_inv : forall st e, sinv st -> sinv (sstep true st e).
Proof.
  intros st e INV. destruct e as [r pick|r d m|r|r|]; cbn [sstep].
  - (* Get *)
    destruct (nth_error (s_pool st) pick) as [c|] eqn:PK.
    + apply (sinv_moved st); auto. unfold comps; cbn [s_held s_pool map snd app].
      intros z [->|Hz].
      * apply in_or_app; right. eapply nth_error_In; eauto.
      * apply in_app_or in Hz. apply in_or_app. destruct Hz as [Hz|Hz]; [left; exact Hz|right].
        eapply drop_nth_incl; eauto.
    + destruct INV as (A & B & C). unfold sinv, comps; cbn [s_held s_pool s_next s_heap s_queue s_index map app].
      repeat split.
      * constructor; [simpl; lia|]. eapply Forall_impl; [|exact A]. simpl; intros c (L1 & L2); lia.
      * eapply Forall_impl; [|exact B]. intros e (L & H & NI). repeat split; [lia|exact H|].
        cbn [cbufs flat_map fst snd app]. intros [E|[E|I]]; [lia|lia|apply NI, I].
      * exact C.
  - (* CompressDocsAndMetas *)
    destruct (find_held r (s_held st)) as [[db mb]|] eqn:F; [|exact INV].
    destruct INV as (A & B & C). unfold sinv, comps; cbn [s_held s_pool s_next s_heap s_queue s_index].
    assert (IC : In (db, mb) (comps st)) by (apply in_or_app; left; eapply find_held_in; eauto).
    destruct (cbufs_in _ _ IC) as (ID & IM). cbn [fst snd] in ID, IM.
    repeat split; [exact A| |exact C].
    eapply Forall_impl; [|exact B]. intros e (L & H & NI). repeat split; [exact L| |exact NI].
    cbn [hget]. destruct (Nat.eqb db (snd (fst e))) eqn:E1; [apply Nat.eqb_eq in E1; subst; contradiction|].
    destruct (Nat.eqb mb (snd (fst e))) eqn:E2; [apply Nat.eqb_eq in E2; subst; contradiction|]. exact H.
  - (* StoreDocuments returns: docs block in the file, a COPY of the metas block queued *)
    destruct (find_held r (s_held st)) as [[db mb]|] eqn:F; [|exact INV].
    destruct INV as (A & B & C). unfold sinv, comps; cbn [s_held s_pool s_next s_heap s_queue s_index].
    repeat split.
    + eapply Forall_impl; [|exact A]. simpl; intros c (L1 & L2); lia.
    + apply Forall_app; split.
      * eapply Forall_impl; [|exact B]. intros e (L & H & NI). repeat split; [lia| |exact NI].
        cbn [hget]. destruct (Nat.eqb (s_next st) (snd (fst e))) eqn:E1; [apply Nat.eqb_eq in E1; lia|exact H].
      * constructor; [|constructor]. cbn [fst snd hget]. rewrite Nat.eqb_refl. repeat split; [lia|].
        intro I. unfold cbufs in I. apply in_flat_map in I. destruct I as (c & Ic & Iz).
        rewrite Forall_forall in A. destruct (A c Ic) as (L1 & L2). simpl in Iz. destruct Iz as [E|[E|[]]]; lia.
    + exact C.
  - (* Put *)
    destruct (take_held r (s_held st)) as [[c h']|] eqn:T; [|exact INV].
    apply (sinv_moved st); auto. unfold comps; cbn [s_held s_pool].
    destruct (take_held_in _ _ _ _ T) as (Ic & IN).
    intros z Hz. apply in_app_or in Hz. apply in_or_app. destruct Hz as [Hz|[->|Hz]]; auto.
  - (* the index worker reads the oldest queued block *)
    destruct (s_queue st) as [|[[blk b] snap] q'] eqn:Q; [exact INV|].
    destruct INV as (A & B & C). rewrite Q in B. inversion B as [|? ? (L & H & NI) B']; subst.
    unfold sinv, comps; cbn [s_held s_pool s_next s_heap s_queue s_index].
    repeat split; [exact A|exact B'|].
    apply Forall_app; split; [exact C|]. constructor; [|constructor]. exact H.
Qed.

Lemma sinit_inv : sinv sinit.
Proof. repeat split; constructor. Qed.

(* Whatever the requests do and whenever the index worker runs: what the worker reads from a queued metas block is what
   the block contained when StoreDocuments returned — no later CompressDocsAndMetas of any request (same pooled
   compressor or not) can change it. *)
Theorem single_mode_private : forall evs,
  Forall (fun e => snd (fst e) = snd e) (s_index (srun true evs)).
Proof.
  intros evs. assert (G : forall evs st, sinv st -> sinv (srun_from true st evs)).
  { induction evs0 as [|e r IH]; intros st H; [exact H|]. simpl. apply IH, sstep_inv, H. }
  destruct (G evs sinit sinit_inv) as (_ & _ & C). exact C.
Qed.

(* the shallow request copy: bulk 0's queued block aliases the pooled compressor's metaBuf; bulk 1 takes the same
   compressor and compresses over it before the worker ran: bulk 0 is registered with bulk 1's IDs, so its own ID is
   not found and bulk 1's ID fetches bulk 0's document *)
Definition b0 : bulk := [([1%N], [100%N])].
Definition b1 : bulk := [([2%N], [200%N])].
Lemma shallow_refuted :
  s_index (srun false (single_events [b0; b1] [true; true])) = [(0, [[2%N]], [[1%N]]); (1, [[2%N]], [[2%N]])] /\
  single_fetch false [b0; b1] [true; true] = [[None]; [Some [100%N]]] /\
  single_fetch true [b0; b1] [true; true] = [[Some [100%N]]; [Some [200%N]]].
Proof. repeat split; vm_compute; reflexivity. Qed.
