(* C10 — every exit path of ProcessDocuments gives each pooled object back exactly once, after its last
   use; consequence: pooled objects are owned exclusively, for every interleaving; the metas block the
   embedded store keeps after Bulk returned is private to the store. *)
From Coq Require Import List NArith Arith Bool Lia Permutation.
Import ListNotations.
From C10 Require Import ModelOwn.

(* ------------------------------------------------------------------ 1. exit paths *)

Lemma brun_app : forall o a b s,
  brun o s (a ++ b) = match brun o s a with Some s' => brun o s' b | None => None end.
Proof.
  induction a as [|x a IH]; intros b s; simpl; [reflexivity|].
  destruct (bstep o s x); [apply IH|reflexivity].
Qed.

Lemma loop_keeps : forall o its s,
  (s = 1 \/ o = OComp \/ o = OTicket) -> brun o s (flat_map iter its) = Some s.
Proof.
  induction its as [|b its IH]; intros s H; [reflexivity|].
  cbn [flat_map]. rewrite brun_app.
  assert (E : brun o s (iter b) = Some s).
  { destruct H as [->|[->| ->]]; destruct b; try destruct o; try reflexivity; destruct s as [|[|[|]]]; reflexivity. }
  rewrite E. apply IH, H.
Qed.

Theorem one_put_per_path : forall q o,
  brun o 0 (code_pd q) = Some (if takes o q then 2 else 0).
Proof.
  intros [lim ctx its fn ok] o. unfold code_pd, pd, pdc, takes, run_defers; cbn [q_limit q_ctx q_its q_fin].
  destruct lim; [destruct o; reflexivity|].
  destruct ctx; [destruct o; reflexivity|].
  destruct fn; cbn [rev app negb];
    try destruct (Nat.eqb (total_of its) 0);
    destruct o; rewrite <- ?app_assoc; cbn [brun bstep obj_eqb app];
    repeat (rewrite brun_app; rewrite loop_keeps by (auto; fail); cbn [brun bstep obj_eqb app]);
    reflexivity.
Qed.

(* what the life automaton accepts has at most one Put, and exactly one iff the object was taken *)
Definition nput (s : nat) : nat := if Nat.eqb s 2 then 1 else 0.
Definition nget (s : nat) : nat := if Nat.eqb s 0 then 0 else 1.

Lemma bstep_counts : forall o s a s1, s <= 2 -> bstep o s a = Some s1 ->
  s1 <= 2 /\ (if is_put o a then 1 else 0) + nput s = nput s1 /\ (if is_get o a then 1 else 0) + nget s = nget s1.
Proof.
  intros o s a s1 L B.
  destruct a as [o'|o'|o'|o']; simpl in *; destruct (obj_eqb o o');
    destruct s as [|[|[|s]]]; try lia; try discriminate; inversion B; subst; cbv; repeat split; lia.
Qed.

Lemma brun_counts : forall o tr s s', s <= 2 -> brun o s tr = Some s' ->
  s' <= 2 /\ count_put o tr + nput s = nput s' /\ count_get o tr + nget s = nget s'.
Proof.
  intros o. induction tr as [|a tr IH]; intros s s' L H.
  - simpl in H. inversion H; subst. repeat split; auto.
  - simpl in H. destruct (bstep o s a) as [s1|] eqn:B; [|discriminate].
    destruct (bstep_counts _ _ _ _ L B) as (L1 & P1 & G1).
    destruct (IH _ _ L1 H) as (L2 & P2 & G2).
    unfold count_put, count_get in *. cbn [filter].
    destruct (is_put o a); destruct (is_get o a); cbn [length]; repeat split; lia.
Qed.

Theorem one_put_counts : forall q o,
  count_get o (code_pd q) = (if takes o q then 1 else 0) /\
  count_put o (code_pd q) = (if takes o q then 1 else 0).
Proof.
  intros q o. destruct (brun_counts o _ 0 _ (Nat.le_0_l 2) (one_put_per_path q o)) as (_ & P & G).
  destruct (takes o q); unfold nput, nget in P, G; simpl in P, G; lia.
Qed.
