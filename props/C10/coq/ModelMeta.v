(* C10 — executable model of the metas payload.  No proofs in this file.
   Mirrors frac/meta_data_collector.go (MetaData.MarshalBinaryTo / UnmarshalBinary /
   unmarshalVersion1, MetaToken.MarshalBinaryTo / UnmarshalBinary) and
   proxy/bulk/ingestor.go marshalAppendMeta (4-byte length, then the marshalled meta: the same
   framing as the docs payload, so encode_docs / decode_docs of Model.v are reused). *)
From C10 Require Import Model.

Record meta := { m_mid : N; m_rid : N; m_size : N; m_tokens : list (list N * list N) }.

Definition magic : N := 16252%N.        (* 0x3F7C *)

Definition marshal_token (t : list N * list N) : list N :=
  le_bytes 4 (N.of_nat (length (fst t))) ++ fst t ++ le_bytes 4 (N.of_nat (length (snd t))) ++ snd t.

Definition marshal_meta (m : meta) : list N :=
  le_bytes 2 magic ++ le_bytes 2 1 ++ le_bytes 8 (m_mid m) ++ le_bytes 8 (m_rid m) ++
  le_bytes 4 (m_size m) ++ le_bytes 4 (N.of_nat (length (m_tokens m))) ++
  flat_map marshal_token (m_tokens m).

(* marshalAppendMeta for every meta of the request, in order *)
Definition encode_metas (ms : list meta) : list N := encode_docs (map marshal_meta ms).

(* UPanic = the Go code would index past the end of the slice (binary.LittleEndian.UintNN on a
   short slice); UErr = it returns an error *)
Inductive ures (A : Type) := UOk (a : A) | UErr | UPanic | UFuel.
Arguments UOk {A} a. Arguments UErr {A}. Arguments UPanic {A}. Arguments UFuel {A}.

(* binary.LittleEndian.UintNN(b); b = b[n:] *)
Definition rd (n : nat) (b : list N) : option (N * list N) :=
  if Nat.ltb (length b) n then None else Some (le_value (firstn n b), skipn n b).

(* the token loop `for i := 0; i < toksLen; i++`.  Lengths stay in N until they are known to fit
   (a corrupted length is up to 2^32-1).  Every iteration consumes at least 8 bytes or fails, so
   fuel = S (length b) is never exhausted (UFuel is distinct from every Go outcome). *)
Fixpoint un_tokens (f : nat) (n : N) (b : list N) : ures (list (list N * list N)) :=
  if N.eqb n 0 then UOk [] else
  match f with
  | 0 => UFuel
  | S f' =>
      match rd 4 b with
      | None => UPanic
      | Some (kl, b1) =>
          if N.ltb (N.of_nat (length b1)) kl then UErr             (* malformed key *)
          else
            let key := firstn (N.to_nat kl) b1 in
            match rd 4 (skipn (N.to_nat kl) b1) with
            | None => UPanic
            | Some (vl, b3) =>
                if N.ltb (N.of_nat (length b3)) vl then UErr       (* malformed value *)
                else match un_tokens f' (n - 1)%N (skipn (N.to_nat vl) b3) with
                     | UOk r => UOk ((key, firstn (N.to_nat vl) b3) :: r)
                     | e => e
                     end
            end
      end
  end.

(* bytes after the last token are ignored, as in the code *)
Definition unmarshal_meta (b : list N) : ures meta :=
  if Nat.ltb (length b) 2 then UErr else                          (* IsItBinaryEncodedMetaData *)
  match rd 2 b with
  | None => UErr
  | Some (mg, b1) =>
      if negb (N.eqb mg magic) then UErr else
      match rd 2 b1 with
      | None => UPanic
      | Some (ver, b2) =>
          if negb (N.eqb ver 1) then UErr else
          match rd 8 b2 with
          | None => UPanic
          | Some (mid, b3) =>
              match rd 8 b3 with
              | None => UPanic
              | Some (rid, b4) =>
                  match rd 4 b4 with
                  | None => UPanic
                  | Some (size, b5) =>
                      match rd 4 b5 with
                      | None => UPanic
                      | Some (nt, b6) =>
                          match un_tokens (S (length b6)) nt b6 with
                          | UOk ts => UOk {| m_mid := mid; m_rid := rid; m_size := size; m_tokens := ts |}
                          | UErr => UErr
                          | UPanic => UPanic
                          | UFuel => UFuel
                          end
                      end
                  end
              end
          end
      end
  end.

(* the store's reading of the metas payload *)
Fixpoint unmarshal_all (bs : list (list N)) : ures (list meta) :=
  match bs with
  | [] => UOk []
  | b :: r => match unmarshal_meta b with
              | UOk m => match unmarshal_all r with UOk ms => UOk (m :: ms) | e => e end
              | UErr => UErr
              | UPanic => UPanic
              | UFuel => UFuel
              end
  end.

Definition decode_metas (f : nat) (p : list N) : ures (list meta) :=
  match decode_docs f p with
  | Ok bs => unmarshal_all bs
  | _ => UErr
  end.
