(* C10 — the metas payload round-trips. *)
From Coq Require Import Lia Zify.
From C10 Require Import Model ModelMeta ProofsTime.
Ltac Zify.zify_post_hook ::= Z.to_euclidean_division_equations.

Open Scope N_scope.
Lemma le2_roundtrip x : x < 2 ^ 16 -> le_value (le_bytes 2 x) = x.
Proof. intros H. change (2 ^ 16) with 65536 in H. cbn [le_bytes le_value]. lia. Qed.
Lemma le8_roundtrip x : x < 2 ^ 64 -> le_value (le_bytes 8 x) = x.
Proof. intros H. change (2 ^ 64) with 18446744073709551616 in H. cbn [le_bytes le_value]. lia. Qed.
Close Scope N_scope.

Lemma firstn_app_exact {A} (a b : list A) n : length a = n -> firstn n (a ++ b) = a.
Proof. intros <-. rewrite firstn_app, firstn_all, Nat.sub_diag. simpl. apply app_nil_r. Qed.
Lemma skipn_app_exact {A} (a b : list A) n : length a = n -> skipn n (a ++ b) = b.
Proof. intros <-. rewrite skipn_app, skipn_all, Nat.sub_diag. reflexivity. Qed.

Lemma rd_le n x rest : length (le_bytes n x) = n -> le_value (le_bytes n x) = x ->
  rd n (le_bytes n x ++ rest) = Some (x, rest).
Proof.
  intros L V. unfold rd. rewrite app_length, L.
  replace (Nat.ltb (n + length rest) n) with false by (symmetry; apply Nat.ltb_ge; lia).
  rewrite firstn_app_exact, skipn_app_exact by assumption. rewrite V. reflexivity.
Qed.

Definition tok_ok (t : list N * list N) : Prop :=
  (N.of_nat (length (fst t)) < 2 ^ 32)%N /\ (N.of_nat (length (snd t)) < 2 ^ 32)%N.

Lemma tokens_length : forall ts, length ts <= length (flat_map marshal_token ts).
Proof.
  induction ts as [|[k v] r IH]; [simpl; lia|]. cbn [flat_map length].
  unfold marshal_token in *. cbn [fst snd]. rewrite !app_length, !le4_length. lia.
Qed.

Lemma un_tokens_roundtrip : forall ts rest f, Forall tok_ok ts -> length ts < f ->
  un_tokens f (N.of_nat (length ts)) (flat_map marshal_token ts ++ rest) = UOk ts.
Proof.
  induction ts as [|[k v] r IH]; intros rest f HF L.
  - destruct f; reflexivity.
  - inversion HF as [|? ? [Hk Hv] Hr]; subst. simpl in Hk, Hv.
    destruct f; [lia|]. cbn [length flat_map un_tokens].
    replace (N.eqb (N.of_nat (S (length r))) 0) with false by (symmetry; apply N.eqb_neq; lia).
    replace (N.of_nat (S (length r)) - 1)%N with (N.of_nat (length r)) by lia.
    unfold marshal_token. cbn [fst snd].
    rewrite <- !app_assoc.
    rewrite rd_le by (try reflexivity; apply le4_roundtrip; assumption).
    rewrite app_length.
    replace (N.ltb (N.of_nat (length k + _)) (N.of_nat (length k))) with false by (symmetry; apply N.ltb_ge; lia).
    rewrite Nnat.Nat2N.id.
    rewrite firstn_app_exact, skipn_app_exact by reflexivity.
    rewrite rd_le by (try reflexivity; apply le4_roundtrip; assumption).
    rewrite app_length.
    replace (N.ltb (N.of_nat (length v + _)) (N.of_nat (length v))) with false by (symmetry; apply N.ltb_ge; lia).
    rewrite Nnat.Nat2N.id.
    rewrite firstn_app_exact, skipn_app_exact by reflexivity.
    rewrite IH; [reflexivity|assumption|simpl in L; lia].
Qed.

Definition meta_ok (m : meta) : Prop :=
  (m_mid m < 2 ^ 64)%N /\ (m_rid m < 2 ^ 64)%N /\ (m_size m < 2 ^ 32)%N /\
  (N.of_nat (length (m_tokens m)) < 2 ^ 32)%N /\ Forall tok_ok (m_tokens m).

(* UnmarshalBinary (MarshalBinaryTo m) = m for every meta within the field widths; trailing bytes
   are ignored *)
Theorem meta_codec : forall m rest, meta_ok m -> unmarshal_meta (marshal_meta m ++ rest) = UOk m.
Proof.
  intros [mid rid size ts] rest (Hm & Hr & Hs & Hn & Ht). cbn [m_mid m_rid m_size m_tokens] in *.
  unfold unmarshal_meta, marshal_meta. cbn [m_mid m_rid m_size m_tokens].
  rewrite <- !app_assoc.
  match goal with |- context [Nat.ltb (length ?l) 2] =>
    replace (Nat.ltb (length l) 2) with false
      by (symmetry; apply Nat.ltb_ge; rewrite app_length; change (length (le_bytes 2 magic)) with 2; lia) end.
  rewrite rd_le by reflexivity. change (negb (N.eqb magic magic)) with false. cbv iota.
  rewrite rd_le by reflexivity. change (negb (N.eqb 1 1)) with false. cbv iota.
  rewrite rd_le by (try reflexivity; apply le8_roundtrip; assumption).
  rewrite rd_le by (try reflexivity; apply le8_roundtrip; assumption).
  rewrite rd_le by (try reflexivity; apply le4_roundtrip; assumption).
  rewrite rd_le by (try reflexivity; apply le4_roundtrip; assumption).
  rewrite un_tokens_roundtrip; [reflexivity|assumption|].
  rewrite app_length. pose proof (tokens_length ts). lia.
Qed.

Lemma unmarshal_all_roundtrip : forall ms, Forall meta_ok ms ->
  unmarshal_all (map marshal_meta ms) = UOk ms.
Proof.
  induction ms as [|m r IH]; intros HF; [reflexivity|].
  inversion HF; subst. cbn [map unmarshal_all].
  rewrite <- (app_nil_r (marshal_meta m)). rewrite meta_codec by assumption.
  rewrite IH by assumption. reflexivity.
Qed.

(* the whole metas payload (marshalAppendMeta per meta) decodes to the metas *)
Theorem metas_payload_codec : forall ms f,
  Forall meta_ok ms -> Forall (fun m => (N.of_nat (length (marshal_meta m)) < 2 ^ 32)%N) ms ->
  length ms < f -> decode_metas f (encode_metas ms) = UOk ms.
Proof.
  intros ms f HM HL F. unfold decode_metas, encode_metas.
  rewrite payload_codec; [apply unmarshal_all_roundtrip; assumption| |rewrite map_length; assumption].
  apply Forall_forall. intros b I. apply in_map_iff in I. destruct I as (m & <- & I).
  eapply Forall_forall in HL; eauto.
Qed.

(* the token loop's fuel is never exhausted, whatever the bytes *)
Lemma rd_length n b x r : rd n b = Some (x, r) -> length r = length b - n /\ n <= length b.
Proof.
  unfold rd. destruct (Nat.ltb (length b) n) eqn:E; [discriminate|]. intros H; inversion H; subst.
  apply Nat.ltb_ge in E. split; [apply skipn_length|exact E].
Qed.

Lemma un_tokens_no_fuel : forall f n b, length b < f -> un_tokens f n b <> UFuel.
Proof.
  induction f; intros n b L; [lia|]. cbn [un_tokens].
  destruct (N.eqb n 0); [discriminate|].
  destruct (rd 4 b) as [[kl b1]|] eqn:R1; [|discriminate].
  destruct (N.ltb (N.of_nat (length b1)) kl); [discriminate|].
  destruct (rd 4 (skipn (N.to_nat kl) b1)) as [[vl b3]|] eqn:R2; [|discriminate].
  destruct (N.ltb (N.of_nat (length b3)) vl); [discriminate|].
  apply rd_length in R1. apply rd_length in R2. rewrite skipn_length in R2.
  destruct R1 as [R1 R1']. destruct R2 as [R2 R2'].
  specialize (IHf (n - 1)%N (skipn (N.to_nat vl) b3)).
  destruct (un_tokens f (n - 1) (skipn (N.to_nat vl) b3)); try discriminate.
  exfalso. apply IHf; [rewrite skipn_length; lia|reflexivity].
Qed.

Theorem unmarshal_total : forall b, unmarshal_meta b <> UFuel.
Proof.
  intros b. unfold unmarshal_meta.
  destruct (Nat.ltb (length b) 2); [discriminate|].
  destruct (rd 2 b) as [[mg b1]|]; [|discriminate].
  destruct (negb (N.eqb mg magic)); [discriminate|].
  destruct (rd 2 b1) as [[ver b2]|]; [|discriminate].
  destruct (negb (N.eqb ver 1)); [discriminate|].
  destruct (rd 8 b2) as [[mid b3]|]; [|discriminate].
  destruct (rd 8 b3) as [[rid b4]|]; [|discriminate].
  destruct (rd 4 b4) as [[size b5]|]; [|discriminate].
  destruct (rd 4 b5) as [[nt b6]|]; [|discriminate].
  pose proof (un_tokens_no_fuel (S (length b6)) nt b6 ltac:(lia)) as NF.
  destruct (un_tokens (S (length b6)) nt b6); try discriminate. congruence.
Qed.
