(* C10 — no state leaks between requests; pooled compressors are held exclusively. *)
From Coq Require Import Lia Permutation.
From C10 Require Import Model ModelSeq.

(* ---- sequential *)
Theorem no_state_leak : forall eager B classify p body,
  serve code_resets eager B classify p body = serve code_resets eager B classify fresh body.
Proof. reflexivity. Qed.

Theorem serve_own_body : forall eager B classify p body,
  serve code_resets eager B classify p body =
    (run_body eager B classify body,
     match run_body eager B classify body with Accepted ds => encode_docs ds | _ => [] end).
Proof. reflexivity. Qed.

Theorem serve_all_independent : forall eager B classify leave bodies p,
  serve_all code_resets eager B classify leave p bodies =
    map (serve code_resets eager B classify fresh) bodies.
Proof.
  intros eager B classify leave. induction bodies as [|b r IH]; intros p; [reflexivity|].
  cbn [serve_all map]. rewrite IH. reflexivity.
Qed.

(* ---- in flight together *)
Definition objs (st : pstate) : list nat := map snd (held st) ++ pool st.
Definition pinv (st : pstate) : Prop := NoDup (objs st) /\ Forall (fun o => o < next st) (objs st).

Lemma nth_remove_perm {A} : forall (l : list A) i o, nth_error l i = Some o ->
  Permutation l (o :: remove_nth i l).
Proof.
  induction l as [|x r IH]; intros i o H; destruct i; simpl in *; try discriminate.
  - inversion H; subst. apply Permutation_refl.
  - apply perm_trans with (x :: o :: remove_nth i r); [apply perm_skip, IH, H|apply perm_swap].
Qed.

Lemma take_req_perm : forall h r o h', take_req r h = Some (o, h') ->
  Permutation (map snd h) (o :: map snd h').
Proof.
  induction h as [|[r' o'] t IH]; intros r o h' H; simpl in H; [discriminate|].
  destruct (Nat.eqb r r').
  - inversion H; subst. apply Permutation_refl.
  - destruct (take_req r t) as [[o2 t2]|] eqn:E; [|discriminate]. inversion H; subst.
    simpl. apply perm_trans with (o' :: o :: map snd t2); [apply perm_skip, (IH _ _ _ E)|apply perm_swap].
Qed.

Lemma pstep_inv : forall st e, pinv st -> pinv (pstep puts st e).
Proof.
  intros st e [ND LT]. unfold pinv, objs in *. destruct e as [r pick|r k]; simpl.
  - destruct (nth_error (pool st) pick) as [o|] eqn:E; simpl.
    + assert (P : Permutation (map snd (held st) ++ pool st)
                              (o :: map snd (held st) ++ remove_nth pick (pool st))).
      { apply perm_trans with (map snd (held st) ++ o :: remove_nth pick (pool st)).
        - apply Permutation_app_head, nth_remove_perm, E.
        - apply Permutation_sym, Permutation_middle. }
      split; [eapply Permutation_NoDup; eauto|].
      eapply Permutation_Forall; eauto.
    + split.
      * constructor; [|exact ND]. intro I. rewrite Forall_forall in LT. specialize (LT _ I). lia.
      * constructor; [lia|]. eapply Forall_impl; [|exact LT]. simpl; intros; lia.
  - destruct (take_req r (held st)) as [[o h']|] eqn:E; [|split; assumption]. simpl.
    assert (P : Permutation (map snd (held st) ++ pool st) (map snd h' ++ o :: pool st)).
    { apply perm_trans with ((o :: map snd h') ++ pool st).
      - apply Permutation_app_tail, (take_req_perm _ _ _ _ E).
      - simpl. apply Permutation_middle. }
    split; [eapply Permutation_NoDup; eauto|eapply Permutation_Forall; eauto].
Qed.

Lemma prun_inv : forall evs st, pinv st -> pinv (fold_left (pstep puts) evs st).
Proof. induction evs as [|e r IH]; intros st H; simpl; [exact H|apply IH, pstep_inv, H]. Qed.

(* whatever the order of starts and finishes and whatever objects Get hands out: no compressor
   is held by two requests, and none that is held is in the pool *)
Theorem pool_exclusive : forall evs,
  NoDup (map snd (held (prun puts evs)) ++ pool (prun puts evs)).
Proof.
  intros evs. apply (prun_inv evs pinit). split; [constructor|constructor].
Qed.

Lemma nodup_app_l {A} : forall a b : list A, NoDup (a ++ b) -> NoDup a.
Proof.
  induction a as [|x a IH]; intros b H; [constructor|]. simpl in H. inversion H as [|? ? NI ND]; subst.
  constructor; [intro I; apply NI, in_or_app; left; exact I|eapply IH; exact ND].
Qed.
Lemma nodup_app_r {A} : forall a b : list A, NoDup (a ++ b) -> NoDup b.
Proof.
  induction a as [|x a IH]; intros b H; [exact H|]. simpl in H. inversion H; subst. apply IH; assumption.
Qed.

Corollary held_distinct : forall evs r1 o1 r2 o2 h1 h2 h3,
  held (prun puts evs) = h1 ++ (r1, o1) :: h2 ++ (r2, o2) :: h3 -> o1 <> o2.
Proof.
  intros evs r1 o1 r2 o2 h1 h2 h3 H E. subst o2.
  pose proof (pool_exclusive evs) as ND. rewrite H in ND.
  apply nodup_app_l in ND. rewrite map_app in ND. apply nodup_app_r in ND.
  simpl in ND. inversion ND as [|? ? NI _]; subst. apply NI.
  rewrite map_app. apply in_or_app; right; left; reflexivity.
Qed.

(* ---- both pooled resources that carry request data *)
Lemma gstep_inv : forall st e, pinv st -> pinv (pstep gputs st e).
Proof. exact pstep_inv. Qed.

Theorem pools_exclusive : forall evs,
  NoDup (map snd (held (fst (prun2 evs))) ++ pool (fst (prun2 evs))) /\
  NoDup (map snd (held (snd (prun2 evs))) ++ pool (snd (prun2 evs))).
Proof.
  intros evs.
  assert (G : forall evs st, pinv (fst st) /\ pinv (snd st) ->
              pinv (fst (fold_left pstep2 evs st)) /\ pinv (snd (fold_left pstep2 evs st))).
  { induction evs0 as [|e r IH]; intros st H; [exact H|]. simpl. apply IH.
    destruct H as [H1 H2]. destruct e; simpl; split; auto using pstep_inv, gstep_inv. }
  destruct (G evs (pinit, pinit)) as [[A _] [C _]].
  - split; split; constructor.
  - split; assumption.
Qed.
