"""C10 — bulk ingestion stores valid documents verbatim, timed by rule, or stores nothing
(DESIGN.md section 7, C10)."""
import vcheck

PROP = "C10"

TRUSTED = [
    "go2coq translator (harness/cmd/go2coq, semantics coq/lib/GoSem.v): props/C10/coq/Gen.v is regenerated from the Go source of proxy/bulk documentDelayed, seq.TimeToMID, seq.DurationToMID, seq.MIDToDuration on every run; supported subset: integer/boolean expressions over int, int64, uint64, uint32, uint8 and named integer types with explicit wrap-around, truncated signed division, checked division/indexing/slicing/shift counts (Panic), if/else with early return, local assignments, tuples, calls between translated functions, min/max/len, numeric struct fields, fuelled for-loops, range loops as folds; anything else is rejected (red gate). externs (props/C10/coq/GenPrelude.v, hand-written): time.Time.UnixNano -> time_UnixNano (count of nanoseconds wrapped to int64); delays.Inc / futureDelays.Inc = no effect on the result. Validated on every run by the gen-* correspondence classes (real function vs generated definition on boundary and random arguments)",
    "Coq 8.16.1 kernel (coqc), vm_compute for case evaluation; no native_compute",
    "hand-written model props/C10/coq/Model.v of bufio.Reader.ReadLine, esBulkDocReader.ReadDoc/skipActionLine/readDoc,"
    " the ProcessDocuments loop, the docs payload, extractDocTime/parseESTime/documentDelayed/TimeToMID, and ModelMeta.v of"
    " MetaData.MarshalBinaryTo/UnmarshalBinary/marshalAppendMeta"
    " (tied to /repo by the correspondence run, not verified code)",
    "hand-written model props/C10/coq/ModelOwn.v: transcription of Ingestor.ProcessDocuments / processDocsToCompressor as the sequence of"
    " Get / Put / Write / Read actions on the pooled objects (compressor, binaryDocs, binaryMetas, processor, rate-limit ticket) with the"
    " defers where the code has them, for every exit path; sync.Pool as 'any pooled object or a new one'; memory model of the hand-over to"
    " the embedded store (compressor buffers, slices.Clone of Metas in inMemoryAPIClient.Bulk, Active.Append: docs and metas written to"
    " the files before the call returns, the metas block queued, appendWorker reading it later; compression = identity). Tied to /repo by"
    " the exit-path-* classes (pools drained before/after a real ProcessDocuments call through add-only exports"
    " frac/export_verif_c10.go, proxy/bulk/export_verif_c10.go) and the single-mode class, not verified code",
    "Go harness harness/cmd/hC10 (generators, recording StorageClient, payload decoder, oracle table; own.go: pool draining in a"
    " single-P child with the collector off, gate on the schedule point verifhook append.start of the real index worker)",
    "JSON grammar: NOT modelled. Class of a line (object / other value / invalid) = encoding/json where it says valid,"
    " otherwise the decoder library (insane-json) itself; time.Parse(RFC3339/RFC3339Nano) and time.Date as standard-library oracles",
    "gzip, net/http, zstd block compression, tokenizers and meta token lists: outside the model (exercised, not specified)",
]
ASSUME = [
    "the handler's time.Now() is replaced by a generated request time through the DocumentsProcessor it is given"
    " (the real value is only checked to lie inside the wall-clock bracket of the call)",
    "buffer size B >= 2 in the framing theorem (the code has B = max(maxDocumentSize, 16))",
    "drift, futureDrift in [0, MaxInt64) in the time theorem",
    "exit-path classes: with an already cancelled context the Go runtime chooses between `case <-ctx.Done()` and the ticket at random;"
    " the case records the branch that was taken (so the same seed may yield a different mix of these two paths)",
    "single-mode class: one index worker, index queue of length 1 (conf.IndexWorkers = 1), child process with one P so that sync.Pool"
    " hands the compressor just put back to the next bulk; other replicas / the gRPC client marshal the request and are not concerned",
]
RULE = ("generated request bodies, line-wise: action/document pairs with LF/CRLF, blank lines, missing final newline, bad/over-long/"
        "dangling action lines; documents of sizes B-4..B+3 and multiples of B, JSON objects of many shapes (escapes, unicode, nested), "
        "non-objects, broken JSON, decoder-lenient JSON; time fields timestamp/time/ts in ES / RFC3339 / RFC3339Nano at delays "
        "drift, -futureDrift +- {0,1ns,1us,1ms,1s}, far past/future incl. beyond time.Duration; 4 drift configurations; plain/gzip, whole/"
        "chunked body reader; 10+ buffer sizes each in its own process; random metas through the real MarshalBinaryTo/UnmarshalBinary "
        "(plus truncated / header-corrupted / extended encodings) and the metas payload of accepted requests; 100 histories per quick run "
        "(0-2 accepted requests without surviving document, then one request held inside StoreDocuments while 1-3 others run to completion, "
        "then sequential ones; GOMAXPROCS default/1/2; gzip and plain mixed; the held request blocks inside StoreDocuments or inside its body "
        "reader after 0..k lines); 300 requests whose body reader breaks (unexpected EOF, connection error, timeout; plain and cut gzip) "
        "at start / after a document line / after an action line / inside a line / at the end; histories start with 0-2 early-ending requests "
        "(no surviving document / body reader breaks / unparsable document line / cancelled context) before the held and overlapping ones; "
        "250 single calls of the real ProcessDocuments per quick run along every exit path (limit exceeded, ctx done at the rate limiter, read "
        "error / unparsable document after 0-5 documents, no surviving document, StoreDocuments error, success) with all four pools drained "
        "before and after and the tickets counted; 40 single-mode schedules per quick run (2-5 small bulks through the real ingestor -> SeqDBClient "
        "-> in-memory client -> store, the only index worker let through one queued block at chosen points, up to two bulks compressed while an "
        "earlier one is still queued; equal- and different-length blocks), every document fetched by ID. non-trivial = body with >= 2 lines exercising at least one "
        "such feature; distinct by request")


def harness_args(tier, seed, outdir):
    return ["-seed", str(seed), "-tier", tier, "-out", outdir]


def main(argv):
    return vcheck.standard_check(PROP, argv, harness_args, TRUSTED, ASSUME, RULE, coqchk=True, gen=True)
