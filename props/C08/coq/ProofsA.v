(* C08 — lemmas about the model of sealing (Model.v), part A: operation sequences, writers,
   running operations on the directory. *)
From Coq Require Import List Bool Arith NArith Lia.
From C08 Require Import Model.
Import ListNotations.

(* ------------------------------------------------------------------ names *)
Lemma fname_eqb_refl f : fname_eqb f f = true.
Proof. destruct f; reflexivity. Qed.

Lemma fname_eqb_eq a b : fname_eqb a b = true -> a = b.
Proof. destruct a, b; simpl; intro H; try reflexivity; discriminate. Qed.

Lemma upd_same s f v : upd s f v f = v.
Proof. unfold upd. now rewrite fname_eqb_refl. Qed.

Lemma upd_other s f g v : fname_eqb g f = false -> upd s f v g = s g.
Proof. unfold upd. intros ->. reflexivity. Qed.

(* ------------------------------------------------------------------ torn prefixes *)
Lemma tprefix_refl l : tprefix l l.
Proof. induction l; constructor; auto. Qed.

Lemma tprefix_trans a b c : tprefix a b -> tprefix b c -> tprefix a c.
Proof.
  intros H; revert c. induction H; intros c Hc.
  - constructor.
  - inversion Hc; subst; constructor; auto; lia.
  - inversion Hc; subst.
    + inversion H; subst. constructor; auto.
    + constructor. auto.
Qed.

Lemma tprefix_app a b c : tprefix a b -> tprefix a (b ++ c).
Proof. induction 1; simpl; constructor; auto. Qed.

Lemma tprefix_app_r c a b : tprefix a b -> tprefix (c ++ a) (c ++ b).
Proof. induction c; simpl; auto. intros. constructor. auto. Qed.

Lemma tprefix_nil_inv l : tprefix l [] -> l = [].
Proof. inversion 1; reflexivity. Qed.

Definition is_write (o : op) : bool := match o with OWrite _ _ _ => true | _ => false end.

Lemma tprefix_cons_inv l x b :
  tprefix l (x :: b) -> is_write x = false ->
  l = [] \/ exists l', l = x :: l' /\ tprefix l' b.
Proof.
  intros H Hx. inversion H; subst.
  - now left.
  - discriminate.
  - right. eauto.
Qed.

Lemma tprefix_app_inv l a b :
  tprefix l (a ++ b) -> tprefix l a \/ exists l', l = a ++ l' /\ tprefix l' b.
Proof.
  revert l. induction a as [|x a IH]; intros l H; simpl in *.
  - right. eauto.
  - inversion H; subst.
    + left. constructor.
    + left. constructor; auto.
    + match goal with HH : tprefix _ (a ++ b) |- _ => destruct (IH _ HH) as [H1 | [l' [-> H1]]] end.
      * left. constructor. auto.
      * right. exists l'. auto.
Qed.

Lemma tprefix_forallb (P : op -> bool) a b :
  (forall f off len n, P (OWrite f off n) = P (OWrite f off len)) ->
  tprefix a b -> forallb P b = true -> forallb P a = true.
Proof.
  intros HP H. induction H; simpl; intros Hb; auto.
  - apply andb_true_iff in Hb. destruct Hb as [Hb _]. rewrite (HP f off len n), Hb. reflexivity.
  - apply andb_true_iff in Hb. destruct Hb as [Hx Hb]. rewrite Hx. simpl. auto.
Qed.

Lemma torn_ops_tprefix l j n : tprefix (torn_ops l j n) l.
Proof.
  revert j. induction l as [|x l IH]; intros j; unfold torn_ops.
  - destruct j; simpl; constructor.
  - destruct j as [|j]; simpl.
    + destruct x; simpl; try constructor.
      destruct ((0 <? n)%N && (n <? len)%N) eqn:E; [|constructor].
      apply andb_true_iff in E. destruct E as [E1 E2].
      apply N.ltb_lt in E1. apply N.ltb_lt in E2. constructor; auto.
    + constructor. apply IH.
Qed.

(* ------------------------------------------------------------------ the writers *)
Lemma do_write_spec flt f off len cnt o n cnt' r :
  do_write flt f off len cnt = (o, n, cnt', r) ->
  tprefix o [OWrite f off len] /\ (r = ROk -> o = [OWrite f off len]).
Proof.
  unfold do_write. intros H.
  destruct flt as [x|].
  - destruct (fname_eqb f (ftarget x)).
    + destruct (Nat.eqb (S cnt) (fk x)).
      * inversion H; subst; clear H. split; [|discriminate].
        destruct (0 <? N.min (ftorn x) len)%N eqn:E; [|constructor].
        apply N.ltb_lt in E.
        destruct (N.eq_dec (N.min (ftorn x) len) len) as [-> | Hne].
        -- apply tprefix_refl.
        -- constructor; lia.
      * inversion H; subst. split; auto. apply tprefix_refl.
    + inversion H; subst. split; auto. apply tprefix_refl.
  - inversion H; subst. split; auto. apply tprefix_refl.
Qed.

Lemma do_write_none f off len cnt :
  do_write None f off len cnt = ([OWrite f off len], len, cnt, ROk).
Proof. reflexivity. Qed.

Lemma seq_ops_app f pos a b :
  seq_ops f pos (a ++ b) = seq_ops f pos a ++ seq_ops f (pos + sum_N a) b.
Proof.
  revert pos. induction a as [|x a IH]; intros pos; simpl.
  - now rewrite N.add_0_r.
  - rewrite IH. now rewrite N.add_assoc.
Qed.

Lemma write_seq_spec flt f ws : forall pos cnt o pos' cnt' r,
  write_seq flt f pos ws cnt = (o, pos', cnt', r) ->
  tprefix o (seq_ops f pos ws) /\ (r = ROk -> o = seq_ops f pos ws /\ pos' = (pos + sum_N ws)%N).
Proof.
  induction ws as [|len ws IH]; intros pos cnt o pos' cnt' r H; simpl in H.
  - inversion H; subst. split. constructor. intros _. simpl. now rewrite N.add_0_r.
  - destruct (do_write flt f pos len cnt) as [[[o1 n1] c1] r1] eqn:E1.
    destruct (do_write_spec _ _ _ _ _ _ _ _ _ E1) as [T1 K1].
    destruct r1.
    + destruct (write_seq flt f (pos + len) ws c1) as [[[o2 p2] c2] r2] eqn:E2.
      inversion H; subst; clear H.
      destruct (IH _ _ _ _ _ _ E2) as [T2 K2].
      rewrite (K1 eq_refl). simpl. split.
      * constructor. exact T2.
      * intros Hr. destruct (K2 Hr) as [-> ->]. split; auto. now rewrite N.add_assoc.
    + inversion H; subst; clear H. split; [|discriminate].
      simpl. change (OWrite f pos len :: seq_ops f (pos + len) ws) with ([OWrite f pos len] ++ seq_ops f (pos + len) ws).
      apply tprefix_app. exact T1.
Qed.

Lemma write_seq_none f ws : forall pos cnt,
  write_seq None f pos ws cnt = (seq_ops f pos ws, (pos + sum_N ws)%N, cnt, ROk).
Proof.
  induction ws as [|len ws IH]; intros pos cnt; simpl.
  - now rewrite N.add_0_r.
  - rewrite IH. now rewrite N.add_assoc.
Qed.

Lemma write_sections_spec flt secs : forall pos cnt o pos' cnt' r,
  write_sections (fun _ => false) flt secs pos cnt = (o, pos', cnt', r) ->
  tprefix o (seq_ops IndexTmp pos (flat_map snd secs))
  /\ (r = ROk -> o = seq_ops IndexTmp pos (flat_map snd secs) /\ pos' = (pos + sum_N (flat_map snd secs))%N).
Proof.
  induction secs as [|[k ws] secs IH]; intros pos cnt o pos' cnt' r H; simpl in H.
  - inversion H; subst. split. constructor. intros _. simpl. now rewrite N.add_0_r.
  - destruct (write_seq flt IndexTmp pos ws cnt) as [[[o1 p1] c1] r1] eqn:E1.
    destruct (write_seq_spec _ _ _ _ _ _ _ _ _ E1) as [T1 K1].
    simpl. rewrite seq_ops_app.
    destruct r1.
    + destruct (write_sections (fun _ => false) flt secs p1 c1) as [[[o2 p2] c2] r2] eqn:E2.
      inversion H; subst; clear H.
      destruct (K1 eq_refl) as [-> ->].
      destruct (IH _ _ _ _ _ _ E2) as [T2 K2]. split.
      * apply tprefix_app_r. exact T2.
      * intros Hr. destruct (K2 Hr) as [-> ->]. split; auto.
        unfold sum_N. rewrite fold_right_app. fold (sum_N (flat_map snd secs)).
        clear. induction ws; simpl; lia.
    + inversion H; subst; clear H. split; [|discriminate]. apply tprefix_app. exact T1.
Qed.

Lemma sum_N_app a b : sum_N (a ++ b) = (sum_N a + sum_N b)%N.
Proof. induction a; simpl; lia. Qed.

Lemma write_sections_none secs : forall pos cnt,
  write_sections (fun _ => false) None secs pos cnt
  = (seq_ops IndexTmp pos (flat_map snd secs), (pos + sum_N (flat_map snd secs))%N, cnt, ROk).
Proof.
  induction secs as [|[k ws] secs IH]; intros pos cnt; simpl.
  - now rewrite N.add_0_r.
  - rewrite write_seq_none, IH, seq_ops_app, sum_N_app, N.add_assoc. reflexivity.
Qed.

Lemma write_index_spec flt p o r :
  write_index (fun _ => false) flt p = (o, r) ->
  tprefix o (index_ops p) /\ (r = ROk -> o = index_ops p).
Proof.
  unfold write_index, index_ops, flat_sizes. intros H.
  destruct (write_sections (fun _ => false) flt (ix_sections p) 16 0) as [[[o1 p1] c1] r1] eqn:E1.
  destruct (write_sections_spec _ _ _ _ _ _ _ _ E1) as [T1 K1].
  destruct r1.
  - destruct (K1 eq_refl) as [-> ->].
    destruct (do_write flt IndexTmp (16 + sum_N (flat_map snd (ix_sections p))) (reg_size p) c1)
      as [[[o2 n2] c2] r2] eqn:E2.
    destruct (do_write_spec _ _ _ _ _ _ _ _ _ E2) as [T2 K2].
    destruct r2.
    + destruct (do_write flt IndexTmp 0 16 c2) as [[[o3 n3] c3] r3] eqn:E3.
      destruct (do_write_spec _ _ _ _ _ _ _ _ _ E3) as [T3 K3].
      inversion H; subst; clear H. rewrite (K2 eq_refl). split.
      * apply tprefix_app_r. simpl. constructor. exact T3.
      * intros Hr. rewrite (K3 Hr). reflexivity.
    + inversion H; subst; clear H. split; [|discriminate].
      apply tprefix_app_r.
      change [OWrite IndexTmp (16 + sum_N (flat_map snd (ix_sections p))) (reg_size p); OWrite IndexTmp 0 16]
        with ([OWrite IndexTmp (16 + sum_N (flat_map snd (ix_sections p))) (reg_size p)] ++ [OWrite IndexTmp 0 16]).
      apply tprefix_app. exact T2.
  - inversion H; subst; clear H. split; [|discriminate]. apply tprefix_app. exact T1.
Qed.

Lemma write_index_none p : write_index (fun _ => false) None p = (index_ops p, ROk).
Proof.
  unfold write_index, index_ops, flat_sizes. rewrite write_sections_none. reflexivity.
Qed.

Lemma sorted_docs_spec flt p o r :
  sorted_docs flt p = (o, r) ->
  tprefix o (sdocs_ops p) /\ (r = ROk -> o = sdocs_ops p).
Proof.
  unfold sorted_docs, sdocs_ops. intros H. destruct (skip_sort p).
  - inversion H; subst. split; auto. constructor.
  - destruct (write_seq flt SdocsTmp 0 (sd_writes p) 0) as [[[o1 p1] c1] r1] eqn:E1.
    destruct (write_seq_spec _ _ _ _ _ _ _ _ _ E1) as [T1 K1].
    destruct r1; inversion H; subst; clear H.
    + destruct (K1 eq_refl) as [-> _]. split; auto. apply tprefix_refl.
    + split; [|discriminate]. constructor. apply tprefix_app. exact T1.
Qed.

Lemma sorted_docs_none p : sorted_docs None p = (sdocs_ops p, ROk).
Proof.
  unfold sorted_docs, sdocs_ops. destruct (skip_sort p); auto. now rewrite write_seq_none.
Qed.

(* a faulty run leaves on disk a (torn) prefix of the fault-free sequence; a run that returns
   no error performs exactly the fault-free sequence *)
Lemma seal_spec p flt :
  tprefix (fst (seal p flt)) (seal_ops p) /\ (snd (seal p flt) = ROk -> fst (seal p flt) = seal_ops p).
Proof.
  unfold seal, seal_gen, seal_ops, pre_ops.
  destruct (sorted_docs flt p) as [o1 r1] eqn:E1.
  destruct (sorted_docs_spec _ _ _ _ E1) as [T1 K1].
  destruct r1.
  - rewrite (K1 eq_refl).
    destruct (write_index (fun _ => false) flt p) as [o2 r2] eqn:E2.
    destruct (write_index_spec _ _ _ _ E2) as [T2 K2].
    destruct r2; simpl.
    + rewrite (K2 eq_refl). split; [|now rewrite <- app_assoc]. rewrite <- app_assoc. apply tprefix_refl.
    + split; [|discriminate]. constructor. rewrite <- app_assoc. apply tprefix_app_r. apply tprefix_app. exact T2.
  - simpl. split; [|discriminate]. constructor. rewrite <- app_assoc. apply tprefix_app. exact T1.
Qed.

Lemma seal_nofault p : seal p None = (seal_ops p, ROk).
Proof.
  unfold seal, seal_gen, seal_ops, pre_ops.
  rewrite sorted_docs_none, write_index_none. simpl. now rewrite <- app_assoc.
Qed.

(* ------------------------------------------------------------------ running operations *)
Lemma run_app a b s : run (a ++ b) s = run b (run a s).
Proof. unfold run. apply fold_left_app. Qed.

Definition is_tmp (f : fname) : bool := match f with SdocsTmp | IndexTmp => true | _ => false end.

(* operations that can only change temp files (and, without SkipSortDocs, publish .sdocs) *)
Definition tmp_only (sk : bool) (o : op) : bool :=
  match o with
  | OCreate f | OWrite f _ _ | OFsync f => is_tmp f
  | ORename a b => fname_eqb a SdocsTmp && fname_eqb b Sdocs && negb sk
  | OFsyncDir | OOther => true
  | OUnlink _ => false
  end.

Lemma tmp_only_keeps sk o s g :
  tmp_only sk o = true -> is_tmp g = false -> (g = Sdocs -> sk = true) ->
  apply_op s o g = s g.
Proof.
  intros H Hg Hs. destruct o; simpl in *; auto.
  - apply upd_other. destruct f, g; simpl in *; try reflexivity; discriminate.
  - destruct (s f); auto. apply upd_other. destruct f, g; simpl in *; try reflexivity; discriminate.
  - destruct (s f); auto. apply upd_other. destruct f, g; simpl in *; try reflexivity; discriminate.
  - destruct (s a); auto.
    apply andb_true_iff in H. destruct H as [H Hk]. apply andb_true_iff in H. destruct H as [Ha Hb].
    apply fname_eqb_eq in Ha. apply fname_eqb_eq in Hb. subst.
    destruct g; simpl in *; try discriminate; try reflexivity.
    rewrite (Hs eq_refl) in Hk. discriminate.
  - discriminate.
Qed.

Lemma run_tmp_only sk l : forall s g,
  forallb (tmp_only sk) l = true -> is_tmp g = false -> (g = Sdocs -> sk = true) ->
  run l s g = s g.
Proof.
  induction l as [|o l IH]; intros s g H Hg Hs; simpl in *; auto.
  apply andb_true_iff in H. destruct H as [Ho Hl].
  unfold run in *. simpl. rewrite IH; auto. apply tmp_only_keeps with (sk := sk); auto.
Qed.

Lemma tmp_only_seq_ops sk f pos ws : is_tmp f = true -> forallb (tmp_only sk) (seq_ops f pos ws) = true.
Proof. intros Hf. revert pos. induction ws; intros pos; simpl; auto. rewrite Hf. simpl. auto. Qed.

Lemma tmp_only_pre p : forallb (tmp_only (skip_sort p)) (pre_ops p) = true.
Proof.
  unfold pre_ops, sdocs_ops, index_ops. simpl. rewrite forallb_app. apply andb_true_iff. split.
  - destruct (skip_sort p) eqn:E; auto. simpl. rewrite forallb_app, tmp_only_seq_ops; auto.
  - rewrite forallb_app, tmp_only_seq_ops; auto.
Qed.

(* writes onto one file *)
Definition wfc (c : content) : Prop := clen c = wlen (cw c).

Lemma wlen_app ws x : wlen (ws ++ [x]) = N.max (wlen ws) (fst x + snd x).
Proof. unfold wlen. rewrite fold_left_app. reflexivity. Qed.

Definition writes_on (f : fname) (o : op) : bool :=
  match o with OWrite g _ _ => fname_eqb g f | _ => false end.

Lemma run_writes f ops : forall s c,
  forallb (writes_on f) ops = true -> s f = Some c ->
  exists c', run ops s f = Some c' /\ cw c' = cw c ++ writes_of f ops
             /\ (wfc c -> wfc c') /\ (ops <> [] -> corig c' = false) /\ csync c' = csync c
             /\ forall g, fname_eqb g f = false -> run ops s g = s g.
Proof.
  induction ops as [|o ops IH]; intros s c H Hs; simpl in *.
  - exists c. rewrite app_nil_r. repeat split; auto. congruence.
  - apply andb_true_iff in H. destruct H as [Ho Hl].
    destruct o; simpl in Ho; try discriminate. apply fname_eqb_eq in Ho. subst f0.
    unfold run. simpl. rewrite Hs.
    set (c1 := mkC (cw c ++ [(off, len)]) (N.max (clen c) (off + len)) (csync c) false).
    destruct (IH (upd s f (Some c1)) c1 Hl (upd_same _ _ _)) as [c' [R [W [Wf [_ [Sy Ot]]]]]].
    exists c'. unfold run in R. rewrite R. rewrite fname_eqb_refl. simpl.
    split; auto. split. { rewrite W. unfold c1. simpl. now rewrite <- app_assoc. }
    split. { intros Hw. apply Wf. unfold wfc, c1. simpl. rewrite wlen_app. simpl. now rewrite Hw. }
    split. { intros _. destruct ops. - simpl in R. rewrite upd_same in R. inversion R. reflexivity.
             - destruct (IH (upd s f (Some c1)) c1 Hl (upd_same _ _ _)) as [c2 [R2 [_ [_ [Co _]]]]].
               unfold run in R2. rewrite R in R2. inversion R2. subst. apply Co. discriminate. }
    split; auto.
    intros g Hg. unfold run in Ot. rewrite Ot; auto. apply upd_other. auto.
Qed.

Lemma writes_on_seq_ops f pos ws : forallb (writes_on f) (seq_ops f pos ws) = true.
Proof. revert pos. induction ws; intros pos; simpl; auto. rewrite fname_eqb_refl. simpl. auto. Qed.

Lemma writes_on_index_ops p : forallb (writes_on IndexTmp) (index_ops p) = true.
Proof. unfold index_ops. rewrite forallb_app, writes_on_seq_ops. reflexivity. Qed.

Lemma writes_of_app f a b : writes_of f (a ++ b) = writes_of f a ++ writes_of f b.
Proof. unfold writes_of. apply flat_map_app. Qed.

Lemma wl_eqb_refl l : wl_eqb l l = true.
Proof. induction l as [|[a b] l IH]; simpl; auto. now rewrite !N.eqb_refl, IH. Qed.

Lemma complete_of c ws : cw c = ws -> wfc c -> complete ws (Some c) = true.
Proof.
  intros <- Hw. unfold complete. rewrite wl_eqb_refl. simpl. apply N.eqb_eq. exact Hw.
Qed.

(* ------------------------------------------------------------------ state after the writes *)
Definition good (p : plan) (s : fs) : Prop := inv p s \/ sealed_state p s.

Lemma inv_ext p s s' :
  s' Docs = s Docs -> s' Meta = s Meta -> s' Index = s Index ->
  (skip_sort p = true -> s' Sdocs = s Sdocs) -> inv p s -> inv p s'.
Proof.
  unfold inv. intros Hd Hm Hi Hs [A [B C]]. rewrite Hd, Hm. split; auto. split; auto.
  destruct (skip_sort p); [rewrite Hs|rewrite Hi]; auto.
Qed.

Lemma inv_tmp_only p l s :
  forallb (tmp_only (skip_sort p)) l = true -> inv p s -> inv p (run l s).
Proof.
  intros H. apply inv_ext.
  - apply run_tmp_only with (sk := skip_sort p); auto. discriminate.
  - apply run_tmp_only with (sk := skip_sort p); auto. discriminate.
  - apply run_tmp_only with (sk := skip_sort p); auto. discriminate.
  - intros Hs. apply run_tmp_only with (sk := skip_sort p); auto.
Qed.

