(* C08 — part C: write faults, order of removal, repeated crashes. *)
From Coq Require Import List Bool Arith NArith Lia.
From C08 Require Import Model ProofsA ProofsB.
Import ListNotations.

(* ------------------------------------------------------------------ an error publishes nothing *)
Lemma no_publish_torn f off len n : no_publish_op (OWrite f off n) = no_publish_op (OWrite f off len).
Proof. reflexivity. Qed.

Lemma no_publish_seq_ops f pos ws : forallb no_publish_op (seq_ops f pos ws) = true.
Proof. revert pos. induction ws; intros pos; simpl; auto. Qed.

Lemma no_publish_sdocs p : forallb no_publish_op (sdocs_ops p) = true.
Proof.
  unfold sdocs_ops. destruct (skip_sort p); auto. simpl. rewrite forallb_app, no_publish_seq_ops. reflexivity.
Qed.

Lemma no_publish_index p : forallb no_publish_op (index_ops p) = true.
Proof. unfold index_ops. rewrite forallb_app, no_publish_seq_ops. reflexivity. Qed.

Lemma err_no_publish p flt :
  snd (seal p flt) = RErr -> forallb no_publish_op (fst (seal p flt)) = true.
Proof.
  unfold seal, seal_gen.
  destruct (sorted_docs flt p) as [o1 r1] eqn:E1.
  destruct (sorted_docs_spec _ _ _ _ E1) as [T1 K1].
  assert (N1 : forallb no_publish_op o1 = true)
    by (apply (tprefix_forallb _ _ _ no_publish_torn T1 (no_publish_sdocs p))).
  destruct r1.
  - destruct (write_index (fun _ => false) flt p) as [o2 r2] eqn:E2.
    destruct (write_index_spec _ _ _ _ E2) as [T2 K2].
    destruct r2; simpl; [discriminate|]. intros _.
    rewrite forallb_app, N1. simpl.
    apply (tprefix_forallb _ _ _ no_publish_torn T2 (no_publish_index p)).
  - simpl. intros _. exact N1.
Qed.

(* ------------------------------------------------------------------ a fault is reported *)
Lemma do_write_target x f off len cnt o n cnt' r :
  do_write (Some x) f off len cnt = (o, n, cnt', r) -> fname_eqb f (ftarget x) = true ->
  cnt' = S cnt /\ (S cnt = fk x -> r = RErr) /\ (S cnt <> fk x -> r = ROk).
Proof.
  unfold do_write. intros H Hf. rewrite Hf in H.
  destruct (Nat.eqb (S cnt) (fk x)) eqn:E; inversion H; subst.
  - apply Nat.eqb_eq in E. repeat split; auto. intros; contradiction.
  - apply Nat.eqb_neq in E. repeat split; auto. intros; contradiction.
Qed.

Lemma do_write_other x f off len cnt o n cnt' r :
  do_write (Some x) f off len cnt = (o, n, cnt', r) -> fname_eqb f (ftarget x) = false ->
  cnt' = cnt /\ r = ROk.
Proof. unfold do_write. intros H Hf. rewrite Hf in H. inversion H; subst. auto. Qed.

Local Opaque do_write.

Lemma write_seq_target x f ws : forall pos cnt o pos' cnt' r,
  write_seq (Some x) f pos ws cnt = (o, pos', cnt', r) -> fname_eqb f (ftarget x) = true ->
  ((cnt < fk x <= cnt + length ws)%nat -> r = RErr) /\ (r = ROk -> cnt' = (cnt + length ws)%nat).
Proof.
  induction ws as [|len ws IH]; intros pos cnt o pos' cnt' r H Hf; simpl in H.
  - inversion H; subst. simpl. split; [lia|intros; lia].
  - destruct (do_write (Some x) f pos len cnt) as [[[o1 n1] c1] r1] eqn:E1.
    destruct (do_write_target _ _ _ _ _ _ _ _ _ E1 Hf) as [-> [Ka Kb]].
    destruct r1.
    + destruct (write_seq (Some x) f (pos + len) ws (S cnt)) as [[[o2 p2] c2] r2] eqn:E2.
      inversion H; subst; clear H.
      destruct (IH _ _ _ _ _ _ E2 Hf) as [Ia Ib]. simpl. split.
      * intros Hr. apply Ia. destruct (Nat.eq_dec (S cnt) (fk x)) as [e|e]; [specialize (Ka e); discriminate|lia].
      * intros Hr. rewrite (Ib Hr). lia.
    + inversion H; subst. split; auto. discriminate.
Qed.

Lemma write_seq_other x f ws : forall pos cnt o pos' cnt' r,
  write_seq (Some x) f pos ws cnt = (o, pos', cnt', r) -> fname_eqb f (ftarget x) = false -> r = ROk.
Proof.
  induction ws as [|len ws IH]; intros pos cnt o pos' cnt' r H Hf; simpl in H.
  - now inversion H.
  - destruct (do_write (Some x) f pos len cnt) as [[[o1 n1] c1] r1] eqn:E1.
    destruct (do_write_other _ _ _ _ _ _ _ _ _ E1 Hf) as [-> ->].
    destruct (write_seq (Some x) f (pos + len) ws cnt) as [[[o2 p2] c2] r2] eqn:E2.
    inversion H; subst. eapply IH; eauto.
Qed.

Lemma write_sections_target x secs : forall pos cnt o pos' cnt' r,
  write_sections (fun _ => false) (Some x) secs pos cnt = (o, pos', cnt', r) -> ftarget x = IndexTmp ->
  ((cnt < fk x <= cnt + length (flat_map snd secs))%nat -> r = RErr)
  /\ (r = ROk -> cnt' = (cnt + length (flat_map snd secs))%nat).
Proof.
  induction secs as [|[k ws] secs IH]; intros pos cnt o pos' cnt' r H Hf; simpl in H.
  - inversion H; subst. simpl. split; [lia|intros; lia].
  - destruct (write_seq (Some x) IndexTmp pos ws cnt) as [[[o1 p1] c1] r1] eqn:E1.
    assert (Hf' : fname_eqb IndexTmp (ftarget x) = true) by now rewrite Hf.
    destruct (write_seq_target _ _ _ _ _ _ _ _ _ E1 Hf') as [Ka Kb].
    simpl. rewrite app_length.
    destruct r1.
    + destruct (write_sections (fun _ => false) (Some x) secs p1 c1) as [[[o2 p2] c2] r2] eqn:E2.
      inversion H; subst; clear H.
      destruct (IH _ _ _ _ _ _ E2 Hf) as [Ia Ib]. rewrite (Kb eq_refl) in *. split.
      * intros Hr. apply Ia.
        destruct (le_lt_dec (fk x) (cnt + length ws)) as [e|e]; [|lia].
        assert (ROk = RErr) by (apply Ka; lia). discriminate.
      * intros Hr. rewrite (Ib Hr). lia.
    + inversion H; subst. split; auto. discriminate.
Qed.

Lemma write_index_target x p o r :
  write_index (fun _ => false) (Some x) p = (o, r) -> ftarget x = IndexTmp ->
  (1 <= fk x <= length (flat_sizes p) + 2)%nat -> r = RErr.
Proof.
  unfold write_index, flat_sizes. intros H Hf Hk.
  destruct (write_sections (fun _ => false) (Some x) (ix_sections p) 16 0) as [[[o1 p1] c1] r1] eqn:E1.
  destruct (write_sections_target _ _ _ _ _ _ _ _ E1 Hf) as [Ka Kb].
  assert (Hf' : fname_eqb IndexTmp (ftarget x) = true) by now rewrite Hf.
  destruct r1; [|now inversion H].
  rewrite (Kb eq_refl) in *. simpl in *.
  destruct (do_write (Some x) IndexTmp p1 (reg_size p) (length (flat_map snd (ix_sections p))))
    as [[[o2 n2] c2] r2] eqn:E2.
  destruct (do_write_target _ _ _ _ _ _ _ _ _ E2 Hf') as [-> [Ra Rb]].
  destruct r2; [|now inversion H].
  destruct (do_write (Some x) IndexTmp 0 16 (S (length (flat_map snd (ix_sections p)))))
    as [[[o3 n3] c3] r3] eqn:E3.
  destruct (do_write_target _ _ _ _ _ _ _ _ _ E3 Hf') as [-> [Ha Hb]].
  inversion H; subst. apply Ha.
  destruct (le_lt_dec (fk x) (length (flat_map snd (ix_sections p)))) as [e|e].
  - assert (ROk = RErr) by (apply Ka; lia). discriminate.
  - destruct (Nat.eq_dec (S (length (flat_map snd (ix_sections p)))) (fk x)) as [e2|e2]; [|lia].
    specialize (Ra e2). discriminate.
Qed.

Definition not_sdocs_rename (o : op) : bool :=
  match o with ORename SdocsTmp Sdocs => false | _ => true end.

Lemma fault_not_published p x :
  fault_hits p x ->
  snd (seal p (Some x)) = RErr
  /\ forallb no_publish_op (fst (seal p (Some x))) = true
  /\ (ftarget x = SdocsTmp -> ~ In (ORename SdocsTmp Sdocs) (fst (seal p (Some x)))).
Proof.
  intros Hh.
  assert (E : snd (seal p (Some x)) = RErr /\
              (ftarget x = SdocsTmp -> forallb not_sdocs_rename (fst (seal p (Some x))) = true)).
  { unfold seal, seal_gen. destruct Hh as [[Hf Hk] | [Hf [Sk Hk]]].
    - (* index write *)
      destruct (sorted_docs (Some x) p) as [o1 r1] eqn:E1.
      destruct r1; simpl; [|split; [reflexivity|rewrite Hf; discriminate]].
      destruct (write_index (fun _ => false) (Some x) p) as [o2 r2] eqn:E2.
      rewrite (write_index_target _ _ _ _ E2 Hf Hk). simpl. split; [reflexivity|rewrite Hf; discriminate].
    - (* sorted docs write *)
      unfold sorted_docs. rewrite Sk.
      destruct (write_seq (Some x) SdocsTmp 0 (sd_writes p) 0) as [[[o1 p1] c1] r1] eqn:E1.
      assert (Hf' : fname_eqb SdocsTmp (ftarget x) = true) by now rewrite Hf.
      destruct (write_seq_target _ _ _ _ _ _ _ _ _ E1 Hf') as [Ka _].
      rewrite (Ka ltac:(lia)). simpl. split; auto. intros _.
      destruct (write_seq_spec _ _ _ _ _ _ _ _ _ E1) as [T1 _].
      apply (tprefix_forallb not_sdocs_rename _ _ (fun _ _ _ _ => eq_refl) T1).
      clear. generalize 0%N. induction (sd_writes p); intros; simpl; auto. }
  destruct E as [E1 E2]. split; auto. split.
  - now apply err_no_publish.
  - intros Hf Hin. specialize (E2 Hf). rewrite forallb_forall in E2. specialize (E2 _ Hin). discriminate.
Qed.

(* ------------------------------------------------------------------ originals are removed last *)
Lemma app_eq_split {A} (P : A -> bool) (c : list A) : forall a b d x,
  a ++ x :: b = c ++ d -> forallb P c = true -> P x = false ->
  exists a', a = c ++ a' /\ a' ++ x :: b = d.
Proof.
  induction c as [|y c IH]; intros a b d x H Hc Hx; simpl in *.
  - exists a. auto.
  - apply andb_true_iff in Hc. destruct Hc as [Hy Hc].
    destruct a as [|z a]; simpl in H; inversion H; subst.
    + rewrite Hy in Hx. discriminate.
    + destruct (IH _ _ _ _ H2 Hc Hx) as [a' [-> H']]. exists a'. auto.
Qed.

Lemma originals_last p flt a f b :
  fst (seal p flt) = a ++ OUnlink f :: b ->
  snd (seal p flt) = ROk /\
  exists a2, a = pre_ops p ++ [OFsync IndexTmp; ORename IndexTmp Index; OFsyncDir] ++ a2.
Proof.
  intros H. destruct (snd (seal p flt)) eqn:R.
  - split; auto. destruct (seal_spec p flt) as [_ K]. rewrite (K R) in H. unfold seal_ops in H. symmetry in H.
    destruct (app_eq_split (tmp_only (skip_sort p)) _ _ _ _ _ H (tmp_only_pre p) eq_refl) as [a' [-> H']].
    exists (skipn 3 a'). f_equal.
    unfold publish_ops in H'. simpl in H'.
    destruct a' as [|x1 [|x2 [|x3 a2]]]; simpl in H'; inversion H'; subst; reflexivity.
  - exfalso. apply err_no_publish in R. rewrite H, forallb_app in R. simpl in R.
    rewrite andb_false_r in R. discriminate.
Qed.

(* ------------------------------------------------------------------ repeated crashes *)
Lemma inv_same_skip p q s : skip_sort p = skip_sort q -> inv p s -> inv q s.
Proof. unfold inv. intros <-. auto. Qed.

Lemma reachable_good sk s : reachable sk s -> exists p, skip_sort p = sk /\ good p s.
Proof.
  induction 1 as [p s Hs Hi | s keep _ [p [Hs G]] | s p flt l keep _ [q [Hs G]] Hp Hl Ht].
  - exists p. split; auto. now left.
  - exists p. split; auto. apply good_power_loss. apply good_load. exact G.
  - exists p. split; auto.
    destruct (good_load q s G) as [_ I]. specialize (I Hl).
    apply (crash_atomic p flt (snd (load s)) l keep); auto.
    apply (inv_same_skip q p); auto. congruence.
Qed.

Lemma reachable_served sk s : reachable sk s -> served sk s.
Proof.
  intros H. destruct (reachable_good sk s H) as [p [Hs G]]. exists p. split; auto. now apply good_serves.
Qed.
