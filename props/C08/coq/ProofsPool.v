(* C08 — proofs about ModelPool.v: between compression and Write the pooled buffer is the sealer's
   alone, whatever the other pool users do. *)
From Coq Require Import List Arith Bool Lia.
Import ListNotations.
From VLib Require Import CaseLib.
From C08 Require Import Model ModelGen ModelPool CaseDefs.

Lemma drop_nth_in {A} : forall (l : list A) i x, In x (drop_nth i l) -> In x l.
Proof.
  induction l as [|a r IH]; intros [|i] x H; simpl in *; auto.
  destruct H as [H|H]; auto. right. eapply IH; eauto.
Qed.

Lemma drop_nth_nodup {A} : forall (l : list A) i, NoDup l -> NoDup (drop_nth i l).
Proof.
  induction l as [|a r IH]; intros [|i] H; simpl; auto.
  - inversion H; auto.
  - inversion H; subst. constructor; auto. intro X. apply drop_nth_in in X. auto.
Qed.

Lemma drop_nth_notin {A} : forall (l : list A) i v, NoDup l -> nth_error l i = Some v -> ~ In v (drop_nth i l).
Proof.
  induction l as [|a r IH]; intros [|i] v H E; simpl in *; try discriminate.
  - inversion E; subst. inversion H; auto.
  - inversion H; subst. intros [X|X].
    + subst. apply H2. eapply nth_error_In; eauto.
    + eapply IH; eauto.
Qed.

Lemma drop_nth_map {A B} (f : A -> B) : forall l i, map f (drop_nth i l) = drop_nth i (map f l).
Proof. induction l as [|a r IH]; intros [|i]; simpl; auto. f_equal. apply IH. Qed.

Lemma NoDup_app_one {A} : forall (l : list A) v, NoDup l -> ~ In v l -> NoDup (l ++ [v]).
Proof.
  induction l as [|a r IH]; intros v H N; simpl.
  - constructor; auto.
  - inversion H; subst. constructor.
    + intro X. apply in_app_or in X. destruct X as [X|[X|[]]]; auto. subst. apply N. left. reflexivity.
    + apply IH; auto. intro X. apply N. right. exact X.
Qed.

Lemma ptake_spec : forall pick free next v fr nx,
  ptake pick free next = (v, fr, nx) ->
  (nth_error free pick = Some v /\ fr = drop_nth pick free /\ nx = next)
  \/ (v = next /\ fr = free /\ nx = S next).
Proof.
  unfold ptake. intros pick free next v fr nx H. destruct (nth_error free pick) eqn:E; inversion H; subst; auto.
Qed.

(* ------------------------------------------------------------------ the pool is well formed *)
Definition bufs (s : pstate) : list nat := map snd (p_held s).

Record wf (s : pstate) : Prop := {
  wf_free_nd : NoDup (p_free s);
  wf_held_nd : NoDup (bufs s);
  wf_free_lt : forall v, In v (p_free s) -> v < p_next s;
  wf_held_lt : forall v, In v (bufs s) -> v < p_next s;
  wf_disj : forall v, In v (p_free s) -> ~ In v (bufs s);
  wf_own : p_own s = true -> exists v, p_cur s = Some v /\ v < p_next s /\ ~ In v (p_free s) /\ ~ In v (bufs s)
}.

(* a buffer just taken from the pool is nobody's *)
Lemma ptake_fresh : forall s pick v fr nx, wf s -> ptake pick (p_free s) (p_next s) = (v, fr, nx) ->
  NoDup fr /\ (forall x, In x fr -> x < nx) /\ (forall x, In x fr -> In x (p_free s)) /\ p_next s <= nx
  /\ v < nx /\ ~ In v fr /\ ~ In v (bufs s)
  /\ (p_own s = true -> p_cur s <> Some v).
Proof.
  intros s pick v fr nx W T. apply ptake_spec in T. destruct T as [(N & -> & ->)|(-> & -> & ->)].
  - assert (I : In v (p_free s)) by (eapply nth_error_In; eauto).
    repeat split.
    + apply drop_nth_nodup, W.
    + intros x X. apply W. eapply drop_nth_in; eauto.
    + intros x X. eapply drop_nth_in; eauto.
    + lia.
    + apply W; auto.
    + apply drop_nth_notin; auto. apply W.
    + apply W; auto.
    + intros O E. destruct (wf_own s W O) as (c & C & _ & NF & _). rewrite C in E. inversion E; subst. auto.
  - repeat split.
    + apply W.
    + intros x X. apply (wf_free_lt s W) in X. lia.
    + auto.
    + lia.
    + lia.
    + intro X. apply (wf_free_lt s W) in X. lia.
    + intro X. apply (wf_held_lt s W) in X. lia.
    + intros O E. destruct (wf_own s W O) as (c & C & L & _). rewrite C in E. inversion E; subst. lia.
Qed.

(* ------------------------------------------------------------------ where the sealer is *)
Lemma expect_from_app : forall a b k, expect_from k (a ++ b) = expect_from k a ++ expect_from (k + length a) b.
Proof.
  induction a as [|x a IH]; intros b k; simpl.
  - rewrite Nat.add_0_r. reflexivity.
  - rewrite IH. replace (S k + length a) with (k + S (length a)) by lia. reflexivity.
Qed.

Definition owns_z (s : pstate) : Prop :=
  p_own s = true /\ exists v, p_cur s = Some v /\ p_heap s v = CZ (p_k s).

Definition phase_ok (done : list pblk) (s : pstate) : Prop :=
  match p_rest s with
  | [] => p_ph s = PStart /\ p_own s = false /\ p_out s = expect_from 0 done
  | b :: _ =>
      match p_ph s with
      | PStart => p_own s = false /\ p_out s = expect_from 0 done
      | PAcqd => b_compress b = true /\ p_own s = true /\ p_out s = expect_from 0 done
      | PCompd => b_compress b = true /\ owns_z s /\ p_out s = expect_from 0 done
      | PSought => p_out s = expect_from 0 done /\ (if b_compress b then owns_z s else p_own s = false)
      | PWritten => b_compress b = true /\ p_own s = true /\ p_out s = expect_from 0 (done ++ [b])
      end
  end.

Definition Inv (blocks : list pblk) (s : pstate) : Prop :=
  wf s /\ exists done, blocks = done ++ p_rest s /\ p_k s = length done /\ phase_ok done s.

Lemma inv_init : forall blocks, Inv blocks (pinit blocks).
Proof.
  intro blocks. split.
  - constructor; simpl; try constructor; try contradiction. discriminate.
  - exists []. simpl. repeat split; auto. unfold phase_ok. simpl. destruct blocks; auto.
Qed.

Lemma hupd_same : forall h v c, hupd h v c v = c.
Proof. intros. unfold hupd. rewrite Nat.eqb_refl. reflexivity. Qed.
Lemma hupd_other : forall h v c x, x <> v -> hupd h v c x = h x.
Proof. intros. unfold hupd. destruct (Nat.eqb_spec x v); congruence. Qed.

Ltac inv_wf W := destruct W as [W1 W2 W3 W4 W5 W6].

(* a step of the sealer (the code as it is: early = false) *)
Lemma inv_seal : forall blocks pick s, Inv blocks s -> Inv blocks (seal_step false pick s).
Proof.
  intros blocks pick s (W & done & B & K & P).
  unfold seal_step. unfold phase_ok in P.
  destruct (p_rest s) as [|b r] eqn:R; [split; [exact W|exists done; unfold phase_ok; rewrite R; auto]|].
  destruct (p_ph s) eqn:PH.
  - (* PStart *) destruct P as (O & OUT). destruct (b_compress b) eqn:CB.
    + destruct (ptake pick (p_free s) (p_next s)) as [[v fr] nx] eqn:T.
      destruct (ptake_fresh s pick v fr nx W T) as (F1 & F2 & F3 & F4 & F5 & F6 & F7 & _).
      split.
      * inv_wf W. constructor; simpl; auto.
        -- intros x X. apply W4 in X. lia.
        -- intros _. exists v. auto.
      * exists done. simpl. split; [auto|]. split; [auto|]. unfold phase_ok. simpl. rewrite ?R. auto.
    + split.
      * inv_wf W. constructor; simpl; auto.
      * exists done. simpl. split; [auto|]. split; [auto|]. unfold phase_ok. simpl. rewrite ?R, ?CB. auto.
  - (* PAcqd *) destruct P as (CB & O & OUT). split.
    + inv_wf W. constructor; simpl; auto.
    + exists done. simpl. split; [auto|]. split; [auto|]. unfold phase_ok. simpl. rewrite ?R.
      destruct (wf_own s W O) as (v & C & _). repeat split; auto. exists v. rewrite C. split; auto. apply hupd_same.
  - (* PCompd *) destruct P as (CB & OZ & OUT). simpl. split.
    + inv_wf W. constructor; simpl; auto.
    + exists done. simpl. split; [auto|]. split; [auto|]. unfold phase_ok. simpl. rewrite ?R, ?CB. auto.
  - (* PSought: Write *) destruct P as (OUT & X). destruct (b_compress b) eqn:CB; simpl.
    + split.
      * inv_wf W. constructor; simpl; auto.
      * exists done. simpl. split; [auto|]. split; [auto|]. unfold phase_ok. simpl. rewrite ?R.
        destruct X as (O & v & C & H). repeat split; auto.
        rewrite expect_from_app, OUT. simpl. f_equal. unfold expect1. rewrite CB. simpl.
        destruct (b_shrinks b); [|rewrite K; auto]. unfold read_cur. rewrite C, H, K. reflexivity.
    + split.
      * inv_wf W. constructor; simpl; auto.
      * exists (done ++ [b]). simpl. split; [rewrite <- app_assoc; exact B|]. split; [rewrite app_length; simpl; lia|].
        assert (E : p_out s ++ [CRaw (p_k s)] = expect_from 0 (done ++ [b])).
        { rewrite expect_from_app, OUT. simpl. unfold expect1. rewrite CB, K. reflexivity. }
        unfold phase_ok. simpl. destruct r; auto.
  - (* PWritten: Release *) destruct P as (CB & O & OUT).
    destruct (wf_own s W O) as (v & C & L & NF & NH). split.
    + inv_wf W. unfold push_cur. rewrite C. constructor; simpl; auto.
      * constructor; auto.
      * intros x [<-|X]; auto.
      * intros x [<-|X]; auto.
      * discriminate.
    + exists (done ++ [b]). simpl. split; [rewrite <- app_assoc; exact B|]. split; [rewrite app_length; simpl; lia|].
      unfold phase_ok. simpl. destruct r; auto.
Qed.

(* the sealer's fields, untouched by the other users *)
Definition same_sealer (s t : pstate) : Prop :=
  p_ph t = p_ph s /\ p_cur t = p_cur s /\ p_own t = p_own s /\ p_k t = p_k s /\ p_rest t = p_rest s /\ p_out t = p_out s.

Lemma phase_ok_frame : forall done s t, same_sealer s t ->
  (owns_z s -> owns_z t) -> phase_ok done s -> phase_ok done t.
Proof.
  intros done s t (E1 & E2 & E3 & E4 & E5 & E6) Z. unfold phase_ok. rewrite E1, E3, E5, E6.
  destruct (p_rest s) as [|b r]; auto. destruct (p_ph s); auto.
  - intros (A & B & C). auto.
  - intros (A & B). split; auto. destruct (b_compress b); auto.
Qed.

(* a step of another pool user *)
Lemma inv_user : forall blocks early e s, (forall pick, e <> ESeal pick) -> Inv blocks s -> Inv blocks (pstep early s e).
Proof.
  intros blocks early e s NE (W & done & B & K & P). destruct e as [pick|u pick|j|j]; [exfalso; eapply NE; eauto| | |]; simpl.
  - (* EAcq *) destruct (ptake pick (p_free s) (p_next s)) as [[v fr] nx] eqn:T.
    destruct (ptake_fresh s pick v fr nx W T) as (F1 & F2 & F3 & F4 & F5 & F6 & F7 & F8).
    split.
    + inv_wf W. constructor; simpl; auto; unfold bufs; simpl; rewrite ?map_app; simpl.
      * apply NoDup_app_one; auto.
      * intros x X. apply in_app_or in X. destruct X as [X|[<-|[]]]; auto. apply W4 in X. lia.
      * intros x X Y. apply in_app_or in Y. destruct Y as [Y|[<-|[]]]; auto. apply F3 in X. eapply W5; eauto.
      * intros O. destruct (W6 O) as (c & C & L & NF & NH). exists c. split; [auto|]. split; [lia|]. split; [intro X; apply NF, F3, X|].
        intro X. apply in_app_or in X. destruct X as [X|[<-|[]]]; auto. apply (F8 O). auto.
    + exists done. simpl. split; [auto|]. split; [auto|].
      eapply phase_ok_frame; [| |exact P]; [repeat split|]. intros Z. exact Z.
  - (* EFill *) destruct (nth_error (p_held s) j) as [[u v]|] eqn:N; [|split; auto; exists done; auto].
    assert (IV : In v (bufs s)). { unfold bufs. change v with (snd (u, v)). apply in_map. eapply nth_error_In; eauto. }
    split.
    + inv_wf W. constructor; simpl; auto.
    + exists done. simpl. split; [auto|]. split; [auto|].
      eapply phase_ok_frame; [| |exact P]; [repeat split|]. intros (O & c & C & H). split; auto. exists c. split; auto.
      simpl. rewrite hupd_other; auto. intros ->. destruct (wf_own s W O) as (c' & C' & _ & _ & NH). rewrite C in C'. inversion C'; subst. auto.
  - (* ERel *) destruct (nth_error (p_held s) j) as [[u v]|] eqn:N; [|split; auto; exists done; auto].
    assert (NV : nth_error (bufs s) j = Some v). { unfold bufs. rewrite nth_error_map, N. reflexivity. }
    assert (IV : In v (bufs s)) by (eapply nth_error_In; eauto).
    split.
    + inv_wf W. constructor; simpl; auto; unfold bufs; simpl; rewrite ?drop_nth_map.
      * constructor; auto. intro X. eapply W5; eauto.
      * apply drop_nth_nodup; auto.
      * intros x [<-|X]; auto.
      * intros x X. apply W4. eapply drop_nth_in; eauto.
      * intros x [<-|X] Y.
        -- eapply drop_nth_notin; eauto.
        -- eapply W5; eauto. eapply drop_nth_in; eauto.
      * intros O. destruct (W6 O) as (c & C & L & NF & NH). exists c. repeat split; auto.
        -- intros [<-|X]; auto.
        -- intro X. apply NH. eapply drop_nth_in; eauto.
    + exists done. simpl. split; [auto|]. split; [auto|].
      eapply phase_ok_frame; [| |exact P]; [repeat split|]. intros Z. exact Z.
Qed.

Lemma inv_step : forall blocks e s, Inv blocks s -> Inv blocks (pstep false s e).
Proof.
  intros blocks e s I. destruct e as [pick| | |].
  - apply inv_seal; auto.
  - apply inv_user; auto. discriminate.
  - apply inv_user; auto. discriminate.
  - apply inv_user; auto. discriminate.
Qed.

Lemma inv_run : forall blocks sched s, Inv blocks s -> Inv blocks (fold_left (pstep false) sched s).
Proof. induction sched as [|e l IH]; intros s I; simpl; auto. apply IH, inv_step, I. Qed.

Lemma firstn_app_exact {A} : forall (a b : list A), firstn (length a) (a ++ b) = a.
Proof. intros. rewrite firstn_app, Nat.sub_diag, firstn_all. simpl. apply app_nil_r. Qed.

Lemma firstn_app_snoc {A} : forall (a : list A) x r, a ++ [x] = firstn (length (a ++ [x])) (a ++ x :: r).
Proof.
  intros. replace (a ++ x :: r) with ((a ++ [x]) ++ r) by (rewrite <- app_assoc; reflexivity).
  symmetry. apply firstn_app_exact.
Qed.

(* For EVERY interleaving of the sealer's steps with the steps of the other pool users (any number of
   users, any buffers handed out by the pool, any point of time): what the Write calls have put into
   the index file so far is, block by block, the compression of that block's payload (or the payload
   itself for an uncompressed / incompressible block); and when WriteBlock has returned for the last
   block, the file holds exactly the blocks the sealer produced. *)
Theorem block_bytes_private : forall blocks sched,
  let s := write_blocks blocks sched in
  p_out s = firstn (length (p_out s)) (expect_from 0 blocks)
  /\ (finished s = true -> p_out s = expect_from 0 blocks).
Proof.
  intros blocks sched s.
  destruct (inv_run blocks sched (pinit blocks) (inv_init blocks)) as (W & done & B & K & P).
  fold (prun false blocks sched) in *. fold (write_blocks blocks sched) in *. fold s in W, B, K, P.
  unfold phase_ok in P. rewrite B. rewrite expect_from_app. unfold finished.
  destruct (p_rest s) as [|b r].
  - destruct P as (_ & _ & OUT). rewrite OUT. simpl. rewrite app_nil_r. split; auto. rewrite firstn_all. reflexivity.
  - split; [|discriminate].
    destruct (p_ph s).
    + destruct P as (_ & OUT). rewrite OUT. symmetry. apply firstn_app_exact.
    + destruct P as (_ & _ & OUT). rewrite OUT. symmetry. apply firstn_app_exact.
    + destruct P as (_ & _ & OUT). rewrite OUT. symmetry. apply firstn_app_exact.
    + destruct P as (OUT & _). rewrite OUT. symmetry. apply firstn_app_exact.
    + destruct P as (_ & _ & OUT). rewrite OUT. rewrite expect_from_app. simpl. apply firstn_app_snoc.
Qed.

(* the sealer finishes: a schedule in which it gets [seal_steps blocks] steps (anywhere) ends with
   every block written *)
Definition is_seal (e : pev) : bool := match e with ESeal _ => true | _ => false end.

Definition remaining (s : pstate) : nat :=
  match p_rest s with
  | [] => 0
  | b :: r =>
      seal_steps r + (if b_compress b then match p_ph s with PStart => 5 | PAcqd => 4 | PCompd => 3 | PSought => 2 | PWritten => 1 end
                      else match p_ph s with PStart => 2 | _ => 1 end)
  end.

Lemma remaining_user : forall early e s, is_seal e = false -> remaining (pstep early s e) = remaining s.
Proof.
  intros early e s H. destruct e as [pick|u pick|j|j]; try discriminate; simpl.
  - destruct (ptake pick (p_free s) (p_next s)) as [[v fr] nx]. reflexivity.
  - destruct (nth_error (p_held s) j) as [[u v]|]; reflexivity.
  - destruct (nth_error (p_held s) j) as [[u v]|]; reflexivity.
Qed.

Lemma remaining_seal : forall blocks pick s, Inv blocks s -> remaining (seal_step false pick s) = pred (remaining s).
Proof.
  intros blocks pick s (W & done & B & K & P). unfold remaining, seal_step, phase_ok in *.
  destruct (p_rest s) as [|b r] eqn:R; simpl; [rewrite ?R; reflexivity|].
  destruct (p_ph s) eqn:PH.
  - destruct (b_compress b) eqn:CB.
    + destruct (ptake pick (p_free s) (p_next s)) as [[v fr] nx]. simpl. rewrite ?R, ?CB. lia.
    + simpl. rewrite ?R, ?CB. lia.
  - destruct P as (CB & _). simpl. rewrite ?R, ?CB. lia.
  - destruct P as (CB & _). simpl. rewrite ?R, ?CB. lia.
  - destruct (b_compress b) eqn:CB; simpl.
    + rewrite ?R, ?CB. lia.
    + destruct r as [|b' r']; simpl; [reflexivity|]. destruct (b_compress b'); lia.
  - destruct P as (CB & _). simpl. rewrite ?CB. destruct r as [|b' r']; simpl; [reflexivity|]. destruct (b_compress b'); lia.
Qed.

Lemma run_remaining : forall blocks sched s, Inv blocks s ->
  remaining (fold_left (pstep false) sched s) = remaining s - length (filter is_seal sched).
Proof.
  induction sched as [|e l IH]; intros s I; simpl; [lia|].
  rewrite IH by (apply inv_step; auto). destruct (is_seal e) eqn:E.
  - destruct e; try discriminate. simpl. rewrite (remaining_seal blocks) by auto. lia.
  - rewrite remaining_user by auto. reflexivity.
Qed.

Lemma remaining_zero : forall blocks s, Inv blocks s -> remaining s = 0 -> finished s = true.
Proof.
  intros blocks s _ H. unfold remaining, finished in *. destruct (p_rest s) as [|b r]; auto.
  destruct (b_compress b); destruct (p_ph s); lia.
Qed.

Theorem sealer_finishes : forall blocks sched,
  seal_steps blocks <= length (filter is_seal sched) -> finished (write_blocks blocks sched) = true.
Proof.
  intros blocks sched H. apply (remaining_zero blocks).
  - apply inv_run, inv_init.
  - unfold write_blocks, prun. rewrite (run_remaining blocks) by apply inv_init.
    assert (E : remaining (pinit blocks) = seal_steps blocks).
    { unfold remaining. simpl. destruct blocks as [|b r]; simpl; auto. destruct (b_compress b); lia. }
    lia.
Qed.

(* both together, in the form Props.v states *)
Theorem block_bytes_private_full : forall blocks sched,
  let s := write_blocks blocks sched in
  p_out s = firstn (length (p_out s)) (expect_from 0 blocks)
  /\ (finished s = true -> p_out s = expect_from 0 blocks)
  /\ (seal_steps blocks <= length (filter is_seal sched) -> finished s = true).
Proof.
  intros blocks sched s. destruct (block_bytes_private blocks sched) as (A & B).
  split; [exact A|]. split; [exact B|]. apply sealer_finishes.
Qed.

(* The seeded change C08-m12 (Release right after compression): two goroutines suffice.  The sealer
   acquires, compresses, releases; a pool user acquires (the pool hands out the buffer just released),
   writes its own bytes, and the sealer seeks and writes: the index holds the user's bytes. *)
Definition early_witness_blocks : list pblk := [mkPB true true].
Definition early_witness_sched : list pev := [ESeal 0; ESeal 0; ESeal 0; EAcq 7 0; EFill 0; ESeal 0; ESeal 0].

Lemma release_before_write_refuted :
  exists blocks sched,
    finished (write_blocks_early blocks sched) = true
    /\ p_out (write_blocks_early blocks sched) <> expect_from 0 blocks
    /\ length (p_out (write_blocks_early blocks sched)) = length blocks
    /\ p_out (write_blocks blocks sched) = firstn (length (p_out (write_blocks blocks sched))) (expect_from 0 blocks).
Proof.
  exists early_witness_blocks, early_witness_sched. vm_compute. repeat split; auto. discriminate.
Qed.

(* ------------------------------------------------------------------ the spec checker holds on the model *)
Lemma pcontent_eqb_refl : forall a, pcontent_eqb a a = true.
Proof. destruct a; simpl; auto; apply Nat.eqb_refl. Qed.

Lemma pcontent_list_eqb_refl : forall l, list_eqb pcontent_eqb l l = true.
Proof. induction l as [|a r IH]; simpl; auto. rewrite pcontent_eqb_refl, IH. reflexivity. Qed.

Theorem spec_pool_model : forall blocks sched,
  seal_steps blocks <= length (filter is_seal sched) ->
  let s := write_blocks blocks sched in
  case_agrees (CPool blocks sched (p_out s)) = true /\ case_spec_ok (CPool blocks sched (p_out s)) = true.
Proof.
  intros blocks sched H s. destruct (block_bytes_private_full blocks sched) as (_ & B & C). fold s in B, C.
  simpl. fold s. rewrite (C H). rewrite (B (C H)). simpl. split; apply pcontent_list_eqb_refl.
Qed.
