(* C08 — part E: sealing under ANY set of failing writes (ModelGen.v: seal_fs). *)
From Coq Require Import List Bool Arith NArith Lia.
From C08 Require Import Model ModelGen ProofsA ProofsB ProofsC.
Import ListNotations.

(* ------------------------------------------------------------------ one write *)
Lemma do_write_fs_spec fl f off len cnt o n cnt' r :
  do_write_fs fl f off len cnt = (o, n, cnt', r) ->
  tprefix o [OWrite f off len] /\ (r = ROk -> o = [OWrite f off len]) /\ cnt' = S cnt
  /\ (fl f (S cnt) <> None -> r = RErr) /\ (fl f (S cnt) = None -> r = ROk).
Proof.
  unfold do_write_fs. intros H. destruct (fl f (S cnt)) as [m|].
  - inversion H; subst; clear H. split; [|split; [discriminate|split; [reflexivity|split; [reflexivity|discriminate]]]].
    destruct (0 <? N.min m len)%N eqn:E; [|constructor].
    apply N.ltb_lt in E.
    destruct (N.eq_dec (N.min m len) len) as [-> | Hne].
    + apply tprefix_refl.
    + constructor; lia.
  - inversion H; subst. split; [apply tprefix_refl|]. split; [reflexivity|]. split; [reflexivity|].
    split; [intros X; now elim X|reflexivity].
Qed.

Lemma do_write_fs_none f off len cnt :
  do_write_fs fs_none f off len cnt = ([OWrite f off len], len, S cnt, ROk).
Proof. reflexivity. Qed.

Local Opaque do_write_fs.

(* ------------------------------------------------------------------ sequences of writes *)
Lemma write_seq_fs_spec fl f ws : forall pos cnt o pos' cnt' r,
  write_seq_fs fl f pos ws cnt = (o, pos', cnt', r) ->
  tprefix o (seq_ops f pos ws)
  /\ (r = ROk -> o = seq_ops f pos ws /\ pos' = (pos + sum_N ws)%N /\ cnt' = (cnt + length ws)%nat)
  /\ ((exists k, (cnt < k <= cnt + length ws)%nat /\ fl f k <> None) -> r = RErr).
Proof.
  induction ws as [|len ws IH]; intros pos cnt o pos' cnt' r H; simpl in H.
  - inversion H; subst. split; [constructor|]. split.
    + intros _. simpl. rewrite N.add_0_r. repeat split; lia.
    + intros [k [Hk _]]. simpl in Hk. lia.
  - destruct (do_write_fs fl f pos len cnt) as [[[o1 n1] c1] r1] eqn:E1.
    destruct (do_write_fs_spec _ _ _ _ _ _ _ _ _ E1) as [T1 [K1 [-> [Fa Fb]]]].
    destruct r1.
    + destruct (write_seq_fs fl f (pos + len) ws (S cnt)) as [[[o2 p2] c2] r2] eqn:E2.
      inversion H; subst; clear H.
      destruct (IH _ _ _ _ _ _ E2) as [T2 [K2 H2]].
      rewrite (K1 eq_refl). simpl. split; [constructor; exact T2|]. split.
      * intros Hr. destruct (K2 Hr) as [-> [-> ->]]. repeat split; try lia.
      * intros [k [Hk Hf]]. apply H2. exists k. split; auto.
        destruct (Nat.eq_dec k (S cnt)) as [->|Hne]; [|simpl in Hk; lia].
        specialize (Fa Hf). discriminate.
    + inversion H; subst; clear H. split; [|split; [discriminate|reflexivity]].
      simpl. change (OWrite f pos len :: seq_ops f (pos + len) ws) with ([OWrite f pos len] ++ seq_ops f (pos + len) ws).
      apply tprefix_app. exact T1.
Qed.

Lemma write_sections_fs_spec fl secs : forall pos cnt o pos' cnt' r,
  write_sections_fs fl secs pos cnt = (o, pos', cnt', r) ->
  tprefix o (seq_ops IndexTmp pos (flat_map snd secs))
  /\ (r = ROk -> o = seq_ops IndexTmp pos (flat_map snd secs) /\ pos' = (pos + sum_N (flat_map snd secs))%N
               /\ cnt' = (cnt + length (flat_map snd secs))%nat)
  /\ ((exists k, (cnt < k <= cnt + length (flat_map snd secs))%nat /\ fl IndexTmp k <> None) -> r = RErr).
Proof.
  induction secs as [|[k0 ws] secs IH]; intros pos cnt o pos' cnt' r H; simpl in H.
  - inversion H; subst. split; [constructor|]. split.
    + intros _. simpl. rewrite N.add_0_r. repeat split; lia.
    + intros [k [Hk _]]. simpl in Hk. lia.
  - destruct (write_seq_fs fl IndexTmp pos ws cnt) as [[[o1 p1] c1] r1] eqn:E1.
    destruct (write_seq_fs_spec _ _ _ _ _ _ _ _ _ E1) as [T1 [K1 H1]].
    simpl. rewrite seq_ops_app, app_length.
    destruct r1.
    + destruct (write_sections_fs fl secs p1 c1) as [[[o2 p2] c2] r2] eqn:E2.
      inversion H; subst; clear H.
      destruct (K1 eq_refl) as [-> [-> ->]].
      destruct (IH _ _ _ _ _ _ E2) as [T2 [K2 H2]]. split; [apply tprefix_app_r; exact T2|]. split.
      * intros Hr. destruct (K2 Hr) as [-> [-> ->]]. repeat split; try lia.
        rewrite sum_N_app. lia.
      * intros [k [Hk Hf]]. apply H2. exists k. split; auto.
        destruct (le_lt_dec k (cnt + length ws)) as [e|e]; [|lia].
        assert (ROk = RErr) by (apply H1; exists k; split; auto; lia). discriminate.
    + inversion H; subst; clear H. split; [apply tprefix_app; exact T1|]. split; [discriminate|reflexivity].
Qed.

Lemma write_index_fs_spec fl p o r :
  write_index_fs fl p = (o, r) ->
  tprefix o (index_ops p) /\ (r = ROk -> o = index_ops p)
  /\ ((exists k, (1 <= k <= length (flat_sizes p) + 2)%nat /\ fl IndexTmp k <> None) -> r = RErr).
Proof.
  unfold write_index_fs, index_ops, flat_sizes. intros H.
  destruct (write_sections_fs fl (ix_sections p) 16 0) as [[[o1 p1] c1] r1] eqn:E1.
  destruct (write_sections_fs_spec _ _ _ _ _ _ _ _ E1) as [T1 [K1 H1]].
  destruct r1.
  - destruct (K1 eq_refl) as [-> [-> ->]]. cbn [Nat.add] in *.
    destruct (do_write_fs fl IndexTmp (16 + sum_N (flat_map snd (ix_sections p))) (reg_size p)
                (length (flat_map snd (ix_sections p)))) as [[[o2 n2] c2] r2] eqn:E2.
    destruct (do_write_fs_spec _ _ _ _ _ _ _ _ _ E2) as [T2 [K2 [-> [Fa2 Fb2]]]].
    destruct r2.
    + destruct (do_write_fs fl IndexTmp 0 16 (S (length (flat_map snd (ix_sections p))))) as [[[o3 n3] c3] r3] eqn:E3.
      destruct (do_write_fs_spec _ _ _ _ _ _ _ _ _ E3) as [T3 [K3 [-> [Fa3 Fb3]]]].
      inversion H; subst; clear H. rewrite (K2 eq_refl). split; [|split].
      * apply tprefix_app_r. simpl. constructor. exact T3.
      * intros Hr. rewrite (K3 Hr). reflexivity.
      * intros [k [Hk Hf]].
        destruct (le_lt_dec k (length (flat_map snd (ix_sections p)))) as [e|e].
        { assert (ROk = RErr) by (apply H1; exists k; split; auto; lia). discriminate. }
        destruct (Nat.eq_dec k (S (length (flat_map snd (ix_sections p))))) as [->|Hne].
        { specialize (Fa2 Hf). discriminate. }
        assert (k = S (S (length (flat_map snd (ix_sections p))))) by lia. subst k. apply Fa3. exact Hf.
    + inversion H; subst; clear H. split; [|split; [discriminate|reflexivity]].
      apply tprefix_app_r.
      change [OWrite IndexTmp (16 + sum_N (flat_map snd (ix_sections p))) (reg_size p); OWrite IndexTmp 0 16]
        with ([OWrite IndexTmp (16 + sum_N (flat_map snd (ix_sections p))) (reg_size p)] ++ [OWrite IndexTmp 0 16]).
      apply tprefix_app. exact T2.
  - inversion H; subst; clear H. split; [apply tprefix_app; exact T1|]. split; [discriminate|reflexivity].
Qed.

Lemma sorted_docs_fs_spec fl p o r :
  sorted_docs_fs fl p = (o, r) ->
  tprefix o (sdocs_ops p) /\ (r = ROk -> o = sdocs_ops p)
  /\ (skip_sort p = false -> (exists k, (1 <= k <= length (sd_writes p))%nat /\ fl SdocsTmp k <> None) -> r = RErr)
  /\ (r = RErr -> ~ In (ORename SdocsTmp Sdocs) o).
Proof.
  unfold sorted_docs_fs, sdocs_ops. intros H. destruct (skip_sort p).
  - inversion H; subst. split; [constructor|]. split; [reflexivity|]. split; [discriminate|discriminate].
  - destruct (write_seq_fs fl SdocsTmp 0 (sd_writes p) 0) as [[[o1 p1] c1] r1] eqn:E1.
    destruct (write_seq_fs_spec _ _ _ _ _ _ _ _ _ E1) as [T1 [K1 H1]].
    destruct r1; inversion H; subst; clear H.
    + destruct (K1 eq_refl) as [-> _]. split; [apply tprefix_refl|]. split; [reflexivity|].
      split; [|discriminate]. intros _ [k [Hk Hf]].
      assert (ROk = RErr) by (apply H1; exists k; split; auto; lia). discriminate.
    + split; [constructor; apply tprefix_app; exact T1|]. split; [discriminate|]. split; [reflexivity|].
      intros _ [X|X]; [discriminate|].
      assert (N : forallb (fun x => match x with OWrite _ _ _ => true | _ => false end) o1 = true).
      { apply (tprefix_forallb _ o1 (seq_ops SdocsTmp 0 (sd_writes p))); auto.
        clear. generalize 0%N. induction (sd_writes p); intros; simpl; auto. }
      rewrite forallb_forall in N. specialize (N _ X). discriminate.
Qed.

(* a run under any fault set leaves on disk a (torn) prefix of the fault-free sequence; a run that
   returns no error performs exactly the fault-free sequence *)
Lemma seal_fs_spec p fl :
  tprefix (fst (seal_fs p fl)) (seal_ops p) /\ (snd (seal_fs p fl) = ROk -> fst (seal_fs p fl) = seal_ops p).
Proof.
  unfold seal_fs, seal_ops, pre_ops.
  destruct (sorted_docs_fs fl p) as [o1 r1] eqn:E1.
  destruct (sorted_docs_fs_spec _ _ _ _ E1) as [T1 [K1 _]].
  destruct r1.
  - rewrite (K1 eq_refl).
    destruct (write_index_fs fl p) as [o2 r2] eqn:E2.
    destruct (write_index_fs_spec _ _ _ _ E2) as [T2 [K2 _]].
    destruct r2; simpl.
    + rewrite (K2 eq_refl). split; [|now rewrite <- app_assoc]. rewrite <- app_assoc. apply tprefix_refl.
    + split; [|discriminate]. constructor. rewrite <- app_assoc. apply tprefix_app_r. apply tprefix_app. exact T2.
  - simpl. split; [|discriminate]. constructor. rewrite <- app_assoc. apply tprefix_app. exact T1.
Qed.

Lemma write_seq_fs_none f ws : forall pos cnt,
  write_seq_fs fs_none f pos ws cnt = (seq_ops f pos ws, (pos + sum_N ws)%N, (cnt + length ws)%nat, ROk).
Proof.
  induction ws as [|len ws IH]; intros pos cnt; simpl.
  - now rewrite N.add_0_r, Nat.add_0_r.
  - rewrite do_write_fs_none, IH, N.add_assoc. simpl.
    replace (S (cnt + length ws)) with (cnt + S (length ws))%nat by lia. reflexivity.
Qed.

Lemma write_sections_fs_none secs : forall pos cnt,
  write_sections_fs fs_none secs pos cnt
  = (seq_ops IndexTmp pos (flat_map snd secs), (pos + sum_N (flat_map snd secs))%N,
     (cnt + length (flat_map snd secs))%nat, ROk).
Proof.
  induction secs as [|[k ws] secs IH]; intros pos cnt; simpl.
  - now rewrite N.add_0_r, Nat.add_0_r.
  - rewrite write_seq_fs_none, IH, seq_ops_app, sum_N_app, N.add_assoc, app_length.
    replace (cnt + length ws + length (flat_map snd secs))%nat with (cnt + (length ws + length (flat_map snd secs)))%nat by lia.
    reflexivity.
Qed.

Lemma seal_fs_none p : seal_fs p fs_none = (seal_ops p, ROk).
Proof.
  unfold seal_fs, seal_ops, pre_ops, sorted_docs_fs, sdocs_ops, write_index_fs, index_ops, flat_sizes.
  rewrite write_sections_fs_none, !do_write_fs_none.
  destruct (skip_sort p); simpl.
  - reflexivity.
  - rewrite write_seq_fs_none. simpl. now rewrite <- !app_assoc.
Qed.

(* ------------------------------------------------------------------ an error publishes nothing *)
Lemma err_no_publish_fs p fl :
  snd (seal_fs p fl) = RErr -> forallb no_publish_op (fst (seal_fs p fl)) = true.
Proof.
  unfold seal_fs.
  destruct (sorted_docs_fs fl p) as [o1 r1] eqn:E1.
  destruct (sorted_docs_fs_spec _ _ _ _ E1) as [T1 [K1 _]].
  assert (N1 : forallb no_publish_op o1 = true)
    by (apply (tprefix_forallb _ _ _ no_publish_torn T1 (no_publish_sdocs p))).
  destruct r1.
  - destruct (write_index_fs fl p) as [o2 r2] eqn:E2.
    destruct (write_index_fs_spec _ _ _ _ E2) as [T2 [K2 _]].
    destruct r2; simpl; [discriminate|]. intros _.
    rewrite forallb_app, N1. simpl.
    apply (tprefix_forallb _ _ _ no_publish_torn T2 (no_publish_index p)).
  - simpl. intros _. exact N1.
Qed.

(* ------------------------------------------------------------------ any failing write is reported *)
Lemma faultset_not_published p fl :
  fs_hits p fl ->
  snd (seal_fs p fl) = RErr
  /\ forallb no_publish_op (fst (seal_fs p fl)) = true
  /\ ((skip_sort p = false /\ exists k, (1 <= k <= length (sd_writes p))%nat /\ fl SdocsTmp k <> None)
      -> ~ In (ORename SdocsTmp Sdocs) (fst (seal_fs p fl))).
Proof.
  intros Hh.
  assert (R : snd (seal_fs p fl) = RErr).
  { unfold seal_fs.
    destruct (sorted_docs_fs fl p) as [o1 r1] eqn:E1.
    destruct (sorted_docs_fs_spec _ _ _ _ E1) as [_ [_ [H1 _]]].
    destruct r1; [|reflexivity].
    destruct (write_index_fs fl p) as [o2 r2] eqn:E2.
    destruct (write_index_fs_spec _ _ _ _ E2) as [_ [_ H2]].
    destruct r2; [|reflexivity]. simpl.
    destruct Hh as [[Sk Hk] | Hk].
    - specialize (H1 Sk Hk). discriminate.
    - specialize (H2 Hk). discriminate. }
  split; [exact R|]. split; [apply err_no_publish_fs; exact R|].
  intros [Sk Hk]. unfold seal_fs.
  destruct (sorted_docs_fs fl p) as [o1 r1] eqn:E1.
  destruct (sorted_docs_fs_spec _ _ _ _ E1) as [_ [_ [H1 N1]]].
  rewrite (H1 Sk Hk) in *. simpl. intros [X|X]; [discriminate|]. now apply N1.
Qed.

(* ------------------------------------------------------------------ crash during a run with any fault set *)
Lemma crash_atomic_fs p fl s0 l keep :
  inv p s0 -> tprefix l (fst (seal_fs p fl)) ->
  let s := power_loss keep (run l s0) in
  (inv p s \/ sealed_state p s) /\ serves_all p (load s) = true.
Proof.
  intros Hinv Hl s.
  assert (G : good p s).
  { apply good_power_loss. apply good_after_ops; auto.
    eapply tprefix_trans; [exact Hl|]. apply seal_fs_spec. }
  split; auto. now apply good_serves.
Qed.

(* removal of the originals only in a run that returned no error, after everything else *)
Lemma originals_last_fs p fl a f b :
  fst (seal_fs p fl) = a ++ OUnlink f :: b -> snd (seal_fs p fl) = ROk.
Proof.
  intros H. destruct (snd (seal_fs p fl)) eqn:R; [reflexivity|].
  assert (N := err_no_publish_fs p fl R). rewrite H, forallb_app in N.
  apply andb_true_iff in N. destruct N as [_ N]. simpl in N. discriminate.
Qed.
