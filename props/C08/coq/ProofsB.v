(* C08 — part B: directory states reached by sealing, crashes, power loss and restart. *)
From Coq Require Import List Bool Arith NArith Lia.
From C08 Require Import Model ProofsA.
Import ListNotations.

Definition synced (c : content) : content := mkC (cw c) (clen c) (clen c) (corig c).

Lemma run_fsync_rename s f g c :
  s f = Some c ->
  run [OFsync f; ORename f g] s = upd (upd (upd s f (Some (synced c))) f None) g (Some (synced c)).
Proof. intros H. unfold run. simpl. rewrite H. rewrite upd_same. reflexivity. Qed.

(* the directory right after all writes of a fault-free seal, before the index is published *)
Lemma after_pre p s0 :
  inv p s0 ->
  let s1 := run (pre_ops p) s0 in
  s1 Docs = s0 Docs /\ s1 Meta = s0 Meta /\ s1 Index = s0 Index /\
  (exists ci, s1 IndexTmp = Some ci /\ cw ci = index_writes p /\ wfc ci) /\
  (if skip_sort p then s1 Sdocs = None
   else complete (sdocs_writes p) (s1 Sdocs) = true /\ durable (s1 Sdocs) = true).
Proof.
  intros Hinv s1.
  assert (T := tmp_only_pre p).
  split. { apply run_tmp_only with (sk := skip_sort p); auto. discriminate. }
  split. { apply run_tmp_only with (sk := skip_sort p); auto. discriminate. }
  split. { apply run_tmp_only with (sk := skip_sort p); auto. discriminate. }
  unfold s1, pre_ops. clear s1.
  change (OCreate IndexTmp :: sdocs_ops p ++ index_ops p) with ([OCreate IndexTmp] ++ sdocs_ops p ++ index_ops p).
  rewrite !run_app.
  set (sa := run [OCreate IndexTmp] s0).
  assert (Ha : sa IndexTmp = Some empty_c) by (unfold sa, run; simpl; apply upd_same).
  assert (Hsd : sa Sdocs = s0 Sdocs) by reflexivity.
  set (sb := run (sdocs_ops p) sa).
  (* the index temp file is not touched by the sorted-docs phase *)
  assert (Hb : sb IndexTmp = Some empty_c /\
               (if skip_sort p then sb Sdocs = s0 Sdocs
                else complete (sdocs_writes p) (sb Sdocs) = true /\ durable (sb Sdocs) = true)).
  { unfold sb, sdocs_writes, sdocs_ops. destruct (skip_sort p) eqn:Sk.
    - simpl. split; auto.
    - change (OCreate SdocsTmp :: seq_ops SdocsTmp 0 (sd_writes p) ++ [OFsync SdocsTmp; ORename SdocsTmp Sdocs])
        with ([OCreate SdocsTmp] ++ seq_ops SdocsTmp 0 (sd_writes p) ++ [OFsync SdocsTmp; ORename SdocsTmp Sdocs]).
      rewrite !run_app.
      set (s2 := run [OCreate SdocsTmp] sa).
      assert (H2 : s2 SdocsTmp = Some empty_c) by (unfold s2, run; simpl; apply upd_same).
      destruct (run_writes SdocsTmp (seq_ops SdocsTmp 0 (sd_writes p)) s2 empty_c (writes_on_seq_ops SdocsTmp 0%N (sd_writes p)) H2)
        as [c' [R [W [Wf [_ [Sy Ot]]]]]].
      set (s3 := run (seq_ops SdocsTmp 0 (sd_writes p)) s2) in *.
      rewrite (run_fsync_rename s3 SdocsTmp Sdocs c' R).
      split.
      + unfold upd; simpl. rewrite Ot by reflexivity. unfold s2, run; simpl. unfold upd; simpl. exact Ha.
      + unfold upd; simpl. rewrite !writes_of_app. simpl. rewrite app_nil_r.
        split.
        * apply complete_of; simpl; auto. apply (Wf eq_refl).
        * apply N.eqb_refl.
  }
  destruct Hb as [Hb1 Hb2].
  destruct (run_writes IndexTmp (index_ops p) sb empty_c (writes_on_index_ops p) Hb1) as [ci [R [W [Wf [_ [Sy Ot]]]]]].
  split.
  - exists ci. split; auto. split; auto. apply (Wf eq_refl).
  - rewrite Ot by reflexivity. destruct (skip_sort p) eqn:Sk; auto.
    rewrite Hb2. destruct Hinv as [_ [_ Hs]]. rewrite Sk in Hs. exact Hs.
Qed.

(* ------------------------------------------------------------------ power loss *)
Lemma cut_durable c k : (csync c =? clen c)%N = true -> cut c k = mkC (cw c) (clen c) (csync c) (corig c).
Proof.
  intros H. apply N.eqb_eq in H. unfold cut.
  replace (N.min (clen c) (N.max (csync c) k)) with (clen c) by lia.
  rewrite N.eqb_refl, andb_true_r. reflexivity.
Qed.

Lemma intact_power_loss keep s f : intact (s f) = true -> intact (power_loss keep s f) = true.
Proof.
  unfold power_loss, intact. destruct (s f) as [c|]; auto. intros H.
  apply andb_true_iff in H. destruct H as [H1 H2]. rewrite (cut_durable _ _ H2). simpl. now rewrite H1, H2.
Qed.

Lemma none_power_loss keep s f : s f = None -> power_loss keep s f = None.
Proof. unfold power_loss. now intros ->. Qed.

Lemma complete_power_loss keep s f ws :
  complete ws (s f) = true -> durable (s f) = true ->
  complete ws (power_loss keep s f) = true /\ durable (power_loss keep s f) = true.
Proof.
  unfold power_loss, complete, durable. destruct (s f) as [c|]; auto. intros H1 H2.
  rewrite (cut_durable _ _ H2). simpl. auto.
Qed.

Lemma good_power_loss p keep s : good p s -> good p (power_loss keep s).
Proof.
  intros [[A [B C]] | [A [B [C [D E]]]]].
  - left. split; [|split].
    + now apply intact_power_loss.
    + now apply intact_power_loss.
    + destruct (skip_sort p); now apply none_power_loss.
  - right. destruct (complete_power_loss keep s Index _ A B) as [A' B'].
    split; auto. split; auto.
    split. { destruct C as [C|C]; [left; now apply none_power_loss | right; now apply intact_power_loss]. }
    split. { destruct D as [D|D]; [left; now apply none_power_loss | right; now apply intact_power_loss]. }
    destruct (skip_sort p).
    + destruct E as [E1 E2]. split. now apply none_power_loss. now apply intact_power_loss.
    + destruct E as [E1 E2]. now apply complete_power_loss.
Qed.

(* ------------------------------------------------------------------ restart *)
Lemma intact_some o : intact o = true -> exists c, o = Some c.
Proof. destruct o; simpl; eauto; discriminate. Qed.

Lemma complete_some ws o : complete ws o = true -> exists c, o = Some c.
Proof. destruct o; simpl; eauto; discriminate. Qed.

Lemma good_serves p s : good p s -> serves_all p (load s) = true.
Proof.
  intros [[A [B C]] | [A [B [C [D E]]]]].
  - destruct (intact_some _ A) as [cd Hd]. destruct (intact_some _ B) as [cm Hm].
    unfold load, has. rewrite Hd, Hm. simpl.
    assert (X : (match s Sdocs with Some _ => true | None => false end
                 && match s Index with Some _ => true | None => false end) = false).
    { destruct (skip_sort p); rewrite C; simpl; auto. now rewrite andb_false_r. }
    rewrite X. unfold serves_all. simpl. rewrite A, B. reflexivity.
  - destruct (complete_some _ _ A) as [ci Hi].
    unfold load, has. rewrite Hi. destruct (skip_sort p) eqn:Sk.
    + destruct E as [E1 E2]. destruct (intact_some _ E2) as [cd Hd]. rewrite Hd, E1. simpl.
      destruct D as [D|D].
      * rewrite D. unfold serves_all, has. simpl. rewrite Hi, Hd, Sk. rewrite <- Hi, <- Hd, A, E2. reflexivity.
      * destruct (intact_some _ D) as [cm Hm]. rewrite Hm. unfold serves_all. simpl.
        rewrite Hd, Hm. rewrite <- Hd, <- Hm, E2, D. reflexivity.
    + destruct E as [E1 E2]. destruct (complete_some _ _ E1) as [cs Hs]. rewrite Hs.
      rewrite orb_true_r. simpl. rewrite orb_true_r. simpl.
      unfold serves_all, has. simpl. unfold upd. simpl. rewrite Hi, Hs, Sk.
      rewrite <- Hi, <- Hs, A, E1. reflexivity.
Qed.

(* the loader's own changes of the directory keep the state good; a fraction that comes up
   active is again in a state from which sealing may start *)
Lemma good_load p s : good p s -> good p (snd (load s)) /\ (fst (load s) = LActive -> inv p (snd (load s))).
Proof.
  intros [[A [B C]] | [A [B [C [D E]]]]].
  - destruct (intact_some _ A) as [cd Hd]. destruct (intact_some _ B) as [cm Hm].
    unfold load, has. rewrite Hd, Hm. simpl.
    assert (X : (match s Sdocs with Some _ => true | None => false end
                 && match s Index with Some _ => true | None => false end) = false).
    { destruct (skip_sort p); rewrite C; simpl; auto. now rewrite andb_false_r. }
    rewrite X. simpl. split; [left|intros _]; (split; [|split]; auto).
  - destruct (complete_some _ _ A) as [ci Hi].
    unfold load, has. rewrite Hi. destruct (skip_sort p) eqn:Sk.
    + destruct E as [E1 E2]. destruct (intact_some _ E2) as [cd Hd]. rewrite Hd, E1. simpl.
      destruct D as [D|D].
      * rewrite D. simpl. split; [|discriminate]. right.
        split; auto. split; auto. split; auto. split; auto. rewrite Sk. auto.
      * destruct (intact_some _ D) as [cm Hm]. rewrite Hm. simpl.
        assert (I : inv p s). { split; auto. split; auto. now rewrite Sk. }
        split; [left|intros _]; exact I.
    + destruct E as [E1 E2]. destruct (complete_some _ _ E1) as [cs Hs]. rewrite Hs.
      rewrite orb_true_r. simpl. rewrite orb_true_r. simpl. split; [|discriminate]. right.
      unfold sealed_state, upd. simpl. rewrite Sk. auto 10.
Qed.

(* ------------------------------------------------------------------ every crash point *)
Lemma tmp_only_torn sk f off len n : tmp_only sk (OWrite f off n) = tmp_only sk (OWrite f off len).
Proof. reflexivity. Qed.

(* crash inside the publishing tail: either the four final names are as after the writes, or the
   seal is complete *)
Lemma publish_cases p s0 l' :
  inv p s0 -> tprefix l' (publish_ops p) ->
  let s1 := run (pre_ops p) s0 in
  (run l' s1 Docs = s1 Docs /\ run l' s1 Meta = s1 Meta /\ run l' s1 Index = s1 Index /\ run l' s1 Sdocs = s1 Sdocs)
  \/ sealed_state p (run l' s1).
Proof.
  intros Hinv H s1.
  destruct (after_pre p s0 Hinv) as [Hd [Hm [Hi [[ci [Hit [Hcw Hwf]]] Hs]]]].
  fold s1 in Hd, Hm, Hi, Hit, Hs.
  destruct Hinv as [A [B C]].
  unfold publish_ops in H. simpl in H.
  destruct (tprefix_cons_inv _ _ _ H eq_refl) as [-> | [l1 [-> H1]]]; [left; auto|].
  destruct (tprefix_cons_inv _ _ _ H1 eq_refl) as [-> | [l2 [-> H2]]].
  { left. unfold run. simpl. rewrite Hit. auto. }
  right.
  assert (S2 : sealed_state p (run [OFsync IndexTmp; ORename IndexTmp Index] s1)).
  { rewrite (run_fsync_rename s1 IndexTmp Index ci Hit). unfold sealed_state, upd. simpl.
    split. { apply complete_of; simpl; auto. }
    split. { apply N.eqb_refl. }
    split. { right. now rewrite Hd. }
    split. { right. now rewrite Hm. }
    destruct (skip_sort p); auto. split; auto. now rewrite Hd. }
  set (s2 := run [OFsync IndexTmp; ORename IndexTmp Index] s1) in *.
  change (OFsync IndexTmp :: ORename IndexTmp Index :: l2) with ([OFsync IndexTmp; ORename IndexTmp Index] ++ l2).
  rewrite run_app. fold s2.
  destruct (tprefix_cons_inv _ _ _ H2 eq_refl) as [-> | [l3 [-> H3]]]; [exact S2|].
  destruct (tprefix_cons_inv _ _ _ H3 eq_refl) as [-> | [l4 [-> H4]]]; [exact S2|].
  assert (S3 : sealed_state p (run [OFsyncDir; OUnlink Meta] s2)).
  { destruct S2 as [X1 [X2 [X3 [X4 X5]]]]. unfold run, sealed_state, upd. simpl.
    split; [exact X1|]. split; [exact X2|]. split; [exact X3|]. split; [left; reflexivity|]. exact X5. }
  destruct (skip_sort p) eqn:Sk.
  + apply tprefix_nil_inv in H4. subst. exact S3.
  + destruct (tprefix_cons_inv _ _ _ H4 eq_refl) as [-> | [l5 [-> H5]]]; [exact S3|].
    apply tprefix_nil_inv in H5. subst.
    destruct S2 as [X1 [X2 [X3 [X4 X5]]]]. unfold run, sealed_state, upd. simpl.
    rewrite Sk in *.
    split; [exact X1|]. split; [exact X2|]. split; [left; reflexivity|].
    split; [left; reflexivity|]. exact X5.
Qed.

Lemma inv_after_pre p s0 : inv p s0 -> inv p (run (pre_ops p) s0).
Proof. intros H. apply inv_tmp_only; auto. apply tmp_only_pre. Qed.

Lemma good_after_ops p s0 l :
  inv p s0 -> tprefix l (seal_ops p) -> good p (run l s0).
Proof.
  intros Hinv Hl. unfold seal_ops in Hl.
  destruct (tprefix_app_inv _ _ _ Hl) as [H | [l' [-> H]]].
  - left. apply inv_tmp_only; auto.
    apply (tprefix_forallb _ _ _ (tmp_only_torn (skip_sort p)) H (tmp_only_pre p)).
  - rewrite run_app.
    destruct (publish_cases p s0 l' Hinv H) as [[E1 [E2 [E3 E4]]] | S]; [|now right].
    left. apply (inv_ext p (run (pre_ops p) s0)); auto. now apply inv_after_pre.
Qed.

(* main lemma: any torn prefix of a seal run (with or without a write fault), any power loss *)
Lemma crash_atomic p flt s0 l keep :
  inv p s0 -> tprefix l (fst (seal p flt)) ->
  let s := power_loss keep (run l s0) in
  good p s /\ serves_all p (load s) = true.
Proof.
  intros Hinv Hl s.
  assert (G : good p s).
  { apply good_power_loss. apply good_after_ops; auto.
    eapply tprefix_trans; [exact Hl|]. apply seal_spec. }
  split; auto. now apply good_serves.
Qed.

Lemma crash_atomic_exec p flt s0 j n keep :
  inv p s0 -> serves_all p (load (crash_state (fst (seal p flt)) s0 j n keep)) = true.
Proof.
  intros Hinv. unfold crash_state.
  apply (crash_atomic p flt s0 _ keep Hinv (torn_ops_tprefix _ j n)).
Qed.

(* the loader never looks at the temp files *)
Lemma load_ignores_tmp s f v : is_tmp f = true -> fst (load (upd s f v)) = fst (load s).
Proof.
  intros Hf. unfold load, has, upd. destruct f; try discriminate; simpl;
  destruct (s Docs), (s Sdocs), (s Meta), (s Index); reflexivity.
Qed.
