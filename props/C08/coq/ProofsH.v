(* C08 — part G: the spec checker of CaseDefs.v holds on the model's outputs for the fault-set,
   transient-seal and generator cases. *)
From Coq Require Import List Bool Arith NArith Lia.
From VLib Require Import CaseLib.
From C08 Require Import Model ModelGen CaseDefs ProofsA ProofsB ProofsC ProofsFS ProofsGen.
Import ListNotations.

Lemma fs_hits_upto_ex fl f n :
  fs_hits_upto fl f n = true -> exists k, (1 <= k <= n)%nat /\ fl f k <> None.
Proof.
  unfold fs_hits_upto. intros H. apply existsb_exists in H. destruct H as [k [Hk Hf]].
  apply in_seq in Hk. exists k. split; [lia|]. destruct (fl f k); [discriminate|discriminate].
Qed.

Lemma spec_faultset_model p fl pers :
  let r := seal_fs p (fs_index fl pers) in
  case_spec_ok (CFaultSet p fl pers (res_is_err (snd r)) (writes_of IndexTmp (fst r))) = true.
Proof.
  intros r. simpl.
  destruct (fs_hits_upto (fs_index fl pers) IndexTmp (total_index_writes p)) eqn:E; [|now rewrite orb_true_r].
  apply fs_hits_upto_ex in E.
  assert (H : fs_hits p (fs_index fl pers)) by (right; exact E).
  destruct (faultset_not_published _ _ H) as [R _]. unfold r. rewrite R. reflexivity.
Qed.

(* ------------------------------------------------------------------ a failed seal touches temp files only *)
Lemma seal_fs_err_pre p fl :
  snd (seal_fs p fl) = RErr -> tprefix (fst (seal_fs p fl)) (pre_ops p).
Proof.
  unfold seal_fs, pre_ops.
  destruct (sorted_docs_fs fl p) as [o1 r1] eqn:E1.
  destruct (sorted_docs_fs_spec _ _ _ _ E1) as [T1 [K1 _]].
  destruct r1.
  - rewrite (K1 eq_refl).
    destruct (write_index_fs fl p) as [o2 r2] eqn:E2.
    destruct (write_index_fs_spec _ _ _ _ E2) as [T2 [K2 _]].
    destruct r2; simpl; [discriminate|]. intros _.
    constructor. apply tprefix_app_r. exact T2.
  - simpl. intros _. constructor. apply tprefix_app. exact T1.
Qed.

Lemma inb_names s f : inb f (names s) = has s f.
Proof.
  unfold inb, names, all_names, has. simpl.
  destruct f; destruct (s Docs), (s Meta), (s SdocsTmp), (s Sdocs), (s IndexTmp), (s Index); reflexivity.
Qed.

Lemma has_init_index init : has (init_fs init) Index = mem_name Index init.
Proof. unfold has, init_fs, mem_name. destruct (lookup Index init); reflexivity. Qed.

Lemma intact_has o : intact o = true -> match o with Some _ => true | None => false end = true.
Proof. destruct o; auto. Qed.

Lemma spec_sealt_model p init k :
  inv p (init_fs init) ->
  let r := seal_fs p (fs_kth k) in
  let s := run (fst r) (init_fs init) in
  case_spec_ok (CSealT p init k (res_is_err (snd r)) (names s) (intact (s Docs) && intact (s Meta))) = true.
Proof.
  intros Hinv r s. simpl.
  destruct (Nat.eqb k 0) eqn:E0; [reflexivity|].
  destruct (Nat.ltb (total_index_writes p) k) eqn:E1; [reflexivity|]. simpl.
  apply Nat.eqb_neq in E0. apply Nat.ltb_ge in E1. unfold total_index_writes in E1.
  assert (H : fs_hits p (fs_kth k)).
  { right. exists k. split; [lia|]. unfold fs_kth, fs_index. simpl. rewrite Nat.eqb_refl. discriminate. }
  destruct (faultset_not_published _ _ H) as [R _].
  assert (T := seal_fs_err_pre p _ R).
  assert (F : forallb (tmp_only (skip_sort p)) (fst (seal_fs p (fs_kth k))) = true)
    by apply (tprefix_forallb _ _ _ (tmp_only_torn (skip_sort p)) T (tmp_only_pre p)).
  assert (Hd : s Docs = init_fs init Docs) by (apply run_tmp_only with (sk := skip_sort p); auto; discriminate).
  assert (Hm : s Meta = init_fs init Meta) by (apply run_tmp_only with (sk := skip_sort p); auto; discriminate).
  assert (Hi : s Index = init_fs init Index) by (apply run_tmp_only with (sk := skip_sort p); auto; discriminate).
  destruct Hinv as [A [B _]].
  rewrite !inb_names. unfold has at 1 2. rewrite Hd, Hm, A, B, (intact_has _ A), (intact_has _ B). simpl.
  rewrite <- has_init_index. unfold has. rewrite Hi. destruct (init_fs init Index); reflexivity.
Qed.

(* ------------------------------------------------------------------ generators *)
Lemma spec_gen_lids_model cap fields fl pers :
  (0 < cap)%N ->
  exists tr r, gen_lids cap fields (oracle_of fl pers) = Some (tr, r)
               /\ case_spec_ok (CGenLIDs cap fields fl pers tr (res_is_err r)) = true.
Proof.
  intros Hc. destruct (gen_lids_propagates cap fields (oracle_of fl pers) Hc) as [tr [r [E P]]].
  exists tr, r. split; auto. simpl. change (res_is_err r) with (res_err r). now apply propagated_b_model.
Qed.

Lemma spec_gen_ids_model size n fl pers :
  (0 < size)%N ->
  exists tr r, gen_ids size n (oracle_of fl pers) = Some (tr, r)
               /\ case_spec_ok (CGenIDs size n fl pers tr (res_is_err r)) = true.
Proof.
  intros Hs. destruct (gen_ids_propagates size n (oracle_of fl pers) Hs) as [tr [r [E P]]].
  exists tr, r. split; auto. simpl. change (res_is_err r) with (res_err r). now apply propagated_b_model.
Qed.

Lemma spec_gen_tokens_model rbs fields fl pers :
  exists tr r, gen_tokens rbs fields (oracle_of fl pers) = Some (tr, r)
               /\ case_spec_ok (CGenTokens rbs fields fl pers tr (res_is_err r)) = true.
Proof.
  destruct (gen_tokens_propagates rbs fields (oracle_of fl pers)) as [tr [r [E P]]].
  exists tr, r. split; auto. simpl. change (res_is_err r) with (res_err r). now apply propagated_b_model.
Qed.

Lemma spec_gen_table_model fields fl pers :
  let m := gen_token_table fields (oracle_of fl pers) in
  case_spec_ok (CGenTable fields fl pers (fst m) (res_is_err (snd m))) = true.
Proof.
  intros m. simpl. change (res_is_err (snd m)) with (res_err (snd m)).
  apply propagated_b_model. apply gen_token_table_propagates.
Qed.

Lemma spec_gen_all :
  (forall cap fields fl pers, (0 < cap)%N ->
     exists tr r, gen_lids cap fields (oracle_of fl pers) = Some (tr, r)
                  /\ case_spec_ok (CGenLIDs cap fields fl pers tr (res_is_err r)) = true)
  /\ (forall size n fl pers, (0 < size)%N ->
     exists tr r, gen_ids size n (oracle_of fl pers) = Some (tr, r)
                  /\ case_spec_ok (CGenIDs size n fl pers tr (res_is_err r)) = true)
  /\ (forall rbs fields fl pers,
     exists tr r, gen_tokens rbs fields (oracle_of fl pers) = Some (tr, r)
                  /\ case_spec_ok (CGenTokens rbs fields fl pers tr (res_is_err r)) = true)
  /\ (forall fields fl pers,
     let m := gen_token_table fields (oracle_of fl pers) in
     case_spec_ok (CGenTable fields fl pers (fst m) (res_is_err (snd m))) = true).
Proof.
  split; [exact spec_gen_lids_model|]. split; [exact spec_gen_ids_model|].
  split; [exact spec_gen_tokens_model|exact spec_gen_table_model].
Qed.

Lemma every_push_error_propagates :
  (forall cap fields o, (0 < cap)%N -> exists tr r, gen_lids cap fields o = Some (tr, r) /\ propagated o tr r)
  /\ (forall size n o, (0 < size)%N -> exists tr r, gen_ids size n o = Some (tr, r) /\ propagated o tr r)
  /\ (forall rbs fields o, exists tr r, gen_tokens rbs fields o = Some (tr, r) /\ propagated o tr r)
  /\ (forall fields o, propagated o (fst (gen_token_table fields o)) (snd (gen_token_table fields o))).
Proof.
  split; [exact gen_lids_propagates|]. split; [exact gen_ids_propagates|].
  split; [exact gen_tokens_propagates|exact gen_token_table_propagates].
Qed.
