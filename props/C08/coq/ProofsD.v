(* C08 — part D: the spec checker of CaseDefs.v holds on everything the model produces. *)
From Coq Require Import List Bool Arith NArith Lia.
From VLib Require Import CaseLib.
From C08 Require Import Model CaseDefs ProofsA ProofsB ProofsC.
Import ListNotations.

(* ------------------------------------------------------------------ write faults *)
Lemma spec_fault_model p k n :
  let r := seal p (Some (mkFault IndexTmp k n)) in
  case_spec_ok (CFault p k n (res_is_err (snd r)) (writes_of IndexTmp (fst r))) = true.
Proof.
  intros r. simpl. unfold total_index_writes.
  destruct (Nat.eqb k 0) eqn:E0; [now rewrite orb_true_r|].
  destruct (Nat.ltb (length (flat_sizes p) + 2) k) eqn:E1; [now rewrite orb_true_r|].
  apply Nat.eqb_neq in E0. apply Nat.ltb_ge in E1.
  assert (H : fault_hits p (mkFault IndexTmp k n)) by (left; simpl; split; auto; lia).
  destruct (fault_not_published _ _ H) as [R _]. unfold r. rewrite R. reflexivity.
Qed.

(* ------------------------------------------------------------------ the fault-free log is safe *)
Lemma fold_sd ws : forall pos b c d e,
  fold_left log_step (seq_ops SdocsTmp pos ws) (mkL true b c d e) = mkL true b c d e.
Proof. induction ws; intros; simpl; auto. Qed.

Lemma fold_ix ws : forall pos a c d e,
  fold_left log_step (seq_ops IndexTmp pos ws) (mkL a true c d e) = mkL a true c d e.
Proof. induction ws; intros; simpl; auto. Qed.

Lemma spec_trace_model p : case_spec_ok (CTrace p (fst (seal p None)) true) = true.
Proof.
  rewrite seal_nofault. simpl. rewrite andb_true_r.
  unfold log_safe, seal_ops, pre_ops, sdocs_ops, index_ops, publish_ops.
  destruct (skip_sort p); simpl; repeat (rewrite !fold_left_app; simpl);
    rewrite ?fold_sd, ?fold_ix; simpl; rewrite ?fold_ix; reflexivity.
Qed.

(* ------------------------------------------------------------------ crash states: what is published *)
(* relation between the directory before the seal and a crash state of it: either nothing new is
   published except possibly a complete durable .sdocs, or the seal is complete *)
Definition rel (p : plan) (s0 s : fs) : Prop :=
  (inv p s /\ (has s Index = true -> has s0 Index = true) /\
   ((has s Sdocs = true -> has s0 Sdocs = true)
    \/ (complete (sdocs_writes p) (s Sdocs) = true /\ durable (s Sdocs) = true)))
  \/ sealed_state p s.

Definition sd1_ops (p : plan) : list op :=
  OCreate SdocsTmp :: seq_ops SdocsTmp 0 (sd_writes p) ++ [OFsync SdocsTmp].

Lemma pre_ops_split p :
  skip_sort p = false ->
  pre_ops p = (OCreate IndexTmp :: sd1_ops p) ++ (ORename SdocsTmp Sdocs :: index_ops p).
Proof.
  intros Sk. unfold pre_ops, sdocs_ops, sd1_ops. rewrite Sk. simpl. f_equal. f_equal.
  rewrite <- !app_assoc. reflexivity.
Qed.

Lemma tmp_strict_sd1 p : forallb (tmp_only true) (OCreate IndexTmp :: sd1_ops p) = true.
Proof. unfold sd1_ops. simpl. rewrite forallb_app, tmp_only_seq_ops; auto. Qed.

Lemma tmp_strict_index p : forallb (tmp_only true) (index_ops p) = true.
Proof. unfold index_ops. rewrite forallb_app, tmp_only_seq_ops; auto. Qed.

Lemma run_strict l s g : forallb (tmp_only true) l = true -> is_tmp g = false -> run l s g = s g.
Proof. intros. apply run_tmp_only with (sk := true); auto. Qed.

Lemma rel_after_ops p s0 l : inv p s0 -> tprefix l (seal_ops p) -> rel p s0 (run l s0).
Proof.
  intros Hinv Hl.
  destruct (after_pre p s0 Hinv) as [Hd [Hm [Hi [[ci [Hit [Hcw Hwf]]] Hs]]]].
  set (s1 := run (pre_ops p) s0) in *.
  unfold seal_ops in Hl.
  destruct (tprefix_app_inv _ _ _ Hl) as [H | [l' [-> H]]].
  - (* inside the writes *)
    assert (T : forallb (tmp_only (skip_sort p)) l = true)
      by apply (tprefix_forallb _ _ _ (tmp_only_torn (skip_sort p)) H (tmp_only_pre p)).
    left. split. { apply inv_tmp_only; auto. }
    split. { unfold has. rewrite (run_tmp_only (skip_sort p) l s0 Index T); auto. discriminate. }
    destruct (skip_sort p) eqn:Sk.
    + left. unfold has. rewrite (run_tmp_only true l s0 Sdocs T); auto.
    + rewrite (pre_ops_split p Sk) in H.
      destruct (tprefix_app_inv _ _ _ H) as [H1 | [l1 [-> H1]]].
      * left. unfold has. rewrite run_strict; auto.
        apply (tprefix_forallb _ _ _ (tmp_only_torn true) H1 (tmp_strict_sd1 p)).
      * destruct (tprefix_cons_inv _ _ _ H1 eq_refl) as [-> | [l2 [-> H2]]].
        -- left. rewrite app_nil_r. unfold has. rewrite run_strict; auto. apply tmp_strict_sd1.
        -- right.
           assert (E : run ((OCreate IndexTmp :: sd1_ops p) ++ ORename SdocsTmp Sdocs :: l2) s0 Sdocs = s1 Sdocs).
           { unfold s1. rewrite (pre_ops_split p Sk).
             change (ORename SdocsTmp Sdocs :: l2) with ([ORename SdocsTmp Sdocs] ++ l2).
             change (ORename SdocsTmp Sdocs :: index_ops p) with ([ORename SdocsTmp Sdocs] ++ index_ops p).
             rewrite !run_app. rewrite run_strict; auto.
             - symmetry. apply run_strict; auto. apply tmp_strict_index.
             - apply (tprefix_forallb _ _ _ (tmp_only_torn true) H2 (tmp_strict_index p)). }
           rewrite E. exact Hs.
  - (* after all writes *)
    rewrite run_app. fold s1.
    destruct (publish_cases p s0 l' Hinv H) as [[E1 [E2 [E3 E4]]] | S]; [|now right].
    fold s1 in E1, E2, E3, E4.
    left. split. { apply (inv_ext p s1); auto. now apply inv_after_pre. }
    split. { unfold has. rewrite E3, Hi. auto. }
    destruct (skip_sort p) eqn:Sk.
    + left. unfold has. rewrite E4, Hs. discriminate.
    + right. rewrite E4. exact Hs.
Qed.

Lemma has_power_loss keep s f : has (power_loss keep s) f = has s f.
Proof. unfold has, power_loss. destruct (s f); reflexivity. Qed.

Lemma rel_power_loss p s0 keep s : rel p s0 s -> rel p s0 (power_loss keep s).
Proof.
  intros [[I [Hi Hs]] | S].
  - left. assert (G : good p (power_loss keep s)) by (apply good_power_loss; now left).
    split. { destruct I as [A [B C]]. split; [now apply intact_power_loss|]. split; [now apply intact_power_loss|].
             destruct (skip_sort p); now apply none_power_loss. }
    split. { now rewrite has_power_loss. }
    destruct Hs as [Hs | [Hs1 Hs2]].
    + left. now rewrite has_power_loss.
    + right. now apply complete_power_loss.
  - right. assert (G : good p (power_loss keep s)) by (apply good_power_loss; now right).
    destruct S as [A [B [C [D E]]]].
    destruct (complete_power_loss keep s Index _ A B) as [A' B'].
    split; auto. split; auto.
    split. { destruct C as [C|C]; [left; now apply none_power_loss | right; now apply intact_power_loss]. }
    split. { destruct D as [D|D]; [left; now apply none_power_loss | right; now apply intact_power_loss]. }
    destruct (skip_sort p).
    + destruct E as [E1 E2]. split. now apply none_power_loss. now apply intact_power_loss.
    + destruct E as [E1 E2]. now apply complete_power_loss.
Qed.

(* ------------------------------------------------------------------ sizes *)
Lemma lookup_sizes s f : lookup f (sizes s) = match s f with Some c => Some (clen c) | None => None end.
Proof.
  unfold sizes, all_names.
  destruct f; simpl;
  destruct (s Docs), (s Meta), (s SdocsTmp), (s Sdocs), (s IndexTmp), (s Index); reflexivity.
Qed.

Lemma mem_name_sizes s f : mem_name f (sizes s) = has s f.
Proof. unfold mem_name, has. rewrite lookup_sizes. destruct (s f); reflexivity. Qed.

Lemma mem_name_init init f : mem_name f init = has (init_fs init) f.
Proof. unfold mem_name, has, init_fs. destruct (lookup f init); reflexivity. Qed.

Lemma has_size_sizes s f n :
  has_size f n (sizes s) = match s f with Some c => (clen c =? n)%N | None => false end.
Proof. unfold has_size. rewrite lookup_sizes. destruct (s f); reflexivity. Qed.

Local Arguments N.add : simpl never.
Local Arguments N.max : simpl never.

Lemma wlen_seq f pos ws : forall m,
  fold_left (fun m x => N.max m (fst x + snd x)) (writes_of f (seq_ops f pos ws)) m
  = match ws with [] => m | _ => N.max m (pos + sum_N ws) end.
Proof.
  revert pos. induction ws as [|l ws IH]; intros pos m; simpl; auto.
  rewrite fname_eqb_refl. simpl. rewrite IH. destruct ws; simpl; lia.
Qed.

Lemma wlen_index p : wlen (index_writes p) = full_index_len p.
Proof.
  unfold wlen, index_writes, index_ops, full_index_len. rewrite writes_of_app, fold_left_app, wlen_seq.
  simpl. destruct (flat_sizes p); simpl; lia.
Qed.

Lemma wlen_sdocs p : skip_sort p = false -> wlen (sdocs_writes p) = full_sdocs_len p.
Proof.
  intros Sk. unfold wlen, sdocs_writes, sdocs_ops, full_sdocs_len. rewrite Sk. simpl.
  rewrite writes_of_app, fold_left_app, wlen_seq. simpl. destruct (sd_writes p); simpl; lia.
Qed.

Lemma complete_size ws o : complete ws o = true -> match o with Some c => (clen c =? wlen ws)%N | None => false end = true.
Proof. unfold complete. destruct o; auto. intros H. apply andb_true_iff in H. tauto. Qed.

(* every crash state of the model satisfies the spec checker applied to the model's own outputs *)
Lemma spec_crash_model p init j n keep :
  inv p (init_fs init) ->
  let s := crash_state (fst (seal p None)) (init_fs init) j n (keep_fn keep) in
  let r := load s in
  case_spec_ok (CCrash p init j n keep (sizes s) (fst r) (names (snd r)) (serves_all p r)) = true.
Proof.
  intros Hinv s r.
  assert (Hl : tprefix (torn_ops (fst (seal p None)) j n) (seal_ops p)).
  { eapply tprefix_trans; [apply torn_ops_tprefix|]. apply seal_spec. }
  assert (R : rel p (init_fs init) s).
  { unfold s, crash_state. apply rel_power_loss. now apply rel_after_ops. }
  assert (Sv : serves_all p r = true).
  { unfold r, s. now apply crash_atomic_exec. }
  simpl. rewrite Sv. simpl.
  assert (K : (lkind_eqb (fst r) LActive || lkind_eqb (fst r) LSealed) = true).
  { unfold serves_all in Sv. destruct (fst r); auto. }
  rewrite K. simpl.
  rewrite !mem_name_sizes, !mem_name_init, !has_size_sizes.
  destruct R as [[[A [B C]] [Hi Hs]] | [A [B [C [D E]]]]].
  - destruct (intact_some _ A) as [cd Hd]. destruct (intact_some _ B) as [cm Hm].
    unfold has at 5 6. rewrite Hd, Hm. simpl. rewrite andb_true_r.
    apply andb_true_iff. split.
    + destruct (has s Index) eqn:E; simpl; auto. rewrite (Hi eq_refl). reflexivity.
    + destruct Hs as [Hs | [Hs1 Hs2]].
      * destruct (has s Sdocs) eqn:E; simpl; auto. rewrite (Hs eq_refl). reflexivity.
      * destruct (skip_sort p) eqn:Sk.
        -- unfold has. rewrite C. reflexivity.
        -- apply complete_size in Hs1. rewrite (wlen_sdocs p Sk) in Hs1. rewrite Hs1. now rewrite !orb_true_r.
  - apply complete_size in A. rewrite wlen_index in A. rewrite A. rewrite !orb_true_r. simpl.
    destruct (skip_sort p) eqn:Sk.
    + destruct E as [E1 E2]. destruct (intact_some _ E2) as [cd Hd]. unfold has. rewrite E1, Hd.
      simpl. now rewrite orb_true_r.
    + destruct E as [E1 E2]. apply complete_size in E1. rewrite (wlen_sdocs p Sk) in E1. rewrite E1.
      now rewrite !orb_true_r.
Qed.

(* ------------------------------------------------------------------ file size limit *)
Definition count_w (f : fname) (ops : list op) : nat := length (writes_of f ops).

Lemma limit_fault_from_spec ops limit : forall ks ki x,
  forallb (fun o => match o with OWrite f _ _ => fname_eqb f SdocsTmp || fname_eqb f IndexTmp | _ => true end) ops = true ->
  limit_fault_from ops limit ks ki = Some x ->
  (ftarget x = SdocsTmp /\ ks < fk x <= ks + count_w SdocsTmp ops)%nat
  \/ (ftarget x = IndexTmp /\ ki < fk x <= ki + count_w IndexTmp ops)%nat.
Proof.
  unfold count_w. induction ops as [|o ops IH]; intros ks ki x Hw H; simpl in *; [discriminate|].
  apply andb_true_iff in Hw. destruct Hw as [Ho Hw].
  destruct o; try (destruct (IH _ _ _ Hw H) as [[A B]|[A B]]; [left|right]; split; auto; lia).
  destruct (limit <? off + len)%N.
  - inversion H; subst; clear H. simpl.
    destruct f; simpl in *; try discriminate; [left|right]; split; auto; lia.
  - destruct (IH _ _ _ Hw H) as [[A B]|[A B]]; [left|right]; split; auto;
      destruct f; simpl in *; try discriminate; lia.
Qed.

Lemma writes_only_seq f pos ws (P : op -> bool) :
  (forall off len, P (OWrite f off len) = true) -> forallb P (seq_ops f pos ws) = true.
Proof. intros HP. revert pos. induction ws; intros; simpl; auto. rewrite HP. simpl. auto. Qed.

Lemma count_seq f g pos ws : count_w g (seq_ops f pos ws) = if fname_eqb f g then length ws else 0%nat.
Proof.
  unfold count_w. revert pos. induction ws; intros; simpl.
  - destruct (fname_eqb f g); reflexivity.
  - rewrite app_length, IHws. destruct (fname_eqb f g); reflexivity.
Qed.

Lemma count_app f a b : count_w f (a ++ b) = (count_w f a + count_w f b)%nat.
Proof. unfold count_w. now rewrite writes_of_app, app_length. Qed.

Lemma limit_fault_hits p limit x : limit_fault p limit = Some x -> fault_hits p x.
Proof.
  unfold limit_fault. intros H.
  assert (W : forallb (fun o => match o with OWrite f _ _ => fname_eqb f SdocsTmp || fname_eqb f IndexTmp | _ => true end)
                      (seal_ops p) = true).
  { unfold seal_ops, pre_ops, sdocs_ops, index_ops, publish_ops. simpl.
    rewrite !forallb_app. destruct (skip_sort p); simpl; rewrite ?forallb_app, ?writes_only_seq; auto. }
  assert (CS : count_w SdocsTmp (seal_ops p) = if skip_sort p then 0%nat else length (sd_writes p)).
  { unfold seal_ops, pre_ops, sdocs_ops, index_ops, publish_ops.
    change (OCreate IndexTmp :: ?l) with ([OCreate IndexTmp] ++ l).
    destruct (skip_sort p); rewrite ?count_app.
    - rewrite count_seq. reflexivity.
    - change (OCreate SdocsTmp :: ?l) with ([OCreate SdocsTmp] ++ l). rewrite ?count_app, !count_seq.
      unfold count_w. simpl. lia. }
  assert (CI : count_w IndexTmp (seal_ops p) = (length (flat_sizes p) + 2)%nat).
  { unfold seal_ops, pre_ops, sdocs_ops, index_ops, publish_ops.
    change (OCreate IndexTmp :: ?l) with ([OCreate IndexTmp] ++ l).
    destruct (skip_sort p); rewrite ?count_app.
    - rewrite count_seq. simpl. unfold count_w. simpl. lia.
    - change (OCreate SdocsTmp :: ?l) with ([OCreate SdocsTmp] ++ l). rewrite ?count_app, !count_seq.
      simpl. unfold count_w. simpl. lia. }
  destruct (limit_fault_from_spec _ _ _ _ _ W H) as [[A B]|[A B]].
  - right. rewrite CS in B. destruct (skip_sort p) eqn:Sk; [lia|]. repeat split; auto; lia.
  - left. rewrite CI in B. repeat split; auto; lia.
Qed.

Lemma spec_limit_model p init limit :
  let r := seal p (limit_fault p limit) in
  case_spec_ok (CLimit p init limit (res_is_err (snd r)) (fst r)) = true.
Proof.
  intros r. simpl. destruct (limit_fault p limit) as [x|] eqn:E; auto.
  destruct (fault_not_published p x (limit_fault_hits _ _ _ E)) as [R [N S]].
  unfold r.
  apply andb_true_iff. split.
  - unfold no_publish. rewrite forallb_forall in *. intros o Ho. specialize (N o Ho).
    destruct o as [f|f off len|f|f1 f2| |f| ]; auto. simpl in N. discriminate.
  - destruct (fname_eqb (ftarget x) SdocsTmp) eqn:T; auto. simpl.
    apply fname_eqb_eq in T. specialize (S T).
    apply forallb_forall. intros o Ho. destruct o as [f|f off len|f|f1 f2| |f| ]; auto.
    destruct f1; auto. destruct f2; auto; try contradiction.
Qed.
