(* C08 — part F: the block generators propagate every push error at once (ModelGen.v). *)
From Coq Require Import List Bool Arith NArith Lia.
From C08 Require Import Model ModelGen.
Import ListNotations.

(* every push call made so far succeeded *)
Definition clean (o : oracle) (n : nat) : Prop := forall i, (i < n)%nat -> o i = false.

Lemma clean_0 o : clean o 0.
Proof. intros i H. lia. Qed.

Lemma clean_propagated {B} o (tr : list B) : clean o (length tr) -> propagated o tr ROk.
Proof.
  intros C. split.
  - intros i Hi Ho. rewrite (C i Hi) in Ho. discriminate.
  - discriminate.
Qed.

Lemma propagated_ok_clean {B} o (tr : list B) : propagated o tr ROk -> clean o (length tr).
Proof.
  intros [P _] i Hi. destruct (o i) eqn:E; auto. destruct (P i Hi E) as [X _]. discriminate.
Qed.

Lemma push_inv {B} o (tr : list B) b tr' r :
  clean o (length tr) -> push o tr b = (tr', r) ->
  propagated o tr' r /\ (r = ROk -> clean o (length tr')).
Proof.
  unfold push. intros C H. inversion H; subst; clear H.
  assert (L : length (tr ++ [b]) = S (length tr)) by (rewrite app_length; simpl; lia).
  unfold propagated. rewrite L.
  destruct (o (length tr)) eqn:E.
  - split; [|discriminate]. split.
    + intros i Hi Ho. split; auto.
      destruct (Nat.eq_dec i (length tr)) as [->|Hne]; [lia|].
      rewrite (C i) in Ho by lia. discriminate.
    + intros _. exists (length tr). split; [lia|exact E].
  - assert (C' : clean o (S (length tr))).
    { intros i Hi. destruct (Nat.eq_dec i (length tr)) as [->|Hne]; auto. apply C. lia. }
    split; [|auto]. split.
    + intros i Hi Ho. rewrite (C' i Hi) in Ho. discriminate.
    + discriminate.
Qed.

Local Opaque push.
Ltac dpush tr2 r Ep := match goal with |- context [push ?a ?b ?c] => destruct (push a b c) as [tr2 r] eqn:Ep end.

(* ------------------------------------------------------------------ getLIDsBlockGenerator *)
Lemma lids_token_zero hoist fuel cap o s tr pend :
  lids_token hoist fuel cap o 0 s tr pend = Some (s, tr, pend, ROk).
Proof. destruct fuel; reflexivity. Qed.

Lemma lids_token_ok fuel cap o : forall rest s tr,
  (0 < cap)%N -> (blk s < cap)%N -> (rest + blk s <= cap * N.of_nat fuel)%N -> clean o (length tr) ->
  exists s' tr' r, lids_token false fuel cap o rest s tr false = Some (s', tr', false, r)
                   /\ propagated o tr' r /\ (blk s' < cap)%N.
Proof.
  induction fuel as [|fuel IH]; intros rest s tr Hc Hb Hf C.
  - assert (rest = 0%N) by (simpl in Hf; lia). subst rest. rewrite lids_token_zero.
    exists s, tr, ROk. split; auto. split; auto. now apply clean_propagated.
  - destruct (N.eq_dec rest 0) as [->|Hr].
    { rewrite lids_token_zero. exists s, tr, ROk. split; auto. split; auto. now apply clean_propagated. }
    simpl. apply N.eqb_neq in Hr. rewrite Hr. apply N.eqb_neq in Hr.
    destruct ((blk s + N.min (cap - blk s) rest =? cap)%N) eqn:Ef.
    + apply N.eqb_eq in Ef.
      dpush tr2 r Ep.
      destruct (push_inv _ _ _ _ _ C Ep) as [P Cl].
      destruct r.
      * apply IH; simpl; auto; try lia.
      * eexists _, tr2, RErr. split; [reflexivity|]. split; auto.
    + apply N.eqb_neq in Ef.
      assert (Hm : N.min (cap - blk s) rest = rest) by lia.
      rewrite Hm, N.sub_diag, lids_token_zero.
      eexists _, tr, ROk. split; [reflexivity|]. split; [now apply clean_propagated|]. simpl. lia.
Qed.

Lemma token_fuel_enough cap rest b : (0 < cap)%N -> (rest + b <= cap * N.of_nat (token_fuel cap rest b))%N.
Proof.
  intros Hc. unfold token_fuel. rewrite Nat2N.inj_succ, N2Nat.id.
  apply N.lt_le_incl. apply N.mul_succ_div_gt. lia.
Qed.

Lemma lids_tids_ok cap o tids : forall s tr,
  (0 < cap)%N -> (blk s < cap)%N -> clean o (length tr) ->
  exists s' tr' r, lids_tids false cap o tids s tr false = Some (s', tr', false, r)
                   /\ propagated o tr' r /\ (blk s' < cap)%N.
Proof.
  induction tids as [|n tids IH]; intros s tr Hc Hb C; cbn [lids_tids].
  - exists s, tr, ROk. split; auto. split; auto. now apply clean_propagated.
  - match goal with |- context [lids_token false ?f cap o n ?s0 tr false] =>
      destruct (lids_token_ok f cap o n s0 tr Hc Hb (token_fuel_enough cap n (blk s) Hc) C)
        as [s1 [tr1 [r1 [E [P B]]]]]; rewrite E end.
    destruct r1.
    + apply IH; auto. now apply propagated_ok_clean.
    + exists s1, tr1, RErr. auto.
Qed.

Lemma lids_fields_ok cap o fields : forall s tr,
  (0 < cap)%N -> (blk s < cap)%N -> clean o (length tr) ->
  exists s' tr' r, lids_fields false cap o fields s tr = Some (s', tr', r) /\ propagated o tr' r.
Proof.
  induction fields as [|tids fields IH]; intros s tr Hc Hb C; cbn [lids_fields].
  - exists s, tr, ROk. split; auto. now apply clean_propagated.
  - destruct (lids_tids_ok cap o tids s tr Hc Hb C) as [s1 [tr1 [r1 [E [P B]]]]].
    rewrite E. destruct r1.
    + destruct (0 <? blk s1)%N.
      * simpl. dpush tr2 r Ep.
        destruct (push_inv _ _ _ _ _ (propagated_ok_clean _ _ P) Ep) as [P2 C2].
        destruct r.
        -- apply IH; simpl; auto.
        -- eexists _, tr2, RErr. auto.
      * apply IH; auto. now apply propagated_ok_clean.
    + exists s1, tr1, RErr. auto.
Qed.

Lemma gen_lids_propagates cap fields o :
  (0 < cap)%N -> exists tr r, gen_lids cap fields o = Some (tr, r) /\ propagated o tr r.
Proof.
  intros Hc. unfold gen_lids, gen_lids_gen.
  destruct (lids_fields_ok cap o fields (mkLS 0 0 false 0 0) [] Hc Hc (clean_0 o)) as [s [tr [r [E P]]]].
  rewrite E. eauto.
Qed.

(* ------------------------------------------------------------------ chunk loops *)
Lemma chunk_loop_zero {A B} fuel size (mk : A -> N -> B * A) o a tr :
  chunk_loop fuel size mk o 0 a tr = Some (a, tr, ROk).
Proof. destruct fuel; reflexivity. Qed.

Lemma chunk_loop_ok {A B} fuel size (mk : A -> N -> B * A) o : forall rest a tr,
  (0 < size)%N -> (rest <= size * N.of_nat fuel)%N -> clean o (length tr) ->
  exists a' tr' r, chunk_loop fuel size mk o rest a tr = Some (a', tr', r) /\ propagated o tr' r.
Proof.
  induction fuel as [|fuel IH]; intros rest a tr Hs Hf C.
  - assert (rest = 0%N) by (simpl in Hf; lia). subst rest. rewrite chunk_loop_zero.
    exists a, tr, ROk. split; auto. now apply clean_propagated.
  - destruct (N.eq_dec rest 0) as [->|Hr].
    { rewrite chunk_loop_zero. exists a, tr, ROk. split; auto. now apply clean_propagated. }
    simpl. apply N.eqb_neq in Hr. rewrite Hr. apply N.eqb_neq in Hr.
    destruct (mk a (N.min size rest)) as [b a1].
    dpush tr1 r Ep.
    destruct (push_inv _ _ _ _ _ C Ep) as [P Cl].
    destruct r.
    + apply IH; auto. rewrite Nat2N.inj_succ, N.mul_succ_r in Hf. lia.
    + exists a1, tr1, RErr. auto.
Qed.

Lemma chunk_fuel_enough size rest : (0 < size)%N -> (rest <= size * N.of_nat (chunk_fuel size rest))%N.
Proof.
  intros Hs. unfold chunk_fuel. rewrite Nat2N.inj_succ, N2Nat.id.
  apply N.lt_le_incl. apply N.mul_succ_div_gt. lia.
Qed.

Lemma gen_ids_propagates size n o :
  (0 < size)%N -> exists tr r, gen_ids size n o = Some (tr, r) /\ propagated o tr r.
Proof.
  intros Hs. unfold gen_ids.
  destruct (chunk_loop_ok (chunk_fuel size n) size (fun (_ : unit) right => (right, tt)) o n tt []
              Hs (chunk_fuel_enough size n Hs) (clean_0 o)) as [a [tr [r [E P]]]].
  rewrite E. eauto.
Qed.

Lemma tokens_fields_ok rbs o fields : forall fi cur tr,
  clean o (length tr) ->
  exists cur' tr' r, tokens_fields rbs o fields fi cur tr = Some (cur', tr', r) /\ propagated o tr' r.
Proof.
  induction fields as [|[fsize ntids] fields IH]; intros fi cur tr C; cbn [tokens_fields].
  - exists cur, tr, ROk. split; auto. now apply clean_propagated.
  - set (bs := N.max 1 (ntids / (fsize / rbs + 1))).
    assert (Hs : (0 < bs)%N) by (unfold bs; lia).
    destruct (chunk_loop_ok (chunk_fuel bs ntids) bs
                (fun (st : bool * N) right => (mkTB fi (fst st) fsize (snd st) right, (false, (snd st + right)%N)))
                o ntids (true, cur) tr Hs (chunk_fuel_enough bs ntids Hs) C) as [a [tr1 [r [E P]]]].
    rewrite E. destruct r.
    + apply IH. now apply propagated_ok_clean.
    + exists (snd a), tr1, RErr. auto.
Qed.

Lemma gen_tokens_propagates rbs fields o :
  exists tr r, gen_tokens rbs fields o = Some (tr, r) /\ propagated o tr r.
Proof.
  unfold gen_tokens.
  destruct (tokens_fields_ok rbs o fields 0 1%N [] (clean_0 o)) as [c [tr [r [E P]]]].
  rewrite E. eauto.
Qed.

Lemma table_fields_ok o fields : forall fi tr,
  clean o (length tr) -> propagated o (fst (table_fields o fields fi tr)) (snd (table_fields o fields fi tr)).
Proof.
  induction fields as [|[present entries] fields IH]; intros fi tr C; simpl.
  - now apply clean_propagated.
  - destruct present; [|now apply IH].
    dpush tr1 r Ep.
    destruct (push_inv _ _ _ _ _ C Ep) as [P Cl].
    destruct r; [apply IH; auto|exact P].
Qed.

Lemma gen_token_table_propagates fields o :
  propagated o (fst (gen_token_table fields o)) (snd (gen_token_table fields o)).
Proof. unfold gen_token_table. apply table_fields_ok. apply clean_0. Qed.

(* ------------------------------------------------------------------ the executable form *)
Lemma propagated_b_of o n err :
  (forall i, (i < n)%nat -> o i = true -> err = true /\ S i = n) ->
  (err = true -> exists i, S i = n /\ o i = true) ->
  propagated_b o n err = true.
Proof.
  intros P Q. destruct n as [|m]; simpl.
  - destruct err; auto. destruct (Q eq_refl) as [i [X _]]. discriminate.
  - apply andb_true_iff. split.
    + apply forallb_forall. intros i Hi. apply in_seq in Hi.
      destruct (o i) eqn:E; auto. destruct (P i ltac:(lia) E) as [_ X]. lia.
    + destruct (o m) eqn:E.
      * destruct (P m ltac:(lia) E) as [-> _]. reflexivity.
      * destruct err; auto. destruct (Q eq_refl) as [i [X Y]]. inversion X; subst. congruence.
Qed.

Definition res_err (r : res) : bool := match r with RErr => true | ROk => false end.

Lemma propagated_b_model {B} o (tr : list B) r :
  propagated o tr r -> propagated_b o (length tr) (res_err r) = true.
Proof.
  intros [P Q]. apply propagated_b_of.
  - intros i Hi Ho. destruct (P i Hi Ho) as [-> X]. auto.
  - intros He. apply Q. destruct r; [discriminate|reflexivity].
Qed.
