(* C08 — part E2: the single fault of Model.v is the singleton fault set. *)
From Coq Require Import List Bool Arith NArith Lia.
From C08 Require Import Model ModelGen ProofsA ProofsFS.
Import ListNotations.

Lemma do_write_single_target x f off len cnt :
  fname_eqb f (ftarget x) = true ->
  do_write (Some x) f off len cnt = do_write_fs (fs_single x) f off len cnt.
Proof.
  intros Hf. unfold do_write, do_write_fs, fs_single. rewrite Hf. cbn [andb].
  destruct (Nat.eqb (S cnt) (fk x)); reflexivity.
Qed.

Lemma do_write_single_other x f off len cnt :
  fname_eqb f (ftarget x) = false ->
  do_write (Some x) f off len cnt = ([OWrite f off len], len, cnt, ROk)
  /\ do_write_fs (fs_single x) f off len cnt = ([OWrite f off len], len, S cnt, ROk).
Proof. intros Hf. unfold do_write, do_write_fs, fs_single. rewrite Hf. cbn [andb]. auto. Qed.

Local Opaque do_write do_write_fs.

Lemma write_seq_single_target x f ws : forall pos cnt,
  fname_eqb f (ftarget x) = true ->
  write_seq (Some x) f pos ws cnt = write_seq_fs (fs_single x) f pos ws cnt.
Proof.
  induction ws as [|len ws IH]; intros pos cnt Hf; simpl; auto.
  rewrite (do_write_single_target x f pos len cnt Hf).
  destruct (do_write_fs (fs_single x) f pos len cnt) as [[[o n] c] r].
  destruct r; auto. now rewrite IH.
Qed.

Lemma write_seq_single_other x f ws : forall pos cnt cnt',
  fname_eqb f (ftarget x) = false ->
  write_seq (Some x) f pos ws cnt = (seq_ops f pos ws, (pos + sum_N ws)%N, cnt, ROk)
  /\ write_seq_fs (fs_single x) f pos ws cnt' = (seq_ops f pos ws, (pos + sum_N ws)%N, (cnt' + length ws)%nat, ROk).
Proof.
  induction ws as [|len ws IH]; intros pos cnt cnt' Hf; simpl.
  - rewrite N.add_0_r, Nat.add_0_r. auto.
  - destruct (do_write_single_other x f pos len cnt Hf) as [-> _].
    destruct (do_write_single_other x f pos len cnt' Hf) as [_ ->].
    destruct (IH (pos + len)%N cnt (S cnt') Hf) as [-> ->]. simpl.
    rewrite N.add_assoc. replace (S (cnt' + length ws))%nat with (cnt' + S (length ws))%nat by lia. auto.
Qed.

Lemma write_sections_single_target x secs : forall pos cnt,
  ftarget x = IndexTmp ->
  write_sections (fun _ => false) (Some x) secs pos cnt = write_sections_fs (fs_single x) secs pos cnt.
Proof.
  induction secs as [|[k ws] secs IH]; intros pos cnt Hf; simpl; auto.
  rewrite write_seq_single_target by now rewrite Hf.
  destruct (write_seq_fs (fs_single x) IndexTmp pos ws cnt) as [[[o p1] c1] r].
  destruct r; auto. now rewrite IH.
Qed.

Lemma write_sections_single_other x secs : forall pos cnt cnt',
  fname_eqb IndexTmp (ftarget x) = false ->
  write_sections (fun _ => false) (Some x) secs pos cnt
  = (seq_ops IndexTmp pos (flat_map snd secs), (pos + sum_N (flat_map snd secs))%N, cnt, ROk)
  /\ write_sections_fs (fs_single x) secs pos cnt'
  = (seq_ops IndexTmp pos (flat_map snd secs), (pos + sum_N (flat_map snd secs))%N,
     (cnt' + length (flat_map snd secs))%nat, ROk).
Proof.
  induction secs as [|[k ws] secs IH]; intros pos cnt cnt' Hf; simpl.
  - rewrite N.add_0_r, Nat.add_0_r. auto.
  - destruct (write_seq_single_other x IndexTmp ws pos cnt cnt' Hf) as [-> ->].
    destruct (IH (pos + sum_N ws)%N cnt (cnt' + length ws)%nat Hf) as [-> ->].
    rewrite seq_ops_app, sum_N_app, N.add_assoc, app_length.
    replace (cnt' + length ws + length (flat_map snd secs))%nat with (cnt' + (length ws + length (flat_map snd secs)))%nat by lia.
    auto.
Qed.

Lemma write_index_single x p :
  write_index (fun _ => false) (Some x) p = write_index_fs (fs_single x) p.
Proof.
  unfold write_index, write_index_fs.
  destruct (fname_eqb IndexTmp (ftarget x)) eqn:Hf.
  - assert (Ht : ftarget x = IndexTmp) by (symmetry; now apply fname_eqb_eq).
    rewrite write_sections_single_target by exact Ht.
    destruct (write_sections_fs (fs_single x) (ix_sections p) 16 0) as [[[o1 p1] c1] r1].
    destruct r1; auto.
    rewrite do_write_single_target by exact Hf.
    destruct (do_write_fs (fs_single x) IndexTmp p1 (reg_size p) c1) as [[[o2 n2] c2] r2].
    destruct r2; auto.
    rewrite do_write_single_target by exact Hf. reflexivity.
  - destruct (write_sections_single_other x (ix_sections p) 16 0 0 Hf) as [-> ->].
    destruct (do_write_single_other x IndexTmp (16 + sum_N (flat_map snd (ix_sections p))) (reg_size p) 0 Hf) as [-> _].
    destruct (do_write_single_other x IndexTmp (16 + sum_N (flat_map snd (ix_sections p))) (reg_size p)
                (0 + length (flat_map snd (ix_sections p))) Hf) as [_ ->].
    destruct (do_write_single_other x IndexTmp 0 16 0 Hf) as [-> _].
    destruct (do_write_single_other x IndexTmp 0 16 (S (0 + length (flat_map snd (ix_sections p)))) Hf) as [_ ->].
    reflexivity.
Qed.

Lemma sorted_docs_single x p : sorted_docs (Some x) p = sorted_docs_fs (fs_single x) p.
Proof.
  unfold sorted_docs, sorted_docs_fs. destruct (skip_sort p); auto.
  destruct (fname_eqb SdocsTmp (ftarget x)) eqn:Hf.
  - rewrite write_seq_single_target by exact Hf. reflexivity.
  - destruct (write_seq_single_other x SdocsTmp (sd_writes p) 0 0 0 Hf) as [-> ->]. reflexivity.
Qed.

(* the fault model of Model.v (one transient failure) is the singleton instance of the fault sets *)
Lemma seal_single_is_faultset p x : seal p (Some x) = seal_fs p (fs_single x).
Proof.
  unfold seal, seal_gen, seal_fs. rewrite sorted_docs_single, write_index_single. reflexivity.
Qed.

Lemma seal_none_is_faultset p : seal p None = seal_fs p fs_none.
Proof. now rewrite seal_nofault, seal_fs_none. Qed.

Lemma single_fault_is_faultset :
  (forall p x, seal p (Some x) = seal_fs p (fs_single x)) /\ (forall p, seal p None = seal_fs p fs_none).
Proof. split; [exact seal_single_is_faultset|exact seal_none_is_faultset]. Qed.
