(* C08 — property theorems. Only statements, each closed by `exact <lemma>` (ProofsA/B/C.v), with
   Print Assumptions beneath, and the non-vacuity / documentation examples.
   Objects (Model.v): [plan] = the sizes of the Write calls a corpus gives rise to (any lists: the
   theorems quantify over all of them, i.e. over all corpora); [seal p flt] = operation sequence
   and result of Seal + Release with an optional failing write; [tprefix l ops] = l is what reached
   the directory when the process died anywhere inside ops (the interrupted write torn at any
   length); [power_loss keep] = every file cut to any length not below its fsynced length;
   [load] = the loader's classification at restart; [serves_all] = every document is served, from
   intact .docs/.meta or through a complete index over the document file it was built for. *)
From Coq Require Import Lia.
From C08 Require Import Model ModelGen ModelPool CaseDefs ProofsA ProofsB ProofsC ProofsD ProofsFS ProofsFS2 ProofsGen ProofsH ProofsPool.

(* Crash at any point of a seal (fault-free or with any write fault), the interrupted write torn
   at any length, then any power loss: the restarted store serves every document, and the directory
   is again one from which this holds (originals intact and nothing published, or a complete
   durable sealed copy). *)
Theorem C08_crash_atomic :
  forall p flt s0 l keep,
    inv p s0 -> tprefix l (fst (seal p flt)) ->
    let s := power_loss keep (run l s0) in
    (inv p s \/ sealed_state p s) /\ serves_all p (load s) = true.
Proof. exact crash_atomic. Qed.
Print Assumptions C08_crash_atomic.

(* The same for the executable crash-state function that the correspondence run evaluates. *)
Theorem C08_crash_atomic_exec :
  forall p flt s0 j n keep,
    inv p s0 -> serves_all p (load (crash_state (fst (seal p flt)) s0 j n keep)) = true.
Proof. exact crash_atomic_exec. Qed.
Print Assumptions C08_crash_atomic_exec.

(* Any number of interrupted seals (each with its own sizes and fault), restarts and power losses
   in any order: every directory met at a restart serves every document. *)
Theorem C08_crash_atomic_repeated :
  forall sk s, reachable sk s -> served sk s.
Proof. exact reachable_served. Qed.
Print Assumptions C08_crash_atomic_repeated.

(* Temp files never classify as (part of) a fraction: the loader's verdict does not depend on them. *)
Theorem C08_temp_ignored :
  forall s f v, is_tmp f = true -> fst (load (upd s f v)) = fst (load s).
Proof. exact load_ignores_tmp. Qed.
Print Assumptions C08_temp_ignored.

(* The fault is TRANSIENT: [do_write] fails exactly the fk-th Write call on the target file and
   would let every other call succeed - so the error has to be propagated at the failing call
   itself; a later write cannot "report it again". (A persistent fault - k and every later write
   fail - gives the same run, because nothing is written after the first error.)
   A failing write (the k-th write of the sorted-docs or of the index file, for every k that
   exists) makes Seal return an error; then the index is not renamed into place, no file is
   removed, and a failed sorted-docs write does not publish .sdocs either. *)
Theorem C08_fault_not_published :
  forall p x, fault_hits p x ->
    snd (seal p (Some x)) = RErr
    /\ forallb no_publish_op (fst (seal p (Some x))) = true
    /\ (ftarget x = SdocsTmp -> ~ In (ORename SdocsTmp Sdocs) (fst (seal p (Some x)))).
Proof. exact fault_not_published. Qed.
Print Assumptions C08_fault_not_published.

(* Whatever the fault: an error never publishes or removes anything; and what reached the disk is
   a (torn) prefix of the fault-free sequence. *)
Theorem C08_error_publishes_nothing :
  forall p flt, snd (seal p flt) = RErr -> forallb no_publish_op (fst (seal p flt)) = true.
Proof. exact err_no_publish. Qed.
Print Assumptions C08_error_publishes_nothing.

Theorem C08_fault_is_prefix :
  forall p flt, tprefix (fst (seal p flt)) (seal_ops p)
                /\ (snd (seal p flt) = ROk -> fst (seal p flt) = seal_ops p).
Proof. exact seal_spec. Qed.
Print Assumptions C08_fault_is_prefix.

(* An original file (.meta, .docs) is removed only after every write of the sorted docs and of the
   index, the fsync of the index, its rename into place and the directory fsync. *)
Theorem C08_originals_last :
  forall p flt a f b,
    fst (seal p flt) = a ++ OUnlink f :: b ->
    snd (seal p flt) = ROk /\
    exists a2, a = pre_ops p ++ [OFsync IndexTmp; ORename IndexTmp Index; OFsyncDir] ++ a2.
Proof. exact originals_last. Qed.
Print Assumptions C08_originals_last.

(* ---------------- the spec checker of the correspondence run holds on the model ---------------- *)
(* [case_spec_ok] (CaseDefs.v) is what turns an implementation output into a VIOLATION with a replay.
   The four theorems below say: fed with the MODEL's outputs it is true for every input - so an
   implementation that agrees with the model can never fail it, and a spec failure is a real
   departure from the proved behaviour. *)
Theorem C08_spec_holds_on_model_crash :
  forall p init j n keep,
    inv p (init_fs init) ->
    let s := crash_state (fst (seal p None)) (init_fs init) j n (keep_fn keep) in
    let r := load s in
    case_spec_ok (CCrash p init j n keep (sizes s) (fst r) (names (snd r)) (serves_all p r)) = true.
Proof. exact spec_crash_model. Qed.
Print Assumptions C08_spec_holds_on_model_crash.

Theorem C08_spec_holds_on_model_fault :
  forall p k n,
    let r := seal p (Some (mkFault IndexTmp k n)) in
    case_spec_ok (CFault p k n (res_is_err (snd r)) (writes_of IndexTmp (fst r))) = true.
Proof. exact spec_fault_model. Qed.
Print Assumptions C08_spec_holds_on_model_fault.

Theorem C08_spec_holds_on_model_trace :
  forall p, case_spec_ok (CTrace p (fst (seal p None)) true) = true.
Proof. exact spec_trace_model. Qed.
Print Assumptions C08_spec_holds_on_model_trace.

Theorem C08_spec_holds_on_model_limit :
  forall p init limit,
    let r := seal p (limit_fault p limit) in
    case_spec_ok (CLimit p init limit (res_is_err (snd r)) (fst r)) = true.
Proof. exact spec_limit_model. Qed.
Print Assumptions C08_spec_holds_on_model_limit.

(* ---------------- non-vacuity and documentation ---------------- *)
Definition ex_plan (sk : bool) : plan :=
  mkPlan sk [67]%N [(KInfo, [684]%N); (KTokens, [35]%N); (KTokenTable, [71]%N); (KPositions, [9]%N);
                    (KIDs, [6; 30; 4]%N); (KLIDs, [4; 5; 3]%N)] 462%N.
Definition ex_init : fs :=
  fun f => match f with Docs => Some (mkC [] 67 67 true) | Meta => Some (mkC [] 129 129 true) | _ => None end.

(* the hypotheses of C08_crash_atomic are satisfiable, and both disjuncts of its conclusion occur *)
Example C08_inv_witness : inv (ex_plan false) ex_init /\ inv (ex_plan true) ex_init.
Proof. repeat split. Qed.

Example C08_crash_before_publish_is_active :
  fst (load (crash_state (fst (seal (ex_plan false) None)) ex_init 12 3 (fun _ => 0%N))) = LActive.
Proof. vm_compute. reflexivity. Qed.

Example C08_crash_after_publish_is_sealed :
  fst (load (crash_state (fst (seal (ex_plan false) None)) ex_init 19 0 (fun _ => 0%N))) = LSealed
  /\ fst (load (crash_state (fst (seal (ex_plan true) None)) ex_init 17 0 (fun _ => 0%N))) = LSealed
  /\ fst (load (crash_state (fst (seal (ex_plan true) None)) ex_init 16 0 (fun _ => 0%N))) = LActive.
Proof. vm_compute. repeat split. Qed.

Example C08_init_fs_inv_witness :
  inv (ex_plan false) (init_fs [(Docs, 67%N); (Meta, 129%N); (Sdocs, 67%N); (IndexTmp, 30%N)])
  /\ inv (ex_plan true) (init_fs [(Docs, 67%N); (Meta, 129%N); (Index, 1400%N)]).
Proof. repeat split. Qed.

(* serves_all is not trivially true: a published index that misses its last write does not serve *)
Example C08_serves_all_can_fail :
  serves_all (ex_plan false)
    (load (run (firstn 15 (seal_ops (ex_plan false)) ++ [ORename IndexTmp Index]) ex_init)) = false.
Proof. vm_compute. reflexivity. Qed.

(* a fault that hits, in each file *)
Example C08_fault_witness :
  fault_hits (ex_plan false) (mkFault IndexTmp 6 2) /\ fault_hits (ex_plan false) (mkFault SdocsTmp 1 10)
  /\ snd (seal (ex_plan false) (Some (mkFault IndexTmp 6 2))) = RErr.
Proof.
  split; [left; split; [reflexivity|simpl; lia]|].
  split; [right; split; [reflexivity|split; [reflexivity|simpl; lia]]|]. vm_compute. reflexivity.
Qed.

(* an Unlink does occur in a successful seal (C08_originals_last is not vacuous) *)
Example C08_unlink_witness :
  exists a b, fst (seal (ex_plan false) None) = a ++ OUnlink Docs :: b.
Proof. eexists (firstn 21 (seal_ops (ex_plan false))), []. vm_compute. reflexivity. Qed.

(* a sequence of two interrupted seals is reachable *)
Example C08_reachable_witness :
  reachable false (power_loss (fun _ => 0%N)
     (run (torn_ops (fst (seal (ex_plan false) None)) 9 0) (snd (load ex_init)))).
Proof.
  apply r_seal with (p := ex_plan false) (flt := None) (s := ex_init).
  - apply r_init with (p := ex_plan false); repeat split.
  - reflexivity.
  - reflexivity.
  - apply torn_ops_tprefix.
Qed.

(* The behaviour before fix 098cf8d (generators of the IDs and LIDs sections return nil when a push
   failed), kept as [seal_v0]: the 6th index write (RIDs block of the IDs section) fails, sealing
   reports success, the truncated index is renamed into place, the originals are removed, and the
   restarted store cannot serve the documents. *)
Example C08_refuted_swallowed_error_v0 :
  let p := ex_plan false in
  let x := mkFault IndexTmp 6 0 in
  fault_hits p x
  /\ snd (seal_v0 p (Some x)) = ROk
  /\ existsb (fun o => negb (no_publish_op o)) (fst (seal_v0 p (Some x))) = true
  /\ serves_all p (load (run (fst (seal_v0 p (Some x))) ex_init)) = false
  /\ snd (seal p (Some x)) = RErr.
Proof. split. { left. split; [reflexivity|simpl; lia]. } vm_compute. repeat split. Qed.

Example C08_fault_not_published_v0_refuted :
  exists p x, fault_hits p x /\ snd (seal_v0 p (Some x)) <> RErr.
Proof. exists (ex_plan false), (mkFault IndexTmp 9 1). split. { left. split; [reflexivity|simpl; lia]. } vm_compute. discriminate. Qed.

(* ================================================================================================
   Extension (round 5): ANY set of failing writes, and the push sites of the block generators.
   Objects (ModelGen.v): [fset] = which Write calls fail (per file, 1-based call number -> bytes
   stored before the error): a transient failure is a singleton ([fs_single], [fs_kth]), a
   persistent one an upper set ([fs_persistent]), and the theorems quantify over ALL sets;
   [seal_fs p fl] = Seal + Release under the set fl; [oracle] = which calls of a generator's push
   function return an error; [gen_lids], [gen_ids], [gen_tokens], [gen_token_table] = the
   generators of frac/disk_blocks_producer.go with every push site transcribed;
   [propagated o tr r] = every failed push was the last call made and r is the error, and r is an
   error only if the last call failed.
   ================================================================================================ *)

(* Some write of the seal is in the set (whatever else is in it, before or after): Seal returns an
   error, nothing is renamed onto .index, nothing is removed, and a failed sorted-docs write does
   not publish .sdocs.  C08_fault_not_published is the instance fl = one write. *)
Theorem C08_faultset_not_published :
  forall p fl, fs_hits p fl ->
    snd (seal_fs p fl) = RErr
    /\ forallb no_publish_op (fst (seal_fs p fl)) = true
    /\ ((skip_sort p = false /\ exists k, (1 <= k <= length (sd_writes p))%nat /\ fl SdocsTmp k <> None)
        -> ~ In (ORename SdocsTmp Sdocs) (fst (seal_fs p fl))).
Proof. exact faultset_not_published. Qed.
Print Assumptions C08_faultset_not_published.

(* The fault model of the theorems above (one transient failure, or none) is exactly the singleton
   (empty) instance of the fault sets: same operations, same result. *)
Theorem C08_single_fault_is_faultset :
  (forall p x, seal p (Some x) = seal_fs p (fs_single x)) /\ (forall p, seal p None = seal_fs p fs_none).
Proof. exact single_fault_is_faultset. Qed.
Print Assumptions C08_single_fault_is_faultset.

(* Under any fault set: an error never publishes or removes anything; what reached the disk is a
   (torn) prefix of the fault-free sequence, the whole sequence iff no error; an original is removed
   only in a run without error. *)
Theorem C08_faultset_error_publishes_nothing :
  forall p fl, snd (seal_fs p fl) = RErr -> forallb no_publish_op (fst (seal_fs p fl)) = true.
Proof. exact err_no_publish_fs. Qed.
Print Assumptions C08_faultset_error_publishes_nothing.

Theorem C08_faultset_is_prefix :
  forall p fl, tprefix (fst (seal_fs p fl)) (seal_ops p)
               /\ (snd (seal_fs p fl) = ROk -> fst (seal_fs p fl) = seal_ops p).
Proof. exact seal_fs_spec. Qed.
Print Assumptions C08_faultset_is_prefix.

Theorem C08_faultset_originals_last :
  forall p fl a f b, fst (seal_fs p fl) = a ++ OUnlink f :: b -> snd (seal_fs p fl) = ROk.
Proof. exact originals_last_fs. Qed.
Print Assumptions C08_faultset_originals_last.

(* A crash anywhere in a seal that runs under any fault set, the interrupted write torn, then any
   power loss: every document is served after restart. *)
Theorem C08_faultset_crash_atomic :
  forall p fl s0 l keep,
    inv p s0 -> tprefix l (fst (seal_fs p fl)) ->
    let s := power_loss keep (run l s0) in
    (inv p s \/ sealed_state p s) /\ serves_all p (load s) = true.
Proof. exact crash_atomic_fs. Qed.
Print Assumptions C08_faultset_crash_atomic.

(* Every push site of every block generator returns the error of a failed push at once: for ALL
   inputs (token/LID counts, sizes) and ALL oracles (any set of failing push calls) the generator
   terminates, a failed push is the last call it makes and its result is the error, and it reports
   an error only if its last push failed.  (cap = consts.LIDBlockCap, size = consts.IDsBlockSize,
   rbs = consts.RegularBlockSize in writeSealedFraction; the theorem holds for every positive value.) *)
Theorem C08_every_push_error_propagates :
  (forall cap fields o, (0 < cap)%N -> exists tr r, gen_lids cap fields o = Some (tr, r) /\ propagated o tr r)
  /\ (forall size n o, (0 < size)%N -> exists tr r, gen_ids size n o = Some (tr, r) /\ propagated o tr r)
  /\ (forall rbs fields o, exists tr r, gen_tokens rbs fields o = Some (tr, r) /\ propagated o tr r)
  /\ (forall fields o, propagated o (fst (gen_token_table fields o)) (snd (gen_token_table fields o))).
Proof. exact every_push_error_propagates. Qed.
Print Assumptions C08_every_push_error_propagates.

(* the spec checker holds on the model's outputs for the new case kinds *)
Theorem C08_spec_holds_on_model_faultset :
  forall p fl pers,
    let r := seal_fs p (fs_index fl pers) in
    case_spec_ok (CFaultSet p fl pers (res_is_err (snd r)) (writes_of IndexTmp (fst r))) = true.
Proof. exact spec_faultset_model. Qed.
Print Assumptions C08_spec_holds_on_model_faultset.

Theorem C08_spec_holds_on_model_sealt :
  forall p init k,
    inv p (init_fs init) ->
    let r := seal_fs p (fs_kth k) in
    let s := run (fst r) (init_fs init) in
    case_spec_ok (CSealT p init k (res_is_err (snd r)) (names s) (intact (s Docs) && intact (s Meta))) = true.
Proof. exact spec_sealt_model. Qed.
Print Assumptions C08_spec_holds_on_model_sealt.

Theorem C08_spec_holds_on_model_gen :
  (forall cap fields fl pers, (0 < cap)%N ->
     exists tr r, gen_lids cap fields (oracle_of fl pers) = Some (tr, r)
                  /\ case_spec_ok (CGenLIDs cap fields fl pers tr (res_is_err r)) = true)
  /\ (forall size n fl pers, (0 < size)%N ->
     exists tr r, gen_ids size n (oracle_of fl pers) = Some (tr, r)
                  /\ case_spec_ok (CGenIDs size n fl pers tr (res_is_err r)) = true)
  /\ (forall rbs fields fl pers,
     exists tr r, gen_tokens rbs fields (oracle_of fl pers) = Some (tr, r)
                  /\ case_spec_ok (CGenTokens rbs fields fl pers tr (res_is_err r)) = true)
  /\ (forall fields fl pers,
     let m := gen_token_table fields (oracle_of fl pers) in
     case_spec_ok (CGenTable fields fl pers (fst m) (res_is_err (snd m))) = true).
Proof. exact spec_gen_all. Qed.
Print Assumptions C08_spec_holds_on_model_gen.

(* ---------------- non-vacuity and documentation (extension) ---------------- *)
(* fault sets that hit: a transient one, a persistent one, and an arbitrary one *)
Example C08_faultset_witness :
  fs_hits (ex_plan false) (fs_kth 9) /\ fs_hits (ex_plan false) (fs_persistent IndexTmp 9 0)
  /\ fs_hits (ex_plan true) (fs_index [(3, 1%N); (11, 0%N)] (Some 12))
  /\ fs_hits (ex_plan false) (fs_single (mkFault SdocsTmp 1 10)).
Proof.
  split; [right; exists 9; split; [simpl; lia|discriminate]|].
  split; [right; exists 9; split; [simpl; lia|discriminate]|].
  split; [right; exists 3; split; [simpl; lia|discriminate]|].
  left. split; [reflexivity|]. exists 1. split; [simpl; lia|discriminate].
Qed.

(* on the example plan the single fault of Model.v and the singleton fault set give the same run,
   and a persistent fault the same run as the transient one at its first write *)
Example C08_faultset_instances :
  seal (ex_plan false) (Some (mkFault IndexTmp 9 1)) = seal_fs (ex_plan false) (fs_single (mkFault IndexTmp 9 1))
  /\ seal_fs (ex_plan false) (fs_persistent IndexTmp 9 1) = seal_fs (ex_plan false) (fs_single (mkFault IndexTmp 9 1))
  /\ seal (ex_plan false) None = seal_fs (ex_plan false) fs_none.
Proof. vm_compute. repeat split. Qed.

(* the generators: a field of 10 LIDs in tokens of 4+6 and a second field of 3, capacity 4 *)
Definition ex_lids : list (list N) := [[4; 6]; [3]]%N.
Example C08_gen_lids_runs :
  gen_lids 4 ex_lids never
  = Some ([mkLB 4 1 true false 1 1; mkLB 4 1 false false 2 2; mkLB 2 1 true true 3 2; mkLB 3 1 true false 3 3], ROk)
  /\ gen_lids 4 ex_lids (oracle_of [1] None)
     = Some ([mkLB 4 1 true false 1 1; mkLB 4 1 false false 2 2], RErr).
Proof. vm_compute. split; reflexivity. Qed.

(* The seeded change C08-m9 ("hoisted" error check in getLIDsBlockGenerator), kept as
   [gen_lids_hoisted]: the push of the second block (a FULL block inside the token loop) fails once,
   the next push of the same field succeeds and overwrites the error: the generator goes on, pushes
   all four blocks and returns no error - [propagated] is violated.  A persistent failure from
   the same call on is still reported by the hoisted variant, which is why only a single
   transient failure on a corpus with a full LID block shows the difference. *)
Example C08_hoisted_error_refuted :
  exists tr, gen_lids_hoisted 4 ex_lids (oracle_of [1] None) = Some (tr, ROk)
             /\ length tr = 4%nat /\ ~ propagated (oracle_of [1] None) tr ROk
             /\ (exists tr', gen_lids_hoisted 4 ex_lids (oracle_of [] (Some 1)) = Some (tr', RErr)).
Proof.
  eexists. split; [vm_compute; reflexivity|]. split; [reflexivity|]. split.
  - intros [P _]. destruct (P 1%nat) as [X _]; [simpl; lia|reflexivity|discriminate].
  - eexists. vm_compute. reflexivity.
Qed.

Example C08_gen_ids_tokens_run :
  gen_ids 4 9 (oracle_of [] None) = Some ([4; 4; 1]%N, ROk)
  /\ gen_ids 4 8 (oracle_of [1] None) = Some ([4; 4]%N, RErr)
  /\ gen_tokens 16384 [(10, 3); (40000, 7)]%N never
     = Some ([mkTB 0 true 10 1 3; mkTB 1 true 40000 4 2; mkTB 1 false 40000 6 2; mkTB 1 false 40000 8 2;
              mkTB 1 false 40000 10 1], ROk)
  /\ gen_token_table [(true, 2); (false, 0); (true, 1)]%N (oracle_of [1] None) = ([(0%nat, 2%N); (2%nat, 1%N)], RErr).
Proof. vm_compute. repeat split. Qed.

(* ================================================================================================
   Extension (round 6): ownership of the pooled compression buffer while the index is written.
   Objects (ModelPool.v): [pblk] = what disk.BlocksWriter.WriteBlock is asked to do with a block
   (compress?, does zstd shrink it?); [pev] = one step of an interleaving: the sealer's next step
   (Acquire, compress into the buffer, Seek, Write, the deferred Release) or a step of ANOTHER user of
   the shared bytespool (acquire any free or a fresh buffer, write into a buffer it holds, release one);
   [write_blocks blocks sched] = the state after the interleaving sched; [p_out] = what the Write calls
   put into the index file; [expect_from 0 blocks] = for every block k the compression of its payload
   ([CZ k]) or, uncompressed / incompressible, the payload itself ([CRaw k]).
   ================================================================================================ *)

(* For EVERY interleaving (any number of other pool users, any buffer handed out by the pool at any
   Acquire, steps of the others between any two steps of the sealer): the bytes written for block k
   are those of block k - at every moment what has been written is a prefix of the expected sequence,
   and when the sealer has finished it is the whole sequence; it finishes as soon as it was given
   [seal_steps blocks] steps.  Hence the index file that Seal fsyncs and renames is the one whose
   sizes are the plan of the crash / fault theorems above, with every block intact. *)
Theorem C08_block_bytes_private :
  forall blocks sched,
    let s := write_blocks blocks sched in
    p_out s = firstn (length (p_out s)) (expect_from 0 blocks)
    /\ (finished s = true -> p_out s = expect_from 0 blocks)
    /\ (seal_steps blocks <= length (filter is_seal sched) -> finished s = true).
Proof. exact block_bytes_private_full. Qed.
Print Assumptions C08_block_bytes_private.

(* the spec checker of the pool-pressure cases holds on the model's output for every finished run *)
Theorem C08_spec_holds_on_model_pool :
  forall blocks sched,
    seal_steps blocks <= length (filter is_seal sched) ->
    let s := write_blocks blocks sched in
    case_agrees (CPool blocks sched (p_out s)) = true /\ case_spec_ok (CPool blocks sched (p_out s)) = true.
Proof. exact spec_pool_model. Qed.
Print Assumptions C08_spec_holds_on_model_pool.

(* The seeded change C08-m12 (Release right after compression, before Seek and Write), kept as
   [write_blocks_early]: one compressed block, the sealer acquires, compresses and releases; a second
   goroutine acquires (the pool hands out the buffer just released) and writes its own bytes; the
   sealer seeks and writes.  WriteBlock finishes normally and the index holds the other user's bytes.
   The same schedule is harmless for the code as it is. *)
Example C08_release_before_write_refuted :
  exists blocks sched,
    finished (write_blocks_early blocks sched) = true
    /\ p_out (write_blocks_early blocks sched) <> expect_from 0 blocks
    /\ length (p_out (write_blocks_early blocks sched)) = length blocks
    /\ p_out (write_blocks blocks sched) = firstn (length (p_out (write_blocks blocks sched))) (expect_from 0 blocks).
Proof. exact release_before_write_refuted. Qed.

(* non-vacuity: three blocks (info block uncompressed, a compressible one, an incompressible one), a
   pool user that takes, fills and releases buffers at the Seek of every block and holds one across
   blocks; the sealer finishes and the index holds CRaw 0, CZ 1, CRaw 2 *)
Example C08_pool_pressure_runs :
  let blocks := [mkPB false false; mkPB true true; mkPB true false] in
  let sched := [ESeal 0; EAcq 1 0; EFill 0; ESeal 0;
                ESeal 0; ESeal 0; ESeal 0; EAcq 2 0; EFill 1; EFill 0; ERel 1; ESeal 0; ESeal 0;
                ESeal 0; ESeal 0; ESeal 0; EAcq 2 0; EFill 1; ERel 0; ERel 0; ESeal 0; ESeal 0] in
  (seal_steps blocks <= length (filter is_seal sched))%nat
  /\ p_out (write_blocks blocks sched) = [CRaw 0; CZ 1; CRaw 2]
  /\ p_out (write_blocks_early blocks sched) = [CRaw 0; CPoison 2; CRaw 2].
Proof. vm_compute. repeat split. repeat constructor. Qed.
