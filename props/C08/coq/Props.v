(* C08 — property theorems. Only statements, each closed by `exact <lemma>` (ProofsA/B/C.v), with
   Print Assumptions beneath, and the non-vacuity / documentation examples.
   Objects (Model.v): [plan] = the sizes of the Write calls a corpus gives rise to (any lists: the
   theorems quantify over all of them, i.e. over all corpora); [seal p flt] = operation sequence
   and result of Seal + Release with an optional failing write; [tprefix l ops] = l is what reached
   the directory when the process died anywhere inside ops (the interrupted write torn at any
   length); [power_loss keep] = every file cut to any length not below its fsynced length;
   [load] = the loader's classification at restart; [serves_all] = every document is served, from
   intact .docs/.meta or through a complete index over the document file it was built for. *)
From Coq Require Import Lia.
From C08 Require Import Model CaseDefs ProofsA ProofsB ProofsC ProofsD.

(* Crash at any point of a seal (fault-free or with any write fault), the interrupted write torn
   at any length, then any power loss: the restarted store serves every document, and the directory
   is again one from which this holds (originals intact and nothing published, or a complete
   durable sealed copy). *)
Theorem C08_crash_atomic :
  forall p flt s0 l keep,
    inv p s0 -> tprefix l (fst (seal p flt)) ->
    let s := power_loss keep (run l s0) in
    (inv p s \/ sealed_state p s) /\ serves_all p (load s) = true.
Proof. exact crash_atomic. Qed.
Print Assumptions C08_crash_atomic.

(* The same for the executable crash-state function that the correspondence run evaluates. *)
Theorem C08_crash_atomic_exec :
  forall p flt s0 j n keep,
    inv p s0 -> serves_all p (load (crash_state (fst (seal p flt)) s0 j n keep)) = true.
Proof. exact crash_atomic_exec. Qed.
Print Assumptions C08_crash_atomic_exec.

(* Any number of interrupted seals (each with its own sizes and fault), restarts and power losses
   in any order: every directory met at a restart serves every document. *)
Theorem C08_crash_atomic_repeated :
  forall sk s, reachable sk s -> served sk s.
Proof. exact reachable_served. Qed.
Print Assumptions C08_crash_atomic_repeated.

(* Temp files never classify as (part of) a fraction: the loader's verdict does not depend on them. *)
Theorem C08_temp_ignored :
  forall s f v, is_tmp f = true -> fst (load (upd s f v)) = fst (load s).
Proof. exact load_ignores_tmp. Qed.
Print Assumptions C08_temp_ignored.

(* The fault is TRANSIENT: [do_write] fails exactly the fk-th Write call on the target file and
   would let every other call succeed - so the error has to be propagated at the failing call
   itself; a later write cannot "report it again". (A persistent fault - k and every later write
   fail - gives the same run, because nothing is written after the first error.)
   A failing write (the k-th write of the sorted-docs or of the index file, for every k that
   exists) makes Seal return an error; then the index is not renamed into place, no file is
   removed, and a failed sorted-docs write does not publish .sdocs either. *)
Theorem C08_fault_not_published :
  forall p x, fault_hits p x ->
    snd (seal p (Some x)) = RErr
    /\ forallb no_publish_op (fst (seal p (Some x))) = true
    /\ (ftarget x = SdocsTmp -> ~ In (ORename SdocsTmp Sdocs) (fst (seal p (Some x)))).
Proof. exact fault_not_published. Qed.
Print Assumptions C08_fault_not_published.

(* Whatever the fault: an error never publishes or removes anything; and what reached the disk is
   a (torn) prefix of the fault-free sequence. *)
Theorem C08_error_publishes_nothing :
  forall p flt, snd (seal p flt) = RErr -> forallb no_publish_op (fst (seal p flt)) = true.
Proof. exact err_no_publish. Qed.
Print Assumptions C08_error_publishes_nothing.

Theorem C08_fault_is_prefix :
  forall p flt, tprefix (fst (seal p flt)) (seal_ops p)
                /\ (snd (seal p flt) = ROk -> fst (seal p flt) = seal_ops p).
Proof. exact seal_spec. Qed.
Print Assumptions C08_fault_is_prefix.

(* An original file (.meta, .docs) is removed only after every write of the sorted docs and of the
   index, the fsync of the index, its rename into place and the directory fsync. *)
Theorem C08_originals_last :
  forall p flt a f b,
    fst (seal p flt) = a ++ OUnlink f :: b ->
    snd (seal p flt) = ROk /\
    exists a2, a = pre_ops p ++ [OFsync IndexTmp; ORename IndexTmp Index; OFsyncDir] ++ a2.
Proof. exact originals_last. Qed.
Print Assumptions C08_originals_last.

(* ---------------- the spec checker of the correspondence run holds on the model ---------------- *)
(* [case_spec_ok] (CaseDefs.v) is what turns an implementation output into a VIOLATION with a replay.
   The four theorems below say: fed with the MODEL's outputs it is true for every input - so an
   implementation that agrees with the model can never fail it, and a spec failure is a real
   departure from the proved behaviour. *)
Theorem C08_spec_holds_on_model_crash :
  forall p init j n keep,
    inv p (init_fs init) ->
    let s := crash_state (fst (seal p None)) (init_fs init) j n (keep_fn keep) in
    let r := load s in
    case_spec_ok (CCrash p init j n keep (sizes s) (fst r) (names (snd r)) (serves_all p r)) = true.
Proof. exact spec_crash_model. Qed.
Print Assumptions C08_spec_holds_on_model_crash.

Theorem C08_spec_holds_on_model_fault :
  forall p k n,
    let r := seal p (Some (mkFault IndexTmp k n)) in
    case_spec_ok (CFault p k n (res_is_err (snd r)) (writes_of IndexTmp (fst r))) = true.
Proof. exact spec_fault_model. Qed.
Print Assumptions C08_spec_holds_on_model_fault.

Theorem C08_spec_holds_on_model_trace :
  forall p, case_spec_ok (CTrace p (fst (seal p None)) true) = true.
Proof. exact spec_trace_model. Qed.
Print Assumptions C08_spec_holds_on_model_trace.

Theorem C08_spec_holds_on_model_limit :
  forall p init limit,
    let r := seal p (limit_fault p limit) in
    case_spec_ok (CLimit p init limit (res_is_err (snd r)) (fst r)) = true.
Proof. exact spec_limit_model. Qed.
Print Assumptions C08_spec_holds_on_model_limit.

(* ---------------- non-vacuity and documentation ---------------- *)
Definition ex_plan (sk : bool) : plan :=
  mkPlan sk [67]%N [(KInfo, [684]%N); (KTokens, [35]%N); (KTokenTable, [71]%N); (KPositions, [9]%N);
                    (KIDs, [6; 30; 4]%N); (KLIDs, [4; 5; 3]%N)] 462%N.
Definition ex_init : fs :=
  fun f => match f with Docs => Some (mkC [] 67 67 true) | Meta => Some (mkC [] 129 129 true) | _ => None end.

(* the hypotheses of C08_crash_atomic are satisfiable, and both disjuncts of its conclusion occur *)
Example C08_inv_witness : inv (ex_plan false) ex_init /\ inv (ex_plan true) ex_init.
Proof. repeat split. Qed.

Example C08_crash_before_publish_is_active :
  fst (load (crash_state (fst (seal (ex_plan false) None)) ex_init 12 3 (fun _ => 0%N))) = LActive.
Proof. vm_compute. reflexivity. Qed.

Example C08_crash_after_publish_is_sealed :
  fst (load (crash_state (fst (seal (ex_plan false) None)) ex_init 19 0 (fun _ => 0%N))) = LSealed
  /\ fst (load (crash_state (fst (seal (ex_plan true) None)) ex_init 17 0 (fun _ => 0%N))) = LSealed
  /\ fst (load (crash_state (fst (seal (ex_plan true) None)) ex_init 16 0 (fun _ => 0%N))) = LActive.
Proof. vm_compute. repeat split. Qed.

Example C08_init_fs_inv_witness :
  inv (ex_plan false) (init_fs [(Docs, 67%N); (Meta, 129%N); (Sdocs, 67%N); (IndexTmp, 30%N)])
  /\ inv (ex_plan true) (init_fs [(Docs, 67%N); (Meta, 129%N); (Index, 1400%N)]).
Proof. repeat split. Qed.

(* serves_all is not trivially true: a published index that misses its last write does not serve *)
Example C08_serves_all_can_fail :
  serves_all (ex_plan false)
    (load (run (firstn 15 (seal_ops (ex_plan false)) ++ [ORename IndexTmp Index]) ex_init)) = false.
Proof. vm_compute. reflexivity. Qed.

(* a fault that hits, in each file *)
Example C08_fault_witness :
  fault_hits (ex_plan false) (mkFault IndexTmp 6 2) /\ fault_hits (ex_plan false) (mkFault SdocsTmp 1 10)
  /\ snd (seal (ex_plan false) (Some (mkFault IndexTmp 6 2))) = RErr.
Proof.
  split; [left; split; [reflexivity|simpl; lia]|].
  split; [right; split; [reflexivity|split; [reflexivity|simpl; lia]]|]. vm_compute. reflexivity.
Qed.

(* an Unlink does occur in a successful seal (C08_originals_last is not vacuous) *)
Example C08_unlink_witness :
  exists a b, fst (seal (ex_plan false) None) = a ++ OUnlink Docs :: b.
Proof. eexists (firstn 21 (seal_ops (ex_plan false))), []. vm_compute. reflexivity. Qed.

(* a sequence of two interrupted seals is reachable *)
Example C08_reachable_witness :
  reachable false (power_loss (fun _ => 0%N)
     (run (torn_ops (fst (seal (ex_plan false) None)) 9 0) (snd (load ex_init)))).
Proof.
  apply r_seal with (p := ex_plan false) (flt := None) (s := ex_init).
  - apply r_init with (p := ex_plan false); repeat split.
  - reflexivity.
  - reflexivity.
  - apply torn_ops_tprefix.
Qed.

(* The behaviour before fix 098cf8d (generators of the IDs and LIDs sections return nil when a push
   failed), kept as [seal_v0]: the 6th index write (RIDs block of the IDs section) fails, sealing
   reports success, the truncated index is renamed into place, the originals are removed, and the
   restarted store cannot serve the documents. *)
Example C08_refuted_swallowed_error_v0 :
  let p := ex_plan false in
  let x := mkFault IndexTmp 6 0 in
  fault_hits p x
  /\ snd (seal_v0 p (Some x)) = ROk
  /\ existsb (fun o => negb (no_publish_op o)) (fst (seal_v0 p (Some x))) = true
  /\ serves_all p (load (run (fst (seal_v0 p (Some x))) ex_init)) = false
  /\ snd (seal p (Some x)) = RErr.
Proof. split. { left. split; [reflexivity|simpl; lia]. } vm_compute. repeat split. Qed.

Example C08_fault_not_published_v0_refuted :
  exists p x, fault_hits p x /\ snd (seal_v0 p (Some x)) <> RErr.
Proof. exists (ex_plan false), (mkFault IndexTmp 9 1). split. { left. split; [reflexivity|simpl; lia]. } vm_compute. discriminate. Qed.
