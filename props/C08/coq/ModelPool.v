(* C08 — ownership of the pooled compression buffer while the index file is written.  No proofs.

   disk/blocks_writer.go BlocksWriter.WriteBlock, for block number k with payload [data]:

       if compress { compressed := bytespool.Acquire(len(data)+RegularBlockSize)        -- acquire
                     defer bytespool.Release(compressed)
                     finalData = zstd.CompressLevel(data, compressed.B, level)            -- compress INTO the pooled buffer
                     if len(finalData) >= len(data) { codec = CodecNo; finalData = data } }  -- incompressible: the payload itself
       pos, err := w.writeSeeker.Seek(0, io.SeekCurrent)                                  -- seek (a system call)
       ... w.writeSeeker.Write(finalData)                                                 -- write: reads the memory finalData refers to NOW
       (deferred) bytespool.Release(compressed)                                           -- release

   The sealer runs these steps for every block of the index (info block: compress = false; token, token
   table, positions, IDs, LIDs blocks: compress = true), while any number of other users of the shared
   bytespool (bulk, search/fetch - disk.IndexReader.ReadIndexBlock acquires a pooled buffer for every
   compressed block it reads -, a second background seal) run between any two of its steps: they acquire
   buffers (sync.Pool may hand out ANY free buffer, or none: a fresh one is allocated), write only into
   buffers they hold, and release them.

   A buffer is a number; memory is a map from buffers to a symbolic content: what matters is WHICH
   buffer the written slice refers to and who wrote into it last, not the compressed bytes (zstd is not
   modelled: [CZ k] stands for "the compression of the payload of block k").

   [early = true] is the seeded change C08-m12: Release right after compression, before Seek and Write,
   while finalData still aliases the released buffer. *)
From Coq Require Import List Arith Bool.
Import ListNotations.

Inductive pcontent :=
| CEmpty                (* never written *)
| CZ (k : nat)          (* compression of the payload of block k *)
| CRaw (k : nat)        (* the payload of block k itself (not pooled memory) *)
| CPoison (u : nat).    (* bytes of pool user u *)

Definition pcontent_eqb (a b : pcontent) : bool :=
  match a, b with
  | CEmpty, CEmpty => true
  | CZ i, CZ j | CRaw i, CRaw j | CPoison i, CPoison j => Nat.eqb i j
  | _, _ => false
  end.

(* what WriteBlock is asked to do with a block: compress?, and does zstd make it smaller
   (len(finalData) < len(data))? *)
Record pblk := mkPB { b_compress : bool; b_shrinks : bool }.

(* the bytes the index file must hold for block k *)
Definition expect1 (k : nat) (b : pblk) : pcontent :=
  if b_compress b && b_shrinks b then CZ k else CRaw k.
Fixpoint expect_from (k : nat) (bl : list pblk) : list pcontent :=
  match bl with
  | [] => []
  | b :: r => expect1 k b :: expect_from (S k) r
  end.

(* where the sealer is inside WriteBlock of the first block of [p_rest] *)
Inductive phase := PStart | PAcqd | PCompd | PSought | PWritten.

Record pstate := mkP {
  p_heap : nat -> pcontent;        (* memory of every buffer *)
  p_free : list nat;              (* buffers in the pool (any of them may be handed out) *)
  p_next : nat;                   (* next fresh buffer *)
  p_held : list (nat * nat);      (* (user, buffer) held by the other pool users, in acquisition order *)
  p_ph : phase;
  p_cur : option nat;             (* the sealer's variable [compressed] (stays set after a Release: finalData aliases it) *)
  p_own : bool;                   (* the sealer holds p_cur (acquired, not yet released) *)
  p_k : nat;                      (* number of the block being written *)
  p_rest : list pblk;              (* blocks still to write, the current one first *)
  p_out : list pcontent            (* what the Write calls put into the index file, in order *)
}.

Definition pinit (blocks : list pblk) : pstate :=
  mkP (fun _ => CEmpty) [] 0 [] PStart None false 0 blocks [].

(* ESeal pick: the sealer performs its next step (pick matters when the step is an Acquire);
   EAcq u pick: user u acquires a buffer; EFill j: the holder of the j-th held buffer writes into it;
   ERel j: the j-th held buffer is released *)
Inductive pev := ESeal (pick : nat) | EAcq (u pick : nat) | EFill (j : nat) | ERel (j : nat).

Fixpoint drop_nth {A} (i : nat) (l : list A) : list A :=
  match l, i with
  | [], _ => []
  | _ :: r, 0 => r
  | x :: r, S i' => x :: drop_nth i' r
  end.

(* sync.Pool.Get + the allocation on a miss: the free buffer at position pick, or a fresh one *)
Definition ptake (pick : nat) (free : list nat) (next : nat) : nat * list nat * nat :=
  match nth_error free pick with
  | Some v => (v, drop_nth pick free, next)
  | None => (next, free, S next)
  end.

Definition hupd (h : nat -> pcontent) (v : nat) (c : pcontent) : nat -> pcontent :=
  fun x => if Nat.eqb x v then c else h x.

Definition read_cur (s : pstate) : pcontent :=
  match p_cur s with Some v => p_heap s v | None => CEmpty end.

Definition push_cur (s : pstate) : list nat :=
  match p_cur s with Some v => v :: p_free s | None => p_free s end.

Definition seal_step (early : bool) (pick : nat) (s : pstate) : pstate :=
  match p_rest s with
  | [] => s
  | b :: r =>
      match p_ph s with
      | PStart =>
          if b_compress b then
            let '(v, fr, nx) := ptake pick (p_free s) (p_next s) in
            mkP (p_heap s) fr nx (p_held s) PAcqd (Some v) true (p_k s) (p_rest s) (p_out s)
          else (* Seek *)
            mkP (p_heap s) (p_free s) (p_next s) (p_held s) PSought (p_cur s) (p_own s) (p_k s) (p_rest s) (p_out s)
      | PAcqd => (* zstd.CompressLevel(data, compressed.B, level) *)
          mkP (match p_cur s with Some v => hupd (p_heap s) v (CZ (p_k s)) | None => p_heap s end)
              (p_free s) (p_next s) (p_held s) PCompd (p_cur s) (p_own s) (p_k s) (p_rest s) (p_out s)
      | PCompd =>
          if early && p_own s then (* the seeded variant: Release before Seek *)
            mkP (p_heap s) (push_cur s) (p_next s) (p_held s) PCompd (p_cur s) false (p_k s) (p_rest s) (p_out s)
          else (* Seek *)
            mkP (p_heap s) (p_free s) (p_next s) (p_held s) PSought (p_cur s) (p_own s) (p_k s) (p_rest s) (p_out s)
      | PSought => (* Write(finalData): finalData aliases compressed.B iff compressed and smaller *)
          let data := if b_compress b && b_shrinks b then read_cur s else CRaw (p_k s) in
          if b_compress b && negb early then
            mkP (p_heap s) (p_free s) (p_next s) (p_held s) PWritten (p_cur s) (p_own s) (p_k s) (p_rest s) (p_out s ++ [data])
          else
            mkP (p_heap s) (p_free s) (p_next s) (p_held s) PStart (p_cur s) (p_own s) (S (p_k s)) r (p_out s ++ [data])
      | PWritten => (* the deferred Release *)
          mkP (p_heap s) (push_cur s) (p_next s) (p_held s) PStart (p_cur s) false (S (p_k s)) r (p_out s)
      end
  end.

Definition pstep (early : bool) (s : pstate) (e : pev) : pstate :=
  match e with
  | ESeal pick => seal_step early pick s
  | EAcq u pick =>
      let '(v, fr, nx) := ptake pick (p_free s) (p_next s) in
      mkP (p_heap s) fr nx (p_held s ++ [(u, v)]) (p_ph s) (p_cur s) (p_own s) (p_k s) (p_rest s) (p_out s)
  | EFill j =>
      match nth_error (p_held s) j with
      | Some (u, v) => mkP (hupd (p_heap s) v (CPoison u)) (p_free s) (p_next s) (p_held s) (p_ph s) (p_cur s) (p_own s)
                           (p_k s) (p_rest s) (p_out s)
      | None => s
      end
  | ERel j =>
      match nth_error (p_held s) j with
      | Some (u, v) => mkP (p_heap s) (v :: p_free s) (p_next s) (drop_nth j (p_held s)) (p_ph s) (p_cur s) (p_own s)
                           (p_k s) (p_rest s) (p_out s)
      | None => s
      end
  end.

Definition prun (early : bool) (blocks : list pblk) (sched : list pev) : pstate :=
  fold_left (pstep early) sched (pinit blocks).

(* the code as it is / the seeded variant *)
Definition write_blocks := prun false.
Definition write_blocks_early := prun true.

Definition finished (s : pstate) : bool := match p_rest s with [] => true | _ => false end.

(* number of sealer steps that WriteBlock needs for these blocks (so that a schedule with that many
   ESeal events finishes) *)
Fixpoint seal_steps (bl : list pblk) : nat :=
  match bl with
  | [] => 0
  | b :: r => (if b_compress b then 5 else 2) + seal_steps r
  end.
