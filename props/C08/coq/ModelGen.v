(* C08 — extension of the executable model (no proofs in this file):
   (1) FAULT SETS: any set of failing Write calls on the two output files of a seal (the single
       transient fault of Model.v, a persistent fault "k and every later write fail", and every
       other subset are instances);
   (2) the BLOCK GENERATORS of frac/disk_blocks_producer.go with their push sites transcribed one
       by one: getLIDsBlockGenerator (two sites: "block is full" inside the token loop, "rest of
       the field" after it), getIDsBlocksGenerator, getTokensBlocksGenerator,
       getTokenTableBlocksGenerator.  The push function is an oracle: the harness decides for
       every push call whether it returns an error; the model says what the generator must have
       pushed and returned. *)
From Coq Require Export List Bool Arith NArith.
From C08 Require Export Model.
Export ListNotations.

(* ------------------------------------------------------------------ fault sets *)
(* [fl f k = Some n]: the k-th Write call (1-based, counted per file) on file f fails after n of
   its bytes reached the file (at most the length of that write) *)
Definition fset := fname -> nat -> option N.

Definition fs_none : fset := fun _ _ => None.
(* the fault of Model.v: only the fk-th write of the target fails *)
Definition fs_single (x : fault) : fset :=
  fun f k => if fname_eqb f (ftarget x) && Nat.eqb k (fk x) then Some (ftorn x) else None.
(* the k-th write of f and every later one fail *)
Definition fs_persistent (g : fname) (k0 : nat) (n : N) : fset :=
  fun f k => if fname_eqb f g && Nat.leb k0 k && Nat.ltb 0 k0 then Some (if Nat.eqb k k0 then n else 0%N) else None.
(* as data (the form the generated cases use): listed writes of the index file fail with the given
   number of bytes stored; with [pers = Some k0] every write from the k0-th on fails as well *)
Fixpoint assoc_nat (k : nat) (l : list (nat * N)) : option N :=
  match l with
  | [] => None
  | (j, n) :: r => if Nat.eqb j k then Some n else assoc_nat k r
  end.
Definition fs_index (l : list (nat * N)) (pers : option nat) : fset :=
  fun f k =>
    if fname_eqb f IndexTmp then
      match assoc_nat k l with
      | Some n => Some n
      | None => match pers with
                | Some k0 => if Nat.leb k0 k && Nat.ltb 0 k0 then Some 0%N else None
                | None => None
                end
      end
    else None.

(* One Write call under a fault set; cnt = number of Write calls issued on this file so far. *)
Definition do_write_fs (fl : fset) (f : fname) (off len : N) (cnt : nat) : list op * N * nat * res :=
  match fl f (S cnt) with
  | Some n => let t := N.min n len in
              ((if (0 <? t)%N then [OWrite f off t] else []), t, S cnt, RErr)
  | None => ([OWrite f off len], len, S cnt, ROk)
  end.

(* the same control flow as write_seq / write_sections / write_index / sorted_docs / seal of Model.v
   (every error is returned at once), over do_write_fs *)
Fixpoint write_seq_fs (fl : fset) (f : fname) (pos : N) (ws : list N) (cnt : nat) : list op * N * nat * res :=
  match ws with
  | [] => ([], pos, cnt, ROk)
  | len :: r =>
      let '(o, n, cnt1, rs) := do_write_fs fl f pos len cnt in
      match rs with
      | ROk => let '(o2, pos2, cnt2, rs2) := write_seq_fs fl f (pos + len) r cnt1 in (o ++ o2, pos2, cnt2, rs2)
      | RErr => (o, (pos + n)%N, cnt1, RErr)
      end
  end.

Fixpoint write_sections_fs (fl : fset) (secs : list (skind * list N)) (pos : N) (cnt : nat)
  : list op * N * nat * res :=
  match secs with
  | [] => ([], pos, cnt, ROk)
  | (_, ws) :: r =>
      let '(o, pos1, cnt1, rs) := write_seq_fs fl IndexTmp pos ws cnt in
      match rs with
      | RErr => (o, pos1, cnt1, RErr)
      | ROk => let '(o2, pos2, cnt2, rs2) := write_sections_fs fl r pos1 cnt1 in (o ++ o2, pos2, cnt2, rs2)
      end
  end.

Definition write_index_fs (fl : fset) (p : plan) : list op * res :=
  let '(o1, pos1, cnt1, r1) := write_sections_fs fl (ix_sections p) 16 0 in
  match r1 with
  | RErr => (o1, RErr)
  | ROk =>
      let '(o2, _, cnt2, r2) := do_write_fs fl IndexTmp pos1 (reg_size p) cnt1 in
      match r2 with
      | RErr => (o1 ++ o2, RErr)
      | ROk => let '(o3, _, _, r3) := do_write_fs fl IndexTmp 0 16 cnt2 in (o1 ++ o2 ++ o3, r3)
      end
  end.

Definition sorted_docs_fs (fl : fset) (p : plan) : list op * res :=
  if skip_sort p then ([], ROk) else
  let '(o, _, _, r) := write_seq_fs fl SdocsTmp 0 (sd_writes p) 0 in
  match r with
  | ROk => (OCreate SdocsTmp :: o ++ [OFsync SdocsTmp; ORename SdocsTmp Sdocs], ROk)
  | RErr => (OCreate SdocsTmp :: o, RErr)
  end.

Definition seal_fs (p : plan) (fl : fset) : list op * res :=
  let '(o1, r1) := sorted_docs_fs fl p in
  match r1 with
  | RErr => (OCreate IndexTmp :: o1, RErr)
  | ROk =>
      let '(o2, r2) := write_index_fs fl p in
      match r2 with
      | RErr => (OCreate IndexTmp :: o1 ++ o2, RErr)
      | ROk => (OCreate IndexTmp :: o1 ++ o2 ++ publish_ops p, ROk)
      end
  end.

(* some write that the fault-free seal performs is in the set *)
Definition fs_hits (p : plan) (fl : fset) : Prop :=
  (skip_sort p = false /\ exists k, (1 <= k <= length (sd_writes p))%nat /\ fl SdocsTmp k <> None)
  \/ (exists k, (1 <= k <= length (flat_sizes p) + 2)%nat /\ fl IndexTmp k <> None).

(* executable: does the set contain one of the first n writes of f *)
Definition fs_hits_upto (fl : fset) (f : fname) (n : nat) : bool :=
  existsb (fun k => match fl f k with Some _ => true | None => false end) (seq 1 n).

(* ------------------------------------------------------------------ push oracle *)
(* [o i = true]: the i-th call of push (0-based, in call order) returns an error.  A transient
   failure is a singleton, a persistent one an upper set; the theorems quantify over all o. *)
Definition oracle := nat -> bool.

Definition oracle_of (l : list nat) (pers : option nat) : oracle :=
  fun i => existsb (Nat.eqb i) l || match pers with Some k => Nat.leb k i | None => false end.

(* one call of push: the block is handed over (appended to the trace), the oracle answers *)
Definition push {B : Type} (o : oracle) (tr : list B) (b : B) : list B * res :=
  (tr ++ [b], if o (length tr) then RErr else ROk).

(* every failed push was propagated at once: it is the last call made and the result is the
   error; and an error is returned only when the last call made failed *)
Definition propagated {B : Type} (o : oracle) (tr : list B) (r : res) : Prop :=
  (forall i, (i < length tr)%nat -> o i = true -> r = RErr /\ S i = length tr)
  /\ (r = RErr -> exists i, S i = length tr /\ o i = true).

(* the same, executable, on the number of calls seen and the error flag (used on the
   implementation's observations) *)
Definition propagated_b (o : oracle) (n : nat) (err : bool) : bool :=
  match n with
  | 0 => negb err
  | S m => forallb (fun i => negb (o i)) (seq 0 m) && Bool.eqb (o m) err
  end.

(* ------------------------------------------------------------------ getLIDsBlockGenerator *)
(* block handed to push: number of LIDs, number of token pieces (len(Offsets) - 1), IsLastLID,
   IsContinued, MinTID, MaxTID *)
Record lblock := mkLB { lb_lids : N; lb_pieces : N; lb_last : bool; lb_cont : bool; lb_min : N; lb_max : N }.

(* closure variables: len(blockLIDs), len(offsets) - 1, isContinued, maxTID, lastMaxTID *)
Record lst := mkLS { blk : N; offs : N; cont : bool; maxtid : N; lastmax : N }.

(* newBlockFn(isLastLID) *)
Definition new_block (s : lst) (is_last : bool) : lblock * lst :=
  (mkLB (blk s) (offs s) is_last (cont s) (lastmax s + 1) (maxtid s),
   mkLS 0 0 (negb is_last) (maxtid s) (maxtid s)).

(* [hoist]: the variant in which the full-block push only assigns `err = push(...)` and the check
   follows the end-of-field push (seeded change C08-m9); the code is [hoist = false] *)
(* for len(tokenLIDs) > 0 { ... }  ; rest = len(tokenLIDs); pend = an error stored but not yet
   returned (always false when hoist = false) *)
Fixpoint lids_token (hoist : bool) (fuel : nat) (cap : N) (o : oracle) (rest : N) (s : lst)
         (tr : list lblock) (pend : bool) : option (lst * list lblock * bool * res) :=
  if (rest =? 0)%N then Some (s, tr, pend, ROk) else
  match fuel with
  | O => None
  | S fuel' =>
      let right := N.min (cap - blk s) rest in
      let s1 := mkLS (blk s + right) (offs s + 1) (cont s) (maxtid s) (lastmax s) in
      let rest1 := (rest - right)%N in
      if (blk s1 =? cap)%N then
        let '(b, s2) := new_block s1 (rest1 =? 0)%N in
        let '(tr2, r) := push o tr b in
        match r with
        | RErr => if hoist then lids_token hoist fuel' cap o rest1 s2 tr2 true
                  else Some (s2, tr2, false, RErr)              (* if err := push(...); err != nil { return err } *)
        | ROk => lids_token hoist fuel' cap o rest1 s2 tr2 (if hoist then false else pend)
        end
      else lids_token hoist fuel' cap o rest1 s1 tr pend
  end.

Definition token_fuel (cap rest b : N) : nat := S (N.to_nat ((rest + b) / cap)).

(* for _, tid := range g.getTIDsSortedByToken(...) { maxTID++; tokenLIDs := ...; <inner loop> } *)
Fixpoint lids_tids (hoist : bool) (cap : N) (o : oracle) (tids : list N) (s : lst) (tr : list lblock) (pend : bool)
  : option (lst * list lblock * bool * res) :=
  match tids with
  | [] => Some (s, tr, pend, ROk)
  | n :: tl =>
      let s0 := mkLS (blk s) (offs s) (cont s) (maxtid s + 1) (lastmax s) in
      match lids_token hoist (token_fuel cap n (blk s0)) cap o n s0 tr pend with
      | None => None
      | Some (s1, tr1, pend1, RErr) => Some (s1, tr1, pend1, RErr)
      | Some (s1, tr1, pend1, ROk) => lids_tids hoist cap o tl s1 tr1 pend1
      end
  end.

(* for _, field := range g.getFracSortedFields(...) { <tids loop>; if len(blockLIDs) > 0 { push } } *)
Fixpoint lids_fields (hoist : bool) (cap : N) (o : oracle) (fields : list (list N)) (s : lst) (tr : list lblock)
  : option (lst * list lblock * res) :=
  match fields with
  | [] => Some (s, tr, ROk)
  | tids :: fl =>
      match lids_tids hoist cap o tids s tr false with
      | None => None
      | Some (s1, tr1, _, RErr) => Some (s1, tr1, RErr)
      | Some (s1, tr1, pend1, ROk) =>
          if (0 <? blk s1)%N then
            let '(b, s2) := new_block s1 true in
            let '(tr2, r) := push o tr1 b in
            match r with
            | RErr => Some (s2, tr2, RErr)                       (* if err := push(newBlockFn(true)); err != nil { return err } *)
            | ROk => lids_fields hoist cap o fl s2 tr2           (* hoisted: the stored error is overwritten *)
            end
          else if pend1 then Some (s1, tr1, RErr)                (* hoisted: `if err != nil { return err }` *)
          else lids_fields hoist cap o fl s1 tr1
      end
  end.

(* fields: for every field in sorted order, for every token in sorted order, its number of LIDs *)
Definition gen_lids_gen (hoist : bool) (cap : N) (fields : list (list N)) (o : oracle) : option (list lblock * res) :=
  match lids_fields hoist cap o fields (mkLS 0 0 false 0 0) [] with
  | Some (_, tr, r) => Some (tr, r)
  | None => None
  end.
Definition gen_lids := gen_lids_gen false.
Definition gen_lids_hoisted := gen_lids_gen true.

(* ------------------------------------------------------------------ chunk loops *)
(* for len(xs) > 0 { right := min(size, len(xs)); xs = xs[right:]; push(block(state, right)); state' }
   — the shape of getIDsBlocksGenerator and of the inner loop of getTokensBlocksGenerator *)
Fixpoint chunk_loop {A B : Type} (fuel : nat) (size : N) (mk : A -> N -> B * A) (o : oracle)
         (rest : N) (a : A) (tr : list B) : option (A * list B * res) :=
  if (rest =? 0)%N then Some (a, tr, ROk) else
  match fuel with
  | O => None
  | S fuel' =>
      let right := N.min size rest in
      let '(b, a1) := mk a right in
      let '(tr1, r) := push o tr b in
      match r with
      | RErr => Some (a1, tr1, RErr)                             (* if err := push(&block); err != nil { return err } *)
      | ROk => chunk_loop fuel' size mk o (rest - right) a1 tr1
      end
  end.
Definition chunk_fuel (size rest : N) : nat := S (N.to_nat (rest / size)).

(* getIDsBlocksGenerator(sortedSeqIDs, positions, size): n = len(sortedSeqIDs); a block = its number of IDs *)
Definition gen_ids (size n : N) (o : oracle) : option (list N * res) :=
  match chunk_loop (chunk_fuel size n) size (fun (_ : unit) right => (right, tt)) o n tt [] with
  | Some (_, tr, r) => Some (tr, r)
  | None => None
  end.

(* getTokensBlocksGenerator: per field (sorted) the size in bytes of its token values and the
   number of its tokens; rbs = consts.RegularBlockSize.  Block = field index, isStartOfField,
   totalSizeOfField, startTID, number of tokens *)
Record tblock := mkTB { tb_field : nat; tb_start : bool; tb_total : N; tb_tid : N; tb_tokens : N }.

Fixpoint tokens_fields (rbs : N) (o : oracle) (fields : list (N * N)) (fi : nat) (cur : N) (tr : list tblock)
  : option (N * list tblock * res) :=
  match fields with
  | [] => Some (cur, tr, ROk)
  | (fsize, ntids) :: fl =>
      let blocks_count := (fsize / rbs + 1)%N in
      let block_size := N.max 1 (ntids / blocks_count) in
      match chunk_loop (chunk_fuel block_size ntids) block_size
              (fun (st : bool * N) right => (mkTB fi (fst st) fsize (snd st) right, (false, (snd st + right)%N)))
              o ntids (true, cur) tr with
      | None => None
      | Some (st, tr1, RErr) => Some (snd st, tr1, RErr)
      | Some (st, tr1, ROk) => tokens_fields rbs o fl (S fi) (snd st) tr1
      end
  end.
Definition gen_tokens (rbs : N) (fields : list (N * N)) (o : oracle) : option (list tblock * res) :=
  match tokens_fields rbs o fields 0 1%N [] with
  | Some (_, tr, r) => Some (tr, r)
  | None => None
  end.

(* getTokenTableBlocksGenerator: per field (sorted) whether the token table has it, and its number
   of entries.  Block = field index, entries *)
Fixpoint table_fields (o : oracle) (fields : list (bool * N)) (fi : nat) (tr : list (nat * N)) : list (nat * N) * res :=
  match fields with
  | [] => (tr, ROk)
  | (present, entries) :: fl =>
      if present then
        let '(tr1, r) := push o tr (fi, entries) in
        match r with
        | RErr => (tr1, RErr)                                    (* if err := push(&block); err != nil { return err } *)
        | ROk => table_fields o fl (S fi) tr1
        end
      else table_fields o fl (S fi) tr
  end.
Definition gen_token_table (fields : list (bool * N)) (o : oracle) : list (nat * N) * res := table_fields o fields 0 [].
