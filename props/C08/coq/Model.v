(* C08 — executable model of sealing one fraction, of the directory it works in, of crashes /
   power loss, and of the loader's classification at restart.  No proofs in this file.
   Mirrors (as the code is NOW, i.e. with fix 098cf8d):
     frac/active_sealer.go        Seal, syncRename, writeSortedDocs, writeSealedFraction
     frac/disk_blocks_producer.go get*Generator: a failed push ends the generator WITH the error
                                  (the behaviour before 098cf8d is kept as [seal_v0])
     frac/disk_blocks_writer.go, disk/blocks_writer.go, disk/block_former.go
                                  every block = one Write on the io.WriteSeeker; registry at the
                                  end, then 16 header bytes at offset 0
     fracmanager/proxy_frac.go    Seal -> (error => logger.Fatal in fm.seal) -> active.Release
     frac/active.go               Release: unlink .meta, then (unless SkipSortDocs) unlink .docs
     fracmanager/loader.go        makeInfos (temp files ignored), filterInfos, load
     frac/sealed.go               openDocs prefers .docs, falls back to .sdocs
   File-system semantics = harness/internal/crashfs: operations take effect in completion order,
   create/rename/unlink are atomic and durable in issue order, file data is durable up to the
   length at the last fsync. *)
From Coq Require Export List Bool Arith NArith.
Export ListNotations.

(* the six files of one fraction *)
Inductive fname := Docs | Meta | SdocsTmp | Sdocs | IndexTmp | Index.

Definition fname_eqb (a b : fname) : bool :=
  match a, b with
  | Docs, Docs | Meta, Meta | SdocsTmp, SdocsTmp | Sdocs, Sdocs | IndexTmp, IndexTmp | Index, Index => true
  | _, _ => false
  end.

Inductive op :=
| OCreate (f : fname)                 (* os.Create: new empty file or truncation of an existing one *)
| OWrite (f : fname) (off len : N)
| OFsync (f : fname)
| ORename (a b : fname)
| OFsyncDir
| OUnlink (f : fname)
| OOther.                             (* anything else the driver saw on the fraction's files *)

(* sections of the index file (writeSealedFraction) *)
Inductive skind := KInfo | KTokens | KTokenTable | KPositions | KIDs | KLIDs.

(* What the corpus determines: the sizes of the Write calls.  Supplied per case by the harness
   (sizes of compressed blocks are external data: zstd is not modelled). *)
Record plan := mkPlan {
  skip_sort : bool;                         (* Config.SkipSortDocs *)
  sd_writes : list N;                       (* Write calls that fill ._sdocs, in order from offset 0 *)
  ix_sections : list (skind * list N);      (* block writes of each section, in order from offset 16 *)
  reg_size : N                              (* registry, written at the end; then 16 bytes at offset 0 *)
}.

(* the fk-th Write call on file ftarget fails after ftorn bytes (at most the length of that write) *)
Record fault := mkFault { ftarget : fname; fk : nat; ftorn : N }.

Inductive res := ROk | RErr.

Definition is_target (flt : option fault) (f : fname) : bool :=
  match flt with Some x => fname_eqb f (ftarget x) | None => false end.

(* One Write call. Returns: logged operations, bytes that reached the file, the number of Write
   calls issued to the faulty target so far, the result. *)
Definition do_write (flt : option fault) (f : fname) (off len : N) (cnt : nat) : list op * N * nat * res :=
  match flt with
  | Some x =>
      if fname_eqb f (ftarget x) then
        if Nat.eqb (S cnt) (fk x) then
          let t := N.min (ftorn x) len in
          ((if (0 <? t)%N then [OWrite f off t] else []), t, S cnt, RErr)
        else ([OWrite f off len], len, S cnt, ROk)
      else ([OWrite f off len], len, cnt, ROk)
  | None => ([OWrite f off len], len, cnt, ROk)
  end.

(* consecutive writes; the first error ends the loop and is returned *)
Fixpoint write_seq (flt : option fault) (f : fname) (pos : N) (ws : list N) (cnt : nat)
  : list op * N * nat * res :=
  match ws with
  | [] => ([], pos, cnt, ROk)
  | len :: r =>
      let '(o, n, cnt1, rs) := do_write flt f pos len cnt in
      match rs with
      | ROk => let '(o2, pos2, cnt2, rs2) := write_seq flt f (pos + len) r cnt1 in (o ++ o2, pos2, cnt2, rs2)
      | RErr => (o, (pos + n)%N, cnt1, RErr)
      end
  end.

(* the sections of the index; [swallow k] = the generator of section k returns nil when a push
   failed (the section is abandoned, sealing goes on with the next one) *)
Fixpoint write_sections (swallow : skind -> bool) (flt : option fault) (secs : list (skind * list N))
         (pos : N) (cnt : nat) : list op * N * nat * res :=
  match secs with
  | [] => ([], pos, cnt, ROk)
  | (k, ws) :: r =>
      let '(o, pos1, cnt1, rs) := write_seq flt IndexTmp pos ws cnt in
      match rs, swallow k with
      | RErr, false => (o, pos1, cnt1, RErr)
      | _, _ => let '(o2, pos2, cnt2, rs2) := write_sections swallow flt r pos1 cnt1 in
                (o ++ o2, pos2, cnt2, rs2)
      end
  end.

(* writeSealedFraction from the info block on, then WriteBlocksRegistry *)
Definition write_index (swallow : skind -> bool) (flt : option fault) (p : plan) : list op * res :=
  let '(o1, pos1, cnt1, r1) := write_sections swallow flt (ix_sections p) 16 0 in
  match r1 with
  | RErr => (o1, RErr)
  | ROk =>
      let '(o2, _, cnt2, r2) := do_write flt IndexTmp pos1 (reg_size p) cnt1 in
      match r2 with
      | RErr => (o1 ++ o2, RErr)
      | ROk => let '(o3, _, _, r3) := do_write flt IndexTmp 0 16 cnt2 in (o1 ++ o2 ++ o3, r3)
      end
  end.

(* writeSortedDocs *)
Definition sorted_docs (flt : option fault) (p : plan) : list op * res :=
  if skip_sort p then ([], ROk) else
  let '(o, _, _, r) := write_seq flt SdocsTmp 0 (sd_writes p) 0 in
  match r with
  | ROk => (OCreate SdocsTmp :: o ++ [OFsync SdocsTmp; ORename SdocsTmp Sdocs], ROk)
  | RErr => (OCreate SdocsTmp :: o, RErr)
  end.

(* syncRename + MustSyncPath (Seal), then Active.Release (proxyFrac.Seal) *)
Definition publish_ops (p : plan) : list op :=
  [OFsync IndexTmp; ORename IndexTmp Index; OFsyncDir; OUnlink Meta]
  ++ (if skip_sort p then [] else [OUnlink Docs]).

(* frac.Seal followed by Release; RErr = Seal returned an error = fm.seal calls logger.Fatal: the
   process ends, nothing else happens to the directory *)
Definition seal_gen (swallow : skind -> bool) (p : plan) (flt : option fault) : list op * res :=
  let '(o1, r1) := sorted_docs flt p in
  match r1 with
  | RErr => (OCreate IndexTmp :: o1, RErr)
  | ROk =>
      let '(o2, r2) := write_index swallow flt p in
      match r2 with
      | RErr => (OCreate IndexTmp :: o1 ++ o2, RErr)
      | ROk => (OCreate IndexTmp :: o1 ++ o2 ++ publish_ops p, ROk)
      end
  end.

Definition seal := seal_gen (fun _ => false).
(* before fix 098cf8d: getIDsBlocksGenerator / getLIDsBlockGenerator returned nil on a failed push *)
Definition seal_v0 := seal_gen (fun k => match k with KIDs | KLIDs => true | _ => false end).

(* ---- the fault-free operation sequence, written out ---- *)
Fixpoint seq_ops (f : fname) (pos : N) (ws : list N) : list op :=
  match ws with
  | [] => []
  | l :: r => OWrite f pos l :: seq_ops f (pos + l) r
  end.
Definition sum_N (l : list N) : N := fold_right N.add 0%N l.
Definition flat_sizes (p : plan) : list N := flat_map snd (ix_sections p).
Definition index_ops (p : plan) : list op :=
  seq_ops IndexTmp 16 (flat_sizes p)
  ++ [OWrite IndexTmp (16 + sum_N (flat_sizes p)) (reg_size p); OWrite IndexTmp 0 16].
Definition sdocs_ops (p : plan) : list op :=
  if skip_sort p then []
  else OCreate SdocsTmp :: seq_ops SdocsTmp 0 (sd_writes p) ++ [OFsync SdocsTmp; ORename SdocsTmp Sdocs].
Definition pre_ops (p : plan) : list op := OCreate IndexTmp :: sdocs_ops p ++ index_ops p.
Definition seal_ops (p : plan) : list op := pre_ops p ++ publish_ops p.

(* ---- directory state ---- *)
Record content := mkC {
  cw : list (N * N);     (* complete history of (offset, length) writes since creation *)
  clen : N;              (* current length *)
  csync : N;             (* durable length (length at the last fsync) *)
  corig : bool           (* an original file of the active fraction, untouched *)
}.
Definition fs := fname -> option content.
Definition upd (s : fs) (f : fname) (v : option content) : fs :=
  fun g => if fname_eqb g f then v else s g.
Definition empty_c := mkC [] 0 0 false.

Definition apply_op (s : fs) (o : op) : fs :=
  match o with
  | OCreate f => upd s f (Some empty_c)
  | OWrite f off len =>
      match s f with
      | Some c => upd s f (Some (mkC (cw c ++ [(off, len)]) (N.max (clen c) (off + len)) (csync c) false))
      | None => s
      end
  | OFsync f =>
      match s f with
      | Some c => upd s f (Some (mkC (cw c) (clen c) (clen c) (corig c)))
      | None => s
      end
  | ORename a b =>
      match s a with
      | Some c => upd (upd s a None) b (Some c)
      | None => s
      end
  | OFsyncDir => s
  | OUnlink f => upd s f None
  | OOther => s
  end.
Definition run (ops : list op) (s : fs) : fs := fold_left apply_op ops s.

(* crash after the first j operations, the (j+1)-th being a write of which only n bytes arrived *)
Definition torn_tail (o : option op) (n : N) : list op :=
  match o with
  | Some (OWrite f off len) => if ((0 <? n) && (n <? len))%N then [OWrite f off n] else []
  | _ => []
  end.
Definition torn_ops (ops : list op) (j : nat) (n : N) : list op :=
  firstn j ops ++ torn_tail (nth_error ops j) n.

(* the same as a relation: l is what reached the disk when the process died while executing ops *)
Inductive tprefix : list op -> list op -> Prop :=
| tp_nil : forall b, tprefix [] b
| tp_torn : forall f off len n b, (0 < n)%N -> (n < len)%N -> tprefix [OWrite f off n] (OWrite f off len :: b)
| tp_cons : forall x a b, tprefix a b -> tprefix (x :: a) (x :: b).

(* power loss: every file keeps any length between its durable and its current length *)
Definition cut (c : content) (k : N) : content :=
  let k' := N.min (clen c) (N.max (csync c) k) in
  mkC (cw c) k' (csync c) (corig c && (k' =? clen c)%N).
Definition power_loss (keep : fname -> N) (s : fs) : fs :=
  fun f => match s f with Some c => Some (cut c (keep f)) | None => None end.

Definition crash_state (ops : list op) (s0 : fs) (j : nat) (n : N) (keep : fname -> N) : fs :=
  power_loss keep (run (torn_ops ops j n) s0).

(* ---- restart: fracmanager/loader.go ---- *)
Inductive lkind :=
| LActive     (* replayed from .docs + .meta *)
| LSealed     (* NewSealed on .index with .docs or .sdocs *)
| LFatal      (* "fraction has valid docs but no .index or .meta file" *)
| LSkipped.   (* "fraction doesn't have .docs/.sdocs file, skipping" *)

Definition has (s : fs) (f : fname) : bool := match s f with Some _ => true | None => false end.

(* makeInfos never looks at ._sdocs / ._index; filterInfos; load (with the files it removes/creates) *)
Definition load (s : fs) : lkind * fs :=
  if negb (has s Docs || has s Sdocs) then (LSkipped, s)
  else if negb (has s Meta || has s Index) then (LFatal, s)
  else if has s Sdocs && has s Index then (LSealed, upd (upd s Meta None) Docs None)
  else if has s Meta then (LActive, if has s Docs then s else upd s Docs (Some empty_c))
  else (LSealed, s).

(* ---- what "all documents are served" means in the model ---- *)
Definition writes_of (f : fname) (ops : list op) : list (N * N) :=
  flat_map (fun o => match o with
                     | OWrite g off len => if fname_eqb g f then [(off, len)] else []
                     | _ => [] end) ops.
Definition wlen (ws : list (N * N)) : N := fold_left (fun m x => N.max m (fst x + snd x)) ws 0%N.
Definition index_writes (p : plan) : list (N * N) := writes_of IndexTmp (index_ops p).
Definition sdocs_writes (p : plan) : list (N * N) := writes_of SdocsTmp (sdocs_ops p).

Fixpoint wl_eqb (a b : list (N * N)) : bool :=
  match a, b with
  | [], [] => true
  | (x1, x2) :: a', (y1, y2) :: b' => (x1 =? y1)%N && (x2 =? y2)%N && wl_eqb a' b'
  | _, _ => false
  end.

(* the file holds exactly the planned writes, all of them, at full length *)
Definition complete (ws : list (N * N)) (o : option content) : bool :=
  match o with
  | Some c => wl_eqb (cw c) ws && (clen c =? wlen ws)%N
  | None => false
  end.
(* an original file of the active fraction, untouched and durable *)
Definition intact (o : option content) : bool :=
  match o with Some c => corig c && (csync c =? clen c)%N | None => false end.

(* every document is served after restart: replayed from intact originals, or read through a
   complete index over the document file that index was built for *)
Definition serves_all (p : plan) (r : lkind * fs) : bool :=
  let s := snd r in
  match fst r with
  | LActive => intact (s Docs) && intact (s Meta)
  | LSealed =>
      complete (index_writes p) (s Index)
      && (if has s Docs then skip_sort p && intact (s Docs)       (* openDocs prefers .docs *)
          else negb (skip_sort p) && complete (sdocs_writes p) (s Sdocs))
  | LFatal | LSkipped => false
  end.

(* state in which sealing starts (also after any number of interrupted seals): originals intact;
   no published index next to a sorted-docs file *)
Definition inv (p : plan) (s : fs) : Prop :=
  intact (s Docs) = true /\ intact (s Meta) = true /\
  (if skip_sort p then s Sdocs = None else s Index = None).

(* state after a completed seal (any of the loader's clean-up steps may still be pending) *)
Definition durable (o : option content) : bool :=
  match o with Some c => (csync c =? clen c)%N | None => false end.
Definition sealed_state (p : plan) (s : fs) : Prop :=
  complete (index_writes p) (s Index) = true /\ durable (s Index) = true /\
  (s Docs = None \/ intact (s Docs) = true) /\ (s Meta = None \/ intact (s Meta) = true) /\
  (if skip_sort p then s Sdocs = None /\ intact (s Docs) = true
   else complete (sdocs_writes p) (s Sdocs) = true /\ durable (s Sdocs) = true).

(* ---- write faults ---- *)
(* the fault really strikes: the fk-th write of the target file exists in this seal *)
Definition fault_hits (p : plan) (x : fault) : Prop :=
  (ftarget x = IndexTmp /\ 1 <= fk x <= length (flat_sizes p) + 2)%nat
  \/ (ftarget x = SdocsTmp /\ skip_sort p = false /\ 1 <= fk x <= length (sd_writes p))%nat.

(* operations that publish the index or remove a file *)
Definition no_publish_op (o : op) : bool :=
  match o with ORename IndexTmp Index | OUnlink _ => false | _ => true end.

(* ---- any number of interrupted seals and restarts ---- *)
(* directories that can be met at a restart, for a fixed SkipSortDocs setting: the start state,
   then repeatedly: restart (the loader may clean up), power loss at any time, and - if the
   fraction came up active - another seal attempt (any corpus-dependent sizes, any write fault)
   interrupted anywhere *)
Inductive reachable (sk : bool) : fs -> Prop :=
| r_init : forall p s, skip_sort p = sk -> inv p s -> reachable sk s
| r_restart : forall s keep, reachable sk s -> reachable sk (power_loss keep (snd (load s)))
| r_seal : forall s p flt l keep,
    reachable sk s -> skip_sort p = sk -> fst (load s) = LActive ->
    tprefix l (fst (seal p flt)) ->
    reachable sk (power_loss keep (run l (snd (load s)))).

(* served by some complete seal with that setting (the sizes of the seal that produced the
   index are whatever that attempt's corpus encoding gave) *)
Definition served (sk : bool) (s : fs) : Prop :=
  exists p, skip_sort p = sk /\ serves_all p (load s) = true.
