(* C08 — shape of the generated cases and the two executable verdicts. No proofs. *)
From VLib Require Import CaseLib.
From C08 Require Import Model ModelGen ModelPool.

Definition all_names : list fname := [Docs; Meta; SdocsTmp; Sdocs; IndexTmp; Index].

Definition op_eqb (a b : op) : bool :=
  match a, b with
  | OCreate f, OCreate g => fname_eqb f g
  | OWrite f o l, OWrite g o' l' => fname_eqb f g && (o =? o')%N && (l =? l')%N
  | OFsync f, OFsync g => fname_eqb f g
  | ORename a1 a2, ORename b1 b2 => fname_eqb a1 b1 && fname_eqb a2 b2
  | OFsyncDir, OFsyncDir => true
  | OUnlink f, OUnlink g => fname_eqb f g
  | OOther, OOther => true
  | _, _ => false
  end.

Definition lkind_eqb (a b : lkind) : bool :=
  match a, b with
  | LActive, LActive | LSealed, LSealed | LFatal, LFatal | LSkipped, LSkipped => true
  | _, _ => false
  end.

Definition res_is_err (r : res) : bool := match r with RErr => true | ROk => false end.

Fixpoint lookup (f : fname) (l : list (fname * N)) : option N :=
  match l with
  | [] => None
  | (g, n) :: r => if fname_eqb f g then Some n else lookup f r
  end.

(* directory before the seal: .docs/.meta are the originals, anything else is a leftover of an
   earlier interrupted seal (its history is unknown to the model) *)
Definition init_fs (fl : list (fname * N)) : fs :=
  fun f => match lookup f fl with
           | Some n => Some (mkC [] n n (match f with Docs | Meta => true | _ => false end))
           | None => None
           end.

Definition keep_fn (kl : list (fname * N)) : fname -> N :=
  fun f => match lookup f kl with Some n => n | None => 18446744073709551615%N end.

Definition sizes (s : fs) : list (fname * N) :=
  flat_map (fun f => match s f with Some c => [(f, clen c)] | None => [] end) all_names.
Definition names (s : fs) : list fname :=
  flat_map (fun f => match s f with Some _ => [f] | None => [] end) all_names.
Definition fsz_eqb := list_eqb (pair_eqb fname_eqb N.eqb).

Definition full_index_len (p : plan) : N := (16 + sum_N (flat_sizes p) + reg_size p)%N.
Definition full_sdocs_len (p : plan) : N := sum_N (sd_writes p).
Definition total_index_writes (p : plan) : nat := (length (flat_sizes p) + 2)%nat.

(* The orderings of the property, checked on a raw operation log: a temp file is renamed to its
   final name only when everything written to it has been fsynced; an original file is removed only
   after the index was renamed into place and the directory fsynced. *)
Record lstate := mkL { sd_dirty : bool; ix_dirty : bool; published : bool; dirsynced : bool; lok : bool }.
Definition log_step (st : lstate) (o : op) : lstate :=
  match o with
  | OCreate SdocsTmp | OWrite SdocsTmp _ _ => mkL true (ix_dirty st) (published st) (dirsynced st) (lok st)
  | OCreate IndexTmp | OWrite IndexTmp _ _ => mkL (sd_dirty st) true (published st) (dirsynced st) (lok st)
  | OFsync SdocsTmp => mkL false (ix_dirty st) (published st) (dirsynced st) (lok st)
  | OFsync IndexTmp => mkL (sd_dirty st) false (published st) (dirsynced st) (lok st)
  | ORename SdocsTmp Sdocs => mkL (sd_dirty st) (ix_dirty st) (published st) (dirsynced st) (lok st && negb (sd_dirty st))
  | ORename IndexTmp Index => mkL (sd_dirty st) (ix_dirty st) true false (lok st && negb (ix_dirty st))
  | OFsyncDir => mkL (sd_dirty st) (ix_dirty st) (published st) (published st) (lok st)
  | OUnlink Docs | OUnlink Meta => mkL (sd_dirty st) (ix_dirty st) (published st) (dirsynced st)
                                       (lok st && published st && dirsynced st)
  | _ => st
  end.
Definition log_safe (ops : list op) : bool :=
  lok (fold_left log_step ops (mkL false false false false true)).

Definition mem_name (f : fname) (l : list (fname * N)) : bool :=
  match lookup f l with Some _ => true | None => false end.
Definition has_size (f : fname) (n : N) (l : list (fname * N)) : bool :=
  match lookup f l with Some m => (m =? n)%N | None => false end.

Inductive case :=
(* the operations a real fault-free seal of a fraction issued on that fraction's files (from strace),
   ok = the store acknowledged the seal *)
| CTrace (p : plan) (ops : list op) (ok : bool)
(* one crash state of that seal: directory [init] before, crash after j operations with the next
   write torn at n bytes, then power loss keeping [keep] bytes of each listed file.
   impl: file sizes of the rebuilt directory, what the restarted store made of the fraction, the
   fraction's files after the restart, every document fetched and found by every query *)
| CCrash (p : plan) (init : list (fname * N)) (j : nat) (n : N) (keep : list (fname * N))
         (before : list (fname * N)) (kind : lkind) (after : list fname) (served : bool)
(* the k-th Write on the io.WriteSeeker handed to the real writeSealedFraction fails after n bytes.
   impl: an error came back; the (offset, length) of every write that reached the file *)
| CFault (p : plan) (k : nat) (n : N) (impl_err : bool) (impl_writes : list (N * N))
(* real fm.seal in a child whose RLIMIT_FSIZE is [limit]: the first write crossing the limit is
   cut and fails.  impl: the child died (logger.Fatal), operations on the fraction's files *)
| CLimit (p : plan) (init : list (fname * N)) (limit : N) (died : bool) (ops : list op)
(* ANY set of failing Writes on the io.WriteSeeker handed to the real writeSealedFraction: the listed
   calls fail after storing the given number of bytes; with [pers = Some k0] every call from the
   k0-th on fails too.  impl: an error came back; the writes that reached the file *)
| CFaultSet (p : plan) (fl : list (nat * N)) (pers : option nat) (impl_err : bool) (impl_writes : list (N * N))
(* the real rotate + fm.seal in a child in which ONLY the k-th write(2) on the ._index file fails
   (EIO injected, nothing stored; every other write succeeds).  impl: the child died
   (logger.Fatal), the fraction's files afterwards, .docs and .meta byte-identical to before *)
| CSealT (p : plan) (init : list (fname * N)) (k : nat) (died : bool) (after : list fname) (orig_intact : bool)
(* shape of the index of one corpus against the generator models: the LIDs section has one write
   per block of getLIDsBlockGenerator(cap), the IDs section three per block of
   getIDsBlocksGenerator(idsize) *)
| CShape (p : plan) (cap : N) (lfields : list (list N)) (idsize nids : N)
(* the real block generators driven with a push function that fails on the listed calls (0-based)
   and, with [pers = Some k], on every call from the k-th on.  impl: the blocks handed to push, in
   order; whether the generator returned an error *)
| CGenLIDs (cap : N) (fields : list (list N)) (fl : list nat) (pers : option nat) (impl_tr : list lblock) (impl_err : bool)
| CGenIDs (size n : N) (fl : list nat) (pers : option nat) (impl_tr : list N) (impl_err : bool)
| CGenTokens (rbs : N) (fields : list (N * N)) (fl : list nat) (pers : option nat) (impl_tr : list tblock) (impl_err : bool)
| CGenTable (fields : list (bool * N)) (fl : list nat) (pers : option nat) (impl_tr : list (nat * N)) (impl_err : bool)
(* pool pressure (round 6): the real writeSealedFraction writes the blocks [blocks] (compress requested?, stored
   compressed?) through disk.BlocksWriter.WriteBlock while another user of the shared bytespool runs at the
   scheduling point between compression and Write (the Seek call) as [sched] says.  impl: what the real
   IndexReader (header -> registry -> block, decompressed) read back for every block: [CZ k] = stored
   compressed and equal to the payload handed to WriteBlock for block k, [CRaw k] = stored as is and equal,
   [CPoison 0] = anything else (does not decompress / other bytes) *)
| CPool (blocks : list pblk) (sched : list pev) (impl : list pcontent)
(* the index written under pool pressure published as <fraction>.index and the store restarted on the
   directory.  impl: how the fraction was loaded, every document fetched and found by every token query *)
| CPoolServe (skip : bool) (kind : lkind) (served : bool).

Definition lblock_eqb (a b : lblock) : bool :=
  (lb_lids a =? lb_lids b)%N && (lb_pieces a =? lb_pieces b)%N && Bool.eqb (lb_last a) (lb_last b)
  && Bool.eqb (lb_cont a) (lb_cont b) && (lb_min a =? lb_min b)%N && (lb_max a =? lb_max b)%N.
Definition tblock_eqb (a b : tblock) : bool :=
  Nat.eqb (tb_field a) (tb_field b) && Bool.eqb (tb_start a) (tb_start b) && (tb_total a =? tb_total b)%N
  && (tb_tid a =? tb_tid b)%N && (tb_tokens a =? tb_tokens b)%N.
Definition inb (f : fname) (l : list fname) : bool := existsb (fname_eqb f) l.
Definition never : oracle := fun _ => false.
Fixpoint sec_len (k : skind) (secs : list (skind * list N)) : nat :=
  match secs with
  | [] => 0
  | (k', ws) :: r => (match k, k' with KIDs, KIDs | KLIDs, KLIDs => length ws | _, _ => 0 end + sec_len k r)%nat
  end.
(* the single transient failure of the k-th index write, nothing stored *)
Definition fs_kth (k : nat) : fset := fs_index [(k, 0%N)] None.
Definition gen_agrees {B : Type} (eqb : B -> B -> bool) (m : option (list B * res)) (impl_tr : list B) (impl_err : bool) : bool :=
  match m with
  | Some (tr, r) => list_eqb eqb tr impl_tr && Bool.eqb impl_err (res_is_err r)
  | None => false
  end.

(* the write fault that a file size limit causes in the fault-free sequence *)
Fixpoint limit_fault_from (ops : list op) (limit : N) (ks ki : nat) : option fault :=
  match ops with
  | [] => None
  | OWrite f off len :: r =>
      let ks' := if fname_eqb f SdocsTmp then S ks else ks in
      let ki' := if fname_eqb f IndexTmp then S ki else ki in
      if (limit <? off + len)%N then
        Some (mkFault f (if fname_eqb f SdocsTmp then ks' else ki') (limit - off))
      else limit_fault_from r limit ks' ki'
  | _ :: r => limit_fault_from r limit ks ki
  end.
Definition limit_fault (p : plan) (limit : N) : option fault := limit_fault_from (seal_ops p) limit 0 0.

(* executable form of the hypothesis [inv] of the crash theorems *)
Definition invb (p : plan) (s : fs) : bool :=
  intact (s Docs) && intact (s Meta) && (if skip_sort p then negb (has s Sdocs) else negb (has s Index)).

(* model output = implementation output *)
Definition case_agrees (c : case) : bool :=
  match c with
  | CTrace p ops ok => list_eqb op_eqb ops (fst (seal p None)) && Bool.eqb ok (negb (res_is_err (snd (seal p None))))
  | CCrash p init j n keep before kind after served =>
      let s := crash_state (fst (seal p None)) (init_fs init) j n (keep_fn keep) in
      let r := load s in
      invb p (init_fs init) && fsz_eqb (sizes s) before && lkind_eqb (fst r) kind && list_eqb fname_eqb (names (snd r)) after
      && Bool.eqb served (serves_all p r)
  | CFault p k n impl_err impl_writes =>
      let r := seal p (Some (mkFault IndexTmp k n)) in
      Bool.eqb impl_err (res_is_err (snd r)) && wl_eqb (writes_of IndexTmp (fst r)) impl_writes
  | CLimit p init limit died ops =>
      let r := seal p (limit_fault p limit) in
      Bool.eqb died (res_is_err (snd r)) && list_eqb op_eqb ops (fst r)
  | CFaultSet p fl pers impl_err impl_writes =>
      let r := seal_fs p (fs_index fl pers) in
      Bool.eqb impl_err (res_is_err (snd r)) && wl_eqb (writes_of IndexTmp (fst r)) impl_writes
  | CSealT p init k died after orig_intact =>
      let r := seal_fs p (fs_kth k) in
      let s := run (fst r) (init_fs init) in
      invb p (init_fs init) && Bool.eqb died (res_is_err (snd r)) && list_eqb fname_eqb (names s) after
      && Bool.eqb orig_intact (intact (s Docs) && intact (s Meta))
  | CShape p cap lfields idsize nids =>
      match gen_lids cap lfields never, gen_ids idsize nids never with
      | Some (tl, ROk), Some (ti, ROk) =>
          Nat.eqb (sec_len KLIDs (ix_sections p)) (length tl) && Nat.eqb (sec_len KIDs (ix_sections p)) (3 * length ti)
      | _, _ => false
      end
  | CGenLIDs cap fields fl pers impl_tr impl_err =>
      gen_agrees lblock_eqb (gen_lids cap fields (oracle_of fl pers)) impl_tr impl_err
  | CGenIDs size n fl pers impl_tr impl_err =>
      gen_agrees N.eqb (gen_ids size n (oracle_of fl pers)) impl_tr impl_err
  | CGenTokens rbs fields fl pers impl_tr impl_err =>
      gen_agrees tblock_eqb (gen_tokens rbs fields (oracle_of fl pers)) impl_tr impl_err
  | CGenTable fields fl pers impl_tr impl_err =>
      gen_agrees (pair_eqb Nat.eqb N.eqb) (Some (gen_token_table fields (oracle_of fl pers))) impl_tr impl_err
  | CPool blocks sched impl =>
      let s := write_blocks blocks sched in
      finished s && list_eqb pcontent_eqb (p_out s) impl
  | CPoolServe _ kind served =>
      (* a finished fault-free seal leaves a complete index: loaded as sealed, everything served (Model.v) *)
      lkind_eqb kind LSealed && served
  end.

Definition no_publish (ops : list op) : bool :=
  forallb (fun o => match o with
                    | ORename IndexTmp Index | OUnlink Docs | OUnlink Meta => false
                    | _ => true end) ops.

(* implementation output satisfies the property (stated on the observations and the plan's sizes
   only, not on the model's algorithm) *)
Definition case_spec_ok (c : case) : bool :=
  match c with
  | CTrace p ops ok => log_safe ops && ok
  | CCrash p init j n keep before kind after served =>
      (* every document is served, from a replayed active or from a sealed fraction *)
      served && (lkind_eqb kind LActive || lkind_eqb kind LSealed)
      (* what this seal published is complete *)
      && (negb (mem_name Index before) || mem_name Index init || has_size Index (full_index_len p) before)
      && (negb (mem_name Sdocs before) || mem_name Sdocs init || has_size Sdocs (full_sdocs_len p) before)
      (* an original is gone only when the complete sealed copy is there *)
      && ((mem_name Docs before && mem_name Meta before)
          || (has_size Index (full_index_len p) before
              && (mem_name Docs before || has_size Sdocs (full_sdocs_len p) before)))
  | CFault p k n impl_err impl_writes =>
      (* a failed write must come back as an error (Seal publishes iff it gets none) *)
      impl_err || (k =? 0)%nat || (total_index_writes p <? k)%nat
  | CLimit p init limit died ops =>
      match limit_fault p limit with
      | Some x => no_publish ops   (* whether the process ends or lives on is not the property's business *)
                  && (negb (fname_eqb (ftarget x) SdocsTmp)
                      || forallb (fun o => match o with ORename SdocsTmp Sdocs => false | _ => true end) ops)
      | None => true
      end
  | CFaultSet p fl pers impl_err impl_writes =>
      (* one of the writes of the index is in the set: it must come back as an error *)
      impl_err || negb (fs_hits_upto (fs_index fl pers) IndexTmp (total_index_writes p))
  | CSealT p init k died after orig_intact =>
      (* a failed write: nothing published, the originals untouched (whether the process ends or
         lives on is not the property's business) *)
      (k =? 0)%nat || (total_index_writes p <? k)%nat
      || (orig_intact && inb Docs after && inb Meta after && (negb (inb Index after) || mem_name Index init))
  | CShape _ _ _ _ _ => true
  (* every failed push was the last call made and came back as the generator's error; an error
     only when the last call failed *)
  | CGenLIDs _ _ fl pers impl_tr impl_err => propagated_b (oracle_of fl pers) (length impl_tr) impl_err
  | CGenIDs _ _ fl pers impl_tr impl_err => propagated_b (oracle_of fl pers) (length impl_tr) impl_err
  | CGenTokens _ _ fl pers impl_tr impl_err => propagated_b (oracle_of fl pers) (length impl_tr) impl_err
  | CGenTable _ fl pers impl_tr impl_err => propagated_b (oracle_of fl pers) (length impl_tr) impl_err
  (* every block of the index holds the bytes the sealer produced for it *)
  | CPool blocks _ impl => list_eqb pcontent_eqb impl (expect_from 0 blocks)
  | CPoolServe _ kind served => served && (lkind_eqb kind LSealed || lkind_eqb kind LActive)
  end.

Definition diff_indices (l : list case) : list nat := bad_indices (fun c => negb (case_agrees c)) l.
Definition specfail_indices (l : list case) : list nat := bad_indices (fun c => negb (case_spec_ok c)) l.
