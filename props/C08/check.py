"""C08 — sealing is all-or-nothing under crashes and I/O errors (DESIGN.md section 7, C08)."""
import vcheck

PROP = "C08"

TRUSTED = [
    "Coq 8.16.1 kernel (coqc), vm_compute for case evaluation; no native_compute",
    "hand-written model props/C08/coq/Model.v of frac.Seal / writeSealedFraction / writeSortedDocs / syncRename, "
    "proxyFrac.Seal + Active.Release, fm.seal (error => Fatal) and loader.load/filterInfos/makeInfos, at the level of "
    "file operations on the six files of one fraction (tied to /repo by the correspondence run, not verified code)",
    "file-system semantics of harness/internal/crashfs (operations take effect in completion order; create/rename/"
    "unlink atomic and durable in issue order; data durable up to the length at the last fsync) and its strace parser",
    "Go harness harness/cmd/hC08 + harness/internal/storectl (child control), projection of the strace log to the "
    "fraction's files, registry parser that recovers the index sections",
    "sizes of the Write calls (compressed blocks) are data supplied per case: zstd and block packing are not modelled",
    "hand-written model props/C08/coq/ModelGen.v: seal under ANY set of failing writes (seal_fs) and the four block "
    "generators of frac/disk_blocks_producer.go with every push site transcribed (getLIDsBlockGenerator: full-block and "
    "rest-of-field sites, getIDsBlocksGenerator, getTokensBlocksGenerator, getTokenTableBlocksGenerator); their inputs "
    "(LIDs per token, field sizes, token counts) are derived by the harness from the corpus",
    "strace fault injection (-e inject=write:error=EIO:when=k -P <fraction>._index, sealing goroutine locked to one OS "
    "thread; the strace log must show the injection, otherwise the run is discarded) for the single transient write "
    "failure inside the real fm.seal",
]
ASSUME = [
    "the SkipSortDocs setting does not change between restarts (a .sdocs left by an interrupted sorted seal next to "
    "an index sealed later with SkipSortDocs is outside the model: hypothesis [inv])",
    "KeepMetaFile = false (default); .del files / deletion are C15's domain",
    "that a complete index + document file answers every query correctly is C02/C03/C04's domain; here it is observed "
    "on every crash state by fetching every document and running token queries after a real restart",
    "documents appended before the seal are durable (acknowledged after fsync: C01); power loss is applied to the "
    "files written by the seal only",
    "the push functions of the writers (writeIDsBlocks: three flushes per block, writeLIDsBlocks: one, writeTokensBlocks / "
    "writeTokenTableBlocks: size-dependent flushes) are not transcribed separately: a push is the sequence of its Write "
    "calls in the plan, tied to the generator models by the CShape cases (one LIDs write per generator block, three IDs "
    "writes per block) and exercised by failing every single write",
]
RULE = ("per corpus (random documents/tokens/bulks, SkipSortDocs on and off): the real rotate+seal in a child under "
        "strace; EVERY prefix of its operation sequence, torn variants of every write, power-loss variants wherever a "
        "file is not durable, each restarted in a fresh child with every document fetched and token queries run; a "
        "second seal attempt (leftovers present) on states that came up active, explored again; writeSealedFraction "
        "with the k-th Write failing for EVERY k (transient = only that write, and persistent; partial writes included) "
        "and under random SETS of failing writes; the real fm.seal under RLIMIT_FSIZE; the four real block generators "
        "under push oracles (every single push call failing once, persistent failures, random sets) with small block "
        "capacities (so that the 'block is full' push site is taken on every corpus, at token / field boundaries) and "
        "the real ones; corpora of IDsBlockSize-1 / IDsBlockSize documents and with fields at 16384 / 16385 token bytes; "
        "ONE corpus per run with more than LIDBlockCap (65536) documents sharing tokens (full LID block that is "
        "continued / ends its field / ends a token / falls inside a token): a single transient failure of every write "
        "of its LIDs section (+ a sample of the others in the quick tier, all in the thorough tier) through "
        "writeSealedFraction, and through the real rotate + fm.seal in a child with one injected write(2) error: "
        "an error must come back / nothing published, .docs and .meta byte-identical. "
        "non-trivial = crash inside the sequence (j>0) / fault or failing push on an existing write or call / limit "
        "that bites; distinct by input")


def harness_args(tier, seed, outdir):
    return ["-seed", str(seed), "-tier", tier, "-out", outdir]


def main(argv):
    return vcheck.standard_check(PROP, argv, harness_args, TRUSTED, ASSUME, RULE, coqchk=True)
