"""C08 — sealing is all-or-nothing under crashes and I/O errors (DESIGN.md section 7, C08)."""
import vcheck

PROP = "C08"

TRUSTED = [
    "Coq 8.16.1 kernel (coqc), vm_compute for case evaluation; no native_compute",
    "hand-written model props/C08/coq/Model.v of frac.Seal / writeSealedFraction / writeSortedDocs / syncRename, "
    "proxyFrac.Seal + Active.Release, fm.seal (error => Fatal) and loader.load/filterInfos/makeInfos, at the level of "
    "file operations on the six files of one fraction (tied to /repo by the correspondence run, not verified code)",
    "file-system semantics of harness/internal/crashfs (operations take effect in completion order; create/rename/"
    "unlink atomic and durable in issue order; data durable up to the length at the last fsync) and its strace parser",
    "Go harness harness/cmd/hC08 + harness/internal/storectl (child control), projection of the strace log to the "
    "fraction's files, registry parser that recovers the index sections",
    "sizes of the Write calls (compressed blocks) are data supplied per case: zstd and block packing are not modelled",
]
ASSUME = [
    "the SkipSortDocs setting does not change between restarts (a .sdocs left by an interrupted sorted seal next to "
    "an index sealed later with SkipSortDocs is outside the model: hypothesis [inv])",
    "KeepMetaFile = false (default); .del files / deletion are C15's domain",
    "that a complete index + document file answers every query correctly is C02/C03/C04's domain; here it is observed "
    "on every crash state by fetching every document and running token queries after a real restart",
    "documents appended before the seal are durable (acknowledged after fsync: C01); power loss is applied to the "
    "files written by the seal only",
]
RULE = ("per corpus (random documents/tokens/bulks, SkipSortDocs on and off): the real rotate+seal in a child under "
        "strace; EVERY prefix of its operation sequence, torn variants of every write, power-loss variants wherever a "
        "file is not durable, each restarted in a fresh child with every document fetched and token queries run; a "
        "second seal attempt (leftovers present) on states that came up active, explored again; writeSealedFraction "
        "with the k-th Write failing for EVERY k (partial writes included); the real fm.seal under RLIMIT_FSIZE. "
        "non-trivial = crash inside the sequence (j>0) / fault on an existing write / limit that bites; distinct by input")


def harness_args(tier, seed, outdir):
    return ["-seed", str(seed), "-tier", tier, "-out", outdir]


def main(argv):
    return vcheck.standard_check(PROP, argv, harness_args, TRUSTED, ASSUME, RULE, coqchk=True)
