"""C08 — sealing is all-or-nothing under crashes and I/O errors (DESIGN.md section 7, C08)."""
import vcheck

PROP = "C08"

TRUSTED = [
    "Coq 8.16.1 kernel (coqc), vm_compute for case evaluation; no native_compute",
    "hand-written model props/C08/coq/Model.v of frac.Seal / writeSealedFraction / writeSortedDocs / syncRename, "
    "proxyFrac.Seal + Active.Release, fm.seal (error => Fatal) and loader.load/filterInfos/makeInfos, at the level of "
    "file operations on the six files of one fraction (tied to /repo by the correspondence run, not verified code)",
    "file-system semantics of harness/internal/crashfs (operations take effect in completion order; create/rename/"
    "unlink atomic and durable in issue order; data durable up to the length at the last fsync) and its strace parser",
    "Go harness harness/cmd/hC08 + harness/internal/storectl (child control), projection of the strace log to the "
    "fraction's files, registry parser that recovers the index sections",
    "sizes of the Write calls (compressed blocks) are data supplied per case: zstd and block packing are not modelled",
    "hand-written model props/C08/coq/ModelGen.v: seal under ANY set of failing writes (seal_fs) and the four block "
    "generators of frac/disk_blocks_producer.go with every push site transcribed (getLIDsBlockGenerator: full-block and "
    "rest-of-field sites, getIDsBlocksGenerator, getTokensBlocksGenerator, getTokenTableBlocksGenerator); their inputs "
    "(LIDs per token, field sizes, token counts) are derived by the harness from the corpus",
    "strace fault injection (-e inject=write:error=EIO:when=k -P <fraction>._index, sealing goroutine locked to one OS "
    "thread; the strace log must show the injection, otherwise the run is discarded) for the single transient write "
    "failure inside the real fm.seal",
    "hand-written model props/C08/coq/ModelPool.v of disk.BlocksWriter.WriteBlock as the steps Acquire / compress into the "
    "pooled buffer / Seek / Write / deferred Release, interleaved with arbitrary steps of other bytespool users (acquire any "
    "free or a fresh buffer, write into a held buffer, release); memory contents are symbolic (which block's compression, "
    "whose poison): zstd and the size classes of bytespool are not modelled (any free buffer may be handed out - a superset "
    "of what the size classes allow)",
    "pool-pressure classes: GOMAXPROCS(1) in the store child makes sync.Pool hand the buffer released last to the next "
    "Get; the other pool user runs inside Seek and on entry of Write of the io.WriteSeeker given to writeSealedFraction "
    "(the scheduling points between compression and the write); the expected payload of a block is what the same child "
    "wrote without a pool user, read back through disk.IndexReader",
]
ASSUME = [
    "the SkipSortDocs setting does not change between restarts (a .sdocs left by an interrupted sorted seal next to "
    "an index sealed later with SkipSortDocs is outside the model: hypothesis [inv])",
    "KeepMetaFile = false (default); .del files / deletion are C15's domain",
    "that a complete index + document file answers every query correctly is C02/C03/C04's domain; here it is observed "
    "on every crash state by fetching every document and running token queries after a real restart",
    "documents appended before the seal are durable (acknowledged after fsync: C01); power loss is applied to the "
    "files written by the seal only",
    "the push functions of the writers (writeIDsBlocks: three flushes per block, writeLIDsBlocks: one, writeTokensBlocks / "
    "writeTokenTableBlocks: size-dependent flushes) are not transcribed separately: a push is the sequence of its Write "
    "calls in the plan, tied to the generator models by the CShape cases (one LIDs write per generator block, three IDs "
    "writes per block) and exercised by failing every single write",
    "other users of the shared bytespool write only into buffers they hold (acquired and not yet released), and the pool "
    "never hands out a buffer somebody holds: hypotheses of C08_block_bytes_private, built into the machine of ModelPool.v; "
    "the first is the obligation of every other call site (C10 / C19 prove it for theirs), the second is exercised by the "
    "pool-pressure classes",
    "Seal opens the index with os.Create itself, so the pool user cannot be placed inside the real fm.seal: the pool-pressure "
    "classes run writeSealedFraction (everything Seal does between os.Create and syncRename) on the fraction's own ._index "
    "file and perform fsync / rename / directory fsync / removal of .meta and .docs themselves before the restart",
]
RULE = ("per corpus (random documents/tokens/bulks, SkipSortDocs on and off): the real rotate+seal in a child under "
        "strace; EVERY prefix of its operation sequence, torn variants of every write, power-loss variants wherever a "
        "file is not durable, each restarted in a fresh child with every document fetched and token queries run; a "
        "second seal attempt (leftovers present) on states that came up active, explored again; writeSealedFraction "
        "with the k-th Write failing for EVERY k (transient = only that write, and persistent; partial writes included) "
        "and under random SETS of failing writes; the real fm.seal under RLIMIT_FSIZE; the four real block generators "
        "under push oracles (every single push call failing once, persistent failures, random sets) with small block "
        "capacities (so that the 'block is full' push site is taken on every corpus, at token / field boundaries) and "
        "the real ones; corpora of IDsBlockSize-1 / IDsBlockSize documents and with fields at 16384 / 16385 token bytes; "
        "ONE corpus per run with more than LIDBlockCap (65536) documents sharing tokens (full LID block that is "
        "continued / ends its field / ends a token / falls inside a token): a single transient failure of every write "
        "of its LIDs section (+ a sample of the others in the quick tier, all in the thorough tier) through "
        "writeSealedFraction, and through the real rotate + fm.seal in a child with one injected write(2) error: "
        "an error must come back / nothing published, .docs and .meta byte-identical. "
        "pool pressure (every corpus below 5000 documents): writeSealedFraction in a child with GOMAXPROCS(1) while a second "
        "pool user runs at the Seek and at the entry of the Write of every block - modes none / every block with the "
        "sealer's own request size / the size classes below, equal and above / a random subset of blocks and sizes / buffers "
        "held across blocks -; every block read back through disk.IndexReader must be the payload handed to WriteBlock and "
        "the played schedule run through the model must give the same; one run per corpus is published and restarted: "
        "loaded as sealed, every document fetched and found by every token query. "
        "non-trivial = crash inside the sequence (j>0) / fault or failing push on an existing write or call / limit "
        "that bites / pool user wrote into at least one buffer; distinct by input")


def harness_args(tier, seed, outdir):
    return ["-seed", str(seed), "-tier", tier, "-out", outdir]


def main(argv):
    return vcheck.standard_check(PROP, argv, harness_args, TRUSTED, ASSUME, RULE, coqchk=True)
