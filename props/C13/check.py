"""C13 — token matching equals glob/range semantics, with or without dictionary narrowing."""
import vcheck

PROP = "C13"

TRUSTED = [
    "Coq 8.16.1 kernel (coqc), vm_compute for case evaluation; no native_compute",
    "hand-written model props/C13/coq/Model.v of pattern.Search (literal/wildcard/range searchers, Narrow, "
    "KMP findSubstring/findSequence), util.BinSearchInRange/sort.Search, Table.SelectEntries and the sealed "
    "GetTIDsByTokenExpr composition (tied to /repo by the correspondence run, not verified code)",
    "export hooks (build tag verif): pattern/export_verif_c13.go, frac/token/export_verif_c13.go (real Provider over a "
    "pre-filled block cache, blocks decoded by the real Block.unpack), frac/export_verif_c13.go (real writeTokensBlocks "
    "into memory; GetTIDsByTokenExpr of a fraction's token index)",
    "Go harness harness/cmd/hC13 (generators, memory token provider, rendering of byte strings)",
    "numeric oracle: strconv.ParseFloat + an order-preserving integer key of finite float64 values, computed by "
    "the harness and supplied per case (float parsing itself is not modelled)",
    "token.Provider/Block (TID -> token inside packed blocks) and the active token list are modelled as plain "
    "indexing into the token sequence; their mechanics are exercised by the run, not proved",
]
ASSUME = [
    "term lists are well formed as built by the parsers: non-empty, no empty text term next to a wildcard, no two "
    "adjacent text terms (checked on every run against the real SeqQL parser for all small patterns)",
    "FirstTID >= 1 for every provider (true for sealed tables and the active list), so the uint32 loop of Search "
    "never wraps; TIDs are modelled as unbounded integers",
    "ordered providers are sorted by byte order without duplicates (sealed dictionaries)",
    "finite float keys lie in [-key(MaxFloat64), key(MaxFloat64)] (holds for every finite float64)",
]
RULE = ("exhaustive: every pattern over {a,b,*} up to the tier's length x every token over {a,b} up to the tier's "
        "length through pattern.Search with unordered and ordered provider; all sorted dictionaries over the strings "
        "of length <= 2 in all block layouts x all patterns <= 3 through SelectEntries+Provider+Search; the same over "
        "multi-byte values (1/2/3/4-byte runes, partial runes, invalid UTF-8 bytes; hints cutting MaxVal inside a rune); all range "
        "end combinations over a set of numbers/non-numbers/edge floats; findSubstring exhaustively; random long "
        "strings, dictionaries, layouts; real active vs sealed fractions (one with several token blocks). "
        "non-trivial = a query with a wildcard and a text fragment, or a range with a given end (sealed: more than "
        "one table entry); distinct by input")


def harness_args(tier, seed, outdir):
    return ["-seed", str(seed), "-tier", tier, "-out", outdir]


def main(argv):
    return vcheck.standard_check(PROP, argv, harness_args, TRUSTED, ASSUME, RULE, coqchk=True)
