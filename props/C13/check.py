"""C13 — token matching equals glob/range semantics, with or without dictionary narrowing."""
import vcheck

PROP = "C13"

TRUSTED = [
    "Coq 8.16.1 kernel (coqc), vm_compute for case evaluation; no native_compute",
    "hand-written model props/C13/coq/Model.v of pattern.Search (literal/wildcard/range searchers, Narrow, "
    "KMP findSubstring/findSequence), util.BinSearchInRange/sort.Search, Table.SelectEntries and the sealed "
    "GetTIDsByTokenExpr composition (tied to /repo by the correspondence run, not verified code)",
    "hand-written model props/C13/coq/ModelBlock.v of DiskTokensBlock.pack/createTokenTableEntry, the token block "
    "generator (chunking, StartTID), writeTokensBlocks (StartIndex, BlockIndex, flushes at RegularBlockSize), "
    "Block.unpack, Block.GetValByTID, TableEntry helpers, Provider.findBlock/GetToken/FirstTID/LastTID, and the "
    "active TokenList (Append with the workers' arrival order as a parameter, GetValByTID, FieldTIDs, field sizes, "
    "activeTokenProvider); byte offsets and lengths are unbounded naturals (no uint32 wrap)",
    "export hooks (build tag verif): pattern/export_verif_c13.go, frac/token/export_verif_c13.go (real Provider over a "
    "pre-filled block cache, blocks decoded by the real Block.unpack), frac/export_verif_c13.go (real writeTokensBlocks "
    "into memory; GetTIDsByTokenExpr of a fraction's token index), frac/token/export_verif_c13_blocks.go (real "
    "Block.unpack / GetValByTID on given bytes), frac/export_verif_c13_blocks.go (real pack, TokenList.Append and state, "
    "getTokenProvider, getTokensBlocksGenerator, getTokenHash); physical block payloads are re-packed by the real pack "
    "per BlockIndex (zstd compression and the index file reader are not in the loop)",
    "Go harness harness/cmd/hC13 (generators, memory token provider, rendering of byte strings)",
    "numeric oracle: strconv.ParseFloat + an order-preserving integer key of finite float64 values, computed by "
    "the harness and supplied per case (float parsing itself is not modelled)",
    "concurrency model of the active side (ModelBlock.v cstep/race_find): an Append is getTokenLIDs+createTIDs (one atomic "
    "step) and fillFieldTIDs (a second step), several Appends may be pending; a search reads the field's TID list and "
    "the value slice at two points of the schedule; the driver forces the order by parking the real FindPattern on "
    "fieldsMu / tidMu (export hook frac/export_verif_c13_race.go; the step whose lock the driver holds is performed with "
    "that step's own statements) - the Go memory model / lock implementation is trusted",
    "TableLoader model (tl_load / tl_lookups): the index file enters as the list of its block lengths, the loader state is "
    "its read cursor, the cache may evict before any lookup; decoding of the table blocks (packer.BytesUnpacker) is not "
    "modelled; eviction in the run = Cache.Reset followed by the loader's real load() through the same cache "
    "(frac/token/export_verif_c13_reload.go: TableLoader.Load without its logger.Fatal)",
    "BlockLoader cache and disk reader (cache.Cache, disk.IndexReader, zstd) are outside the model: Load(entry) is "
    "modelled as unpack of the physical block's bytes; goroutine scheduling of the TokenList workers enters only as "
    "the per-call arrival order (inferred by the harness from the TIDs the real list assigned); concurrent Append "
    "calls are not modelled",
    "observation outside the property's quantifier (corrupted index files, not a finding): Block.unpack panics instead "
    "of returning its error on bytes ending 1..3 bytes after a record; the model predicts it (UPanic, "
    "C13_block_unpack_total_refuted / _partial), the class unpack-malformed checks agreement and counts "
    "observation:block-unpack-short-tail; a panic the model does not predict is a violation",
    "the byte-level end-to-end statement is now proved (C13_sealed_equals_scan_bytes: generator -> writeTokensBlocks -> "
    "table entries of the field -> SelectEntries -> Provider over the packed blocks -> narrowed Search = scan); the class "
    "rand-writer still runs that model function (sealed_search_bytes) against the real SelectEntries+Provider+Search",
]
ASSUME = [
    "term lists are well formed as built by the parsers: non-empty, no empty text term next to a wildcard, no two "
    "adjacent text terms (checked on every run against the real SeqQL parser for all small patterns)",
    "FirstTID >= 1 for every provider (true for sealed tables and the active list), so the uint32 loop of Search "
    "never wraps; TIDs are modelled as unbounded integers",
    "ordered providers are sorted by byte order without duplicates (sealed dictionaries)",
    "finite float keys lie in [-key(MaxFloat64), key(MaxFloat64)] (holds for every finite float64)",
    "token lengths below 2^32-1 (a length of exactly MaxUint32 is read as the field separator: Example "
    "C13_block_separator_collision) and physical token blocks below 2^32 bytes (offsets are stored as uint32)",
    "every TokenList.Append batch is duplicate-free (MetaDataCollector.TokensValues holds unique tokens; a repeated "
    "token inside one call gets two TIDs: Example C13_active_duplicate_in_batch) and a token is always split at "
    "the same field length (field names without ':' ambiguity)",
]
RULE = ("exhaustive: every pattern over {a,b,*} up to the tier's length x every token over {a,b} up to the tier's "
        "length through pattern.Search with unordered and ordered provider; all sorted dictionaries over the strings "
        "of length <= 2 in all block layouts x all patterns <= 3 through SelectEntries+Provider+Search; the same over "
        "multi-byte values (1/2/3/4-byte runes, partial runes, invalid UTF-8 bytes; hints cutting MaxVal inside a rune); all range "
        "end combinations over a set of numbers/non-numbers/edge floats; findSubstring exhaustively; random long "
        "strings, dictionaries, layouts; real active vs sealed fractions (one with several token blocks). "
        "Blocks: real pack/unpack/GetValByTID on generated groups (multi-field blocks, empty tokens, 0xFF tokens, lengths "
        "254..258 and beyond, thorough: 65535..65537), malformed/truncated block bytes by outcome class, real Provider "
        "call sequences jumping between entries and back over real writeTokensBlocks tables (entries in the middle of a "
        "block, several physical blocks), real TokenList.Append histories (1..4 workers) with the active provider of "
        "every field, real TokenList -> generator -> writer -> SelectEntries+Provider+Search. "
        "Races: real FindPattern parked on fieldsMu / tidMu while an Append of new tokens of the searched field runs its "
        "two publication steps during / after the park (all four forced orders, fixed and random shapes); reloads: >= 2 "
        "lookups through ONE sealed data provider with the token table evicted and reloaded before each, on freshly "
        "sealed and restarted fractions (one with several token blocks). "
        "non-trivial = a query with a wildcard and a text fragment, or a range with a given end (sealed: more than "
        "one table entry; blocks: more than one group or an empty / 0xFF / >= 255-byte token; provider: more than one "
        "entry and more than two calls; active list: more than two fields and more than one Append; writer: a chunked "
        "field or more than one physical block); distinct by input")


def harness_args(tier, seed, outdir):
    return ["-seed", str(seed), "-tier", tier, "-out", outdir]


def main(argv):
    return vcheck.standard_check(PROP, argv, harness_args, TRUSTED, ASSUME, RULE, coqchk=True)
