(* C13 — executable model of the packed token block and the token providers. NO proofs here.

   frac/disk_blocks.go        DiskTokensBlock.pack, createTokenTableEntry
   frac/disk_blocks_producer.go  getTokensBlocksGenerator (chunking of a field, StartTID)
   frac/disk_blocks_writer.go    writeTokensBlocks (StartIndex / BlockIndex / physical blocks)
   frac/token/block_loader.go    Block.unpack, Block.GetValByTID
   frac/token/table_entry.go     getIndexInTokensBlock, getLastTID, checkTIDInBlock
   frac/token/provider.go        findBlock (cached block fast path, sort.Search), GetToken,
                                 FirstTID / LastTID
   frac/active_token_list.go     TokenList (Append, GetValByTID, FieldTIDs), activeTokenProvider

   Conventions: byte strings are lists of N; TIDs, indices and entry fields are Z; byte offsets
   are N (no uint32 wrap: theorems assume physical blocks below 256^w bytes); the width of the
   length field is a parameter [w] (the code: sizeOfUint32 = 4 = [W32]), the field separator is
   the largest value of that width (math.MaxUint32). [None] / [UPanic] = the Go code would panic
   on an out-of-range index or slice. *)
From Coq Require Import List Bool Arith NArith ZArith.
Import ListNotations.
From C13 Require Import Model.

Definition W32 : nat := 4.

(* binary.LittleEndian.PutUint32 (truncates to the width) / Uint32 *)
Fixpoint enc (w : nat) (n : N) : bytes :=
  match w with O => [] | S k => (n mod 256)%N :: enc k (n / 256)%N end.
Fixpoint dec (bs : bytes) : N :=
  match bs with [] => 0%N | b :: r => (b + 256 * dec r)%N end.
Definition maxv (w : nat) : N := (256 ^ N.of_nat w - 1)%N.
Definition blen (b : bytes) : N := N.of_nat (length b).

(* ------------------------------------------------------------------ DiskTokensBlock *)

Record dblock := { d_field : bytes; d_start : bool; d_total : N; d_start_tid : Z; d_tokens : list bytes }.

(* DiskTokensBlock.pack: len32 || bytes per token, then the MaxUint32 separator *)
Definition pack_tokens (w : nat) (toks : list bytes) : bytes :=
  flat_map (fun t => enc w (blen t) ++ t) toks ++ enc w (maxv w).

Record tentry := { e_start_index : Z; e_start_tid : Z; e_block_index : Z; e_val_count : Z;
                   e_min_val : bytes; e_max_val : bytes }.

(* createTokenTableEntry (MinVal is filled by the writer for the first entry of a field) *)
Definition create_entry (b : dblock) (start_index block_index : Z) : tentry :=
  {| e_start_index := start_index; e_start_tid := d_start_tid b; e_block_index := block_index;
     e_val_count := Z.of_nat (length (d_tokens b)); e_min_val := []; e_max_val := last (d_tokens b) [] |}.

(* ------------------------------------------------------------------ getTokensBlocksGenerator *)

(* for len(tids) > 0 { right := min(blockSize, len(tids)); push tids[:right]; tids = tids[right:] } *)
Fixpoint chunks (fuel : nat) (bs : nat) (l : list bytes) : option (list (list bytes)) :=
  match l with
  | [] => Some []
  | _ => match fuel with
         | O => None
         | S f => match chunks f bs (skipn bs l) with
                  | None => None
                  | Some r => Some (firstn bs l :: r)
                  end
         end
  end.

(* blocksCount := fieldSize/RegularBlockSize + 1; blockSize := max(1, len(tids)/blocksCount) *)
Definition block_size (reg total : N) (ntok : nat) : nat :=
  N.to_nat (N.max 1 (N.of_nat ntok / (total / reg + 1))).

Fixpoint gen_field (field : bytes) (total : N) (cur : Z) (first : bool) (cs : list (list bytes))
  : list dblock * Z :=
  match cs with
  | [] => ([], cur)
  | c :: r =>
      let (bl, cur') := gen_field field total (cur + Z.of_nat (length c))%Z false r in
      ({| d_field := field; d_start := first; d_total := total; d_start_tid := cur; d_tokens := c |} :: bl, cur')
  end.

(* fields: (name, fieldSize, tokens sorted by value) in sorted field order; cur starts at 1 *)
Fixpoint gen_blocks (reg : N) (fields : list (bytes * N * list bytes)) (cur : Z) : option (list dblock) :=
  match fields with
  | [] => Some []
  | (f, total, toks) :: r =>
      match chunks (length toks) (block_size reg total (length toks)) toks with
      | None => None
      | Some cs =>
          let (bl, cur') := gen_field f total cur true cs in
          match gen_blocks reg r cur' with
          | None => None
          | Some bl' => Some (bl ++ bl')
          end
      end
  end.

(* ------------------------------------------------------------------ writeTokensBlocks *)

Record wstate := { ws_start : Z;          (* startIndex *)
                   ws_cur : bytes;        (* former.Packer().Data *)
                   ws_done : list bytes;  (* physical blocks written, in order *)
                   ws_table : list (bytes * tentry) }.  (* (field, entry) in push order *)

Definition ws_init : wstate := {| ws_start := 0; ws_cur := []; ws_done := []; ws_table := [] |}.

(* former.FlushForced: nothing happens on an empty buffer *)
Definition ws_flush (st : wstate) : wstate :=
  match ws_cur st with
  | [] => st
  | _ => {| ws_start := ws_start st; ws_cur := []; ws_done := ws_done st ++ [ws_cur st]; ws_table := ws_table st |}
  end.
Definition ws_reset (st : wstate) : wstate :=
  {| ws_start := 0; ws_cur := ws_cur st; ws_done := ws_done st; ws_table := ws_table st |}.

Definition has_field (tbl : list (bytes * tentry)) (f : bytes) : bool :=
  existsb (fun p => bytes_eqb (fst p) f) tbl.

Definition with_min (e : tentry) (m : bytes) : tentry :=
  {| e_start_index := e_start_index e; e_start_tid := e_start_tid e; e_block_index := e_block_index e;
     e_val_count := e_val_count e; e_min_val := m; e_max_val := e_max_val e |}.

(* the push closure; reg = consts.RegularBlockSize (forced flush before a big field, flush when
   the buffer exceeds it), b0 = index of the first physical block of the section *)
Definition ws_push (w : nat) (reg : N) (b0 : Z) (st : wstate) (b : dblock) : wstate :=
  let st1 := if d_start b && (reg <? d_total b)%N then ws_reset (ws_flush st) else st in
  let bi := (b0 + Z.of_nat (length (ws_done st1)))%Z in
  let e0 := create_entry b (ws_start st1) bi in
  let e := if has_field (ws_table st1) (d_field b) then e0 else with_min e0 (hd [] (d_tokens b)) in
  let cur' := ws_cur st1 ++ pack_tokens w (d_tokens b) in
  let st2 := {| ws_start := (ws_start st1 + Z.of_nat (length (d_tokens b)))%Z; ws_cur := cur';
                ws_done := ws_done st1; ws_table := ws_table st1 ++ [(d_field b, e)] |} in
  if (reg <? blen cur')%N then ws_reset (ws_flush st2) else st2.

Definition write_blocks (w : nat) (reg : N) (b0 : Z) (blocks : list dblock) : wstate :=
  ws_flush (fold_left (ws_push w reg b0) blocks ws_init).

(* ------------------------------------------------------------------ Block.unpack *)

Inductive ures := UOk (offsets : bytes) | UErr | UPanic | UFuel.

(* for i := 0; len(data) != 0; i++ { l := Uint32(data); data = data[4:]; offset += 4;
     if l == MaxUint32 { continue }; if l > len(data) { return error };
     offsets.PutUint32(offset-4); data = data[l:]; offset += l } *)
Fixpoint walk (w : nat) (fuel : nat) (data : bytes) (offset : N) (offs : bytes) : ures :=
  match fuel with
  | O => UFuel
  | S f =>
      match data with
      | [] => UOk offs
      | _ =>
          if length data <? w then UPanic      (* Uint32 / data[4:] on fewer than 4 bytes *)
          else
            let l := dec (firstn w data) in
            let data1 := skipn w data in
            let offset1 := (offset + N.of_nat w)%N in
            if (l =? maxv w)%N then walk w f data1 offset1 offs
            else if (blen data1 <? l)%N then UErr
            else walk w f (skipn (N.to_nat l) data1) (offset1 + l)%N
                      (offs ++ enc w (offset1 - N.of_nat w)%N)
      end
  end.
Definition unpack (w : nat) (data : bytes) : ures := walk w (S (length data)) data 0%N [].

(* ------------------------------------------------------------------ TableEntry / GetValByTID *)

Definition get_last_tid (e : tentry) : Z := (e_start_tid e + e_val_count e - 1)%Z.
Definition check_tid_in_block (e : tentry) (tid : Z) : bool :=
  if (tid <? e_start_tid e)%Z then false else if (get_last_tid e <? tid)%Z then false else true.
Definition index_in_block (e : tentry) (tid : Z) : Z := (e_start_index e + tid - e_start_tid e)%Z.

(* Uint32(d): needs w bytes *)
Definition rdw (w : nat) (d : bytes) : option N :=
  if length d <? w then None else Some (dec (firstn w d)).
(* d[off:] *)
Definition slice_from (d : bytes) (off : nat) : option bytes :=
  if length d <? off then None else Some (skipn off d).

Definition get_val (w : nat) (e : tentry) (payload offsets : bytes) (tid : Z) : option bytes :=
  let idx := index_in_block e tid in
  if (idx <? 0)%Z then None      (* uint32 wrap: a huge index *)
  else if (Z.of_nat (length offsets) <? idx * Z.of_nat w)%Z then None   (* b.offsets[valIndex*4:] out of range *)
  else match slice_from offsets (Z.to_nat idx * w) with
       | None => None
       | Some o =>
           match rdw w o with
           | None => None
           | Some off =>
               match slice_from payload (N.to_nat off) with
               | None => None
               | Some p =>
                   match rdw w p with
                   | None => None
                   | Some l =>
                       let off2 := (off + N.of_nat w)%N in
                       if (blen payload <? off2 + l)%N then None
                       else Some (firstn (N.to_nat l) (skipn (N.to_nat off2) payload))
                   end
               end
           end
       end.

(* ------------------------------------------------------------------ Provider *)

Definition e_zero : tentry :=
  {| e_start_index := 0; e_start_tid := 0; e_block_index := 0; e_val_count := 0; e_min_val := []; e_max_val := [] |}.
Definition entry_at (entries : list tentry) (i : Z) : tentry := nth (Z.to_nat i) entries e_zero.

(* BlockLoader.Load: physical block [e_block_index] read and unpacked; anything but Ok panics *)
Definition load (w : nat) (disk : Z -> bytes) (e : tentry) : option (tentry * bytes * bytes) :=
  match unpack w (disk (e_block_index e)) with
  | UOk offs => Some (e, disk (e_block_index e), offs)
  | _ => None
  end.

(* curBlockIndex, curTokensBlock *)
Definition pstate := (Z * option (tentry * bytes * bytes))%type.
Definition p_init : pstate := ((-1)%Z, None).

Definition first_tid (entries : list tentry) : Z := e_start_tid (entry_at entries 0).
Definition last_tid_p (entries : list tentry) : Z := get_last_tid (entry_at entries (Z.of_nat (length entries) - 1)).

Definition find_block (entries : list tentry) (cur : Z) (tid : Z) : option Z :=
  if (0 <=? cur)%Z && check_tid_in_block (entry_at entries cur) tid then Some cur
  else sort_search (Z.of_nat (length entries)) (fun i => (tid <=? get_last_tid (entry_at entries i))%Z).

(* GetToken: None = panic (index beyond the entries, failed load, out-of-range read) or fuel *)
Definition get_token (w : nat) (disk : Z -> bytes) (entries : list tentry) (st : pstate) (tid : Z)
  : option (bytes * pstate) :=
  match find_block entries (fst st) tid with
  | None => None
  | Some bi =>
      let st' := if (bi =? fst st)%Z then Some st
                 else if (Z.of_nat (length entries) <=? bi)%Z then None
                 else match load w disk (entry_at entries bi) with
                      | None => None
                      | Some blk => Some (bi, Some blk)
                      end in
      match st' with
      | None => None
      | Some st1 =>
          match snd st1 with
          | None => None      (* nil curTokensBlock *)
          | Some (e, payload, offs) =>
              match get_val w e payload offs tid with
              | None => None
              | Some v => Some (v, st1)
              end
          end
      end
  end.

Fixpoint get_tokens (w : nat) (disk : Z -> bytes) (entries : list tentry) (st : pstate) (tids : list Z)
  : option (list bytes * pstate) :=
  match tids with
  | [] => Some ([], st)
  | t :: r => match get_token w disk entries st t with
              | None => None
              | Some (v, st1) => match get_tokens w disk entries st1 r with
                                 | None => None
                                 | Some (vs, st2) => Some (v :: vs, st2)
                                 end
              end
  end.

(* physical blocks as a function of the block index *)
Definition disk_of (b0 : Z) (blocks : list bytes) (i : Z) : bytes :=
  if (i <? b0)%Z then [] else nth (Z.to_nat (i - b0)) blocks [].

Fixpoint zseq (from : Z) (n : nat) : list Z :=
  match n with O => [] | S k => from :: zseq (from + 1)%Z k end.

(* the tokens a provider over [entries] hands out for FirstTID .. LastTID, asked in order *)
Definition provider_dict (w : nat) (disk : Z -> bytes) (entries : list tentry) : option (list bytes) :=
  option_map fst (get_tokens w disk entries p_init
     (zseq (first_tid entries) (Z.to_nat (last_tid_p entries - first_tid entries + 1)))).

(* ------------------------------------------------------------------ sealed search over bytes *)

Definition entries_of (tbl : list (bytes * tentry)) (f : bytes) : list tentry :=
  map snd (filter (fun p => bytes_eqb (fst p) f) tbl).

(* sealedTokenIndex.GetTIDsByTokenExpr over the written section: table entries of the field,
   SelectEntries by hint, a Provider over the selected entries reading the packed blocks,
   narrowed Search over what that provider returns *)
Definition sealed_search_bytes (parse : bytes -> option Z) (w : nat) (reg : N) (b0 : Z)
           (fields : list (bytes * N * list bytes)) (f : bytes) (q : query) : option (list Z) :=
  match gen_blocks reg fields 1 with
  | None => None
  | Some blocks =>
      let st := write_blocks w reg b0 blocks in
      let es := entries_of (ws_table st) f in
      match es with
      | [] => Some []                      (* field not in the table *)
      | e1 :: _ =>
          match select_entries (e_min_val e1) (map e_max_val es) (hint_of q) with
          | None => None
          | Some (l, r) =>
              let sel := firstn (Z.to_nat (r - l)) (skipn (Z.to_nat l) es) in
              match sel with
              | [] => Some []
              | _ => match provider_dict w (disk_of b0 (ws_done st)) sel with
                     | None => None
                     | Some dict => search parse true (first_tid sel) dict q
                     end
              end
          end
      end
  end.

(* ------------------------------------------------------------------ active TokenList *)

Record tlist := { tl_vals : list bytes;                (* tidToVal; index 0 is the nil placeholder *)
                  tl_fields : list (bytes * list Z);   (* FieldTIDs *)
                  tl_sizes : list (bytes * N);         (* fieldSizes *)
                  tl_known : list bytes }.             (* keys of the workers' token maps, in TID order *)

Definition tl_empty : tlist := {| tl_vals := [[]]; tl_fields := []; tl_sizes := []; tl_known := [] |}.

Fixpoint aget {V} (d : V) (k : bytes) (m : list (bytes * V)) : V :=
  match m with
  | [] => d
  | (k', v) :: r => if bytes_eqb k' k then v else aget d k r
  end.
Fixpoint aupd {V} (d : V) (k : bytes) (g : V -> V) (m : list (bytes * V)) : list (bytes * V) :=
  match m with
  | [] => [(k, g d)]
  | (k', v) :: r => if bytes_eqb k' k then (k', g v) :: r else (k', v) :: aupd d k g r
  end.

Definition memb (t : bytes) (l : list bytes) : bool := existsb (bytes_eqb t) l.

(* copyAndSplit: field = token[:fLen], value = token[fLen+1:] *)
Definition field_of (it : bytes * nat) : bytes := firstn (snd it) (fst it).
Definition value_of (it : bytes * nat) : bytes := skipn (S (snd it)) (fst it).

(* fillFieldTIDs / fillSizes over newTokensData, tids assigned consecutively by createTIDs *)
Fixpoint fill_fields (tid : Z) (news : list (bytes * nat)) (m : list (bytes * list Z)) : list (bytes * list Z) :=
  match news with
  | [] => m
  | it :: r => fill_fields (tid + 1)%Z r (aupd [] (field_of it) (fun l => l ++ [tid]) m)
  end.
Fixpoint fill_sizes (news : list (bytes * nat)) (m : list (bytes * N)) : list (bytes * N) :=
  match news with
  | [] => m
  | it :: r => fill_sizes r (aupd 0%N (field_of it) (fun s => (s + blen (value_of it))%N) m)
  end.

(* TokenList.Append. [hash t] = index of the worker owning token t (crc32 mod workers);
   [arrival] = order in which the workers' results were received for this call. A worker reports
   every position of its share whose token is not yet in its map (the map is only updated after
   the scan, so a token repeated inside one call is reported twice). *)
Definition tl_append (hash : bytes -> nat) (arrival : list nat) (st : tlist) (items : list (bytes * nat)) : tlist :=
  let fresh k := filter (fun it => Nat.eqb (hash (fst it)) k && negb (memb (fst it) (tl_known st))) items in
  let news := flat_map fresh arrival in
  {| tl_vals := tl_vals st ++ map value_of news;
     tl_fields := fill_fields (Z.of_nat (length (tl_vals st))) news (tl_fields st);
     tl_sizes := fill_sizes news (tl_sizes st);
     tl_known := tl_known st ++ map fst news |}.

Definition tl_run (hash : bytes -> nat) (st : tlist) (hist : list (list nat * list (bytes * nat))) : tlist :=
  fold_left (fun st ab => tl_append hash (fst ab) st (snd ab)) hist st.

(* TokenList.GetValByTID *)
Definition tl_get_val (st : tlist) (tid : Z) : option bytes :=
  if (tid <? 0)%Z then None else nth_error (tl_vals st) (Z.to_nat tid).

(* activeTokenProvider of a field: FirstTID = 1, LastTID = len(inverseIndex), Ordered = false,
   GetToken(tid) = tidToVal[inverseIndex[tid-1]] *)
Definition ap_last_tid (st : tlist) (f : bytes) : Z := Z.of_nat (length (aget [] f (tl_fields st))).
Definition ap_get_token (st : tlist) (f : bytes) (tid : Z) : option bytes :=
  if (tid <? 1)%Z then None
  else match nth_error (aget [] f (tl_fields st)) (Z.to_nat (tid - 1)) with
       | None => None
       | Some id => tl_get_val st id
       end.
(* the token sequence pattern.Search sees for the field *)
Definition ap_dict (st : tlist) (f : bytes) : list bytes :=
  map (fun id => nth (Z.to_nat id) (tl_vals st) []) (aget [] f (tl_fields st)).

(* TIDs (ascending from [tid]) of the tokens whose field is f *)
Fixpoint ftids (f : bytes) (tid : Z) (toks : list (bytes * nat)) : list Z :=
  match toks with
  | [] => []
  | t :: r => if bytes_eqb (field_of t) f then tid :: ftids f (tid + 1)%Z r else ftids f (tid + 1)%Z r
  end.

(* hash given as an association list, default worker 0 *)
Definition hash_of (tbl : list (bytes * nat)) (t : bytes) : nat := aget 0 t tbl.

(* ------------------------------------------------------------------ Append in two published steps,
   provider snapshots (frac/active_token_list.go: Append = getTokenLIDs; createTIDs; fillFieldTIDs;
   getTokenProvider = GetTIDsByField (under fieldsMu) THEN tidToVal (under tidMu)) *)

(* tokens whose TIDs exist (tidToVal grown) but whose field lists are not filled yet *)
Record cstate := { c_tl : tlist; c_pending : list (Z * list (bytes * nat)) }.

Inductive wev :=
| WCreate (arrival : list nat) (items : list (bytes * nat))   (* getTokenLIDs + createTIDs of one Append *)
| WFill (k : nat).                                            (* fillFieldTIDs + fillSizes of the k-th pending Append *)

Fixpoint remove_nth {A} (k : nat) (l : list A) : list A :=
  match l with
  | [] => []
  | x :: r => match k with O => r | S k' => x :: remove_nth k' r end
  end.

Definition cstep (hash : bytes -> nat) (st : cstate) (e : wev) : cstate :=
  match e with
  | WCreate arrival items =>
      let t := c_tl st in
      let fresh k := filter (fun it => Nat.eqb (hash (fst it)) k && negb (memb (fst it) (tl_known t))) items in
      let news := flat_map fresh arrival in
      {| c_tl := {| tl_vals := tl_vals t ++ map value_of news; tl_fields := tl_fields t;
                    tl_sizes := tl_sizes t; tl_known := tl_known t ++ map fst news |};
         c_pending := c_pending st ++ [(Z.of_nat (length (tl_vals t)), news)] |}
  | WFill k =>
      match nth_error (c_pending st) k with
      | None => st
      | Some (tid, news) =>
          let t := c_tl st in
          {| c_tl := {| tl_vals := tl_vals t; tl_fields := fill_fields tid news (tl_fields t);
                        tl_sizes := fill_sizes news (tl_sizes t); tl_known := tl_known t |};
             c_pending := remove_nth k (c_pending st) |}
      end
  end.
Definition crun (hash : bytes -> nat) (st : cstate) (evs : list wev) : cstate := fold_left (cstep hash) evs st.

(* the provider built from a TID-list snapshot and a value snapshot: GetToken(i) = vals[tids[i-1]];
   None = index out of range *)
Definition snap_get (tids : list Z) (vals : list bytes) (i : Z) : option bytes :=
  if (i <? 1)%Z then None
  else match nth_error tids (Z.to_nat (i - 1)) with
       | None => None
       | Some id => if (id <? 0)%Z then None else nth_error vals (Z.to_nat id)
       end.
Definition snap_dict (tids : list Z) (vals : list bytes) : option (list bytes) :=
  (fix go (l : list Z) : option (list bytes) :=
     match l with
     | [] => Some []
     | id :: r => match (if (id <? 0)%Z then None else nth_error vals (Z.to_nat id)), go r with
                  | Some v, Some vs => Some (v :: vs)
                  | _, _ => None
                  end
     end) tids.

(* a schedule of one search against concurrent appends *)
Inductive rev := RW (e : wev) | RReadTids | RReadVals.

(* FindPattern under a schedule: the two snapshot reads happen where the schedule says; result =
   values of the TIDs found (None = GetToken out of range, or a read missing from the schedule) *)
Definition race_find (parse : bytes -> option Z) (hash : bytes -> nat) (st0 : cstate) (sched : list rev)
           (f : bytes) (q : query) : option (list bytes) :=
  let '(st, tids, vals) :=
    fold_left (fun acc e =>
                 let '(st, tids, vals) := acc in
                 match e with
                 | RW w => (cstep hash st w, tids, vals)
                 | RReadTids => (st, Some (aget [] f (tl_fields (c_tl st))), vals)
                 | RReadVals => (st, tids, Some (tl_vals (c_tl st)))
                 end) sched (st0, None, None) in
  match tids, vals with
  | Some tids, Some vals =>
      match snap_dict tids vals with
      | None => None
      | Some dict =>
          match search parse false 1 dict q with
          | None => None
          | Some found => Some (map (tok 1 dict) found)
          end
      end
  | _, _ => None
  end.

(* ------------------------------------------------------------------ TableLoader (frac/token/table_loader.go)
   The index file enters as the list of its block lengths (block 0 = info block; a section ends
   with an empty block). load(): i = 1; skip headers up to and including the first empty one (the
   token blocks); read blocks until an empty one: those are the token table. The loader's state is
   its read cursor. Result: (first table block, block after the table's terminator = new cursor);
   None = a header/block index beyond the file (logger.Panic). *)
Fixpoint skip_section (fuel : nat) (lens : list N) (i : nat) : option nat :=
  match fuel with
  | O => None
  | S f => match nth_error lens i with
           | None => None
           | Some l => if (l =? 0)%N then Some (S i) else skip_section f lens (S i)
           end
  end.

Definition tl_load (lens : list N) (cursor : nat) : option (nat * nat) :=
  let i := 1 in      (* l.i = 1: the cursor the loader was left with is overwritten *)
  match skip_section (length lens) lens i with
  | None => None
  | Some start => match skip_section (length lens) lens start with
                  | None => None
                  | Some stop => Some (start, stop)
                  end
  end.

(* the variant that remembers the table start but does not rewind the cursor on a later load *)
Definition tl_load_norewind (lens : list N) (st : nat * nat) : option (nat * nat * (nat * nat)) :=
  let '(cursor, table_start) := st in
  match (if Nat.eqb table_start 0 then skip_section (length lens) lens 1 else Some cursor) with
  | None => None
  | Some start =>
      let ts := if Nat.eqb table_start 0 then start else table_start in
      match skip_section (length lens) lens start with
      | None => None
      | Some stop => Some (start, stop, (stop, ts))
      end
  end.

(* Load() through the cache: a lookup reloads iff the table was evicted (or never loaded); the
   loader's cursor after a load is where the load stopped *)
Fixpoint tl_lookups (lens : list N) (cursor : nat) (cached : option (nat * nat)) (evict : list bool)
  : list (option (nat * nat)) :=
  match evict with
  | [] => []
  | ev :: r =>
      match (if ev then None else cached) with
      | Some t => Some t :: tl_lookups lens cursor (Some t) r
      | None => match tl_load lens cursor with
                | None => None :: tl_lookups lens cursor None r
                | Some (start, stop) => Some (start, stop) :: tl_lookups lens stop (Some (start, stop)) r
                end
      end
  end.
