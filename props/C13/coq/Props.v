(* C13 — property theorems. Only statements closed by `exact <lemma>`, Print Assumptions, and
   non-vacuity examples. *)
From Coq Require Import List Bool Arith NArith ZArith Lia Sorting.Sorted.
Import ListNotations.
From C13 Require Import Model ProofsGlob ProofsKmp ProofsWild ProofsSearch ProofsTable ProofsSealed.
From C13 Require Import ModelBlock ProofsBlock ProofsProvider ProofsWriter ProofsActive ProofsRace ProofsSealedBytes.

(* The executable specification [glob] (what every case is judged against) is the declarative
   glob: text terms stand for themselves, every '*' for an arbitrary string. *)
Theorem C13_glob_spec_meaning : forall ts t, glob ts t = true <-> Matches ts t.
Proof. exact glob_matches. Qed.
Print Assumptions C13_glob_spec_meaning.

(* findSubstring (prefix function + matcher) returns the end of the LEFTMOST occurrence of a
   non-empty pattern, -1 iff there is none, and the model's fuel never runs out. *)
Theorem C13_kmp_leftmost : forall s p, p <> [] ->
  match find_substring s p with
  | KEnd e => EndsAt p s e /\ forall e', EndsAt p s e' -> e <= e'
  | KNone => forall e', ~ EndsAt p s e'
  | KFuel => False
  end.
Proof. exact find_substring_leftmost. Qed.
Print Assumptions C13_kmp_leftmost.

(* For every term list the parsers can build (any number of '*', adjacent '*' allowed) and every
   token: the searcher's check (literal: bytes.Equal; wildcard: prefix, suffix with the length
   guard against overlap, ordered middles by greedy KMP) decides exactly the glob. *)
Theorem C13_wildcard_is_glob : forall ts v, wf ts = true ->
  match is_literal ts with
  | Some s => lit_check false s v = glob ts v
  | None => wild_check false (new_wildcard ts) v = Some (glob ts v)
  end.
Proof. exact check_is_glob. Qed.
Print Assumptions C13_wildcard_is_glob.

(* The narrowed wildcard check (prefix comparison skipped) is still the glob on every token that
   carries the prefix — the only tokens the narrowed range contains. *)
Theorem C13_wildcard_narrowed_is_glob : forall ts v, wf ts = true -> is_literal ts = None ->
  (exists r, v = w_prefix (new_wildcard ts) ++ r) ->
  wild_check true (new_wildcard ts) v = Some (glob ts v).
Proof. intros ts v W L H. exact (wild_check_glob true ts v W L (fun _ => H)). Qed.
Print Assumptions C13_wildcard_narrowed_is_glob.

(* Range filters: numeric comparison iff every given end is a finite number (tokens that are not
   numbers then never match), byte-order comparison otherwise; open/closed/unbounded ends. The
   oracle [parse] is any function whose keys are bounded like finite float64 values. *)
Theorem C13_range_semantics : forall parse : bytes -> option Z,
  (forall s k, parse s = Some k -> (- maxkey <= k <= maxkey)%Z) ->
  forall r v, range_check parse r v = range_spec parse r v.
Proof. exact range_check_spec. Qed.
Print Assumptions C13_range_semantics.

(* Unordered provider (active fraction): Search returns exactly the TIDs of the tokens the
   glob / interval semantics accepts, in order. *)
Theorem C13_search_is_scan : forall parse : bytes -> option Z,
  (forall s k, parse s = Some k -> (- maxkey <= k <= maxkey)%Z) ->
  forall first dict q, wfq q ->
  search parse false first dict q = Some (spec_scan (spec_match parse q) first dict).
Proof. exact search_unordered. Qed.
Print Assumptions C13_search_is_scan.

(* Ordered provider (sorted duplicate-free dictionary): binary-search narrowing (literal: at most
   one TID, compared by length only; wildcard: the block of tokens sharing the prefix) returns
   the same TIDs as scanning every token. *)
Theorem C13_narrow_equiv : forall parse : bytes -> option Z,
  (forall s k, parse s = Some k -> (- maxkey <= k <= maxkey)%Z) ->
  forall first dict q, wfq q -> StronglySorted lt_bytes dict ->
  search parse true first dict q = search parse false first dict q /\
  search parse true first dict q = Some (spec_scan (spec_match parse q) first dict).
Proof. exact narrow_equiv. Qed.
Print Assumptions C13_narrow_equiv.

(* Token-table pre-selection: for every sorted duplicate-free field dictionary split into
   non-empty entries (MaxVal = last token of the entry, field MinVal = first token), every
   hint: SelectEntries returns bounds [l, r) that contain every entry holding a token whose
   |hint|-prefix equals the hint (incl. the "next block after the last matching" rule). *)
Theorem C13_select_entries_complete : forall entries hint,
  entries <> [] -> Forall (fun e => e <> []) entries -> StronglySorted lt_bytes (concat entries) ->
  exists l r, select_entries (hd [] (hd [] entries)) (map (fun e => last e []) entries) hint = Some (l, r) /\
    (0 <= l)%Z /\ (r <= Z.of_nat (length entries))%Z /\
    forall i t, i < length entries -> In t (nth i entries []) -> (exists x, t = hint ++ x) ->
      (l <= Z.of_nat i < r)%Z.
Proof. exact select_entries_complete. Qed.
Print Assumptions C13_select_entries_complete.

(* Sealed GetTIDsByTokenExpr (hint -> SelectEntries -> Provider over the selected entries ->
   narrowed Search) returns exactly the TIDs a scan of every token of the field with the
   glob / interval semantics returns — for every block layout. *)
Theorem C13_sealed_equals_scan : forall parse : bytes -> option Z,
  (forall s k, parse s = Some k -> (- maxkey <= k <= maxkey)%Z) ->
  forall first entries q, wfq q -> entries <> [] -> Forall (fun e => e <> []) entries ->
  StronglySorted lt_bytes (concat entries) ->
  sealed_search parse first entries q = Some (spec_scan (spec_match parse q) first (concat entries)).
Proof. exact sealed_equals_scan. Qed.
Print Assumptions C13_sealed_equals_scan.

(* ---------------------------------------------------------------- non-vacuity *)

Definition a := 97%N.
Definition b := 98%N.

(* 'ab*ba' is well formed, is not a literal, and does NOT match 'aba' (prefix and suffix would
   overlap) but matches 'abba' and 'abaaba' *)
Example C13_overlap_guard :
  let ts := [TText [a; b]; TStar; TText [b; a]] in
  wf ts = true /\ is_literal ts = None /\
  wild_check false (new_wildcard ts) [a; b; a] = Some false /\ glob ts [a; b; a] = false /\
  wild_check false (new_wildcard ts) [a; b; b; a] = Some true /\
  wild_check false (new_wildcard ts) [a; b; a; a; b; a] = Some true.
Proof. vm_compute. repeat split. Qed.

(* middles, adjacent wildcards, an occurrence that must be taken leftmost *)
Example C13_middles :
  let ts := [TStar; TText [a; b]; TStar; TStar; TText [b; a]; TStar] in
  wf ts = true /\ wild_check false (new_wildcard ts) [a; b; a] = Some false /\
  wild_check false (new_wildcard ts) [b; a; b; b; a; a] = Some true /\
  find_substring [b; a; b; a; b] [a; b] = KEnd 3.
Proof. vm_compute. repeat split. Qed.

(* a sorted dictionary, the oracle hypothesis, and a narrowed search that finds something *)
Example C13_sorted_dict_nonvacuous :
  let dict := [[]; [a]; [a; a]; [a; b]; [a; b; a]; [b]] in
  StronglySorted lt_bytes dict /\
  search (lookup []) true 5 dict (QLit [TText [a]; TStar; TText [a]]) = Some [7; 9]%Z /\
  search (lookup []) true 5 dict (QLit [TText [a; b]]) = Some [8]%Z.
Proof.
  split; [|vm_compute; split; reflexivity].
  repeat (constructor; [|repeat constructor; reflexivity]). constructor.
Qed.

Example C13_oracle_hypothesis_witness :
  let keys := [([49%N], 4607182418800017408%Z); ([50%N], 4611686018427387904%Z)] in
  (forall s k, lookup keys s = Some k -> (- maxkey <= k <= maxkey)%Z) /\
  range_check (lookup keys) {| r_from := Some [49%N]; r_to := None; r_incf := false; r_inct := true |} [50%N] = true /\
  range_check (lookup keys) {| r_from := None; r_to := None; r_incf := true; r_inct := true |} [a] = false.
Proof.
  split; [|vm_compute; split; reflexivity].
  apply lookup_bounded. repeat constructor; simpl; unfold maxkey; lia.
Qed.

(* a three-entry layout satisfying the hypotheses; the hint 'ab' selects the middle entry plus
   the next one, and the search finds TID 8 *)
Example C13_sealed_nonvacuous :
  let entries := [[[]; [a]]; [[a; a]; [a; b]]; [[b]]] in
  entries <> [] /\ Forall (fun e => e <> []) entries /\ StronglySorted lt_bytes (concat entries) /\
  select_entries [] [[a]; [a; b]; [b]] [a; b] = Some (1, 3)%Z /\
  sealed_search (lookup []) 5 entries (QLit [TText [a; b]; TStar]) = Some [8]%Z.
Proof.
  split; [discriminate|]. split; [repeat constructor; discriminate|].
  split; [|vm_compute; split; reflexivity].
  repeat (constructor; [|repeat constructor; reflexivity]). constructor.
Qed.

(* ================================================================ packed token blocks, providers *)

(* For every list of fields (name, fieldSize, tokens), every RegularBlockSize [reg], every first
   block index and every width w >= 1 of the length field (the code: w = 4 = W32): the generator
   (chunking, StartTID) never runs out of fuel; for EVERY table entry writeTokensBlocks emits,
   Block.unpack of the physical block it names succeeds and GetValByTID(tid) returns, for every
   tid in [StartTID, lastTID], exactly the token with that TID in dictionary order (the tid-th
   token of the concatenated fields) - in particular no out-of-range read (None = panic).
   Hypotheses: token lengths below the separator value (2^32-1), physical blocks below 2^32 bytes
   (offsets are stored as uint32). *)
Theorem C13_block_unpack_exact : forall w reg b0 (fields : list (bytes * N * list bytes)),
  1 <= w ->
  Forall (fun x => Forall (fun t => (blen t < maxv w)%N) (snd x)) fields ->
  exists blocks, gen_blocks reg fields 1 = Some blocks /\
  let st := write_blocks w reg b0 blocks in
  let dict := concat (map (fun x => snd x) fields) in
  Forall (fun P => (blen P < 256 ^ N.of_nat w)%N) (ws_done st) ->
  forall fe, In fe (ws_table st) ->
    let e := snd fe in
    let P := disk_of b0 (ws_done st) (e_block_index e) in
    (1 <= e_start_tid e)%Z /\ (1 <= e_val_count e)%Z /\ (get_last_tid e <= Z.of_nat (length dict))%Z /\
    exists offs, unpack w P = UOk offs /\
      forall tid, (e_start_tid e <= tid <= get_last_tid e)%Z ->
        get_val w e P offs tid = Some (nth (Z.to_nat (tid - 1)) dict []).
Proof. exact (fun w reg b0 fields Hw => block_unpack_exact w Hw reg b0 fields). Qed.
Print Assumptions C13_block_unpack_exact.

(* OBSERVATION outside the property's quantifier (not a finding): Block.unpack on ARBITRARY bytes.
   C13 quantifies over dictionaries the store itself wrote; C13_block_unpack_exact proves that every
   block the writer emits unpacks. Bytes ending 1..3 bytes after a record need a corrupted index
   file; there the code panics (binary.LittleEndian.Uint32 / data[4:] on fewer than 4 bytes) where it
   returns an error for other corruptions - its only caller turns that error into logger.Panic
   anyway. The model is kept faithful (UPanic), so "Ok or Error on all bytes" does not hold
   (C13_block_unpack_total_refuted) and is not demanded by the check. What holds for all bytes: the
   walk terminates; an Ok answer has every recorded offset and record inside the block; a panic
   happens only on reaching a remainder of 1..w-1 bytes. *)
Theorem C13_block_unpack_total_partial : forall w data, 1 <= w ->
  match unpack w data with
  | UOk offs => exists os, offs = flat_map (enc w) os /\
      Forall (fun o => (o + N.of_nat w + dec (firstn w (skipn (N.to_nat o) data)) <= blen data)%N) os
  | UErr => True
  | UPanic => exists p sfx, data = p ++ sfx /\ 0 < length sfx < w
  | UFuel => False
  end.
Proof. exact (fun w data Hw => unpack_total w Hw data). Qed.
Print Assumptions C13_block_unpack_total_partial.

(* witness of the observation: a block cut one byte short; the run counts the agreed panics of the
   class unpack-malformed as observation:block-unpack-short-tail (model UPanic = real panic) *)
Theorem C13_block_unpack_total_refuted : exists data, unpack W32 data = UPanic.
Proof. exists [1; 0; 0; 0; 97; 255; 255; 255]%N. vm_compute. reflexivity. Qed.
Print Assumptions C13_block_unpack_total_refuted.

(* token.Provider: for every entry list that is a contiguous monotone cover whose blocks serve
   the token sequence tokf, EVERY call sequence of GetToken with TIDs in [FirstTID, LastTID] -
   any order, from any valid provider state (nothing cached, or any cached block: the fast path
   is hit or missed in every state) - returns tokf tid for each call and keeps the state valid. *)
Theorem C13_provider_get_token : forall w disk entries (tokf : Z -> bytes),
  cover entries -> serves w disk entries tokf ->
  pvalid w disk entries p_init /\
  forall tids st, pvalid w disk entries st ->
    Forall (fun tid => (first_tid entries <= tid <= last_tid_p entries)%Z) tids ->
    exists st', get_tokens w disk entries st tids = Some (map tokf tids, st') /\ pvalid w disk entries st'.
Proof.
  exact (fun w disk entries tokf C S =>
           conj (pvalid_init w disk entries (proj1 C)) (provider_get_tokens w disk entries tokf C S)).
Qed.
Print Assumptions C13_provider_get_token.

(* Active TokenList. [hash t] = worker owning token t, [fl t] = field length of token t (a token
   is always split the same way), every Append = (arrival order of the workers' results, batch):
   after ANY sequence of Append calls whose batches are duplicate-free (the bulk collector's
   guarantee) and whose arrival orders name every worker once: the tokens in TID order [toks] are
   duplicate-free and are exactly the tokens ever appended; GetValByTID(tid) = value of the tid-th
   of them; FieldTIDs[f] = the TIDs (ascending) of exactly the tokens whose field is f; the
   provider pattern.Search receives for field f (FirstTID = 1, LastTID = len, unordered) hands out
   the token sequence [ap_dict st f] = the values of f's distinct tokens - the [first = 1, dict]
   that C13_search_is_scan quantifies over. *)
Theorem C13_active_provider_exact : forall (hash fl : bytes -> nat) (hist : list (list nat * list bytes)),
  Forall (fun ab => NoDup (fst ab) /\ (forall t, In t (snd ab) -> In (hash t) (fst ab)) /\ NoDup (snd ab)) hist ->
  let st := tl_run hash tl_empty (map (fun ab => (fst ab, map (fun t => (t, fl t)) (snd ab))) hist) in
  let toks := tl_known st in
  let fld t := field_of (t, fl t) in
  let val t := value_of (t, fl t) in
  NoDup toks /\
  (forall t, In t toks <-> exists ab, In ab hist /\ In t (snd ab)) /\
  tl_vals st = [] :: map val toks /\
  (forall tid, (1 <= tid <= Z.of_nat (length toks))%Z ->
     tl_get_val st tid = Some (val (nth (Z.to_nat (tid - 1)) toks []))) /\
  (forall f, aget [] f (tl_fields st) = ftids f 1 (map (fun t => (t, fl t)) toks)) /\
  (forall f, ap_dict st f = map val (filter (fun t => bytes_eqb (fld t) f) toks)) /\
  (forall f tid, (1 <= tid <= ap_last_tid st f)%Z -> ap_get_token st f tid = Some (tok 1 (ap_dict st f) tid)).
Proof. exact active_exact. Qed.
Print Assumptions C13_active_provider_exact.

(* Building block of C13_sealed_equals_scan_bytes (proved in full further below): for every
   selected entry range [sel] that is a contiguous cover whose packed blocks serve the sorted
   dictionary dict, the real Provider over the packed blocks hands out exactly dict for
   FirstTID..LastTID, and the narrowed Search over it equals the scan of every token. *)
Theorem C13_sealed_equals_scan_bytes_partial : forall parse : bytes -> option Z,
  (forall s k, parse s = Some k -> (- maxkey <= k <= maxkey)%Z) ->
  forall w disk sel first dict q, wfq q -> StronglySorted lt_bytes dict ->
  cover sel -> first_tid sel = first -> last_tid_p sel = last_tid first dict ->
  serves w disk sel (tok first dict) ->
  match provider_dict w disk sel with
  | Some d => search parse true (first_tid sel) d q
  | None => None
  end = Some (spec_scan (spec_match parse q) first dict).
Proof. exact sealed_bytes_partial. Qed.
Print Assumptions C13_sealed_equals_scan_bytes_partial.

(* ---------------------------------------------------------------- non-vacuity (blocks) *)

Definition f_ := 102%N.
Definition g_ := 103%N.

(* the hypotheses of C13_block_unpack_exact hold for a two-field dictionary; both fields share one
   physical block (the second entry starts in the middle of it) *)
Example C13_block_exact_nonvacuous :
  let fields := [([f_], 2%N, [[a]; [b]]); ([g_], 0%N, [[]])] in
  Forall (fun x => Forall (fun t => (blen t < maxv W32)%N) (snd x)) fields /\
  Forall (fun P => (blen P < 256 ^ N.of_nat W32)%N)
         (ws_done (write_blocks W32 16384 0 (match gen_blocks 16384 fields 1 with Some bl => bl | None => [] end))) /\
  map (fun fe => (e_start_index (snd fe), e_start_tid (snd fe), e_val_count (snd fe), e_block_index (snd fe)))
      (ws_table (write_blocks W32 16384 0 (match gen_blocks 16384 fields 1 with Some bl => bl | None => [] end)))
  = [(0, 1, 2, 0); (2, 3, 1, 0)]%Z.
Proof.
  cbv zeta. split; [|split].
  - repeat (first [apply Forall_nil | apply Forall_cons]); vm_compute; reflexivity.
  - match goal with |- Forall ?P ?l => let l' := eval vm_compute in l in change (Forall P l') end.
    repeat (first [apply Forall_nil | apply Forall_cons]); vm_compute; reflexivity.
  - vm_compute. reflexivity.
Qed.

(* the length hypothesis is necessary: with a 1-byte length field (separator 255) a token of
   length 255 is taken for the separator and TID 1 reads back as the empty token; the same
   collision needs a 4 GiB token at the real width *)
Example C13_block_separator_collision :
  let t := repeat 0%N 255 in
  let P := pack_tokens 1 [t] in
  let e := {| e_start_index := 0; e_start_tid := 1; e_block_index := 0; e_val_count := 1;
              e_min_val := []; e_max_val := [] |} in
  blen t = maxv 1 /\
  match unpack 1 P with UOk offs => get_val 1 e P offs 1 = Some [] | _ => False end.
Proof. vm_compute. split; reflexivity. Qed.

(* an Append history satisfying the hypotheses of C13_active_provider_exact: two workers, the
   results of the second call arrive in the order [1; 0]; token f:a is repeated across calls and
   gets one TID; field f has the values a, b and field g the value a *)
Example C13_active_nonvacuous :
  let c := 58%N in
  let hash := fun t : bytes => match t with x :: _ => if N.eqb x f_ then 0 else 1 | [] => 0 end in
  let hist := [([0; 1], [[f_; c; a]; [g_; c; a]]); ([1; 0], [[f_; c; a]; [f_; c; b]])] in
  Forall (fun ab => NoDup (fst ab) /\ (forall t, In t (snd ab) -> In (hash t) (fst ab)) /\ NoDup (snd ab)) hist /\
  let st := tl_run hash tl_empty (map (fun ab => (fst ab, map (fun t => (t, 1)) (snd ab))) hist) in
  tl_vals st = [[]; [a]; [a]; [b]] /\ ap_dict st [f_] = [[a]; [b]] /\ ap_dict st [g_] = [[a]].
Proof.
  cbv zeta. split; [|vm_compute; repeat split].
  unfold f_, g_, a, b.
  repeat (first [apply Forall_nil | apply Forall_cons]); cbn [fst snd]; (split; [|split]).
  all: try (solve [repeat constructor; simpl; intuition discriminate]).
  all: simpl; intros t [<-|[<-|[]]]; vm_compute; auto.
Qed.

(* the duplicate-free-batch hypothesis is necessary: the same new token twice inside ONE Append
   gets two TIDs (each worker scans its share before it updates its map) *)
Example C13_active_duplicate_in_batch :
  let c := 58%N in
  let st := tl_run (fun _ => 0) tl_empty [([0], [([f_; c; a], 1); ([f_; c; a], 1)])] in
  tl_vals st = [[]; [a]; [a]] /\ aget [] [f_] (tl_fields st) = [1; 2]%Z.
Proof. vm_compute. split; reflexivity. Qed.

(* the byte-level sealed lookup on a two-field dictionary: field g starts in the middle of the
   physical block (StartIndex 3); 'a*' on g finds TIDs 4 and 5 *)
Example C13_sealed_bytes_nonvacuous :
  let fields := [([f_], 3%N, [[a]; [a; b]; [b]]); ([g_], 3%N, [[a]; [a; a]; [b]])] in
  sealed_search_bytes (lookup []) W32 16384 0 fields [g_] (QLit [TText [a]; TStar]) = Some [4; 5]%Z /\
  sealed_search_bytes (lookup []) W32 16384 0 fields [f_] (QLit [TText [a; b]]) = Some [2]%Z /\
  spec_scan (spec_match (lookup []) (QLit [TText [a]; TStar])) 4 [[a]; [a; a]; [b]] = [4; 5]%Z.
Proof. vm_compute. repeat split. Qed.

(* ================================================================ searches against changing state *)

(* Active side. Append publishes a new token in TWO steps (createTIDs: tidToVal grows;
   fillFieldTIDs: the field's TID list grows; several Appends may be between their steps at once,
   filled in any order), getTokenProvider takes TWO snapshots in the code's order: the field's TID
   list first, the value slice second. For EVERY interleaving (pre = the steps before the first
   read, mid = the steps between the two reads): every TID of the list snapshot is below the length
   of the value snapshot, GetToken(i) returns the token of the i-th TID, the provider's token
   sequence is exactly the field's tokens published when the TID list was read, and Search over it
   equals their scan (no index out of range in any schedule). *)
Theorem C13_active_snapshot_consistent : forall parse : bytes -> option Z,
  (forall s k, parse s = Some k -> (- maxkey <= k <= maxkey)%Z) ->
  forall (hash : bytes -> nat) (pre mid : list wev) (f : bytes),
  let st1 := crun hash c_init pre in
  let st2 := crun hash st1 mid in
  let tids := aget [] f (tl_fields (c_tl st1)) in
  let vals := tl_vals (c_tl st2) in
  let dict1 := ap_dict (c_tl st1) f in
  (forall id, In id tids -> (0 <= id < Z.of_nat (length vals))%Z) /\
  snap_dict tids vals = Some dict1 /\
  (forall i, (1 <= i <= Z.of_nat (length tids))%Z -> snap_get tids vals i = Some (tok 1 dict1 i)) /\
  (forall q, wfq q -> search parse false 1 dict1 q = Some (spec_scan (spec_match parse q) 1 dict1)).
Proof. exact snapshot_consistent. Qed.
Print Assumptions C13_active_snapshot_consistent.

(* the two-step model is Append: createTIDs then fillFieldTIDs of the same call = tl_append *)
Theorem C13_append_is_two_steps : forall hash arrival t items,
  c_tl (cstep hash (cstep hash {| c_tl := t; c_pending := [] |} (WCreate arrival items)) (WFill 0))
  = tl_append hash arrival t items.
Proof. exact append_is_two_steps. Qed.
Print Assumptions C13_append_is_two_steps.

(* the SWAPPED read order (value slice first, TID list second) is refuted by a 2-step interleaving:
   both publication steps of one Append between the two reads give a TID beyond the value
   snapshot (GetToken: index out of range) *)
Example C13_active_snapshot_swapped_refuted :
  let hash := fun _ : bytes => 0 in
  let mid := [WCreate [0] [([f_; 58%N; a], 1)]; WFill 0] in
  let st1 := c_init in
  let st2 := crun hash st1 mid in
  let vals := tl_vals (c_tl st1) in                    (* read first *)
  let tids := aget [] [f_] (tl_fields (c_tl st2)) in   (* read second *)
  tids = [1%Z] /\ length vals = 1 /\ snap_dict tids vals = None /\ snap_get tids vals 1 = None.
Proof. vm_compute. repeat split. Qed.

(* Sealed side. TableLoader.load() overwrites the read cursor an earlier load left (l.i = 1), so it
   is the same function of the index file from every loader state; through the cache: whatever is
   evicted before whichever lookup, EVERY lookup of one loader sees the table a fresh loader's first
   load returns - so the sealed search (a function of that table and the blocks:
   C13_sealed_equals_scan, C13_sealed_equals_scan_bytes_partial) equals the scan for any eviction
   pattern. The index file enters as the list of its block lengths; decoding the table blocks
   (packer.BytesUnpacker) is not modelled - compared on every run through the real loader. *)
Theorem C13_table_reload_idempotent : forall lens : list N,
  (forall c1 c2, tl_load lens c1 = tl_load lens c2) /\
  forall t, tl_load lens 0 = Some t ->
    forall evict cursor cached, (cached = None \/ cached = Some t) ->
      Forall (fun r => r = Some t) (tl_lookups lens cursor cached evict).
Proof. exact table_reload_idempotent. Qed.
Print Assumptions C13_table_reload_idempotent.

(* the variant that remembers the table start but does not rewind the cursor is refuted: the second
   load of the same loader reads the blocks behind the table's terminator *)
Example C13_table_reload_norewind_refuted :
  let lens := [10; 5; 0; 7; 0; 3; 0]%N in
  tl_load lens 0 = Some (3, 5) /\
  tl_load_norewind lens (0, 0) = Some (3, 5, (5, 3)) /\
  tl_load_norewind lens (5, 3) = Some (5, 7, (7, 3)).
Proof. vm_compute. repeat split. Qed.

(* ================================================================ end to end over the bytes *)

(* The sealed lookup over the packed blocks, for EVERY list of fields (distinct names; the searched
   field f anywhere in it, its tokens sorted and duplicate-free), every RegularBlockSize, first
   block index and width of the length field: token block generator (chunking, StartTID) ->
   writeTokensBlocks (physical blocks, StartIndex/BlockIndex, MinVal/MaxVal) -> the table entries
   of f -> SelectEntries by hint -> Provider over the selected entries reading the packed blocks
   (unpack, GetValByTID) -> narrowed Search = the scan of every token of f with the glob / interval
   semantics, TIDs counted in dictionary order after the fields before f.
   Hypotheses: token lengths < 2^32-1 and physical blocks < 2^32 bytes (as in
   C13_block_unpack_exact). Composition of C13_block_unpack_exact (located records),
   C13_provider_get_token, C13_select_entries_complete and C13_sealed_equals_scan. *)
Theorem C13_sealed_equals_scan_bytes : forall parse : bytes -> option Z,
  (forall s k, parse s = Some k -> (- maxkey <= k <= maxkey)%Z) ->
  forall w reg b0 (pre : list (bytes * N * list bytes)) f total toks post q, 1 <= w ->
  let fields := pre ++ (f, total, toks) :: post in
  wfq q ->
  ~ In f (map (fun x => fst (fst x)) pre) -> ~ In f (map (fun x => fst (fst x)) post) ->
  Forall (fun x => Forall (fun t => (blen t < maxv w)%N) (snd x)) fields ->
  StronglySorted lt_bytes toks ->
  (forall blocks, gen_blocks reg fields 1 = Some blocks ->
     Forall (fun P => (blen P < 256 ^ N.of_nat w)%N) (ws_done (write_blocks w reg b0 blocks))) ->
  sealed_search_bytes parse w reg b0 fields f q
  = Some (spec_scan (spec_match parse q) (1 + Z.of_nat (length (concat (map (fun x => snd x) pre)))) toks).
Proof.
  exact (fun parse PB w reg b0 pre f total toks post q Hw =>
           sealed_equals_scan_bytes parse PB w Hw reg b0 pre f total toks post q).
Qed.
Print Assumptions C13_sealed_equals_scan_bytes.

(* the hypotheses hold for the two-field dictionary of C13_sealed_bytes_nonvacuous (searched field
   g after field f, starting in the middle of the physical block) *)
Example C13_sealed_bytes_hypotheses_witness :
  let pre := [([f_], 3%N, [[a]; [a; b]; [b]])] in
  let toks := [[a]; [a; a]; [b]] in
  let fields := pre ++ ([g_], 3%N, toks) :: [] in
  ~ In [g_] (map (fun x => fst (fst x)) pre) /\
  Forall (fun x => Forall (fun t => (blen t < maxv W32)%N) (snd x)) fields /\
  StronglySorted lt_bytes toks /\
  (forall blocks, gen_blocks 16384 fields 1 = Some blocks ->
     Forall (fun P => (blen P < 256 ^ N.of_nat W32)%N) (ws_done (write_blocks W32 16384 0 blocks))).
Proof.
  cbv zeta. split; [|split; [|split]].
  - simpl. intros [H|[]]. discriminate H.
  - repeat (first [apply Forall_nil | apply Forall_cons]); vm_compute; reflexivity.
  - repeat (constructor; [|repeat constructor; reflexivity]). constructor.
  - intros blocks E. vm_compute in E. inversion E; subst blocks.
    match goal with |- Forall ?P ?l => let l' := eval vm_compute in l in change (Forall P l') end.
    repeat (first [apply Forall_nil | apply Forall_cons]); vm_compute; reflexivity.
Qed.
