(* C13 — property theorems. Only statements closed by `exact <lemma>`, Print Assumptions, and
   non-vacuity examples. *)
From Coq Require Import List Bool Arith NArith ZArith.
Import ListNotations.
From C13 Require Import Model ProofsGlob.

(* The executable specification [glob] (what every case is judged against) is the declarative
   glob: text terms stand for themselves, every '*' for an arbitrary string. *)
Theorem C13_glob_spec_meaning : forall ts t, glob ts t = true <-> Matches ts t.
Proof. exact glob_matches. Qed.
Print Assumptions C13_glob_spec_meaning.
