(* C13 — property theorems. Only statements closed by `exact <lemma>`, Print Assumptions, and
   non-vacuity examples. *)
From Coq Require Import List Bool Arith NArith ZArith Lia Sorting.Sorted.
Import ListNotations.
From C13 Require Import Model ProofsGlob ProofsKmp ProofsWild ProofsSearch ProofsTable ProofsSealed.

(* The executable specification [glob] (what every case is judged against) is the declarative
   glob: text terms stand for themselves, every '*' for an arbitrary string. *)
Theorem C13_glob_spec_meaning : forall ts t, glob ts t = true <-> Matches ts t.
Proof. exact glob_matches. Qed.
Print Assumptions C13_glob_spec_meaning.

(* findSubstring (prefix function + matcher) returns the end of the LEFTMOST occurrence of a
   non-empty pattern, -1 iff there is none, and the model's fuel never runs out. *)
Theorem C13_kmp_leftmost : forall s p, p <> [] ->
  match find_substring s p with
  | KEnd e => EndsAt p s e /\ forall e', EndsAt p s e' -> e <= e'
  | KNone => forall e', ~ EndsAt p s e'
  | KFuel => False
  end.
Proof. exact find_substring_leftmost. Qed.
Print Assumptions C13_kmp_leftmost.

(* For every term list the parsers can build (any number of '*', adjacent '*' allowed) and every
   token: the searcher's check (literal: bytes.Equal; wildcard: prefix, suffix with the length
   guard against overlap, ordered middles by greedy KMP) decides exactly the glob. *)
Theorem C13_wildcard_is_glob : forall ts v, wf ts = true ->
  match is_literal ts with
  | Some s => lit_check false s v = glob ts v
  | None => wild_check false (new_wildcard ts) v = Some (glob ts v)
  end.
Proof. exact check_is_glob. Qed.
Print Assumptions C13_wildcard_is_glob.

(* The narrowed wildcard check (prefix comparison skipped) is still the glob on every token that
   carries the prefix — the only tokens the narrowed range contains. *)
Theorem C13_wildcard_narrowed_is_glob : forall ts v, wf ts = true -> is_literal ts = None ->
  (exists r, v = w_prefix (new_wildcard ts) ++ r) ->
  wild_check true (new_wildcard ts) v = Some (glob ts v).
Proof. intros ts v W L H. exact (wild_check_glob true ts v W L (fun _ => H)). Qed.
Print Assumptions C13_wildcard_narrowed_is_glob.

(* Range filters: numeric comparison iff every given end is a finite number (tokens that are not
   numbers then never match), byte-order comparison otherwise; open/closed/unbounded ends. The
   oracle [parse] is any function whose keys are bounded like finite float64 values. *)
Theorem C13_range_semantics : forall parse : bytes -> option Z,
  (forall s k, parse s = Some k -> (- maxkey <= k <= maxkey)%Z) ->
  forall r v, range_check parse r v = range_spec parse r v.
Proof. exact range_check_spec. Qed.
Print Assumptions C13_range_semantics.

(* Unordered provider (active fraction): Search returns exactly the TIDs of the tokens the
   glob / interval semantics accepts, in order. *)
Theorem C13_search_is_scan : forall parse : bytes -> option Z,
  (forall s k, parse s = Some k -> (- maxkey <= k <= maxkey)%Z) ->
  forall first dict q, wfq q ->
  search parse false first dict q = Some (spec_scan (spec_match parse q) first dict).
Proof. exact search_unordered. Qed.
Print Assumptions C13_search_is_scan.

(* Ordered provider (sorted duplicate-free dictionary): binary-search narrowing (literal: at most
   one TID, compared by length only; wildcard: the block of tokens sharing the prefix) returns
   the same TIDs as scanning every token. *)
Theorem C13_narrow_equiv : forall parse : bytes -> option Z,
  (forall s k, parse s = Some k -> (- maxkey <= k <= maxkey)%Z) ->
  forall first dict q, wfq q -> StronglySorted lt_bytes dict ->
  search parse true first dict q = search parse false first dict q /\
  search parse true first dict q = Some (spec_scan (spec_match parse q) first dict).
Proof. exact narrow_equiv. Qed.
Print Assumptions C13_narrow_equiv.

(* Token-table pre-selection: for every sorted duplicate-free field dictionary split into
   non-empty entries (MaxVal = last token of the entry, field MinVal = first token), every
   hint: SelectEntries returns bounds [l, r) that contain every entry holding a token whose
   |hint|-prefix equals the hint (incl. the "next block after the last matching" rule). *)
Theorem C13_select_entries_complete : forall entries hint,
  entries <> [] -> Forall (fun e => e <> []) entries -> StronglySorted lt_bytes (concat entries) ->
  exists l r, select_entries (hd [] (hd [] entries)) (map (fun e => last e []) entries) hint = Some (l, r) /\
    (0 <= l)%Z /\ (r <= Z.of_nat (length entries))%Z /\
    forall i t, i < length entries -> In t (nth i entries []) -> (exists x, t = hint ++ x) ->
      (l <= Z.of_nat i < r)%Z.
Proof. exact select_entries_complete. Qed.
Print Assumptions C13_select_entries_complete.

(* Sealed GetTIDsByTokenExpr (hint -> SelectEntries -> Provider over the selected entries ->
   narrowed Search) returns exactly the TIDs a scan of every token of the field with the
   glob / interval semantics returns — for every block layout. *)
Theorem C13_sealed_equals_scan : forall parse : bytes -> option Z,
  (forall s k, parse s = Some k -> (- maxkey <= k <= maxkey)%Z) ->
  forall first entries q, wfq q -> entries <> [] -> Forall (fun e => e <> []) entries ->
  StronglySorted lt_bytes (concat entries) ->
  sealed_search parse first entries q = Some (spec_scan (spec_match parse q) first (concat entries)).
Proof. exact sealed_equals_scan. Qed.
Print Assumptions C13_sealed_equals_scan.

(* ---------------------------------------------------------------- non-vacuity *)

Definition a := 97%N.
Definition b := 98%N.

(* 'ab*ba' is well formed, is not a literal, and does NOT match 'aba' (prefix and suffix would
   overlap) but matches 'abba' and 'abaaba' *)
Example C13_overlap_guard :
  let ts := [TText [a; b]; TStar; TText [b; a]] in
  wf ts = true /\ is_literal ts = None /\
  wild_check false (new_wildcard ts) [a; b; a] = Some false /\ glob ts [a; b; a] = false /\
  wild_check false (new_wildcard ts) [a; b; b; a] = Some true /\
  wild_check false (new_wildcard ts) [a; b; a; a; b; a] = Some true.
Proof. vm_compute. repeat split. Qed.

(* middles, adjacent wildcards, an occurrence that must be taken leftmost *)
Example C13_middles :
  let ts := [TStar; TText [a; b]; TStar; TStar; TText [b; a]; TStar] in
  wf ts = true /\ wild_check false (new_wildcard ts) [a; b; a] = Some false /\
  wild_check false (new_wildcard ts) [b; a; b; b; a; a] = Some true /\
  find_substring [b; a; b; a; b] [a; b] = KEnd 3.
Proof. vm_compute. repeat split. Qed.

(* a sorted dictionary, the oracle hypothesis, and a narrowed search that finds something *)
Example C13_sorted_dict_nonvacuous :
  let dict := [[]; [a]; [a; a]; [a; b]; [a; b; a]; [b]] in
  StronglySorted lt_bytes dict /\
  search (lookup []) true 5 dict (QLit [TText [a]; TStar; TText [a]]) = Some [7; 9]%Z /\
  search (lookup []) true 5 dict (QLit [TText [a; b]]) = Some [8]%Z.
Proof.
  split; [|vm_compute; split; reflexivity].
  repeat (constructor; [|repeat constructor; reflexivity]). constructor.
Qed.

Example C13_oracle_hypothesis_witness :
  let keys := [([49%N], 4607182418800017408%Z); ([50%N], 4611686018427387904%Z)] in
  (forall s k, lookup keys s = Some k -> (- maxkey <= k <= maxkey)%Z) /\
  range_check (lookup keys) {| r_from := Some [49%N]; r_to := None; r_incf := false; r_inct := true |} [50%N] = true /\
  range_check (lookup keys) {| r_from := None; r_to := None; r_incf := true; r_inct := true |} [a] = false.
Proof.
  split; [|vm_compute; split; reflexivity].
  apply lookup_bounded. repeat constructor; simpl; unfold maxkey; lia.
Qed.

(* a three-entry layout satisfying the hypotheses; the hint 'ab' selects the middle entry plus
   the next one, and the search finds TID 8 *)
Example C13_sealed_nonvacuous :
  let entries := [[[]; [a]]; [[a; a]; [a; b]]; [[b]]] in
  entries <> [] /\ Forall (fun e => e <> []) entries /\ StronglySorted lt_bytes (concat entries) /\
  select_entries [] [[a]; [a; b]; [b]] [a; b] = Some (1, 3)%Z /\
  sealed_search (lookup []) 5 entries (QLit [TText [a; b]; TStar]) = Some [8]%Z.
Proof.
  split; [discriminate|]. split; [repeat constructor; discriminate|].
  split; [|vm_compute; split; reflexivity].
  repeat (constructor; [|repeat constructor; reflexivity]). constructor.
Qed.
